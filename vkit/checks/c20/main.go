// C20 — printed shell expressions parse back to the same expression.
//
// Engine E1 (bounded-exhaustive input enumeration). Every case is one
// expression tree e of the *printable subset in parser normal form* (see
// below); the case prints it with the real api.UnparseExpression, parses the
// text with the real api.ParseExpression and then does the same for every
// variant of the text with 1–2 extra spaces inserted at up to 3 token
// boundaries.
//
// What "an expression the shell can print" means here (established from
// shell.go / shell.y / shell_test.go):
//
//   - The grammar can only produce trees of the following shape ("normal
//     form"), so these are the trees the shell holds after parsing and is then
//     asked to print back (ui.ServeStack prints the parsed expression):
//     N := literal | Lambda{params, N} | Call{Symbol, [Symbol|N ...]}
//     | Call{Function: N, Args: [N], Pipelined}
//     i.e. a bare Symbol only occurs as the function of a plain call or as a
//     direct argument of a plain call ("arg: SYMBOL"); everywhere else the
//     grammar's "call: SYMBOL" wraps it into a zero-argument call. A '(' group
//     ')' yields its inner node itself, so any N can sit in any position.
//     Trees outside the normal form (a bare top-level Symbol, Simplify /
//     AddPipelines output such as a pipelined call with a Symbol function or
//     several arguments) print to the same text as a normal-form tree; for them
//     structural equality is not well defined and the statement is not applied.
//   - literals: strings (any content), ints, floats, lat-lngs, feature IDs
//     (every alias of api.aliases with IDs well formed for that namespace, and
//     generic /type/namespace/value IDs over lexable namespaces), tags and tag
//     queries whose *keys* are lexable key tokens (TAG_KEY or SYMBOL: the
//     grammar has no quoted-key syntax at all) and whose values are arbitrary
//     strings (the grammar has a quoted value syntax and the printer uses it).
//
// "Equivalent" is a structural comparison written here (not Expression.Equal):
// same node kinds, same literals, same symbol/parameter names, same children;
// Begin/End/Name and the Pipelined presentation flag are ignored (exactly what
// Expression.Equal ignores). It is deliberately *weaker* than Equal in two
// places so that only what the statement says is demanded: lat-lngs are
// equivalent when they are the same point at the E7 precision the wire format
// carries, and tag queries are equivalent when they match the same features
// (truth table over all tag assignments of the mentioned keys), so n-ary
// and/or which the grammar can only express nested are not flagged.
//
// Spans. shell_test.go pins the convention that a node's span runs from its
// first own token to its last own token and *excludes* enclosing delimiters
// ("(…)" of a group, "{…}" and a parameterless "->" of a lambda, "[…]" of a
// query, including the closer of a trailing nested group). "Covers the text it
// came from" is therefore checked as follows. Literal (string, number, id,
// tag, query, lat-lng, symbol): text[Begin:End] parses with the real parser
// (a query's own brackets restored) to exactly that literal. Call, pipeline,
// lambda: the span must start at or before its first constituent (function
// symbol / left-hand side / first parameter, the latter located in a
// tokenisation of the text written here, independent of the lexer) and end at
// or after its last constituent, be aligned to token boundaries and contain,
// beyond its constituents, nothing but enclosing delimiters (so both the pinned
// convention and one that includes the delimiters are accepted, a span that
// swallows or drops a neighbouring token is not). Every span must lie within
// the text and within its parent's span. For the whitespace variants the span
// of every node must cover exactly the same tokens as in the unpadded text.
// A lat-lng literal without any position is reported once; the Begin=0/End=0
// its ancestors inherit from it are counted, not reported again.
package main

import (
	"fmt"
	"math"
	"os"
	"sort"
	"strconv"
	"strings"
	"time"

	"diagonal.works/b6"
	"diagonal.works/b6/api"
	"github.com/golang/geo/s2"
	"verif/kit"
)

// ---------------------------------------------------------------- trees

type kind int

const (
	kSym kind = iota
	kStr
	kInt
	kFloat
	kPoint
	kID
	kTag
	kQuery
	kCall // plain call, fn is a symbol
	kPipe // pipelined call
	kLambda
)

var kindNames = []string{"sym", "str", "int", "float", "latlng", "id", "tag", "query", "call", "pipe", "lambda"}

func (k kind) String() string { return kindNames[k] }

type tnode struct {
	k      kind
	e      b6.Expression
	depth  int
	size   int      // number of nodes
	desc   string   // literal description
	fn     *tnode   // pipe: the function node (call: nil, name in fname)
	fname  string   // call: function symbol
	args   []*tnode // call args / pipe arg / lambda body
	params []string
}

func leaf(k kind, e b6.Expression, desc string) *tnode {
	return &tnode{k: k, e: e, depth: 1, size: 1, desc: desc}
}

func symLeaf(name string) *tnode {
	return leaf(kSym, b6.NewSymbolExpression(name), "Sym("+name+")")
}

func mkCall(fname string, args ...*tnode) *tnode {
	t := &tnode{k: kCall, fname: fname, args: args, depth: 1, size: 2}
	es := make([]b6.Expression, len(args))
	ds := make([]string, len(args))
	for i, a := range args {
		es[i] = a.e
		ds[i] = a.desc
		if a.depth+1 > t.depth {
			t.depth = a.depth + 1
		}
		t.size += a.size
	}
	t.e = b6.Expression{AnyExpression: b6.CallExpression{Function: b6.NewSymbolExpression(fname), Args: es}}
	t.desc = "Call{" + fname + ",[" + strings.Join(ds, ",") + "]}"
	return t
}

func mkPipe(fn, arg *tnode) *tnode {
	t := &tnode{k: kPipe, fn: fn, args: []*tnode{arg}, size: 1 + fn.size + arg.size}
	t.depth = 1 + fn.depth
	if arg.depth+1 > t.depth {
		t.depth = arg.depth + 1
	}
	t.e = b6.Expression{AnyExpression: b6.CallExpression{Function: fn.e, Args: []b6.Expression{arg.e}, Pipelined: true}}
	t.desc = "Pipe{fn:" + fn.desc + ",arg:" + arg.desc + "}"
	return t
}

func mkLambda(params []string, body *tnode) *tnode {
	t := &tnode{k: kLambda, params: params, args: []*tnode{body}, depth: body.depth + 1, size: 1 + body.size}
	ps := append([]string{}, params...)
	t.e = b6.Expression{AnyExpression: b6.LambdaExpression{Args: ps, Expression: body.e}}
	t.desc = "Lambda{[" + strings.Join(params, ",") + "]," + body.desc + "}"
	return t
}

// shortKind distinguishes a zero-argument call for shape classifiers.
func (t *tnode) shortKind() string {
	if t.k == kCall && len(t.args) == 0 {
		return "call0"
	}
	return t.k.String()
}

func (t *tnode) children() []*tnode {
	if t.k == kPipe {
		return []*tnode{t.fn, t.args[0]}
	}
	return t.args
}

func (t *tnode) leaves(out []*tnode) []*tnode {
	if t.k < kCall {
		return append(out, t)
	}
	for _, c := range t.children() {
		out = c.leaves(out)
	}
	return out
}

// ---------------------------------------------------------------- literal menus

func strLeaf(s string) *tnode {
	return leaf(kStr, b6.NewStringExpression(s), fmt.Sprintf("Str(%q)", s))
}
func intLeaf(v int) *tnode { return leaf(kInt, b6.NewIntExpression(v), fmt.Sprintf("Int(%d)", v)) }
func floatLeaf(v float64) *tnode {
	return leaf(kFloat, b6.NewFloatExpression(v), "Float("+strconv.FormatFloat(v, 'g', -1, 64)+")")
}
func pointLeaf(lat, lng float64) *tnode {
	return leaf(kPoint, b6.NewPointExpressionFromLatLng(s2.LatLngFromDegrees(lat, lng)),
		"LatLngDegrees("+strconv.FormatFloat(lat, 'g', -1, 64)+","+strconv.FormatFloat(lng, 'g', -1, 64)+")")
}
func idLeaf(id b6.FeatureID) *tnode {
	return leaf(kID, b6.NewFeatureIDExpression(id), fmt.Sprintf("ID{%s,%q,%d}", id.Type, string(id.Namespace), id.Value))
}
func tagLeaf(k, v string) *tnode {
	return leaf(kTag, b6.Expression{AnyExpression: b6.TagExpression{Key: k, Value: b6.NewStringExpression(v)}}, fmt.Sprintf("Tag{%q:%q}", k, v))
}

func tg(k, v string) b6.Tagged { return b6.Tagged{Key: k, Value: b6.NewStringExpression(v)} }
func ky(k string) b6.Keyed     { return b6.Keyed{Key: k} }

func descQuery(q b6.Query) string {
	switch q := q.(type) {
	case b6.Tagged:
		return fmt.Sprintf("Tagged{%q:%q}", q.Key, q.Value.String())
	case *b6.Tagged:
		return "&" + descQuery(*q)
	case b6.Keyed:
		return fmt.Sprintf("Keyed{%q}", q.Key)
	case *b6.Keyed:
		return "&" + descQuery(*q)
	case b6.Intersection:
		s := make([]string, len(q))
		for i := range q {
			s[i] = descQuery(q[i])
		}
		return "And{" + strings.Join(s, ",") + "}"
	case *b6.Intersection:
		return "&" + descQuery(*q)
	case b6.Union:
		s := make([]string, len(q))
		for i := range q {
			s[i] = descQuery(q[i])
		}
		return "Or{" + strings.Join(s, ",") + "}"
	case *b6.Union:
		return "&" + descQuery(*q)
	}
	return fmt.Sprintf("%T", q)
}

func queryLeaf(q b6.Query) *tnode {
	return leaf(kQuery, b6.NewQueryExpression(q), "Query("+descQuery(q)+")")
}

var maxU64 = uint64(math.MaxUint64)

func allStrings() []*tnode {
	var out []*tnode
	for _, s := range []string{
		"", "abc", "a b", "é", "日本語", "(a|b)]->{x}", "#k=v", "/n/1", "-1.5", "it's", // need no escape in %q
		`a"b`, `"`, `a\b`, "a\nb", "\t", " ", "\x00", // escaped by %q
	} {
		out = append(out, strLeaf(s))
	}
	return out
}

func allInts() []*tnode {
	var out []*tnode
	for _, v := range []int{0, 1, -1, 42, -2147483649, math.MaxInt64, math.MinInt64} {
		out = append(out, intLeaf(v))
	}
	return out
}

func allFloats() []*tnode {
	var out []*tnode
	// 0..6 decimals, both signs
	for _, v := range []float64{0, 1, -1, 1234567, 0.5, -0.5, 0.25, -100.75, 0.125, -0.125, 1.0625, 3.14159, -2.718282, 0.000001} {
		out = append(out, floatLeaf(v))
	}
	return out
}

func allPoints() []*tnode {
	var out []*tnode
	for _, p := range [][2]float64{
		{0, 0}, {51.5, -0.1}, {-33.9, 151.2}, {90, 180}, {-90, -180}, {19.4008, -99.1663},
		{48.85837, 2.294481}, {-0.000001, 0.000001}, // <= 6 decimals
		{55.614929, -2.8048709}, {51.5000001, -0.1}, // 7 decimals (the repo's own test input / E7 wire precision)
	} {
		out = append(out, pointLeaf(p[0], p[1]))
	}
	return out
}

func allIDs() []*tnode {
	var ids []b6.FeatureID
	// aliases with plain uint64 values
	for _, a := range []struct {
		t  b6.FeatureType
		ns b6.Namespace
	}{
		{b6.FeatureTypePoint, b6.NamespaceOSMNode},
		{b6.FeatureTypePath, b6.NamespaceOSMWay},
		{b6.FeatureTypeArea, b6.NamespaceOSMWay},
		{b6.FeatureTypeRelation, b6.NamespaceOSMRelation},
		{b6.FeatureTypePoint, b6.NamespaceGBUPRN},
	} {
		for _, v := range []uint64{0, 427900370, maxU64} {
			ids = append(ids, b6.FeatureID{Type: a.t, Namespace: a.ns, Value: v})
		}
	}
	// aliases with structured values: only IDs well formed for the namespace
	ids = append(ids,
		b6.FeatureIDFromUKONSCode("E01000953", 2011, b6.FeatureTypeArea),
		b6.FeatureIDFromUKONSCode("W06000015", 1900, b6.FeatureTypeArea),
		b6.FeatureIDFromUKONSCode("S12000033", 2155, b6.FeatureTypeArea),
		b6.PointIDFromGBPostcode("N1 9AG"),
		b6.PointIDFromGBPostcode("NW1 8NH"),
		b6.PointIDFromGBPostcode("SW1A 1AA"),
	)
	// generic form: alias namespaces with a type the alias does not cover, other namespaces, every type
	ids = append(ids,
		b6.FeatureID{Type: b6.FeatureTypeRelation, Namespace: b6.NamespaceOSMWay, Value: 5},
		b6.FeatureID{Type: b6.FeatureTypePath, Namespace: b6.NamespaceOSMNode, Value: 5},
		b6.FeatureID{Type: b6.FeatureTypeArea, Namespace: b6.NamespaceOSMRelation, Value: 5},
		b6.FeatureID{Type: b6.FeatureTypeArea, Namespace: b6.NamespaceGBUPRN, Value: 116000008},
		b6.FeatureIDFromUKONSCode("E01000953", 2011, b6.FeatureTypeRelation),
		b6.FeatureID{Type: b6.FeatureTypePath, Namespace: b6.NamespaceGBCodePoint, Value: 1544702528},
		b6.FeatureID{Type: b6.FeatureTypePoint, Namespace: b6.NamespaceLatLng, Value: 0},
		b6.FeatureID{Type: b6.FeatureTypePath, Namespace: b6.NamespaceDiagonalAccessPaths, Value: maxU64},
		b6.FeatureID{Type: b6.FeatureTypeArea, Namespace: b6.NamespaceGBOSMapBuildings, Value: 7},
		b6.FeatureID{Type: b6.FeatureTypeRelation, Namespace: b6.NamespaceGTFS, Value: 1},
		b6.FeatureID{Type: b6.FeatureTypeCollection, Namespace: "test", Value: 0},
		b6.FeatureID{Type: b6.FeatureTypeCollection, Namespace: b6.NamespacePrivate, Value: maxU64},
		b6.FeatureID{Type: b6.FeatureTypeExpression, Namespace: "diagonal.works/ns/x_y-z9", Value: 3},
	)
	var out []*tnode
	for _, id := range ids {
		out = append(out, idLeaf(id))
	}
	return out
}

func allTags() []*tnode {
	var out []*tnode
	for _, kv := range [][2]string{
		{"#highway", "path"}, {"name", "The Lighterman"}, {"@amenity", "cafe"}, {"addr:street", "Yes:no_1-2"}, {"#nhs:hospital", "yes"}, {"Name", "日本"},
		{"addr:housenumber", "12"}, {"layer", "-1"}, {"k", "_x"}, {"k", " "}, {"k", "é"}, // first (or only) character is not a letter
		{"k", ""},                           // empty value
		{"name", `say "hi"`}, {"k", "a\\b"}, {"dir", `C:\`}, // quoted and needs escapes
	} {
		out = append(out, tagLeaf(kv[0], kv[1]))
	}
	return out
}

func allQueries() []*tnode {
	a, b, c, d := tg("#amenity", "cafe"), ky("#building"), tg("name", "The Lighterman"), ky("shop")
	pa, pb := tg("#amenity", "cafe"), ky("#building")
	pand, por := b6.Intersection{a, b}, b6.Union{a, b}
	qs := []b6.Query{
		a, b, c, d, ky("@x"), &pa, &pb,
		b6.Intersection{a, b}, b6.Union{a, b}, &pand, &por, b6.Intersection{a}, b6.Union{b},
		b6.Intersection{a, b, c}, b6.Union{a, b, c}, b6.Intersection{b6.Intersection{a, b}, c}, b6.Union{b6.Union{a, b}, c},
		b6.Intersection{a, b6.Union{b, c}}, b6.Union{a, b6.Intersection{b, c}}, // compound last: expressible without brackets
		b6.Intersection{b6.Union{a, b}, c}, b6.Union{b6.Intersection{a, b}, c}, // compound first: needs brackets
		b6.Intersection{b6.Union{a, b}, b6.Union{c, d}}, b6.Union{b6.Intersection{a, b}, b6.Intersection{c, d}},
		b6.Intersection{a, b6.Union{b, c}, d},
		tg("#lanes", "2"), b6.Union{tg("#lanes", "2"), b}, // tag value starting with a digit
	}
	var out []*tnode
	for _, q := range qs {
		out = append(out, queryLeaf(q))
	}
	return out
}

// ---------------------------------------------------------------- equivalence (oracle)

func tagValue(e b6.Expression) (string, bool) {
	if s, ok := e.AnyExpression.(b6.StringExpression); ok {
		return string(s), true
	}
	return "", false
}

type qform struct {
	op   byte // 'k' keyed, 't' tagged, '&', '|'
	k, v string
	sub  []*qform
}

func toForm(q b6.Query) (*qform, bool) {
	switch q := q.(type) {
	case b6.Tagged:
		v, ok := tagValue(q.Value)
		return &qform{op: 't', k: q.Key, v: v}, ok
	case *b6.Tagged:
		return toForm(*q)
	case b6.Keyed:
		return &qform{op: 'k', k: q.Key}, true
	case *b6.Keyed:
		return toForm(*q)
	case b6.Intersection:
		f := &qform{op: '&'}
		for _, s := range q {
			sf, ok := toForm(s)
			if !ok {
				return nil, false
			}
			f.sub = append(f.sub, sf)
		}
		return f, true
	case *b6.Intersection:
		return toForm(*q)
	case b6.Union:
		f := &qform{op: '|'}
		for _, s := range q {
			sf, ok := toForm(s)
			if !ok {
				return nil, false
			}
			f.sub = append(f.sub, sf)
		}
		return f, true
	case *b6.Union:
		return toForm(*q)
	}
	return nil, false
}

func (f *qform) collect(keys map[string]map[string]bool) {
	switch f.op {
	case 'k', 't':
		if keys[f.k] == nil {
			keys[f.k] = map[string]bool{}
		}
		if f.op == 't' {
			keys[f.k][f.v] = true
		}
	default:
		for _, s := range f.sub {
			s.collect(keys)
		}
	}
}

// world: key -> index into options; 0 = key absent.
func (f *qform) eval(w map[string]string, present map[string]bool) bool {
	switch f.op {
	case 'k':
		return present[f.k]
	case 't':
		return present[f.k] && w[f.k] == f.v
	case '&':
		for _, s := range f.sub {
			if !s.eval(w, present) {
				return false
			}
		}
		return true
	default:
		for _, s := range f.sub {
			if s.eval(w, present) {
				return true
			}
		}
		return false
	}
}

// sameQuery: the two queries match the same features, for every assignment of
// {absent, each mentioned value, some other value} to every mentioned key.
func sameQuery(a, b b6.Query) (bool, string) {
	fa, ok := toForm(a)
	if !ok {
		return false, fmt.Sprintf("query of unexpected type %T", a)
	}
	fb, ok := toForm(b)
	if !ok {
		return false, fmt.Sprintf("query of unexpected type %T", b)
	}
	keys := map[string]map[string]bool{}
	fa.collect(keys)
	fb.collect(keys)
	var ks []string
	for k := range keys {
		ks = append(ks, k)
	}
	sort.Strings(ks)
	opts := make([][]string, len(ks))
	for i, k := range ks {
		var vs []string
		for v := range keys[k] {
			vs = append(vs, v)
		}
		sort.Strings(vs)
		opts[i] = append(vs, "\x00some-other-value\x00")
	}
	idx := make([]int, len(ks)) // 0 = absent, j>0 = opts[j-1]
	w := map[string]string{}
	present := map[string]bool{}
	for {
		for i, k := range ks {
			present[k] = idx[i] > 0
			if idx[i] > 0 {
				w[k] = opts[i][idx[i]-1]
			}
		}
		if fa.eval(w, present) != fb.eval(w, present) {
			var d []string
			for i, k := range ks {
				if idx[i] == 0 {
					d = append(d, k+" absent")
				} else {
					d = append(d, fmt.Sprintf("%s=%q", k, w[k]))
				}
			}
			return false, fmt.Sprintf("queries differ on a feature with tags {%s}: original matches=%v, parsed matches=%v", strings.Join(d, ", "), fa.eval(w, present), fb.eval(w, present))
		}
		i := 0
		for ; i < len(idx); i++ {
			idx[i]++
			if idx[i] <= len(opts[i]) {
				break
			}
			idx[i] = 0
		}
		if i == len(idx) {
			return true, ""
		}
	}
}

func e7(p b6.PointExpression) (int64, int64) {
	ll := s2.LatLng(p)
	return int64(math.Round(ll.Lat.Degrees() * 1e7)), int64(math.Round(ll.Lng.Degrees() * 1e7))
}

// queryStructEq: cheap sufficient test for sameQuery (identical structure).
func queryStructEq(a, b b6.Query) bool {
	switch x := a.(type) {
	case b6.Tagged:
		if y, ok := b.(b6.Tagged); ok {
			xv, ok1 := tagValue(x.Value)
			yv, ok2 := tagValue(y.Value)
			return ok1 && ok2 && x.Key == y.Key && xv == yv
		}
	case b6.Keyed:
		if y, ok := b.(b6.Keyed); ok {
			return x.Key == y.Key
		}
	case b6.Intersection:
		if y, ok := b.(b6.Intersection); ok && len(x) == len(y) {
			for i := range x {
				if !queryStructEq(x[i], y[i]) {
					return false
				}
			}
			return true
		}
	case b6.Union:
		if y, ok := b.(b6.Union); ok && len(x) == len(y) {
			for i := range x {
				if !queryStructEq(x[i], y[i]) {
					return false
				}
			}
			return true
		}
	}
	return false
}

// eq is same() without the explanation (no allocation on the common path).
func eq(want, got b6.Expression) bool {
	if want.AnyExpression == nil || got.AnyExpression == nil {
		return want.AnyExpression == nil && got.AnyExpression == nil
	}
	switch w := want.AnyExpression.(type) {
	case b6.SymbolExpression:
		g, ok := got.AnyExpression.(b6.SymbolExpression)
		return ok && g == w
	case b6.StringExpression:
		g, ok := got.AnyExpression.(b6.StringExpression)
		return ok && g == w
	case b6.IntExpression:
		g, ok := got.AnyExpression.(b6.IntExpression)
		return ok && g == w
	case b6.FloatExpression:
		g, ok := got.AnyExpression.(b6.FloatExpression)
		return ok && g == w
	case b6.FeatureIDExpression:
		g, ok := got.AnyExpression.(b6.FeatureIDExpression)
		return ok && g == w
	case b6.PointExpression:
		g, ok := got.AnyExpression.(b6.PointExpression)
		if !ok {
			return false
		}
		wa, wo := e7(w)
		ga, go_ := e7(g)
		return wa == ga && wo == go_
	case b6.TagExpression:
		g, ok := got.AnyExpression.(b6.TagExpression)
		return ok && g.Key == w.Key && eq(w.Value, g.Value)
	case b6.QueryExpression:
		g, ok := got.AnyExpression.(b6.QueryExpression)
		if !ok {
			return false
		}
		if queryStructEq(w.Query, g.Query) {
			return true
		}
		r, _ := sameQuery(w.Query, g.Query)
		return r
	case b6.CallExpression:
		g, ok := got.AnyExpression.(b6.CallExpression)
		if !ok || len(w.Args) != len(g.Args) || !eq(w.Function, g.Function) {
			return false
		}
		for i := range w.Args {
			if !eq(w.Args[i], g.Args[i]) {
				return false
			}
		}
		return true
	case b6.LambdaExpression:
		g, ok := got.AnyExpression.(b6.LambdaExpression)
		if !ok || len(w.Args) != len(g.Args) {
			return false
		}
		for i := range w.Args {
			if w.Args[i] != g.Args[i] {
				return false
			}
		}
		return eq(w.Expression, g.Expression)
	}
	return false
}

// same is the equivalence demanded between the original and the parsed tree.
func same(want, got b6.Expression, path string) (bool, string) {
	if want.AnyExpression == nil || got.AnyExpression == nil {
		if want.AnyExpression == nil && got.AnyExpression == nil {
			return true, ""
		}
		return false, path + ": one side has no expression"
	}
	mism := func() (bool, string) {
		return false, fmt.Sprintf("%s: want %T %q, parsed %T %q", path, want.AnyExpression, want.AnyExpression.String(), got.AnyExpression, got.AnyExpression.String())
	}
	switch w := want.AnyExpression.(type) {
	case b6.SymbolExpression:
		if g, ok := got.AnyExpression.(b6.SymbolExpression); ok && g == w {
			return true, ""
		}
		return mism()
	case b6.StringExpression:
		if g, ok := got.AnyExpression.(b6.StringExpression); ok && g == w {
			return true, ""
		}
		return mism()
	case b6.IntExpression:
		if g, ok := got.AnyExpression.(b6.IntExpression); ok && g == w {
			return true, ""
		}
		return mism()
	case b6.FloatExpression:
		if g, ok := got.AnyExpression.(b6.FloatExpression); ok && g == w {
			return true, ""
		}
		return mism()
	case b6.FeatureIDExpression:
		if g, ok := got.AnyExpression.(b6.FeatureIDExpression); ok && g == w {
			return true, ""
		}
		return mism()
	case b6.PointExpression:
		if g, ok := got.AnyExpression.(b6.PointExpression); ok {
			wa, wo := e7(w)
			ga, go_ := e7(g)
			if wa == ga && wo == go_ {
				return true, ""
			}
			return false, fmt.Sprintf("%s: want lat-lng E7 (%d,%d), parsed E7 (%d,%d)", path, wa, wo, ga, go_)
		}
		return mism()
	case b6.TagExpression:
		if g, ok := got.AnyExpression.(b6.TagExpression); ok && g.Key == w.Key {
			return same(w.Value, g.Value, path+".tagvalue")
		}
		return mism()
	case b6.QueryExpression:
		if g, ok := got.AnyExpression.(b6.QueryExpression); ok {
			if ok, why := sameQuery(w.Query, g.Query); !ok {
				return false, path + ": " + why + fmt.Sprintf(" (want %s, parsed %s)", w.Query.String(), g.Query.String())
			}
			return true, ""
		}
		return mism()
	case b6.CallExpression:
		g, ok := got.AnyExpression.(b6.CallExpression)
		if !ok {
			return mism()
		}
		if ok, why := same(w.Function, g.Function, path+".fn"); !ok {
			return false, why
		}
		if len(w.Args) != len(g.Args) {
			return false, fmt.Sprintf("%s: want %d args, parsed %d args (want %q parsed %q)", path, len(w.Args), len(g.Args), w.String(), g.String())
		}
		for i := range w.Args {
			if ok, why := same(w.Args[i], g.Args[i], fmt.Sprintf("%s.arg%d", path, i)); !ok {
				return false, why
			}
		}
		return true, ""
	case b6.LambdaExpression:
		g, ok := got.AnyExpression.(b6.LambdaExpression)
		if !ok {
			return mism()
		}
		if strings.Join(w.Args, ",") != strings.Join(g.Args, ",") || len(w.Args) != len(g.Args) {
			return false, fmt.Sprintf("%s: lambda params want %v parsed %v", path, w.Args, g.Args)
		}
		return same(w.Expression, g.Expression, path+".body")
	}
	return false, fmt.Sprintf("%s: unexpected node type %T", path, want.AnyExpression)
}

// ---------------------------------------------------------------- tokens of a printed text

type token struct {
	b, e int
	cls  string // "(", "->", "string", "word" ...
}

func isPunct(c byte) bool {
	switch c {
	case ',', '(', ')', '|', '{', '}', '[', ']', '=', '&':
		return true
	}
	return false
}

// tokenize splits a text of the shell language into tokens, independently of
// the lexer under test: single-character punctuation, "->", double-quoted
// strings (Go escapes honoured, as the printer writes them) and maximal runs of
// other non-space characters (symbols, tag keys, numbers, feature ids).
func tokenize(s string) []token {
	var out []token
	i := 0
	for i < len(s) {
		c := s[i]
		if c == ' ' || c == '\t' || c == '\n' || c == '\r' {
			i++
			continue
		}
		st := i
		switch {
		case c == '-' && i+1 < len(s) && s[i+1] == '>':
			i += 2
			out = append(out, token{st, i, "->"})
		case isPunct(c):
			i++
			out = append(out, token{st, i, string(c)})
		case c == '"':
			i++
			for i < len(s) && s[i] != '"' {
				if s[i] == '\\' && i+1 < len(s) {
					i++
				}
				i++
			}
			if i < len(s) {
				i++
			}
			out = append(out, token{st, i, "string"})
		default:
			for i < len(s) && !isPunct(s[i]) && s[i] != '"' && s[i] != ' ' && s[i] != '\t' && s[i] != '\n' && s[i] != '\r' {
				i++
			}
			w := s[st:i]
			cls := "symbol"
			switch {
			case w[0] == '/':
				cls = "feature-id"
			case w[0] == '#' || w[0] == '@':
				cls = "tag-key"
			case w[0] == '-' || w[0] == '.' || (w[0] >= '0' && w[0] <= '9'):
				cls = "number"
			}
			out = append(out, token{st, i, cls})
		}
	}
	return out
}

var closerOf = map[string]string{"(": ")", "[": "]", "{": "}"}
var openerOf = map[string]string{")": "(", "]": "[", "}": "{"}

// balance restores delimiters cut off by a span that excludes enclosing
// delimiters: unclosed openers get their closers appended, unmatched closers
// get their openers prepended.
func balance(sub string) string {
	var stack []string
	prefix, suffix := "", ""
	for _, t := range tokenize(sub) {
		if _, ok := closerOf[t.cls]; ok {
			stack = append(stack, t.cls)
		} else if op, ok := openerOf[t.cls]; ok {
			if len(stack) > 0 && stack[len(stack)-1] == op {
				stack = stack[:len(stack)-1]
			} else {
				prefix = op + prefix
			}
		}
	}
	for i := len(stack) - 1; i >= 0; i-- {
		suffix += closerOf[stack[i]]
	}
	return prefix + sub + suffix
}

// ---------------------------------------------------------------- real code under test

func parse(text string) (e b6.Expression, err error, panicClass, panicMsg string) {
	panicClass, panicMsg = kit.Catch(func() { e, err = api.ParseExpression(text) })
	return
}

func nodeKind(e b6.Expression) string {
	switch x := e.AnyExpression.(type) {
	case b6.SymbolExpression:
		return "symbol"
	case b6.StringExpression:
		return "string"
	case b6.IntExpression:
		return "int"
	case b6.FloatExpression:
		return "float"
	case b6.PointExpression:
		return "latlng"
	case b6.FeatureIDExpression:
		return "feature-id"
	case b6.TagExpression:
		return "tag"
	case b6.QueryExpression:
		return "query"
	case b6.LambdaExpression:
		return "lambda"
	case b6.CallExpression:
		if x.Pipelined {
			return "pipeline"
		}
		return "call"
	}
	return fmt.Sprintf("%T", e.AnyExpression)
}

func kids(e b6.Expression) []b6.Expression {
	switch x := e.AnyExpression.(type) {
	case b6.CallExpression:
		return append([]b6.Expression{x.Function}, x.Args...)
	case b6.LambdaExpression:
		return []b6.Expression{x.Expression}
	}
	return nil
}

// hasUnpositionedLatLng: the subtree contains a lat-lng literal without a span
// (root cause reported once on the literal; spans derived from it are not
// reported again on every ancestor).
func hasUnpositionedLatLng(e b6.Expression) bool {
	if _, ok := e.AnyExpression.(b6.PointExpression); ok && e.Begin == e.End {
		return true
	}
	switch x := e.AnyExpression.(type) {
	case b6.CallExpression:
		if hasUnpositionedLatLng(x.Function) {
			return true
		}
		for _, a := range x.Args {
			if hasUnpositionedLatLng(a) {
				return true
			}
		}
	case b6.LambdaExpression:
		return hasUnpositionedLatLng(x.Expression)
	}
	return false
}

type spanViolation struct{ class, msg string }

type spanChecker struct {
	text     string
	toks     []token
	startIdx map[int]int
	endIdx   map[int]int
	counters map[string]int64
	out      []spanViolation
}

func newSpanChecker(text string, toks []token, counters map[string]int64) *spanChecker {
	c := &spanChecker{text: text, toks: toks, startIdx: map[int]int{}, endIdx: map[int]int{}, counters: counters}
	for i, t := range toks {
		c.startIdx[t.b] = i
		c.endIdx[t.e] = i
	}
	return c
}

func (c *spanChecker) add(class, f string, a ...interface{}) {
	for _, v := range c.out {
		if v.class == class {
			return
		}
	}
	c.out = append(c.out, spanViolation{class, fmt.Sprintf(f, a...)})
}

func isOpenerOrArrow(cls string) bool { return cls == "(" || cls == "[" || cls == "{" || cls == "->" }
func isCloser(cls string) bool        { return cls == ")" || cls == "]" || cls == "}" }

// firstParam locates, from the token stream, the first parameter of a lambda
// with parameters whose body starts at byte bodyBegin: going left from the
// body, over the opening delimiters that belong to the body, there must be
// "->" preceded by the parameter list preceded by "{".
func (c *spanChecker) firstParam(params []string, bodyBegin int) (int, string) {
	i, ok := c.startIdx[bodyBegin]
	if !ok {
		return 0, "the body does not begin at a token"
	}
	j := i - 1
	for j >= 0 {
		cls := c.toks[j].cls
		if cls == "(" || cls == "[" || cls == "{" {
			j--
		} else if cls == "->" && j > 0 && c.toks[j-1].cls == "{" {
			j -= 2 // "{->" of a parameterless lambda the body starts with
		} else {
			break
		}
	}
	if j < 0 || c.toks[j].cls != "->" {
		return 0, "no -> before the body"
	}
	first := j - (2*len(params) - 1)
	if first < 1 {
		return 0, "no parameter list before ->"
	}
	for m, p := range params {
		t := c.toks[first+2*m]
		if c.text[t.b:t.e] != p {
			return 0, fmt.Sprintf("parameter %d before -> is %q, want %q", m, c.text[t.b:t.e], p)
		}
		if m > 0 && c.toks[first+2*m-1].cls != "," {
			return 0, "parameters not separated by ,"
		}
	}
	if c.toks[first-1].cls != "{" {
		return 0, "no { before the parameters"
	}
	return c.toks[first].b, ""
}

func (c *spanChecker) walk(n b6.Expression, parent *b6.Expression, parentTainted bool, path string) {
	nk := nodeKind(n)
	if _, ok := n.AnyExpression.(b6.PointExpression); ok && n.Begin == n.End {
		c.add("span:latlng:literal-has-no-position", "node %s (latlng %q) has span [%d,%d) in text %q: it does not cover the text it came from (parents that take their Begin or End from it inherit 0; those derived problems are counted, not reported separately)",
			path, n.AnyExpression.String(), n.Begin, n.End, c.text)
		return
	}
	tainted := hasUnpositionedLatLng(n)
	report := func(problem, f string, a ...interface{}) {
		if tainted {
			c.counters["span-problems-derived-from-unpositioned-latlng"]++
			return
		}
		c.add("span:"+nk+":"+problem, "node %s (%s %q) span [%d,%d) in text %q (len %d): %s", path, nk, n.AnyExpression.String(), n.Begin, n.End, c.text, len(c.text), fmt.Sprintf(f, a...))
	}
	okRange := n.Begin >= 0 && n.Begin <= n.End && n.End <= len(c.text)
	if !okRange {
		report("outside-text-or-inverted", "not 0 <= Begin <= End <= len")
	}
	if parent != nil && !(parent.Begin <= n.Begin && n.End <= parent.End) {
		if parentTainted || tainted {
			c.counters["span-problems-derived-from-unpositioned-latlng"]++
		} else {
			pk := nodeKind(*parent)
			c.add("span:"+pk+":does-not-contain-child-span", "node %s (%s %q) has span [%d,%d) but its parent (%s %q) has span [%d,%d), in text %q",
				path, nk, n.AnyExpression.String(), n.Begin, n.End, pk, parent.AnyExpression.String(), parent.Begin, parent.End, c.text)
		}
	}
	if okRange && !tainted {
		sub := c.text[n.Begin:n.End]
		coreB, coreE, composite := 0, 0, false
		switch x := n.AnyExpression.(type) {
		case b6.SymbolExpression:
			if sub != string(x) {
				report("does-not-cover-its-text", "text[Begin:End] = %q, want the symbol", sub)
			}
		case b6.CallExpression:
			composite = true
			if x.Pipelined && len(x.Args) > 0 {
				coreB, coreE = x.Args[0].Begin, x.Function.End
			} else {
				coreB, coreE = x.Function.Begin, x.Function.End
				if len(x.Args) > 0 {
					coreE = x.Args[len(x.Args)-1].End
				}
			}
		case b6.LambdaExpression:
			composite = true
			coreB, coreE = x.Expression.Begin, x.Expression.End
			if len(x.Args) > 0 {
				if b, why := c.firstParam(x.Args, x.Expression.Begin); why == "" {
					coreB = b
				} else {
					report("parameters-not-found-in-text", "%s", why)
					composite = false
				}
			}
		default:
			// literal: the substring must re-parse to exactly this literal
			if n.Begin == n.End {
				report("empty-span", "text[Begin:End] is empty; the node has no position")
				break
			}
			cand := sub
			if _, ok := n.AnyExpression.(b6.QueryExpression); ok {
				cand = "[" + balance(sub) + "]"
			}
			re, err, pc, pm := parse(cand)
			c.counters["span-literal-reparses"]++
			if pc != "" {
				c.add(pc, "re-parsing %q: %s", cand, pm)
			} else if err != nil {
				report("does-not-cover-its-text", "text[Begin:End] = %q; re-parsing %q fails: %v", sub, cand, err)
			} else if !eq(n, re) {
				_, why := same(n, re, "sub")
				report("does-not-cover-its-text", "text[Begin:End] = %q; re-parsing %q gives a different node: %s", sub, cand, why)
			}
		}
		if composite {
			// the span must run from the node's first constituent to its last one;
			// only enclosing delimiters may additionally be included.
			si, okS := c.startIdx[n.Begin]
			ei, okE := c.endIdx[n.End]
			cs, okCS := c.startIdx[coreB]
			ce, okCE := c.endIdx[coreE]
			switch {
			case !okCS || !okCE || coreB > coreE:
				// a constituent's own span is broken; reported on the constituent
			case n.Begin > coreB || n.End < coreE:
				report("does-not-cover-its-text", "text[Begin:End] = %q, but its constituents run over [%d,%d) = %q", sub, coreB, coreE, c.text[coreB:coreE])
			case !okS || !okE:
				report("not-aligned-to-tokens", "text[Begin:End] = %q starts or ends inside a token or in white space (constituents run over [%d,%d) = %q)", sub, coreB, coreE, c.text[coreB:coreE])
			default:
				for k := si; k < cs; k++ {
					if !isOpenerOrArrow(c.toks[k].cls) {
						report("covers-foreign-text", "text[Begin:End] = %q includes %q before its first constituent (constituents run over [%d,%d) = %q)", sub, c.text[c.toks[k].b:c.toks[k].e], coreB, coreE, c.text[coreB:coreE])
						break
					}
				}
				for k := ce + 1; k <= ei; k++ {
					if !isCloser(c.toks[k].cls) {
						report("covers-foreign-text", "text[Begin:End] = %q includes %q after its last constituent (constituents run over [%d,%d) = %q)", sub, c.text[c.toks[k].b:c.toks[k].e], coreB, coreE, c.text[coreB:coreE])
						break
					}
				}
			}
		}
	}
	for i, k := range kids(n) {
		p := n
		c.walk(k, &p, tainted, path+"/"+strconv.Itoa(i))
	}
}

// checkSpans: full span check of a parsed tree against its text.
func checkSpans(text string, toks []token, top b6.Expression, counters map[string]int64) []spanViolation {
	c := newSpanChecker(text, toks, counters)
	c.walk(top, nil, false, "top")
	return c.out
}

// ---------------------------------------------------------------- one case

type caseT struct {
	part string
	ctx  string
	t    *tnode
}

type runner struct {
	maxSlots int
}

func describeFailure(text string, err error, why string) string {
	if err != nil {
		return fmt.Sprintf("ParseExpression(%q) fails: %v", text, err)
	}
	return fmt.Sprintf("ParseExpression(%q) is not equivalent: %s", text, why)
}

// roundtrip: print + parse + compare (no spans). ok, text, failure description.
func roundtrip(t *tnode) (ok bool, printable bool, text string, parsed b6.Expression, parsedOK bool, fail string, panicClass string) {
	var txt string
	var pok bool
	pc, pm := kit.Catch(func() { txt, pok = api.UnparseExpression(t.e) })
	if pc != "" {
		return false, true, "", b6.Expression{}, false, "UnparseExpression: " + pm, pc
	}
	if !pok {
		return false, false, "", b6.Expression{}, false, "UnparseExpression returns !ok", ""
	}
	p, err, pc, pm := parse(txt)
	if pc != "" {
		return false, true, txt, p, false, "ParseExpression(" + strconv.Quote(txt) + "): " + pm, pc
	}
	if err != nil {
		return false, true, txt, p, false, describeFailure(txt, err, ""), ""
	}
	if !eq(t.e, p) {
		_, why := same(t.e, p, "top")
		return false, true, txt, p, true, describeFailure(txt, nil, why), ""
	}
	return true, true, txt, p, true, "", ""
}

func decimalsNeeded(v float64) int {
	s := strconv.FormatFloat(v, 'f', -1, 64)
	if i := strings.IndexByte(s, '.'); i >= 0 {
		return len(s) - i - 1
	}
	return 0
}

func isLetter(c byte) bool { return (c >= 'a' && c <= 'z') || (c >= 'A' && c <= 'Z') }
func isSymbolRune(r rune) bool {
	return (r >= 'a' && r <= 'z') || (r >= 'A' && r <= 'Z') || (r >= '0' && r <= '9') || r == '-' || r == ':' || r == '_'
}

func stringFeature(s string) string {
	q := strconv.Quote(s)
	switch {
	case strings.Contains(s, `"`):
		return "contains-double-quote"
	case strings.Contains(s, `\`):
		return "contains-backslash"
	case q != `"`+s+`"`:
		return "contains-control-or-nonprintable-rune"
	}
	return "plain"
}

func tagValueFeature(v string) string {
	if v == "" {
		return "empty"
	}
	if f := stringFeature(v); f != "plain" {
		return f
	}
	rest := true
	for _, r := range v[1:] {
		if !isSymbolRune(r) {
			rest = false
		}
	}
	if rest && !isLetter(v[0]) {
		return "first-char-not-a-letter"
	}
	return "plain"
}

const (
	classEscape    = "roundtrip:quoted-text:go-escape-written-by-printer-not-undone-by-lexer"
	classTagFirst  = "roundtrip:tag-value:first-character-not-a-letter-printed-unquoted"
	classTagEmpty  = "roundtrip:tag-value:empty-value-printed-as-nothing"
	classFloat     = "roundtrip:float:more-than-2-decimals-printed-with-2"
	classLatLng    = "roundtrip:latlng:7th-decimal-printed-with-6"
	classQueryNest = "roundtrip:query:and/or-nested-before-last-operand-printed-without-brackets"
)

func tagValueClass(v string) string {
	switch tagValueFeature(v) {
	case "empty":
		return classTagEmpty
	case "first-char-not-a-letter":
		return classTagFirst
	case "plain":
		return ""
	}
	return classEscape
}

func queryClass(q b6.Query) string {
	f, ok := toForm(q)
	if !ok {
		return "roundtrip:query:unknown-query-type"
	}
	res := ""
	var walk func(f *qform)
	walk = func(f *qform) {
		switch f.op {
		case 't':
			if c := tagValueClass(f.v); c != "" && res == "" {
				res = c
			}
		case '&', '|':
			for i, s := range f.sub {
				if i < len(f.sub)-1 && (s.op == '&' || s.op == '|') && s.op != f.op && len(s.sub) > 1 && res == "" {
					res = classQueryNest
				}
				walk(s)
			}
		}
	}
	walk(f)
	if res == "" {
		res = "roundtrip:query:other"
	}
	return res
}

// leafClass: classifier of a literal counterexample by the feature of its
// value that the printer/lexer pair mishandles.
func leafClass(t *tnode) string {
	switch x := t.e.AnyExpression.(type) {
	case b6.StringExpression:
		if stringFeature(string(x)) != "plain" {
			return classEscape
		}
		return "roundtrip:string:plain"
	case b6.FloatExpression:
		if d := decimalsNeeded(float64(x)); d > 2 {
			return classFloat
		}
		return "roundtrip:float:at-most-2-decimals"
	case b6.PointExpression:
		ll := s2.LatLng(x)
		d := 0 // decimals of the degrees at the E7 resolution of the wire format
		for _, v := range []float64{ll.Lat.Degrees(), ll.Lng.Degrees()} {
			if n := decimalsNeeded(math.Round(v*1e7) / 1e7); n > d {
				d = n
			}
		}
		if d > 6 {
			return classLatLng
		}
		return "roundtrip:latlng:at-most-6-decimals"
	case b6.TagExpression:
		v, _ := tagValue(x.Value)
		if c := tagValueClass(v); c != "" {
			return c
		}
		return "roundtrip:tag:plain-value"
	case b6.QueryExpression:
		return queryClass(x.Query)
	case b6.FeatureIDExpression:
		s := api.UnparseFeatureID(b6.FeatureID(x), true)
		parts := strings.Split(s, "/")
		if len(parts) > 2 {
			return "roundtrip:feature-id:/" + strings.Join(parts[1:len(parts)-1], "/") + "/N"
		}
		return "roundtrip:feature-id:" + s
	case b6.IntExpression:
		return "roundtrip:int"
	case b6.SymbolExpression:
		return "roundtrip:symbol"
	}
	return "roundtrip:literal"
}

// standalone: a literal leaf as a top-level (N position) expression; symbols
// are only legal as arguments.
func standalone(l *tnode) *tnode {
	if l.k == kSym {
		return mkCall("f", l)
	}
	return l
}

func fails(t *tnode) bool {
	ok, printable, _, _, _, _, _ := roundtrip(t)
	return printable && !ok
}

// withChild rebuilds t with child i (in children() order) replaced.
func withChild(t *tnode, i int, repl *tnode) *tnode {
	switch t.k {
	case kPipe:
		if i == 0 {
			return mkPipe(repl, t.args[0])
		}
		return mkPipe(t.fn, repl)
	case kCall:
		args := append([]*tnode{}, t.args...)
		args[i] = repl
		return mkCall(t.fname, args...)
	case kLambda:
		return mkLambda(t.params, repl)
	}
	return t
}

// classify names the root cause of a failed round trip: a literal that fails
// on its own, else the smallest failing subtree's shape, with "*" for every
// child whose kind is irrelevant (replacing it by a zero-argument call and by
// an int literal both keep the failure).
func classify(t *tnode) (string, *tnode) {
	for _, l := range t.leaves(nil) {
		if fails(standalone(l)) {
			return leafClass(l), l
		}
	}
	cur := t
descend:
	for {
		for _, c := range cur.children() {
			if c.k != kSym && fails(c) {
				cur = c
				continue descend
			}
		}
		break
	}
	ch := cur.children()
	ks := make([]string, len(ch))
	for i, c := range ch {
		ks[i] = c.shortKind()
		if fails(withChild(cur, i, mkCall("z"))) && fails(withChild(cur, i, intLeaf(1))) {
			ks[i] = "*"
		}
	}
	switch cur.k {
	case kPipe:
		return "roundtrip:pipeline:function-is-" + ks[0] + ",arg-is-" + ks[1], cur
	case kCall:
		// the kinds of the arguments that matter, as a set
		seen := map[string]bool{}
		var rel []string
		for _, k := range ks {
			if k != "*" && !seen[k] {
				seen[k] = true
				rel = append(rel, k)
			}
		}
		sort.Strings(rel)
		if len(rel) == 0 {
			return fmt.Sprintf("roundtrip:call:%d-args-of-any-kind", len(ks)), cur
		}
		return "roundtrip:call:with-args-of-kind-" + strings.Join(rel, "+"), cur
	case kLambda:
		return fmt.Sprintf("roundtrip:lambda:params=%d,body-is-%s", len(cur.params), ks[0]), cur
	}
	return "roundtrip:literal:" + cur.k.String(), cur
}

func (rn *runner) run(c caseT, idx int64) (r kit.Result) {
	t := c.t
	r.Nontrivial = true
	r.Key = t.desc
	r.Evals = 1
	counters := map[string]int64{}
	defer func() {
		for k, v := range counters {
			r.Count(k, v)
		}
		r.Count("evals:part-"+c.part, r.Evals)
	}()
	caseDesc := fmt.Sprintf("part %s, context %s, tree %s", c.part, c.ctx, t.desc)
	ok, printable, text, parsed, parsedOK, fail, pclass := roundtrip(t)
	if idx%499 == 3 {
		r.Sample = map[string]interface{}{"tree": t.desc, "printed": text, "depth": t.depth}
	}
	if pclass != "" {
		r.Violate(pclass, "%s: %s", caseDesc, fail)
		r.Outcome = "panic"
		return r
	}
	if !printable {
		r.Outcome = "not-printable:" + t.k.String()
		r.Nontrivial = false
		return r
	}
	toks := tokenize(text)
	if !ok {
		class, culprit := classify(t)
		r.Violate(class, "%s\n%s\nroot cause isolated to %s", caseDesc, fail, culprit.desc)
		r.Outcome = "fail:" + class
	}
	// spans of the unpadded text (whenever it parses)
	baseSpanOK := true
	if parsedOK {
		for _, v := range checkSpans(text, toks, parsed, counters) {
			baseSpanOK = false
			if strings.HasPrefix(v.class, "panic@") {
				r.Violate(v.class, "%s: %s", caseDesc, v.msg)
			} else {
				r.Violate(v.class, "%s\nprinted %q\n%s", caseDesc, text, v.msg)
			}
			if ok {
				r.AddOutcome("spanfail:" + v.class)
			}
		}
	}
	if !ok {
		return r
	}
	if baseSpanOK {
		r.Outcome = fmt.Sprintf("ok:%s:depth%d", t.shortKind(), t.depth)
	} else {
		r.Outcome = fmt.Sprintf("roundtrip-ok-span-fail:%s:depth%d", t.shortKind(), t.depth)
	}

	// ---- whitespace variants
	n := len(toks)
	startIdx := map[int]int{}
	endIdx := map[int]int{}
	for i, tk := range toks {
		startIdx[tk.b] = i
		endIdx[tk.e] = i
	}
	// nodes of the unpadded parse in walk order with the tokens their spans
	// start and end at (-1: not checkable: unaligned, empty or derived from an
	// unpositioned lat-lng, all reported above)
	type nodeSpan struct{ si, ei int }
	var baseSpans []nodeSpan
	var collect func(e b6.Expression)
	collect = func(e b6.Expression) {
		si, okS := startIdx[e.Begin]
		ei, okE := endIdx[e.End]
		if !okS || !okE || e.Begin >= e.End || hasUnpositionedLatLng(e) {
			si, ei = -1, -1
		}
		baseSpans = append(baseSpans, nodeSpan{si, ei})
		for _, k := range kids(e) {
			collect(k)
		}
	}
	collect(parsed)
	gaps := make([]string, n+1) // original text before token i; gaps[n] = tail
	prev := 0
	for i, tk := range toks {
		gaps[i] = text[prev:tk.b]
		prev = tk.e
	}
	gaps[n] = text[prev:]
	extra := make([]int, n+1)
	newB := make([]int, n)
	newE := make([]int, n)
	buf := make([]byte, 0, len(text)+8)
	wsViolations := 0
	spanWsViolations := 0
	slotName := func(i int) string {
		l, rr := "start-of-text", "end-of-text"
		if i > 0 {
			l = toks[i-1].cls
		}
		if i < n {
			rr = toks[i].cls
		}
		return "after " + l + " before " + rr
	}
	pos := 0
	var walk func(vn b6.Expression, vt string)
	walk = func(vn b6.Expression, vt string) {
		if pos >= len(baseSpans) {
			return
		}
		bs := baseSpans[pos]
		pos++
		if bs.si >= 0 && (vn.Begin != newB[bs.si] || vn.End != newE[bs.ei]) {
			if spanWsViolations < 2 {
				r.Violate("span-after-whitespace:"+nodeKind(vn), "%s\nprinted %q: a %s node spans %q; with extra spaces %q the same node spans [%d,%d), want [%d,%d) = %q",
					caseDesc, text, nodeKind(vn), text[toks[bs.si].b:toks[bs.ei].e], vt, vn.Begin, vn.End, newB[bs.si], newE[bs.ei], vt[newB[bs.si]:newE[bs.ei]])
			}
			spanWsViolations++
		}
		switch x := vn.AnyExpression.(type) {
		case b6.CallExpression:
			walk(x.Function, vt)
			for _, a := range x.Args {
				walk(a, vt)
			}
		case b6.LambdaExpression:
			walk(x.Expression, vt)
		}
	}
	evalVariant := func() {
		buf = buf[:0]
		for i := 0; i < n; i++ {
			buf = append(buf, gaps[i]...)
			for j := 0; j < extra[i]; j++ {
				buf = append(buf, ' ')
			}
			newB[i] = len(buf)
			buf = append(buf, text[toks[i].b:toks[i].e]...)
			newE[i] = len(buf)
		}
		buf = append(buf, gaps[n]...)
		for j := 0; j < extra[n]; j++ {
			buf = append(buf, ' ')
		}
		vt := string(buf)
		r.Evals++
		r.Distinct++
		p, err, pc, pm := parse(vt)
		if pc != "" {
			r.Violate(pc, "%s: variant %q: %s", caseDesc, vt, pm)
			return
		}
		if err == nil && !eq(t.e, p) {
			_, why := same(t.e, p, "top")
			err = fmt.Errorf("not equivalent: %s", why)
		}
		if err != nil {
			if wsViolations < 2 {
				first := 0
				for i, x := range extra {
					if x > 0 {
						first = i
						break
					}
				}
				r.Violate("whitespace:"+slotName(first), "%s\nprinted %q round-trips, but with extra spaces %q: %v", caseDesc, text, vt, err)
			}
			wsViolations++
			return
		}
		// spans must cover the same tokens as in the unpadded text
		pos = 0
		walk(p, vt)
	}
	amounts := []int{1, 2}
	for i := 0; i <= n; i++ {
		for _, ai := range amounts {
			extra[i] = ai
			evalVariant()
			if rn.maxSlots >= 2 {
				for j := i + 1; j <= n; j++ {
					for _, aj := range amounts {
						extra[j] = aj
						evalVariant()
						if rn.maxSlots >= 3 {
							for k := j + 1; k <= n; k++ {
								for _, ak := range amounts {
									extra[k] = ak
									evalVariant()
								}
								extra[k] = 0
							}
						}
					}
					extra[j] = 0
				}
			}
		}
		extra[i] = 0
	}
	if wsViolations > 0 {
		r.AddOutcome("whitespace-variant-fails")
	}
	if spanWsViolations > 0 {
		r.AddOutcome("span-after-whitespace-fails")
	}
	counters["whitespace-variants"] += r.Distinct
	return r
}

// ---------------------------------------------------------------- spaces

type menu struct {
	name    string
	lits    []*tnode
	syms    []string // symbols usable as arguments
	fns     []string
	maxArgs int
	params  [][]string
	depth   int
}

// gen returns every normal-form tree of depth <= m.depth over the menu.
// depth(literal) = depth(zero-argument call) = 1.
func gen(m menu) []*tnode {
	var atoms []*tnode
	atoms = append(atoms, m.lits...)
	for _, f := range m.fns {
		atoms = append(atoms, mkCall(f))
	}
	var symArgs []*tnode
	for _, s := range m.syms {
		symArgs = append(symArgs, symLeaf(s))
	}
	cur := atoms
	for d := 2; d <= m.depth; d++ {
		next := append([]*tnode{}, atoms...)
		argMenu := append(append([]*tnode{}, symArgs...), cur...)
		// calls with 1..maxArgs args
		var rec func(args []*tnode)
		rec = func(args []*tnode) {
			if len(args) > 0 {
				for _, f := range m.fns {
					next = append(next, mkCall(f, append([]*tnode{}, args...)...))
				}
			}
			if len(args) == m.maxArgs {
				return
			}
			for _, a := range argMenu {
				rec(append(args, a))
			}
		}
		rec(nil)
		for _, f := range cur {
			for _, a := range cur {
				next = append(next, mkPipe(f, a))
			}
		}
		for _, p := range m.params {
			for _, b := range cur {
				next = append(next, mkLambda(p, b))
			}
		}
		cur = next
	}
	return cur
}

type ctxT struct {
	name  string
	symOK bool // hole is an argument position (a bare symbol is legal there)
	build func(h *tnode) *tnode
}

func contexts() []ctxT {
	x := func() *tnode { return symLeaf("x") }
	return []ctxT{
		{"□", false, func(h *tnode) *tnode { return h }},
		{"f □", true, func(h *tnode) *tnode { return mkCall("find-feature", h) }},
		{"f □ x", true, func(h *tnode) *tnode { return mkCall("f", h, x()) }},
		{"f x □", true, func(h *tnode) *tnode { return mkCall("f", x(), h) }},
		{"□ | f", false, func(h *tnode) *tnode { return mkPipe(mkCall("f"), h) }},
		{"g | □", false, func(h *tnode) *tnode { return mkPipe(h, mkCall("g")) }},
		{"g | f □", true, func(h *tnode) *tnode { return mkPipe(mkCall("f", h), mkCall("g")) }},
		{"f (g □)", true, func(h *tnode) *tnode { return mkCall("f", mkCall("g", h)) }},
		{"f (□ | g) x", false, func(h *tnode) *tnode { return mkCall("f", mkPipe(mkCall("g"), h), x()) }},
		{"{-> □}", false, func(h *tnode) *tnode { return mkLambda(nil, h) }},
		{"{x -> f □}", true, func(h *tnode) *tnode { return mkLambda([]string{"x"}, mkCall("f", h)) }},
		{"f {x, y -> □} 1", false, func(h *tnode) *tnode { return mkCall("f", mkLambda([]string{"x", "y"}, h), intLeaf(1)) }},
		{"{x -> □ | f x}", false, func(h *tnode) *tnode { return mkLambda([]string{"x"}, mkPipe(mkCall("f", x()), h)) }},
	}
}

func reps() []*tnode {
	return []*tnode{
		strLeaf("a b"), intLeaf(-1), floatLeaf(-0.5), pointLeaf(51.5, -0.1),
		idLeaf(b6.FeatureID{Type: b6.FeatureTypeArea, Namespace: b6.NamespaceOSMWay, Value: 427900370}),
		tagLeaf("name", "The Lighterman"),
		queryLeaf(b6.Intersection{tg("#amenity", "cafe"), ky("#building")}),
		symLeaf("x"), mkLambda([]string{"x"}, mkCall("f", symLeaf("x"))),
	}
}

func buildCases(tier string) ([]caseT, string, int) {
	var cases []caseT
	var lits []*tnode
	lits = append(lits, allStrings()...)
	lits = append(lits, allInts()...)
	lits = append(lits, allFloats()...)
	lits = append(lits, allPoints()...)
	lits = append(lits, allIDs()...)
	lits = append(lits, allTags()...)
	lits = append(lits, allQueries()...)
	syms := []*tnode{symLeaf("x"), symLeaf("find-feature"), symLeaf("a:b_C-9"), symLeaf("X")}
	ctxs := contexts()
	// Part A: every literal in every one-hole context of depth <= 3
	for _, cx := range ctxs {
		for _, l := range append(append([]*tnode{}, lits...), syms...) {
			if l.k == kSym && !cx.symOK {
				continue
			}
			cases = append(cases, caseT{"A", cx.name, cx.build(l)})
		}
	}
	nA := len(cases)
	// Part A2: every literal next to a representative of every token kind, both orders
	for _, l := range append(append([]*tnode{}, lits...), syms...) {
		for _, rp := range reps() {
			cases = append(cases, caseT{"A2", "f □ rep", mkCall("f", l, rp)})
			cases = append(cases, caseT{"A2", "f rep □", mkCall("f", rp, l)})
		}
	}
	nA2 := len(cases) - nA
	// Part B: all trees up to the depth bound over representative atoms
	x1 := []string{"x"}
	allParams := [][]string{nil, {"x"}, {"x", "y"}}
	node1 := idLeaf(b6.FeatureID{Type: b6.FeatureTypePoint, Namespace: b6.NamespaceOSMNode, Value: 1})
	orQuery := queryLeaf(b6.Union{tg("#a", "b"), ky("c")})
	var menus []menu
	if tier == "thorough" {
		menus = []menu{
			{name: "B2", depth: 2, maxArgs: 3, fns: []string{"f", "find-feature"}, syms: x1, params: allParams,
				lits: []*tnode{intLeaf(-1), strLeaf("a b"), tagLeaf("#k", "v"), floatLeaf(-0.5), pointLeaf(51.5, -0.1), node1, orQuery}},
			{name: "B3", depth: 3, maxArgs: 2, fns: []string{"f"}, syms: x1, params: allParams,
				lits: []*tnode{intLeaf(-1), strLeaf("a b"), tagLeaf("#k", "v"), floatLeaf(-0.5)}},
			{name: "B3-latlng-id", depth: 3, maxArgs: 2, fns: []string{"f"}, syms: nil, params: [][]string{{"x"}},
				lits: []*tnode{pointLeaf(51.5, -0.1), node1}},
			{name: "B4", depth: 4, maxArgs: 1, fns: []string{"f"}, syms: nil, params: [][]string{{"x"}},
				lits: []*tnode{intLeaf(1)}},
		}
	} else {
		menus = []menu{
			{name: "B2", depth: 2, maxArgs: 3, fns: []string{"f"}, syms: x1, params: allParams,
				lits: []*tnode{intLeaf(-1), strLeaf("a b"), tagLeaf("#k", "v"), floatLeaf(-0.5), pointLeaf(51.5, -0.1), node1, orQuery}},
			{name: "B3", depth: 3, maxArgs: 2, fns: []string{"f"}, syms: x1, params: allParams,
				lits: []*tnode{intLeaf(-1)}},
		}
	}
	var bdesc []string
	for _, m := range menus {
		ts := gen(m)
		sort.SliceStable(ts, func(i, j int) bool {
			if ts[i].depth != ts[j].depth {
				return ts[i].depth < ts[j].depth
			}
			return ts[i].size < ts[j].size
		})
		for _, t := range ts {
			cases = append(cases, caseT{m.name, "whole tree", t})
		}
		if os.Getenv("C20_STATS") != "" {
			var ev int64
			for _, t := range ts {
				if txt, ok := api.UnparseExpression(t.e); ok {
					n := int64(len(tokenize(txt)) + 1)
					ev += 1 + 2*n + 4*n*(n-1)/2 + 8*n*(n-1)*(n-2)/6
				}
			}
			fmt.Fprintf(os.Stderr, "C20_STATS %s: %d trees, <= %d parses\n", m.name, len(ts), ev)
		}
		var ls []string
		for _, l := range m.lits {
			ls = append(ls, l.desc)
		}
		bdesc = append(bdesc, fmt.Sprintf("%s: all %d normal-form trees of depth <= %d over literals {%s}, argument symbols %v, functions %v, calls with <= %d args, lambda parameter lists %v", m.name, len(ts), m.depth, strings.Join(ls, ", "), m.syms, m.fns, m.maxArgs, m.params))
	}
	bound := fmt.Sprintf("part A: %d literals (%d strings, %d ints, %d floats with 0-6 decimals, %d lat-lngs with 0-7 decimals, %d feature ids covering all 7 aliases + generic form, %d tags, %d tag queries) + 4 symbols, each in %d one-hole contexts of depth <= 3 (%d trees); part A2: each next to %d token-kind representatives in both orders (%d trees); part B: %s. For every tree: the printed text and every variant with 1-2 extra spaces at each of <= 3 of its n+1 token boundaries (incl. start and end of text).",
		len(lits), len(allStrings()), len(allInts()), len(allFloats()), len(allPoints()), len(allIDs()), len(allTags()), len(allQueries()), len(ctxs), nA, len(reps()), nA2, strings.Join(bdesc, "; "))
	return cases, bound, 3
}

func main() {
	kit.Main(&kit.Check{
		ID:    "C20",
		Level: "exploration",
		Rule: "Each case is one expression tree in parser normal form (bare symbols only as call function / call argument; pipelined calls with exactly one argument), built directly as b6.Expression values. It is printed with api.UnparseExpression and parsed with api.ParseExpression; then every whitespace variant of the printed text is parsed. " +
			"Oracle (own structural comparison, ignoring Begin/End/Name/Pipelined; lat-lngs compared at E7 precision; tag queries compared by truth table over all tag assignments): parsed tree equivalent to the original; every node span within the text and within its parent's span; a literal's text[Begin:End] re-parses to that literal; a call/pipeline/lambda span runs from its first to its last constituent (token aligned, at most enclosing delimiters in addition); under extra whitespace every span covers the same tokens. " +
			"Every case is non-trivial (a print and at least one parse happen); distinct = distinct trees + distinct whitespace variants.",
		Assumptions: []string{
			"domain = parser normal form; non-normal-form trees (bare top-level Symbol, Simplify/AddPipelines output) print identically to a normal-form tree, so structural equivalence is undefined for them and they are not enumerated",
			"tag and query keys are lexable key tokens (the grammar has no quoted key); tag values are arbitrary strings",
			"feature ids in alias namespaces with structured values (/uk/ons/, /gb/codepoint/) are built by the namespace's own constructor",
			"span convention pinned by shell_test.go: spans exclude enclosing (), {}, [] and a parameterless lambda's arrow",
		},
		CaseTimeout: 300 * time.Second,
		Chunk:       16,
		WorkerEnv:   []string{"GOMAXPROCS=2"},
		// generous deadlines: the sandbox is shared; on an idle 16-core machine quick takes ~10 s, thorough a few minutes
		QuickDeadline:    10 * time.Minute,
		ThoroughDeadline: 90 * time.Minute,
		Build: func(tier string) (kit.Space, string) {
			cases, bound, slots := buildCases(tier)
			rn := &runner{maxSlots: slots}
			return kit.FuncSpace{N: int64(len(cases)), F: func(i int64) kit.Result { return rn.run(cases[i], i) }}, bound
		},
	})
}
