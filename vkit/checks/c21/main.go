// C21 — the VM evaluates programs as the language defines.
//
// Engine E2 (bounded-exhaustive, depth-bounded): every kind-correct program
// (b6.Expression tree) up to a node bound over a harness-owned typed library
// (add, pair, first, second, apply, compose, the repository's own call, the
// 3-argument mix3, the always-failing fail) registered as api.FunctionSymbols
// with the real adaptors of api/functions, is evaluated by the real VM
// (api.Evaluate) and by an independent big-step reference interpreter
// (vmkit/interp.go, language rules R1-R6 stated in vmkit/lib.go).
//
// Oracle: same value (ints and pairs structurally, functions as "a function"),
// or an error on both sides; the VM must never panic. A program whose result
// is a function is additionally applied to fresh integers (`call p 5 6 7`, and
// if that is a function again `call (call p 5 6 7) 8 9 3`) so that function
// results are compared by behaviour. Disagreements
// that the reference interpreter attributes to a closure reading a parameter
// of an activation that already returned (U1) or to a partial application of a
// variadic function (U2) are counted as "unsettled:*" outcomes, not
// violations; a VM panic is always a violation.
//
// Second family (vmkit/structured.go): the enumeration by size ends long before
// a program can combine an enclosing lambda, a staged (partial, then completed)
// application of a higher-order function and a lambda argument that reads the
// enclosing parameter. The STRUCTURED family is the full product of small menus
// contexts x observer x callees x stagings x link forms x argument shapes over
// IntLib plus the native higher-order functions apply-to and both, judged by
// the same oracle.
package main

import (
	"fmt"

	"diagonal.works/b6"
	"verif/kit"
	"verif/vmkit"
)

const block = 400

// class suffix of disagreements on structured programs in which a function
// argument that completes (or extends) a partial application reads a lambda
// parameter that was bound after the partial application was made
const lateSuffix = "@function-argument-reads-parameter-bound-after-the-partial-was-made"

type part struct {
	lib   *vmkit.Lib
	progs *vmkit.Programs
	cases int64
}

func main() {
	kit.Main(&kit.Check{
		ID:    "C21",
		Level: "model_checking",
		Rule: "Family 1: all closed, kind-correct expression trees over the library, by exact unranking of a counting grammar: literals 1,2; lambda parameters (kind any); globals as values; lambdas with parameter lists (), (a), (a b), (a b c) and under a binder also (b), (b a) (shadowing); calls of a global with 0..arity+1 arguments (fewer = partial application binding the trailing parameters, more = arity error); calls whose function is a lambda literal or a call, with 0..3 arguments. " +
			"Kinds int/pair/fn/any prune only statically ill-typed argument positions; kind any (parameters, results of first/second/apply/call/fail) is admitted everywhere so dynamic type errors stay reachable. Each program also runs with every 1-argument call marked pipelined, and function results are probed with `call p 5 6 7` and, one level deeper, `call (..) 8 9 3`. " +
			"Family 2 (structured): context[observer[stages(callee, arguments)]], every combination of the menus named in the bound (scoping and arity are the only restrictions: shapes mentioning x/z exist only in contexts binding them; one-argument link forms only for one-argument stages; the variadic call is only applied completely), each stage applying the previous result to the TRAILING arguments not yet supplied, ordered by node count then generation order; no program is generated twice (vmkit self-test). " +
			"Non-trivial = the reference interpreter performed at least one function application.",
		Assumptions: []string{
			"language rules R1-R6 of vmkit/lib.go (call-by-value; lexical scoping; call-position symbols are globals; partial application binds trailing parameters; too many arguments is an error; func-typed library parameters accept exactly arity-1 functions)",
			"function values are compared as 'a function' plus behaviour on integer probes",
			"U1 (closure reads a parameter of a returned activation) and U2 (partial application of a variadic function) disagreements are reported as unsettled outcomes, not violations",
		},
		CaseTimeout: 120e9,
		// sized for about 25 s (quick) / 4-5 min (thorough, about 60 CPU-minutes) on 16 idle cores; the deadlines
		// leave room for a machine shared with other checks
		QuickDeadline:    5 * 60e9,
		ThoroughDeadline: 45 * 60e9,
		WorkerEnv:        []string{"GOMAXPROCS=2", "GOGC=300"},
		Build:            build,
	})
}

func build(tier string) (kit.Space, string) {
	full := 6
	if tier == "thorough" {
		full = 7
	}
	intLib := vmkit.IntLib()
	parts := []part{{lib: intLib, progs: vmkit.NewPrograms(intLib, 1, full)}}
	extras := vmkit.Extras()
	bound := fmt.Sprintf("all %d programs of 1..%d nodes over the 9-function library", parts[0].progs.Len(), full)
	if tier == "thorough" {
		core := vmkit.CoreLib()
		parts = append(parts, part{lib: core, progs: vmkit.NewPrograms(core, 8, 8)})
		bound += fmt.Sprintf("; all %d programs of exactly 8 nodes over the core library {pair, first, call, mix3} (parameter lists (), (a), (a b), nested (b); lambda/call-function calls with 0..2 arguments; no too-many-argument shapes)", parts[1].progs.Len())
	}
	hoLib := vmkit.HOLib()
	st := vmkit.NewStructured(hoLib, tier == "thorough")
	bound += "; " + st.BoundString()
	bound += fmt.Sprintf("; %d hand-written larger programs (32/33-parameter boundary, re-entrancy, escaping closures, partial application twice); blocks of %d programs per case", len(extras), block)
	var total int64
	for i := range parts {
		parts[i].cases = (parts[i].progs.Len() + block - 1) / block
		total += parts[i].cases
	}
	nA := parts[0].cases
	nX := int64(len(extras))
	nS := (st.Len() + block - 1) / block
	total += nX + nS
	return kit.FuncSpace{N: total, F: func(i int64) kit.Result {
		var r kit.Result
		t := vmkit.NewTally(&r)
		switch {
		case i < nA:
			runBlock(&r, t, parts[0], i)
		case i < nA+nX:
			x := extras[i-nA]
			ev, nt := intLib.Check21(t, func(vmkit.BuildOpts) b6.Expression { return x.E() }, false, x.LimitOK)
			r.Evals = ev
			if nt {
				r.Distinct = 1
			}
			r.Count("extra-programs", 1)
			r.Sample = map[string]string{"extra": x.Name, "program": vmkit.Print(x.E())}
		case i < nA+nX+nS:
			runStructured(&r, t, hoLib, st, i-nA-nX)
		default:
			runBlock(&r, t, parts[1], i-nA-nX-nS)
		}
		return r
	}}, bound
}

func runBlock(r *kit.Result, t *vmkit.Tally, p part, c int64) {
	lo, hi := c*block, (c+1)*block
	if hi > p.progs.Len() {
		hi = p.progs.Len()
	}
	var samples []string
	for j := lo; j < hi; j++ {
		term := p.progs.At(j)
		f := term.Features()
		vmkit.CountFeatures(r, f)
		ev, nt := p.lib.Check21(t, func(o vmkit.BuildOpts) b6.Expression { return p.lib.Build(term, o) }, f.OneArgCalls > 0, false)
		r.Evals += ev
		if nt {
			r.Distinct++
		}
		if (j-lo)%97 == 0 && len(samples) < 4 {
			samples = append(samples, p.lib.String(term))
		}
	}
	r.Count("programs", hi-lo)
	r.Sample = map[string]interface{}{"library": p.lib.Name, "program_indices": fmt.Sprintf("%d..%d", lo, hi-1), "some_programs": samples}
}

func runStructured(r *kit.Result, t *vmkit.Tally, l *vmkit.Lib, st *vmkit.Structured, c int64) {
	lo, hi := c*block, (c+1)*block
	if hi > st.Len() {
		hi = st.Len()
	}
	var samples []string
	t.Prefix = "structured:"
	for j := lo; j < hi; j++ {
		j := j
		if sz := vmkit.ExprSize(st.Build(j)); sz != int(st.Desc(j).Size) {
			t.Violate("harness:structured-size-formula", "%s: %d nodes, formula %d", st.Describe(j), sz, st.Desc(j).Size)
		}
		f := st.Features(j)
		r.Count("structured:context="+f.Context, 1)
		r.Count("structured:callee="+f.CalleeClass, 1)
		r.Count("structured:stages="+f.Stages, 1)
		for _, k := range f.Links {
			r.Count("structured:link="+k, 1)
		}
		for _, k := range f.FnShapes {
			r.Count("structured:function-argument="+k, 1)
		}
		if f.NativeHofPartialOuter {
			r.Count("structured:completed-partial-of-native-hof-running-lambda-that-reads-enclosing-parameter", 1)
		}
		if f.LambdaHofPartialOuter {
			r.Count("structured:completed-partial-of-lambda-hof-running-lambda-that-reads-enclosing-parameter", 1)
		}
		if f.PartialOfPartial {
			r.Count("structured:partial-of-partial", 1)
		}
		t.ClassSuffix = ""
		if f.LateBoundRead {
			r.Count("structured:function-argument-reads-parameter-bound-after-the-partial-was-made", 1)
			t.ClassSuffix = lateSuffix
		}
		ev, nt := l.Check21(t, func(vmkit.BuildOpts) b6.Expression { return st.Build(j) }, false, false)
		r.Evals += ev
		if nt {
			r.Distinct++
		}
		if (j-lo)%97 == 0 && len(samples) < 4 {
			samples = append(samples, vmkit.Print(st.Build(j))+"   ## "+st.Describe(j))
		}
	}
	r.Count("structured-programs", hi-lo)
	r.Sample = map[string]interface{}{"library": l.Name, "structured_program_indices": fmt.Sprintf("%d..%d", lo, hi-1), "some_programs": samples}
}
