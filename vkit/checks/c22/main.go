// C22 — simplification never changes a program's result.
//
// Engine E2 (bounded-exhaustive): api.Simplify is applied to every program of
// the C21 space (vmkit.IntLib) and to every program over the repository's own
// query-building functions and / or / typed / keyed / tagged (vmkit.QueryLib:
// literal and non-literal string and query arguments, partial and over-full
// argument lists, inside lambdas, under call). For each program p whose
// simplified tree s differs from p:
//
//	(1) reference(s) vs reference(p)   — the independent big-step interpreter
//	    of vmkit (lexical scoping, call-by-value, trailing partial application);
//	    a difference means Simplify changed the meaning of the program;
//	(2) api.Evaluate(s) vs api.Evaluate(p) — the statement's own differential
//	    (same value, or an error on both sides); skipped when the original
//	    already panics in the VM (that is C21's finding);
//	(3) static: every value-position symbol of s is bound by the same lambda as
//	    in p (nodes are identified by stamps placed in Expression.Begin/End), or
//	    is a global in both — no parameter left unbound, no different binding
//	    captured;
//	(4) function results are compared by behaviour: Simplify(call p x..) vs
//	    call p x.. on probe arguments, to depth 2.
//
// Query values are compared structurally up to flattening of and-in-and /
// or-in-or (associativity), the only rewriting api.simplifyQuery performs.
package main

import (
	"fmt"

	"diagonal.works/b6"
	"verif/kit"
	"verif/vmkit"
)

const block = 1000

type part struct {
	lib   *vmkit.Lib
	progs *vmkit.Programs
	cases int64
}

func main() {
	kit.Main(&kit.Check{
		ID:    "C22",
		Level: "model_checking",
		Rule: "Programs: exact unranking of the counting grammars of vmkit (see C21) for the integer/pair/higher-order library and for the query library {keyed, tagged, typed, and, or, call} with literals \"#k\", \"point\", [#j], [or #j [or #k=v #l]]; lambdas (), (a), (a b), nested (b); calls with 0..arity+1 arguments. " +
			"A program is non-trivial when api.Simplify changes its tree; only those are evaluated (reference and VM, original and simplified, plus probe applications of function results). Static binding check on stamped nodes.",
		Assumptions: []string{
			"reference semantics R1-R6 of vmkit/lib.go",
			"query values are equal up to flattening of nested and/or of the same operator",
			"when the VM panics on the ORIGINAL program (C21 findings) only the reference-level and static checks are applied",
			"VM-only differences attributed by the reference interpreter to escaping closures (U1) or partial application of a variadic (U2), or caused by the VM rejecting at compile time a call whose function Simplify turned into a literal (U3), are counted as unsettled outcomes",
		},
		CaseTimeout: 120e9,
		// sized for about 25 s (quick) / 4-5 min (thorough, about 60 CPU-minutes) on 16 idle cores; the deadlines
		// leave room for a machine shared with other checks
		QuickDeadline:    5 * 60e9,
		ThoroughDeadline: 45 * 60e9,
		WorkerEnv:        []string{"GOMAXPROCS=2", "GOGC=300"},
		Build:            build,
	})
}

func build(tier string) (kit.Space, string) {
	intMax, qMax := 6, 6
	if tier == "thorough" {
		intMax, qMax = 7, 8
	}
	intLib, qLib := vmkit.IntLib(), vmkit.QueryLib()
	parts := []part{
		{lib: intLib, progs: vmkit.NewPrograms(intLib, 1, intMax)},
		{lib: qLib, progs: vmkit.NewPrograms(qLib, 1, qMax)},
	}
	extras := vmkit.Extras()
	qextras := vmkit.QueryExtras()
	var total int64
	for i := range parts {
		parts[i].cases = (parts[i].progs.Len() + block - 1) / block
		total += parts[i].cases
	}
	nA, nB := parts[0].cases, parts[1].cases
	nX, nQ := int64(len(extras)), int64(len(qextras))
	total += nX + nQ
	bound := fmt.Sprintf("all %d programs of 1..%d nodes over the 9-function integer library; all %d programs of 1..%d nodes over the query library; %d + %d hand-written larger programs; blocks of %d programs per case",
		parts[0].progs.Len(), intMax, parts[1].progs.Len(), qMax, len(extras), len(qextras), block)
	return kit.FuncSpace{N: total, F: func(i int64) kit.Result {
		var r kit.Result
		t := vmkit.NewTally(&r)
		switch {
		case i < nX:
			x := extras[i]
			runOne(&r, t, intLib, x.Name, func() b6.Expression { return vmkit.Restamp(x.E()) })
		case i < nX+nQ:
			x := qextras[i-nX]
			runOne(&r, t, qLib, x.Name, func() b6.Expression { return vmkit.Restamp(x.E()) })
		case i < nX+nQ+nA:
			runBlock(&r, t, parts[0], i-nX-nQ)
		default:
			_ = nB
			runBlock(&r, t, parts[1], i-nX-nQ-nA)
		}
		return r
	}}, bound
}

func runOne(r *kit.Result, t *vmkit.Tally, l *vmkit.Lib, name string, mk func() b6.Expression) {
	ev, changed := l.Check22(t, mk)
	r.Evals = ev
	if changed {
		r.Distinct = 1
	}
	r.Count("extra-programs", 1)
	r.Sample = map[string]string{"extra": name, "program": vmkit.Print(mk())}
}

func runBlock(r *kit.Result, t *vmkit.Tally, p part, c int64) {
	lo, hi := c*block, (c+1)*block
	if hi > p.progs.Len() {
		hi = p.progs.Len()
	}
	var samples []string
	for j := lo; j < hi; j++ {
		term := p.progs.At(j)
		ev, changed := p.lib.Check22(t, func() b6.Expression { return p.lib.Build(term, vmkit.BuildOpts{}) })
		r.Evals += ev
		if changed {
			r.Distinct++
			if len(samples) < 3 {
				s, _, _ := p.lib.Simplified(p.lib.Build(term, vmkit.BuildOpts{}))
				samples = append(samples, p.lib.String(term)+"  =>  "+vmkit.Print(s))
			}
		}
	}
	r.Count("programs:"+p.lib.Name, hi-lo)
	if r.Evals == 0 {
		r.Evals = 1
	}
	r.Sample = map[string]interface{}{"library": p.lib.Name, "program_indices": fmt.Sprintf("%d..%d", lo, hi-1), "some_changed_programs": samples}
}
