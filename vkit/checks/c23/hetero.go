package main

// Part (h): heterogeneous collections.
//
// Many library functions look at the FIRST element of a collection argument to
// decide what the collection holds (an origin-destination collection, a
// collection of ints or of floats, of features...) and then walk the rest. A
// client is free to send a collection whose later elements are of another
// kind, so every parameter that accepts a collection is also driven with
// collections of 2 and 3 elements whose first element is of one (key kind,
// value kind) and in which exactly one later element — the second, or the
// last — has a key or a value of another kind. The collections are sent in the
// two forms a client can use: a call (collection (pair k v) ...) and a
// collection literal.

import (
	"fmt"
	"os"
	"reflect"
	"strings"

	"diagonal.works/b6"
	pb "diagonal.works/b6/proto"
	"github.com/golang/geo/s2"
)

// ekind is one kind of collection element (key or value) with three values
// of that kind: element j of a collection takes value j.
type ekind struct {
	name    string
	quick   bool    // part of the quick tier's kinds
	literal bool    // can sit in a collection literal on the wire
	vals    [3]snip // as an argument of pair
	lits    [3]any  // as a key or value of a collection literal
}

func ll(lat, lng float64) b6.Geometry {
	return b6.GeometryFromLatLng(s2.LatLngFromDegrees(lat, lng))
}

func pathOf(lls ...float64) b6.Geometry {
	pts := []s2.Point{}
	for i := 0; i+1 < len(lls); i += 2 {
		pts = append(pts, s2.PointFromLatLng(s2.LatLngFromDegrees(lls[i], lls[i+1])))
	}
	return b6.GeometryFromPoints(pts)
}

// elementKinds returns the kinds in a fixed order, simplest first. The quick
// tier's kinds come first.
func elementKinds() []ekind {
	lit := func(name string, quick bool, labels [3]string, values [3]any) ekind {
		k := ekind{name: name, quick: quick, literal: true, lits: values}
		for j, v := range values {
			l, err := b6.FromLiteral(v)
			if err != nil {
				panic(fmt.Sprintf("harness: element %s is not a literal: %v", labels[j], err))
			}
			k.vals[j] = mk(labels[j], b6.Expression{AnyExpression: l.AnyLiteral})
		}
		return k
	}
	called := func(name string, quick bool, labels [3]string, es [3]b6.Expression) ekind {
		k := ekind{name: name, quick: quick}
		for j, e := range es {
			k.vals[j] = mk(labels[j], e)
		}
		return k
	}
	sub := func(kv ...any) any {
		c := b6.ArrayCollection[any, any]{Keys: []any{}, Values: []any{}}
		for i := 0; i+1 < len(kv); i += 2 {
			c.Keys = append(c.Keys, kv[i])
			c.Values = append(c.Values, kv[i+1])
		}
		return c.Collection()
	}
	square := b6.AreaFromS2Polygons([]*s2.Polygon{squarePg})
	return []ekind{
		lit("int", true, [3]string{"7", "8", "9"}, [3]any{7, 8, 9}),
		lit("float", true, [3]string{"2.5", "0.5", "1.5"}, [3]any{2.5, 0.5, 1.5}),
		lit("string", true, [3]string{`"s"`, `"t"`, `"name"`}, [3]any{"s", "t", "name"}),
		lit("id", true, [3]string{"/n/1", "/n/5", "/w/10"}, [3]any{idN1, idN5, idW10}),
		lit("tag", true, [3]string{"k=v", "#highway=primary", "name=x"}, [3]any{st("k", "v"), st("#highway", "primary"), st("name", "x")}),
		lit("point", true, [3]string{"point(51.5004,-0.0993)", "point(51.5002,-0.0995)", "point(51.5,-0.1)"},
			[3]any{ll(51.5004, -0.0993), ll(51.5002, -0.0995), ll(51.5, -0.1)}),
		called("feature", true, [3]string{"(find-feature /n/5)", "(find-feature /w/10)", "(find-area /a/13)"}, [3]b6.Expression{ffN5, ffW10, faA13}),
		lit("nil", true, [3]string{"nil", "nil", "nil"}, [3]any{nil, nil, nil}),
		lit("collection", true, [3]string{"{1: 2}", "{}", `{"a": 1.5}`}, [3]any{sub(1, 2), sub(), sub("a", 1.5)}),
		called("pair", true, [3]string{"(pair 1 2)", `(pair "a" 1.5)`, "(pair /n/1 /n/5)"},
			[3]b6.Expression{call("pair", eI(1), eI(2)), call("pair", eS("a"), eF(1.5)), call("pair", eID(idN1), eID(idN5))}),
		lit("bool", false, [3]string{"true", "false", "true"}, [3]any{true, false, true}),
		lit("path", false, [3]string{"path(2 points)", "path(3 points)", "path(2 points')"},
			[3]any{pathOf(51.5, -0.1, 51.5004, -0.0986), pathOf(51.5, -0.1, 51.5, -0.0993, 51.5004, -0.0993), pathOf(51.5004, -0.1, 51.5, -0.0986)}),
		lit("area", false, [3]string{"area(square)", "area(square)", "area(square)"}, [3]any{square, square, square}),
		lit("query", false, [3]string{"[#highway]", "[#amenity=cafe]", "[#highway & #amenity=cafe]"},
			[3]any{b6.Query(qHighway), b6.Query(qAmenity), b6.Query(b6.Intersection{qHighway, qAmenity})}),
		called("callable", false, [3]string{"{x -> x}", "first", "{x -> 1}"}, [3]b6.Expression{lamID, sym("first"), lamConst}),
		called("change", false, [3]string{"(add-tag /n/5 k=v)", `(remove-tag /n/5 "name")`, "(add-tag /n/1 k=v)"},
			[3]b6.Expression{addTagN5, call("remove-tag", eID(idN5), eS("name")), call("add-tag", eID(idN1), eT("k", "v"))}),
	}
}

// hspec is one heterogeneous collection: the first element is (ka, va); the
// odd element has a key of kind y (oddKey) or a value of kind y instead.
type hspec struct {
	literal bool // collection literal instead of a call of collection
	shape   int  // 0: [A, odd]   1: [A, A', odd]   2: [A, odd, A']
	ka, va  int
	oddKey  bool
	y       int
}

var shapeNames = []string{"[A, odd]", "[A, A', odd]", "[A, odd, A']"}

// elements returns per element the (key kind, value index), (value kind, value index).
func (h hspec) elements() [][4]int {
	n, odd := 2, 1
	switch h.shape {
	case 1:
		n, odd = 3, 2
	case 2:
		n, odd = 3, 1
	}
	out := make([][4]int, n)
	for j := range out {
		out[j] = [4]int{h.ka, j, h.va, j}
		if j == odd {
			if h.oddKey {
				out[j][0], out[j][1] = h.y, 0
			} else {
				out[j][2], out[j][3] = h.y, 0
			}
		}
	}
	return out
}

func (h hspec) snip(kinds []ekind) snip {
	els := h.elements()
	if h.literal {
		c := b6.ArrayCollection[any, any]{Keys: []any{}, Values: []any{}}
		var ls []string
		for _, e := range els {
			c.Keys = append(c.Keys, kinds[e[0]].lits[e[1]])
			c.Values = append(c.Values, kinds[e[2]].lits[e[3]])
			ls = append(ls, kinds[e[0]].vals[e[1]].label+": "+kinds[e[2]].vals[e[3]].label)
		}
		return mk("literal{"+strings.Join(ls, ", ")+"}", b6.NewCollectionExpression(c.Collection()))
	}
	var ps []*pb.NodeProto
	var ls []string
	for _, e := range els {
		k, v := kinds[e[0]].vals[e[1]], kinds[e[2]].vals[e[3]]
		ps = append(ps, callProto(symProto("pair"), k.p, v.p))
		ls = append(ls, "(pair "+k.label+" "+v.label+")")
	}
	return snip{label: "(collection " + strings.Join(ls, " ") + ")", p: callProto(symProto("collection"), ps...)}
}

// collectionElemTypes returns the declared key and value types of a
// parameter that accepts a collection (interface{} for untyped ones).
func collectionElemTypes(t reflect.Type) (k, v reflect.Type) {
	if m, ok := t.MethodByName("Begin"); ok && m.Type.NumOut() == 1 {
		it := m.Type.Out(0)
		km, kok := it.MethodByName("Key")
		vm, vok := it.MethodByName("Value")
		if kok && vok {
			// methods of an interface type have no receiver argument
			return km.Type.Out(0), vm.Type.Out(0)
		}
	}
	return tAny, tAny
}

// kindOfType maps a declared element type to the element kind a well-formed
// client would send for it (-1: any).
func kindOfType(t reflect.Type, kinds []ekind) int {
	name := ""
	switch {
	case t == tAny:
		return -1
	case t.Kind() == reflect.Int:
		name = "int"
	case t.Kind() == reflect.Float64 || t == tNumber:
		name = "float"
	case t.Kind() == reflect.String:
		name = "string"
	case t == tFeatureID || t == tIdent:
		name = "id"
	case t == tTag:
		name = "tag"
	case t == tArea:
		name = "area"
	case t == tGeometry:
		name = "point"
	case t == tChange:
		name = "change"
	case t.Kind() == reflect.Interface && t.Implements(tFeature):
		name = "feature"
	case t.Implements(tUntyped):
		name = "collection"
	default:
		panic("harness: no element kind for declared collection element type " + t.String())
	}
	for i, k := range kinds {
		if k.name == name {
			return i
		}
	}
	panic("harness: unknown element kind " + name)
}

// typedPlain returns the plain (well-formed) argument for a parameter of type
// t out of its menu.
func typedPlain(t reflect.Type, menu []snip) snip {
	want := ""
	switch t {
	case reflect.TypeOf(b6.CollectionID{}):
		want = "collection-id"
	case reflect.TypeOf(b6.RelationID{}):
		want = "/r/20"
	case reflect.TypeOf(b6.AreaID{}):
		want = "/a/13"
	default:
		return menu[0]
	}
	for _, x := range menu {
		if x.label == want {
			return x
		}
	}
	panic("harness: no " + want + " in the menu of a parameter of type " + t.String())
}

// hparam is one (function, parameter) that accepts a collection, with the
// tuples of the other arguments it is driven with (the slot of the collection
// parameter itself is left empty).
type hparam struct {
	fi, pi int
	others [][]snip
}

// hgroup is a list of collections of one form and shape.
type hgroup struct {
	name  string
	specs []hspec
}

type hsegment struct {
	g, p   int
	offset int64 // first case of the segment within part (h)
	n      int64
}

type hetero struct {
	kinds  []ekind
	groups []hgroup
	params []hparam
	segs   []hsegment
	n      int64
	// description for the bound string
	nKinds, nFirstsFull, nFirstsSmall, nLiteralKinds int
}

func acceptsCollection(t reflect.Type) bool {
	c := paramCats(t)[0]
	return c == "collection" || c == "any"
}

// buildHetero enumerates part (h) for the tier.
func buildHetero(fns []fn, menus [][][]snip, thorough bool) *hetero {
	h := &hetero{kinds: elementKinds()}
	var tier []int // kinds of the tier, in order
	for i, k := range h.kinds {
		if k.quick || thorough {
			tier = append(tier, i)
		}
	}
	h.nKinds = len(tier)
	intKind := 0

	// --- (function, parameter) pairs and the declared first elements
	type first struct{ ka, va int }
	var declared []first
	seenDeclared := map[first]bool{}
	for fi, f := range fns {
		for pi, p := range f.params {
			if !acceptsCollection(p) {
				continue
			}
			if paramCats(p)[0] == "collection" {
				kt, vt := collectionElemTypes(p)
				ka, va := kindOfType(kt, h.kinds), kindOfType(vt, h.kinds)
				if ka >= 0 || va >= 0 {
					if ka < 0 {
						ka = intKind
					}
					if va < 0 {
						va = intKind
					}
					if d := (first{ka, va}); !seenDeclared[d] {
						seenDeclared[d] = true
						declared = append(declared, d)
					}
				}
			}
			// the other arguments: all plain, all edge (thorough: every combination of
			// plain and edge), and every callable parameter over its whole menu with
			// the rest plain. "Plain" is entry 0 of the parameter's menu, except that a
			// parameter declared as the id of a collection, relation or area takes the
			// id of that type (the menu's entry 0 is a point id, which such a
			// parameter rejects before the function body runs).
			hp := hparam{fi: fi, pi: pi}
			var oi []int
			for pj := range f.params {
				if pj != pi {
					oi = append(oi, pj)
				}
			}
			choice := func(pj, e int) snip {
				if e == 0 {
					return typedPlain(f.params[pj], menus[fi][pj])
				}
				return menus[fi][pj][1]
			}
			seen := map[string]bool{}
			addTuple := func(t []snip) {
				key := labels(t)
				if !seen[key] {
					seen[key] = true
					hp.others = append(hp.others, t)
				}
			}
			if thorough {
				for mask := 0; mask < 1<<len(oi); mask++ {
					t := make([]snip, len(f.params))
					for b, pj := range oi {
						t[pj] = choice(pj, (mask>>b)&1)
					}
					addTuple(t)
				}
			} else {
				for e := 0; e < 2; e++ {
					t := make([]snip, len(f.params))
					for _, pj := range oi {
						t[pj] = choice(pj, e)
					}
					addTuple(t)
				}
			}
			for _, pj := range oi {
				if paramCats(f.params[pj])[0] != "callable" {
					continue
				}
				for _, x := range menus[fi][pj] {
					t := make([]snip, len(f.params))
					for _, pk := range oi {
						t[pk] = choice(pk, 0)
					}
					t[pj] = x
					addTuple(t)
				}
			}
			h.params = append(h.params, hp)
		}
	}

	// --- first elements
	// full: every (key kind, value kind) of the tier, plus the declared ones
	// small: key kind = value kind, (int, X), (X, int), plus the declared ones
	var full, small []first
	seenFull, seenSmall := map[first]bool{}, map[first]bool{}
	addTo := func(l *[]first, seen map[first]bool, f first) {
		if !seen[f] {
			seen[f] = true
			*l = append(*l, f)
		}
	}
	for _, x := range tier {
		addTo(&small, seenSmall, first{x, x})
	}
	for _, x := range tier {
		addTo(&small, seenSmall, first{intKind, x})
	}
	for _, d := range declared {
		addTo(&small, seenSmall, d)
	}
	for _, x := range tier {
		addTo(&small, seenSmall, first{x, intKind})
	}
	for _, f := range small {
		addTo(&full, seenFull, f)
	}
	for _, a := range tier {
		for _, b := range tier {
			addTo(&full, seenFull, first{a, b})
		}
	}
	h.nFirstsFull, h.nFirstsSmall = len(full), len(small)

	specs := func(firsts []first, shape int, literal bool) []hspec {
		var out []hspec
		for _, f := range firsts {
			if literal && (!h.kinds[f.ka].literal || !h.kinds[f.va].literal) {
				continue
			}
			for _, oddKey := range []bool{true, false} {
				for _, y := range tier {
					if (oddKey && y == f.ka) || (!oddKey && y == f.va) || (literal && !h.kinds[y].literal) {
						continue
					}
					out = append(out, hspec{literal: literal, shape: shape, ka: f.ka, va: f.va, oddKey: oddKey, y: y})
				}
			}
		}
		return out
	}
	for _, k := range tier {
		if h.kinds[k].literal {
			h.nLiteralKinds++
		}
	}
	h.groups = append(h.groups, hgroup{"call " + shapeNames[0], specs(full, 0, false)})
	if thorough {
		h.groups = append(h.groups,
			hgroup{"call " + shapeNames[1], specs(full, 1, false)},
			hgroup{"call " + shapeNames[2], specs(full, 2, false)},
			hgroup{"literal " + shapeNames[0], specs(full, 0, true)},
			hgroup{"literal " + shapeNames[1], specs(full, 1, true)})
	} else {
		h.groups = append(h.groups,
			hgroup{"call " + shapeNames[1], specs(small, 1, false)},
			hgroup{"literal " + shapeNames[0], specs(small, 0, true)})
	}

	for gi, g := range h.groups {
		for pi, p := range h.params {
			n := int64(len(g.specs)) * int64(len(p.others))
			h.segs = append(h.segs, hsegment{g: gi, p: pi, offset: h.n, n: n})
			h.n += n
		}
	}
	return h
}

func (h *hetero) caseAt(i int64, fns []fn) caseT {
	lo, hi := 0, len(h.segs)
	for lo+1 < hi {
		mid := (lo + hi) / 2
		if h.segs[mid].offset <= i {
			lo = mid
		} else {
			hi = mid
		}
	}
	s := h.segs[lo]
	p := h.params[s.p]
	j := i - s.offset
	spec := h.groups[s.g].specs[j/int64(len(p.others))]
	args := append([]snip{}, p.others[j%int64(len(p.others))]...)
	args[p.pi] = spec.snip(h.kinds)
	f := fns[p.fi]
	return caseT{part: "h", name: f.name, pos: p.pi, what: label(f.name, args), req: request(callProto(symProto(f.name), protos(args)...))}
}

func (h *hetero) describe() string {
	var gs []string
	for _, g := range h.groups {
		gs = append(gs, fmt.Sprintf("%s: %d", g.name, len(g.specs)))
	}
	tuples := 0
	for _, p := range h.params {
		tuples += len(p.others)
	}
	return fmt.Sprintf("%d cases = every heterogeneous collection (%s) x %d (function, collection-accepting parameter) pairs x the tuples of the other arguments (%d (function, parameter, tuple) triples); "+
		"%d element kinds, first elements: %d (key kind, value kind) pairs [full] / %d [key kind = value kind, (int, X), (X, int), declared element types of typed collection parameters]; %d kinds can sit in a collection literal",
		h.n, strings.Join(gs, ", "), len(h.params), tuples, h.nKinds, h.nFirstsFull, h.nFirstsSmall, h.nLiteralKinds)
}

func listCollectionParams() {
	menus := allMenus()
	for _, thorough := range []bool{false, true} {
		fns := registry()
		var ms [][][]snip
		for _, f := range fns {
			var m [][]snip
			for _, p := range f.params {
				m = append(m, menuFor(p, menus, thorough))
			}
			ms = append(ms, m)
		}
		h := buildHetero(fns, ms, thorough)
		if !thorough {
			for _, p := range h.params {
				f := fns[p.fi]
				kt, vt := collectionElemTypes(f.params[p.pi])
				fmt.Fprintf(os.Stderr, "%-28s param %d/%d %-14s key=%v value=%v tuples=%d\n", f.name, p.pi, len(f.params), paramCats(f.params[p.pi])[0], kt, vt, len(p.others))
			}
		}
		fmt.Fprintf(os.Stderr, "thorough=%v: %s\n", thorough, h.describe())
		for _, i := range []int64{0, 1, h.n / 3, h.n / 2, h.n - 1} {
			fmt.Fprintf(os.Stderr, "  case %d: %s\n", i, h.caseAt(i, fns).what)
		}
	}
}
