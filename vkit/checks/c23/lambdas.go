package main

// Part (l): lambda shapes.
//
// The servers rewrite a request before the VM sees it (api.Simplify: eta
// reduction of lambdas that only forward their parameters, partial
// application, query building), and the VM binds lambda parameters
// positionally. Both look at how the parameters of a lambda line up with the
// arguments of the call in its body, so lambdas are enumerated by that shape:
//
//	{p0 .. p(k-1) -> f x0 .. x(m-1)}    k = 0..3, m = 0..3
//
// for every registered function f (m is independent of the arity of f, so
// calls with too few and too many arguments are included) and EVERY sequence
// x over the alphabet {p0 .. p(k-1), a literal} (thorough: also a call
// expression and a free symbol naming a function). That contains the first m
// parameters in order, the last m, every permutation, repeated and unused
// parameters and every mix of parameters with literals, for m < k, m = k and
// m > k. Each lambda is sent in several contexts (see lcontexts).
//
// The gRPC service path runs api.Simplify exactly as the server does; the
// api.Evaluate path evaluates the unsimplified expression.

import (
	"fmt"
	"strings"

	"diagonal.works/b6"
	pb "diagonal.works/b6/proto"
)

const (
	maxLambdaParams = 3
	maxBodyArgs     = 3
)

var lambdaParamNames = []string{"a", "b", "c"}

// lspec is one lambda: k parameters, body = call of function fi with the
// arguments coded in args: 0..k-1 a parameter, k a literal, k+1 a call
// expression, k+2 a free symbol.
type lspec struct {
	fi   int
	k    int
	args []int8
}

// lcontext is one way of sending a lambda L.
type lcontext struct {
	kind      string // top | applied | returned | called | hof
	fi, pi    int    // hof: the higher-order function and its callable parameter
	arityOnly bool   // only lambdas whose body passes exactly as many arguments as f declares
}

type lsegment struct {
	c      int
	offset int64
	n      int64
}

type lambdas struct {
	fns      []fn
	menus    [][][]snip
	all      []lspec
	arity    []lspec // the sublist with m = number of declared parameters of f
	contexts []lcontext
	segs     []lsegment
	n        int64
	alphabet string
}

// firstLiteral returns the first snippet of the menu that is a literal on the
// wire (menus start with the well-typed values), or the int 1.
func firstLiteral(menu []snip) snip {
	for _, x := range menu {
		if x.p.GetLiteral() != nil && !strings.HasPrefix(x.label, "ill:") {
			return x
		}
	}
	return mk("1", eI(1))
}

func buildLambdas(fns []fn, menus [][][]snip, thorough bool) *lambdas {
	l := &lambdas{fns: fns, menus: menus}
	extra := 1 // the literal
	l.alphabet = "the lambda's parameters and a literal (the first literal of the menu of the function's parameter in that position, else 1)"
	if thorough {
		extra = 3
		l.alphabet += ", a call expression (find-feature /n/5) and a free symbol (first)"
	}
	for k := 0; k <= maxLambdaParams; k++ {
		for m := 0; m <= maxBodyArgs; m++ {
			radix := make([]int, m)
			total := 1
			for j := range radix {
				radix[j] = k + extra
				total *= k + extra
			}
			for fi, f := range fns {
				for x := 0; x < total; x++ {
					args := make([]int8, m)
					rest := x
					for j := m - 1; j >= 0; j-- {
						args[j] = int8(rest % radix[j])
						rest /= radix[j]
					}
					s := lspec{fi: fi, k: k, args: args}
					l.all = append(l.all, s)
					if m == len(f.params) {
						l.arity = append(l.arity, s)
					}
				}
			}
		}
	}
	// contexts, simplest first
	l.contexts = append(l.contexts,
		lcontext{kind: "top"},                         // L
		lcontext{kind: "applied"},                     // (L v0 .. v(k-1))
		lcontext{kind: "returned", arityOnly: !thorough}, // {z -> L}
		lcontext{kind: "called", arityOnly: !thorough})   // (call {z -> L} 1)
	for fi, f := range fns {
		for pi, p := range f.params {
			if paramCats(p)[0] == "callable" {
				l.contexts = append(l.contexts, lcontext{kind: "hof", fi: fi, pi: pi, arityOnly: !thorough}) // (g .. L ..)
			}
		}
	}
	for ci, c := range l.contexts {
		n := int64(len(l.all))
		if c.arityOnly {
			n = int64(len(l.arity))
		}
		l.segs = append(l.segs, lsegment{c: ci, offset: l.n, n: n})
		l.n += n
	}
	return l
}

// lambda builds the expression of s, its description and the arguments it
// would be applied to.
func (l *lambdas) lambda(s lspec) (e b6.Expression, desc string, applied []snip) {
	f := l.fns[s.fi]
	params := lambdaParamNames[:s.k]
	var args []b6.Expression
	var ls []string
	applied = make([]snip, s.k)
	for j, code := range s.args {
		switch {
		case int(code) < s.k:
			args = append(args, sym(params[code]))
			ls = append(ls, params[code])
			if applied[code].p == nil && j < len(f.params) {
				applied[code] = typedPlain(f.params[j], l.menus[s.fi][j])
			}
		case int(code) == s.k:
			lit := mk("1", eI(1))
			if j < len(f.params) {
				lit = firstLiteral(l.menus[s.fi][j])
			}
			args = append(args, lit.e)
			ls = append(ls, lit.label)
		case int(code) == s.k+1:
			args = append(args, ffN5)
			ls = append(ls, "(find-feature /n/5)")
		default:
			args = append(args, sym("first"))
			ls = append(ls, "first")
		}
	}
	for i := range applied {
		if applied[i].p == nil {
			applied[i] = mk("1", eI(1))
		}
	}
	body := f.name
	if len(ls) > 0 {
		body += " " + strings.Join(ls, " ")
	}
	return lam(call(f.name, args...), params...), "{" + strings.Join(params, " ") + " -> " + body + "}", applied
}

func lambdaProto(args []string, body *pb.NodeProto) *pb.NodeProto {
	return &pb.NodeProto{Node: &pb.NodeProto_Lambda_{Lambda_: &pb.LambdaNodeProto{Args: args, Node: body}}}
}

func (l *lambdas) caseAt(i int64) caseT {
	lo, hi := 0, len(l.segs)
	for lo+1 < hi {
		mid := (lo + hi) / 2
		if l.segs[mid].offset <= i {
			lo = mid
		} else {
			hi = mid
		}
	}
	seg := l.segs[lo]
	c := l.contexts[seg.c]
	list := l.all
	if c.arityOnly {
		list = l.arity
	}
	s := list[i-seg.offset]
	e, desc, applied := l.lambda(s)
	L := mk(desc, e)
	switch c.kind {
	case "top":
		return caseT{part: "l-top", name: "lambda", what: desc, req: request(L.p)}
	case "applied":
		return caseT{part: "l-applied", name: "lambda", what: "(" + strings.TrimSpace(desc+" "+labels(applied)) + ")", req: request(callProto(L.p, protos(applied)...))}
	case "returned":
		return caseT{part: "l-nested", name: "lambda", what: "{z -> " + desc + "}", req: request(lambdaProto([]string{"z"}, L.p))}
	case "called":
		one := mk("1", eI(1))
		return caseT{part: "l-nested", name: "lambda", what: "(call {z -> " + desc + "} 1)",
			req: request(callProto(symProto("call"), lambdaProto([]string{"z"}, L.p), one.p))}
	}
	g := l.fns[c.fi]
	args := make([]snip, len(g.params))
	for pj := range g.params {
		args[pj] = typedPlain(g.params[pj], l.menus[c.fi][pj])
	}
	args[c.pi] = L
	return caseT{part: "l-hof", name: g.name, what: label(g.name, args), req: request(callProto(symProto(g.name), protos(args)...))}
}

func (l *lambdas) describe() string {
	hof := 0
	for _, c := range l.contexts {
		if c.kind == "hof" {
			hof++
		}
	}
	return fmt.Sprintf("%d cases: lambdas {p0..p(k-1) -> f x0..x(m-1)} for k = 0..%d, m = 0..%d, every registered function f and every argument sequence x over %s: %d lambdas, of which %d pass exactly as many arguments as f declares [arity-correct]; "+
		"contexts: the lambda as the request, the lambda applied to k plain arguments, {z -> L}, (call {z -> L} 1), and L as the callable argument of each of the %d (higher-order function, callable parameter) pairs with the other arguments plain (all lambdas for the first two contexts; the others: %s)",
		l.n, maxLambdaParams, maxBodyArgs, l.alphabet, len(l.all), len(l.arity), hof,
		map[bool]string{true: "arity-correct lambdas", false: "all lambdas"}[l.contexts[2].arityOnly])
}
