// C23 — evaluating a request never crashes the server.
//
// Engine E1/E2 with crash isolation. Every case is one request (an expression
// tree a protobuf client could send), serialised to wire bytes, decoded again
// (so the server only ever sees what proto.Unmarshal can produce) and
// evaluated twice against a fresh overlay of a small world:
//
//	path A: b6.ExpressionFromProto + api.Evaluate (functions.NewContext
//	        equivalent, Cores=2, FileIOAllowed=false), then the result is fully
//	        consumed (collections iterated recursively);
//	path B: the in-process gRPC service's Evaluate (ExpressionFromProto,
//	        Simplify, Evaluate, apply change, FromLiteral, ToProto, Marshal).
//
// Oracle: value or error. A panic (caught on the case goroutine), a process
// crash (panic in a spawned goroutine / fatal error; caught by the kit's
// process isolation) or a hang (watchdog) is a violation, classified
// "<function>:<panic@site>" / "<function>:hang".
//
// Parts: (a) every registered function x every argument tuple of its
// per-parameter menus, plus arity variants and curried forms; (b) depth-2
// compositions along type-compatible edges; (c) malformed NodeProto /
// EvaluateRequestProto messages; (h) every parameter that accepts a collection
// x heterogeneous collections (first element of one kind, a later element of
// another; hetero.go); (l) lambdas enumerated by how their parameters line up
// with the arguments of the call in their body, in several contexts
// (lambdas.go).
package main

import (
	"context"
	"fmt"
	"os"
	"reflect"
	"runtime"
	"strings"
	"sync"
	"syscall"
	"time"

	"diagonal.works/b6"
	"diagonal.works/b6/api"
	"diagonal.works/b6/api/functions"
	b6grpc "diagonal.works/b6/grpc"
	"diagonal.works/b6/ingest"
	pb "diagonal.works/b6/proto"
	"google.golang.org/protobuf/proto"
	"verif/kit"
)

// ---------- guarded execution ----------

const (
	// A request against the 14-feature world needs well under 0.05 s of CPU.
	// Hangs are judged by CPU time, not wall time (the machine may be heavily
	// loaded): an evaluation that has not finished after burning hangCPU seconds
	// of process CPU (and at least that much wall time), or after hangWall of
	// wall time without finishing, is a hang.
	hangCPU     = 3 * time.Second
	hangWall    = 150 * time.Second
	caseTimeout = 400 * time.Second // kit-level backstop only
	memGrowth   = 1 << 30           // heap growth during one evaluation that is treated as unbounded
	memLimit    = 4 << 30
)

// leaked counts evaluations that hung earlier in this process: a hung
// goroutine cannot be stopped, keeps spinning and keeps burning CPU.
var leaked int

func cpuTime() time.Duration {
	var ru syscall.Rusage
	if err := syscall.Getrusage(syscall.RUSAGE_SELF, &ru); err != nil {
		return 0
	}
	return time.Duration(ru.Utime.Nano() + ru.Stime.Nano())
}

func heapAlloc() uint64 {
	var ms runtime.MemStats
	runtime.ReadMemStats(&ms)
	return ms.HeapAlloc
}

// hungStack returns the stack of the goroutine running the guarded function.
func hungStack() string {
	buf := make([]byte, 1<<20)
	n := runtime.Stack(buf, true)
	for _, g := range strings.Split(string(buf[:n]), "\n\n") {
		if strings.Contains(g, "main.guarded.func1") && !strings.Contains(g, "main.hungStack") {
			lines := strings.Split(g, "\n")
			if len(lines) > 24 {
				lines = lines[:24]
			}
			return strings.Join(lines, "\n")
		}
	}
	return "(stack of the hung goroutine not found)"
}

// guarded runs f on its own goroutine. It returns the panic class/message of
// f, or hung=true with the stack of the hung goroutine when f neither
// returned nor panicked within the limits above. A hung f cannot be stopped;
// it is left spinning (the process is short-lived) unless it also allocates
// without bound, in which case the process exits with the stack of the hung
// goroutine on stderr (the kit records that as a crash of this case).
func guarded(what string, f func()) (class, msg string, hung bool) {
	done := make(chan struct{})
	go func() {
		defer close(done)
		class, msg = kit.Catch(f)
	}()
	select {
	case <-done:
		return class, msg, false
	case <-time.After(200 * time.Millisecond):
	}
	start, cpu0, heap0 := time.Now().Add(-200*time.Millisecond), cpuTime(), heapAlloc()
	tick := time.NewTicker(100 * time.Millisecond)
	defer tick.Stop()
	for {
		select {
		case <-done:
			return class, msg, false
		case <-tick.C:
			wall := time.Since(start)
			h := heapAlloc()
			if h > heap0+memGrowth || h > memLimit {
				fmt.Fprintf(os.Stderr, "c23: evaluation of %s does not finish and allocates without bound (heap %d MB after %v); stack of the evaluating goroutine:\n\n%s\n", what, h>>20, wall, hungStack())
				os.Exit(3)
			}
			if (cpuTime()-cpu0 >= hangCPU*time.Duration(leaked+1) && wall >= hangCPU) || wall >= hangWall {
				leaked++
				return "", hungStack(), true
			}
		}
	}
}

// ---------- evaluation of one request ----------

const consumeBudget = 300000

// consume iterates a result the way a response serialiser has to.
func consume(v interface{}, depth int, budget *int) {
	c, ok := v.(b6.UntypedCollection)
	if !ok || depth > 6 {
		return
	}
	i := c.BeginUntyped()
	for {
		ok, err := i.Next()
		if err != nil || !ok {
			return
		}
		*budget--
		if *budget < 0 {
			return
		}
		consume(i.Key(), depth+1, budget)
		consume(i.Value(), depth+1, budget)
	}
}

type obs struct {
	outcome string // value | error | panic | hang | capped
	class   string // violation class suffix: panic@..., hang
	msg     string
	errText string
	inApply bool // the panic happened while applying the returned change
	decode  bool // the panic happened in b6.ExpressionFromProto
	nilVal  bool // evaluated to a nil value without an error
}

func roundTrip(req *pb.EvaluateRequestProto) (*pb.EvaluateRequestProto, error) {
	by, err := proto.Marshal(req)
	if err != nil {
		return nil, err
	}
	var out pb.EvaluateRequestProto
	if err := proto.Unmarshal(by, &out); err != nil {
		return nil, err
	}
	return &out, nil
}

func newContext(base b6.World) *api.Context {
	c := &api.Context{
		World:           ingest.NewMutableOverlayWorld(base),
		Worlds:          &ingest.MutableWorlds{Base: base},
		FunctionSymbols: functions.Functions(),
		Adaptors:        functions.Adaptors(),
		Context:         context.Background(),
	}
	c.FillFromOptions(&api.Options{Cores: 2, FileIOAllowed: false})
	return c
}

// pathA: decode + api.Evaluate + apply a returned change + full consumption.
func pathA(what string, req *pb.EvaluateRequestProto, world int) obs {
	var o obs
	capped, inApply, decoded := false, false, false
	class, msg, hung := guarded(what, func() {
		e, err := b6.ExpressionFromProto(req.Request)
		decoded = true
		if err != nil {
			o.outcome, o.errText = "error", err.Error()
			return
		}
		ctx := newContext(baseWorld(world))
		v, err := api.Evaluate(e, ctx)
		if err != nil {
			o.outcome, o.errText = "error", err.Error()
			return
		}
		o.nilVal = v == nil
		if change, ok := v.(ingest.Change); ok {
			// every entry point (grpc service, api.Evaluator) applies a returned change
			inApply = true
			if v, err = change.Apply(ctx.World.(ingest.MutableWorld)); err != nil {
				o.outcome, o.errText = "error", err.Error()
				return
			}
			inApply = false
		}
		budget := consumeBudget
		consume(v, 0, &budget)
		capped = budget < 0
		o.outcome = "value"
	})
	switch {
	case hung:
		return obs{outcome: "hang", class: "hang", msg: fmt.Sprintf("api.Evaluate + consumption did not finish after %v of CPU time; stack of the evaluating goroutine:\n%s", hangCPU, msg)}
	case class != "":
		return obs{outcome: "panic", class: class, msg: msg, inApply: inApply, decode: !decoded}
	case capped:
		o.outcome = "capped"
	}
	return o
}

// pathB: the gRPC service.
func pathB(what string, req *pb.EvaluateRequestProto, world int) obs {
	var o obs
	class, msg, hung := guarded(what, func() {
		var lock sync.RWMutex
		svc := b6grpc.NewB6Service(&ingest.MutableWorlds{Base: baseWorld(world)}, api.Options{Cores: 2, FileIOAllowed: false}, &lock)
		_, err := svc.Evaluate(context.Background(), req)
		if err != nil {
			o.outcome, o.errText = "error", err.Error()
			return
		}
		o.outcome = "value"
	})
	switch {
	case hung:
		return obs{outcome: "hang", class: "hang", msg: fmt.Sprintf("grpc service Evaluate did not finish after %v of CPU time; stack of the evaluating goroutine:\n%s", hangCPU, msg)}
	case class != "":
		return obs{outcome: "panic", class: class, msg: msg}
	}
	return o
}

// failure is one observed violation of a request before attribution.
type failure struct {
	class  string // panic@site or hang
	msg    string
	decode bool
}

// evalRequest runs both paths and returns the distinct failures, the outcome
// summary, whether the request reached a function body and whether it
// evaluated to a nil value.
func evalRequest(what string, req *pb.EvaluateRequestProto, world int) (fails []failure, outcome string, reached, nilVal bool) {
	rt, err := roundTrip(req)
	if err != nil {
		return nil, "unsendable", false, false // not expressible on the wire: not a client request
	}
	a := pathA(what, rt, world)
	if a.class != "" {
		fails = append(fails, failure{a.class, "[api.Evaluate path] " + a.msg, a.decode})
	}
	b := obs{outcome: "skipped"}
	// The service is skipped when the result is too large to serialise uncapped,
	// when the evaluation hangs, and when applying the returned change panics:
	// the service then panics holding its write lock and its deferred RUnlock
	// turns the panic into an unrecoverable "RUnlock of unlocked RWMutex".
	if a.outcome != "capped" && a.outcome != "hang" && !a.inApply {
		rt2, _ := roundTrip(req)
		b = pathB(what, rt2, world)
		if b.class != "" {
			if len(fails) == 1 && fails[0].class == b.class {
				fails[0].msg = "[api.Evaluate path and grpc service path] " + a.msg
			} else {
				fails = append(fails, failure{b.class, "[grpc service path] " + b.msg, false})
			}
		}
	}
	// reached: the request got past argument conversion into the function body
	reached = a.outcome == "value" || a.outcome == "capped" || a.outcome == "panic" || a.outcome == "hang" ||
		(a.outcome == "error" && !strings.Contains(a.errText, "expected") && !strings.Contains(a.errText, "undefined symbol"))
	return fails, a.outcome + "/" + b.outcome, reached, a.nilVal
}

func request(p *pb.NodeProto) *pb.EvaluateRequestProto {
	return &pb.EvaluateRequestProto{Request: p, Version: b6.ApiVersion}
}

// panicKind is a coarse classification of a panic message, used to tell
// apart the several defects that live in one generic VM function.
func panicKind(msg string) string {
	first := msg
	if i := strings.IndexByte(first, '\n'); i >= 0 {
		first = first[:i]
	}
	if j := strings.Index(first, "panic: "); j >= 0 {
		first = first[j+len("panic: "):]
	}
	switch {
	case strings.Contains(first, "nil pointer dereference"):
		return "nil-deref"
	case strings.Contains(first, "index out of range"):
		return "index-out-of-range"
	case strings.Contains(first, "slice bounds out of range"):
		return "slice-bounds"
	case strings.Contains(first, "interface conversion"):
		return "interface-conversion"
	case strings.Contains(first, "divide by zero"):
		return "divide-by-zero"
	case strings.Contains(first, "can't compare"):
		return "cant-compare" // b6.Less / b6.Equal: "can't compare <type> with <type>"
	case strings.Contains(first, "unhashable"):
		return "unhashable"
	case strings.Contains(first, "reflect"):
		return "reflect"
	}
	w := strings.Fields(first)
	if len(w) > 4 {
		w = w[:4]
	}
	return strings.ToLower(strings.Join(w, "-"))
}

// ---------- the space ----------

type caseT struct {
	part   string // a | a-empty | a-arity | a-curry | b | c
	name   string // function (or "vm" for mechanisms) the class is attributed to
	what   string // literal description
	req    *pb.EvaluateRequestProto
	worlds []int         // nil: the small world only
	alone  *pb.NodeProto // part (c): the malformed piece on its own
	pos    int           // part (h): the position of the collection parameter
}

type space struct {
	// part (a): per function the radices of its menus
	fns     []fn
	menus   [][][]snip // per function, per arg position
	offsets []int64    // cumulative case offsets of part (a)
	nA      int64
	extra   []func() caseT // a-empty, a-arity, a-curry, b, c (built on demand)
	h       *hetero        // part (h), after the extras
	l       *lambdas       // part (l), after part (h)
}

func (s *space) Len() int64 { return s.nA + int64(len(s.extra)) + s.h.n + s.l.n }

func (s *space) caseAt(i int64) caseT {
	if i >= s.nA+int64(len(s.extra))+s.h.n {
		return s.l.caseAt(i - s.nA - int64(len(s.extra)) - s.h.n)
	}
	if i >= s.nA+int64(len(s.extra)) {
		return s.h.caseAt(i-s.nA-int64(len(s.extra)), s.fns)
	}
	if i >= s.nA {
		return s.extra[i-s.nA]()
	}
	// find the function
	lo, hi := 0, len(s.fns)
	for lo+1 < hi {
		mid := (lo + hi) / 2
		if s.offsets[mid] <= i {
			lo = mid
		} else {
			hi = mid
		}
	}
	f := s.fns[lo]
	ms := s.menus[lo]
	rad := make([]int, len(ms))
	for j := range ms {
		rad[j] = len(ms[j])
	}
	d := kit.Digits(i-s.offsets[lo], rad)
	args := make([]snip, len(ms))
	for j := range ms {
		args[j] = ms[j][d[j]]
	}
	return caseT{part: "a", name: f.name, what: label(f.name, args), req: request(callProto(symProto(f.name), protos(args)...))}
}

// producers returns the top-level arguments of the request that are
// themselves calls of a named function.
func producers(req *pb.EvaluateRequestProto) (names []string, nodes []*pb.NodeProto) {
	c := req.GetRequest().GetCall()
	if c == nil {
		return
	}
	for _, a := range c.Args {
		if ac := a.GetCall(); ac != nil && ac.GetFunction().GetSymbol() != "" {
			names = append(names, ac.GetFunction().GetSymbol())
			nodes = append(nodes, a)
		}
	}
	return
}

// attribute turns an observed failure of a request into the violation class.
//   - a panic while decoding the message: decode:<site>
//   - an argument that alone fails the same way: that argument's function
//   - a nil dereference when an argument evaluates to a nil feature (find-area,
//     find-relation, find-collection, closest... of something absent):
//     <producer>:nil-result-dereferenced
//   - otherwise the called function; mechanisms (curry, arity, malformed
//     messages outside a function call) are "vm"
//
// Sites in the generic VM package carry the kind of panic, because one VM
// function hosts several distinct defects.
func attribute(c caseT, f failure, world int) string {
	withKind := func(cl string) string {
		if strings.HasPrefix(cl, "panic@b6/api.") {
			return cl + "[" + panicKind(f.msg[strings.Index(f.msg, "]")+1:]) + "]"
		}
		return cl
	}
	if f.decode {
		return "decode:" + f.class
	}
	name := c.name
	if c.alone != nil && name != "vm" {
		// a malformed piece that fails the same way on its own is not the called function's fault
		fails, _, _, _ := evalRequest("alone", request(c.alone), world)
		for _, pf := range fails {
			if pf.class == f.class && !pf.decode {
				return "vm:" + withKind(f.class)
			}
		}
	}
	// descend through nested calls: the failure belongs to the innermost
	// argument expression that alone fails the same way (or yields the nil
	// feature that its consumer dereferences)
	var descend func(req *pb.EvaluateRequestProto, depth int) string
	descend = func(req *pb.EvaluateRequestProto, depth int) string {
		pn, nodes := producers(req)
		for j := range pn {
			fails, _, _, nilVal := evalRequest(pn[j], request(nodes[j]), world)
			for _, pf := range fails {
				if pf.class == f.class {
					if depth < 4 {
						if inner := descend(request(nodes[j]), depth+1); inner != "" {
							return inner
						}
					}
					return pn[j] + ":" + withKind(f.class)
				}
			}
			if nilVal && len(fails) == 0 && strings.Contains(f.msg, "nil pointer dereference") {
				return pn[j] + ":nil-result-dereferenced"
			}
		}
		return ""
	}
	if cl := descend(c.req, 0); cl != "" {
		return cl
	}
	if (c.part == "a-curry" || c.part == "a-arity") && strings.HasPrefix(f.class, "panic@b6/api.") {
		name = "vm"
	}
	return name + ":" + withKind(f.class)
}

// reported limits the violations emitted by one process to one per class
// (the kit keeps at most 2000 violations in total; thousands of requests hit
// the same defect). The true number per class is kept in the counters.
var reported = map[string]bool{}

func (s *space) Run(i int64) kit.Result {
	c := s.caseAt(i)
	var r kit.Result
	r.Key = c.what
	worlds := c.worlds
	if worlds == nil {
		worlds = []int{0}
	}
	for _, w := range worlds {
		wname := []string{"small world", "empty world"}[w]
		fails, outcome, reached, _ := evalRequest(c.what, c.req, w)
		r.Evals += 2
		r.AddOutcome(c.part + ":" + outcome)
		if reached {
			r.Nontrivial = true
		}
		if c.part == "h" && os.Getenv("C23_HSTATS") != "" {
			r.Count(fmt.Sprintf("hstats:%s/%d reached=%v", c.name, c.pos, reached), 1)
		}
		for _, f := range fails {
			class := attribute(c, f, w)
			r.Count("violations:"+class, 1)
			if reported[class] {
				continue
			}
			reported[class] = true
			r.Violations = append(r.Violations, kit.Violation{Class: class, Msg: fmt.Sprintf("request %s against the %s: %s", c.what, wname, f.msg), Case: c.what})
		}
	}
	if i%977 == 0 {
		r.Sample = map[string]interface{}{"part": c.part, "request": c.what}
	}
	return r
}

// Functions whose integer parameters are s2 cell levels / tile zooms: the
// output grows as 4^level, so feeding them unbounded numbers (areas, sums)
// is a legitimately astronomically large computation, not a hang. Part (a)
// covers them with levels {-2,0,1,3,20}; part (b) does not compose into them.
var levelParams = map[string]bool{"s2-grid": true, "s2-covering": true, "s2-points": true, "tile-paths": true}

func product(ms [][]snip) int64 {
	p := int64(1)
	for _, m := range ms {
		p *= int64(len(m))
	}
	return p
}

func build(tier string) (kit.Space, string) {
	thorough := tier == "thorough"
	menus := allMenus()
	s := &space{}
	// extras run against the small world, and in the thorough tier also
	// against an empty world
	var extraWorlds []int
	if thorough {
		extraWorlds = []int{0, 1}
	}
	s.fns = registry()
	cache := map[reflect.Type][]snip{}
	menuOf := func(t reflect.Type) []snip {
		if m, ok := cache[t]; ok {
			return m
		}
		m := menuFor(t, menus, thorough)
		cache[t] = m
		return m
	}
	for _, f := range s.fns {
		// a variadic parameter takes exactly one argument here; 0 and 2 are added below
		var ms [][]snip
		for _, p := range f.params {
			ms = append(ms, menuOf(p))
		}
		s.menus = append(s.menus, ms)
		s.offsets = append(s.offsets, s.nA)
		s.nA += product(ms)
	}

	good := func(t reflect.Type) snip { return menuOf(t)[0] }
	edge := func(t reflect.Type) snip { return menuOf(t)[1] }
	goodArgs := func(f fn) []snip {
		var out []snip
		for _, p := range f.params {
			out = append(out, good(p))
		}
		return out
	}
	edgeArgs := func(f fn) []snip {
		var out []snip
		for _, p := range f.params {
			out = append(out, edge(p))
		}
		return out
	}
	anyMenu := menuOf(tAny)

	add := func(f func() caseT) {
		s.extra = append(s.extra, func() caseT {
			c := f()
			if c.worlds == nil {
				c.worlds = extraWorlds
			}
			return c
		})
	}
	callCase := func(part, name string, args []snip) func() caseT {
		return func() caseT {
			return caseT{part: part, name: name, what: label(name, args), req: request(callProto(symProto(name), protos(args)...))}
		}
	}

	// --- (a) against the empty world (thorough): every parameter over its whole
	// menu with the other parameters at their plain value
	nStar := 0
	if thorough {
		for fi, f := range s.fns {
			if len(f.params) == 0 {
				add(callCase("a-empty", f.name, nil))
				nStar++
			}
			for pi := range f.params {
				for _, x := range s.menus[fi][pi] {
					args := goodArgs(f)
					args[pi] = x
					add(func() caseT {
						c := callCase("a-empty", f.name, args)()
						c.worlds = []int{1}
						return c
					})
					nStar++
				}
			}
		}
	}

	// --- (a) arity variants
	for fi, f := range s.fns {
		n := len(f.params)
		if f.variadic {
			// zero and two variadic arguments (one is covered by the product above)
			fixed := s.menus[fi][:n-1]
			vm := s.menus[fi][n-1]
			var rec func(j int, cur []snip)
			rec = func(j int, cur []snip) {
				if j == len(fixed) {
					add(callCase("a-arity", f.name, cur))
					for _, x := range vm {
						for _, y := range vm {
							add(callCase("a", f.name, append(append([]snip{}, cur...), x, y)))
						}
					}
					return
				}
				for _, x := range fixed[j] {
					rec(j+1, append(append([]snip{}, cur...), x))
				}
			}
			rec(0, nil)
			continue
		}
		ga := goodArgs(f)
		// one argument too many
		for _, x := range anyMenu[:2] {
			add(callCase("a-arity", f.name, append(append([]snip{}, ga...), x)))
		}
		// too few arguments (the partial application is the result)
		for k := 0; k < n; k++ {
			add(callCase("a-arity", f.name, ga[:k]))
		}
		// curried application: ((f a..) b..) and (((f a..) b..) c..) for every split of the good (and edge) arguments
		for vi, args := range [][]snip{ga, edgeArgs(f)} {
			if n < 2 || (vi == 1 && !thorough) {
				continue
			}
			for k := 1; k < n; k++ {
				add(func() caseT {
					inner := callProto(symProto(f.name), protos(args[:k])...)
					return caseT{part: "a-curry", name: f.name,
						what: "(" + label(f.name, args[:k]) + " " + labels(args[k:]) + ")",
						req:  request(callProto(inner, protos(args[k:])...))}
				})
				for k2 := k + 1; k2 < n; k2++ {
					add(func() caseT {
						inner := callProto(symProto(f.name), protos(args[:k])...)
						mid := callProto(inner, protos(args[k:k2])...)
						return caseT{part: "a-curry", name: f.name,
							what: fmt.Sprintf("((%s %s) %s)", label(f.name, args[:k]), labels(args[k:k2]), labels(args[k2:])),
							req:  request(callProto(mid, protos(args[k2:])...))}
					})
				}
			}
		}
	}

	// --- (b) depth-2 compositions along type-compatible edges
	compatible := func(ret reflect.Type, param reflect.Type) bool {
		rc := retCats(ret)
		pc := paramCats(param)
		for _, r := range rc {
			if r == "*" {
				return true
			}
			for _, p := range pc {
				if p == "any" || p == r {
					return true
				}
			}
		}
		return false
	}
	nB := 0
	for _, f := range s.fns {
		for pi, pt := range f.params {
			for _, g := range s.fns {
				if !compatible(g.t.Out(0), pt) || levelParams[f.name] {
					continue
				}
				nv := 1
				if thorough && len(g.params) > 0 {
					nv = 2
				}
				for v := 0; v < nv; v++ {
					add(func() caseT {
						gargs := goodArgs(g)
						if v == 1 {
							gargs = edgeArgs(g)
						}
						gp := callProto(symProto(g.name), protos(gargs)...)
						fargs := goodArgs(f)
						fp := protos(fargs)
						fp[pi] = gp
						ls := make([]string, len(fargs))
						for j := range fargs {
							ls[j] = fargs[j].label
						}
						ls[pi] = label(g.name, gargs)
						return caseT{part: "b", name: f.name, what: "(" + f.name + " " + strings.Join(ls, " ") + ")",
							req: request(callProto(symProto(f.name), fp...))}
					})
					nB++
				}
			}
		}
	}

	// --- (c) malformed requests (built on first use)
	var pcOnce sync.Once
	var pcs []caseT
	nC := protoCaseCount(thorough)
	for j := 0; j < nC; j++ {
		add(func() caseT {
			pcOnce.Do(func() { pcs = protoCases(thorough) })
			return pcs[j]
		})
	}

	// --- (h) heterogeneous collections for every parameter that accepts a collection
	s.h = buildHetero(s.fns, s.menus, thorough)
	// --- (l) lambda shapes
	s.l = buildLambdas(s.fns, s.menus, thorough)

	bound := fmt.Sprintf("%d registered functions; part (a): %d argument tuples against the small world (full product of the per-parameter menus, %s tier menus: every snippet of the parameter's categories + 2 ill-typed)%s + %d arity/curry variants; "+
		"part (b): %d depth-2 compositions f(..g(good%s)..) over every type-compatible (f, parameter, g); part (c): %d malformed/edge NodeProto and EvaluateRequestProto messages; part (h): %s; part (l): %s; "+
		"arity/curry variants, (b), (c), (h) and (l) against the small world%s (h, l: small world only); integer arguments <= 20 (s2 levels / tile zooms grow the output as 4^level: zoom 24 on the 100 m path is 430489 tiles); hang limit %v CPU",
		len(s.fns), s.nA, tier, map[bool]string{true: fmt.Sprintf(" + %d tuples against the empty world (each parameter over its whole menu, the others plain)", nStar), false: ""}[thorough],
		len(s.extra)-nStar-nB-nC, nB, map[bool]string{true: "|edge", false: ""}[thorough], nC, s.h.describe(), s.l.describe(), map[bool]string{true: " and the empty world", false: ""}[thorough], hangCPU)
	return s, bound
}

func main() {
	// The code under test writes debug files into the working directory
	// (sightline-panic.geojson); keep them out of the source tree.
	if err := os.MkdirAll("/tmp/c23-cwd", 0o755); err == nil {
		os.Chdir("/tmp/c23-cwd")
	}
	// debugging aids: C23_LIST=1 lists part (h); C23_FIND=<substring> evaluates
	// (api.Evaluate path) the first 20 quick-tier cases whose description contains it
	if os.Getenv("C23_LIST") != "" {
		listCollectionParams()
		sp, bound := build(os.Getenv("C23_LIST"))
		l := sp.(*space).l
		fmt.Fprintln(os.Stderr, bound)
		for _, i := range []int64{0, 5, l.n / 7, l.n / 3, l.n / 2, l.n - 1} {
			fmt.Fprintf(os.Stderr, "  l case %d: %s\n", i, l.caseAt(i).what)
		}
		return
	}
	if sub := os.Getenv("C23_FIND"); sub != "" {
		sp, _ := build("quick")
		s := sp.(*space)
		for i, n := int64(0), 0; i < s.Len() && n < 20; i++ {
			if c := s.caseAt(i); strings.Contains(c.what, sub) {
				rt, _ := roundTrip(c.req)
				o := pathA(c.what, rt, 0)
				fmt.Fprintf(os.Stderr, "case %d [%s] %s\n  -> %s %s %s\n", i, c.part, c.what, o.outcome, o.class, o.errText)
				n++
			}
		}
		return
	}
	kit.Main(&kit.Check{
		ID:    "C23",
		Level: "exploration",
		Rule: "A case is one request: (a) a call of a registered function with one argument tuple from the product of its per-parameter menus of client-sendable expression snippets (values assignable/convertible to the parameter type incl. empty collections, negative/zero counts, absent and invalid ids, lambdas of wrong arity, plus two ill-typed snippets), plus one-too-few/one-too-many arguments and curried forms; " +
			"(b) f(..g(args)..) for every (f, parameter, g) whose result category fits the parameter; (c) malformed NodeProto/EvaluateRequestProto messages in root/argument/function/lambda-body/collection positions; " +
			"(h) for every (function, parameter) whose parameter accepts a collection (typed, untyped or interface{}): a heterogeneous collection of 2 or 3 elements in that position — the first element is (key kind, value kind) over the element kinds (int, float, string, feature id, tag, point, feature, nil, collection, pair; thorough also bool, path, area, query, callable, change), elements other than the odd one repeat those kinds with other values, and the odd element (the second of 2, the last of 3, thorough also the middle of 3) differs in the kind of its key or of its value, over every other kind — sent as a call (collection (pair k v)..) and as a collection literal; the other arguments all plain / all edge (thorough: every plain/edge combination; plain for a parameter declared as a collection, relation or area id is the id of that type) and every callable argument over its whole menu (native functions, lambdas, partial applications). " +
			"(l) lambdas {p0..p(k-1) -> f x0..x(m-1)}, k and m = 0..3, for every registered function f and every argument sequence over the parameters and a literal (thorough: also a call expression and a free symbol) — so the first m parameters in order, the last m, permutations, repeated/unused parameters and mixes with literals for m < k, m = k, m > k — sent as the request itself, applied to k arguments, returned from and called through an enclosing lambda, and as the callable argument of every higher-order function. " +
			"Every request is marshalled and unmarshalled (only wire-expressible messages reach the server), then evaluated by api.Evaluate (unsimplified expression) with full recursive consumption of the result and by the in-process gRPC service (which runs api.Simplify first, as the server does). " +
			"Non-trivial: the request got past symbol resolution and argument conversion (a value, or an error raised by the function body). Oracle: value or error; panic/crash/hang is a violation classified <function>:<panic site>.",
		Assumptions: []string{
			"requests are what proto.Unmarshal can produce from bytes (oneof wrappers never hold nil messages, repeated fields never hold nil elements)",
			"FileIOAllowed=false (the option of api.Options that guards parse-geojson-file, import-geojson-file, changes-to-file, changes-from-file, export-world), Cores=2",
			"a request that has not finished after 3 s of CPU time (normal: < 0.05 s) on a 14-feature world is a hang; menus exclude s2 levels / tile zooms > 20 whose legitimately exponential outputs would be indistinguishable from one",
		},
		Build:            build,
		CaseTimeout:      caseTimeout,
		Chunk:            2, // neighbouring cases (often the same defect) go to different workers
		QuickDeadline:    150 * time.Second,
		ThoroughDeadline: 25 * time.Minute,
		MaxSamples:       6,
	})
}
