// C23 — evaluating a request never crashes the server.
//
// Engine E1/E2 with crash isolation. Every case is one request (an expression
// tree a protobuf client could send), serialised to wire bytes, decoded again
// (so the server only ever sees what proto.Unmarshal can produce) and
// evaluated twice against a fresh overlay of a small world:
//
//	path A: b6.ExpressionFromProto + api.Evaluate (functions.NewContext
//	        equivalent, Cores=2, FileIOAllowed=false), then the result is fully
//	        consumed (collections iterated recursively);
//	path B: the in-process gRPC service's Evaluate (ExpressionFromProto,
//	        Simplify, Evaluate, apply change, FromLiteral, ToProto, Marshal).
//
// Oracle: value or error. A panic (caught on the case goroutine), a process
// crash (panic in a spawned goroutine / fatal error; caught by the kit's
// process isolation) or a hang (watchdog) is a violation, classified
// "<function>:<panic@site>" / "<function>:hang".
//
// Parts: (a) every registered function x every argument tuple of its
// per-parameter menus, plus arity variants and curried forms; (b) depth-2
// compositions along type-compatible edges; (c) malformed NodeProto /
// EvaluateRequestProto messages.
package main

import (
	"context"
	"fmt"
	"os"
	"reflect"
	"runtime"
	"strings"
	"sync"
	"time"

	"diagonal.works/b6"
	"diagonal.works/b6/api"
	"diagonal.works/b6/api/functions"
	b6grpc "diagonal.works/b6/grpc"
	"diagonal.works/b6/ingest"
	pb "diagonal.works/b6/proto"
	"google.golang.org/protobuf/proto"
	"verif/kit"
)

// ---------- guarded execution ----------

var workerMode = func() bool {
	for _, a := range os.Args {
		if strings.HasPrefix(a, "--worker") || strings.HasPrefix(a, "-worker") {
			return true
		}
	}
	return false
}()

const (
	// A request against the 14-feature world normally takes well under 50 ms.
	// In a worker process a request that does not finish is left running until
	// the kit's CaseTimeout kills the worker; the kit then re-runs the case alone,
	// where the watchdog below declares the hang after hangConfirm and names it.
	caseTimeout = 6 * time.Second
	hangConfirm = 5 * time.Second
	memLimit    = 3 << 30
)

// guarded runs f on its own goroutine. It returns the panic class/message of
// f, or hung=true when f neither returned nor panicked within hangConfirm (or
// the heap grew past memLimit). A hung f cannot be stopped: in a worker
// process guarded keeps waiting (the kit kills the worker and re-runs the case
// alone); alone, the hang is reported and the process exits after the case.
func guarded(f func()) (class, msg string, hung bool) {
	done := make(chan struct{})
	go func() {
		defer close(done)
		class, msg = kit.Catch(f)
	}()
	if workerMode {
		<-done
		return class, msg, false
	}
	start := time.Now()
	tick := time.NewTicker(100 * time.Millisecond)
	defer tick.Stop()
	for {
		select {
		case <-done:
			return class, msg, false
		case <-tick.C:
			over := time.Since(start) > hangConfirm
			if !over && time.Since(start) > time.Second {
				var ms runtime.MemStats
				runtime.ReadMemStats(&ms)
				over = ms.HeapAlloc > memLimit
			}
			if over {
				return "", "", true
			}
		}
	}
}

// ---------- evaluation of one request ----------

const consumeBudget = 300000

// consume iterates a result the way a response serialiser has to.
func consume(v interface{}, depth int, budget *int) {
	c, ok := v.(b6.UntypedCollection)
	if !ok || depth > 6 {
		return
	}
	i := c.BeginUntyped()
	for {
		ok, err := i.Next()
		if err != nil || !ok {
			return
		}
		*budget--
		if *budget < 0 {
			return
		}
		consume(i.Key(), depth+1, budget)
		consume(i.Value(), depth+1, budget)
	}
}

type obs struct {
	outcome string // value | error | panic | hang | capped
	class   string // violation class suffix: panic@..., hang
	msg     string
	errText string
	inApply bool // the panic happened while applying the returned change
}

func roundTrip(req *pb.EvaluateRequestProto) (*pb.EvaluateRequestProto, error) {
	by, err := proto.Marshal(req)
	if err != nil {
		return nil, err
	}
	var out pb.EvaluateRequestProto
	if err := proto.Unmarshal(by, &out); err != nil {
		return nil, err
	}
	return &out, nil
}

func newContext(base b6.World) *api.Context {
	c := &api.Context{
		World:           ingest.NewMutableOverlayWorld(base),
		Worlds:          &ingest.MutableWorlds{Base: base},
		FunctionSymbols: functions.Functions(),
		Adaptors:        functions.Adaptors(),
		Context:         context.Background(),
	}
	c.FillFromOptions(&api.Options{Cores: 2, FileIOAllowed: false})
	return c
}

// pathA: decode + api.Evaluate + full consumption.
func pathA(what string, req *pb.EvaluateRequestProto, world int) obs {
	var o obs
	capped, inApply := false, false
	class, msg, hung := guarded(func() {
		e, err := b6.ExpressionFromProto(req.Request)
		if err != nil {
			o.outcome, o.errText = "error", err.Error()
			return
		}
		ctx := newContext(baseWorld(world))
		v, err := api.Evaluate(e, ctx)
		if err != nil {
			o.outcome, o.errText = "error", err.Error()
			return
		}
		if change, ok := v.(ingest.Change); ok {
			// every entry point (grpc service, api.Evaluator) applies a returned change
			inApply = true
			if v, err = change.Apply(ctx.World.(ingest.MutableWorld)); err != nil {
				o.outcome, o.errText = "error", err.Error()
				return
			}
			inApply = false
		}
		budget := consumeBudget
		consume(v, 0, &budget)
		capped = budget < 0
		o.outcome = "value"
	})
	switch {
	case hung:
		return obs{outcome: "hang", class: "hang", msg: fmt.Sprintf("api.Evaluate + consumption did not finish within %v", hangConfirm)}
	case class != "":
		return obs{outcome: "panic", class: class, msg: msg, inApply: inApply}
	case capped:
		o.outcome = "capped"
	}
	return o
}

// pathB: the gRPC service.
func pathB(what string, req *pb.EvaluateRequestProto, world int) obs {
	var o obs
	class, msg, hung := guarded(func() {
		var lock sync.RWMutex
		svc := b6grpc.NewB6Service(&ingest.MutableWorlds{Base: baseWorld(world)}, api.Options{Cores: 2, FileIOAllowed: false}, &lock)
		_, err := svc.Evaluate(context.Background(), req)
		if err != nil {
			o.outcome, o.errText = "error", err.Error()
			return
		}
		o.outcome = "value"
	})
	switch {
	case hung:
		return obs{outcome: "hang", class: "hang", msg: fmt.Sprintf("grpc service Evaluate did not finish within %v", hangConfirm)}
	case class != "":
		return obs{outcome: "panic", class: class, msg: msg}
	}
	return o
}

// evalRequest runs both paths and returns the distinct violation classes
// (suffixes) with messages, plus the outcome summary.
func evalRequest(what string, req *pb.EvaluateRequestProto, world int) (viol map[string]string, outcome string, reached bool) {
	viol = map[string]string{}
	rt, err := roundTrip(req)
	if err != nil {
		return viol, "unsendable", false // not expressible on the wire: not a client request
	}
	a := pathA(what, rt, world)
	if a.class != "" {
		viol[a.class] = "[api.Evaluate path] " + a.msg
	}
	b := obs{outcome: "skipped"}
	// The service is skipped when the result is too large to serialise uncapped,
	// when the evaluation hangs, and when applying the returned change panics:
	// the service then panics holding its write lock and its deferred RUnlock
	// turns the panic into an unrecoverable "RUnlock of unlocked RWMutex".
	if a.outcome != "capped" && a.outcome != "hang" && !a.inApply {
		rt2, _ := roundTrip(req)
		b = pathB(what, rt2, world)
		if b.class != "" {
			if _, dup := viol[b.class]; dup {
				viol[b.class] = "[api.Evaluate path and grpc service path] " + a.msg
			} else {
				viol[b.class] = "[grpc service path] " + b.msg
			}
		}
	}
	// reached: the request got past argument conversion into the function body
	reached = a.outcome == "value" || a.outcome == "capped" || a.outcome == "panic" || a.outcome == "hang" ||
		(a.outcome == "error" && !strings.Contains(a.errText, "expected") && !strings.Contains(a.errText, "undefined symbol"))
	return viol, a.outcome + "/" + b.outcome, reached
}

func request(p *pb.NodeProto) *pb.EvaluateRequestProto {
	return &pb.EvaluateRequestProto{Request: p, Version: b6.ApiVersion}
}

// ---------- the space ----------

type caseT struct {
	part  string // a | a-arity | a-curry | b | c
	name  string // function (or mechanism) the class is attributed to
	what  string // literal description
	req   *pb.EvaluateRequestProto
	inner *caseInner // for compositions: the inner call, to attribute panics
}

type caseInner struct {
	name string
	req  *pb.EvaluateRequestProto
}

type space struct {
	worlds int
	// part (a): per function the radices of its menus
	fns     []fn
	menus   [][][]snip // per function, per arg position
	offsets []int64    // cumulative case offsets of part (a)
	nA      int64
	extra   []func() caseT // a-arity, a-curry, b, c (built on demand)
}

func (s *space) Len() int64 { return s.nA + int64(len(s.extra)) }

func (s *space) caseAt(i int64) caseT {
	if i >= s.nA {
		return s.extra[i-s.nA]()
	}
	// find the function
	lo, hi := 0, len(s.fns)
	for lo+1 < hi {
		mid := (lo + hi) / 2
		if s.offsets[mid] <= i {
			lo = mid
		} else {
			hi = mid
		}
	}
	f := s.fns[lo]
	ms := s.menus[lo]
	rad := make([]int, len(ms))
	for j := range ms {
		rad[j] = len(ms[j])
	}
	d := kit.Digits(i-s.offsets[lo], rad)
	args := make([]snip, len(ms))
	for j := range ms {
		args[j] = ms[j][d[j]]
	}
	return caseT{part: "a", name: f.name, what: label(f.name, args), req: request(callProto(symProto(f.name), protos(args)...))}
}

func (s *space) Run(i int64) kit.Result {
	c := s.caseAt(i)
	var r kit.Result
	r.Key = c.what
	for w := 0; w < s.worlds; w++ {
		wname := []string{"small-world", "empty-world"}[w]
		viol, outcome, reached := evalRequest(c.what, c.req, w)
		r.Evals += 2
		r.AddOutcome(c.part + ":" + outcome)
		if reached {
			r.Nontrivial = true
		}
		for cl, msg := range viol {
			name := c.name
			if c.inner != nil {
				// attribute to the inner call when it alone reproduces the same failure
				iv, _, _ := evalRequest(c.inner.name, c.inner.req, w)
				if _, same := iv[cl]; same {
					name = c.inner.name
				}
			}
			if (c.part == "a-curry" || c.part == "a-arity") && !strings.Contains(cl, "b6/api/functions.") {
				name = c.part[2:]
			}
			r.Violations = append(r.Violations, kit.Violation{Class: name + ":" + cl, Msg: fmt.Sprintf("request %s against the %s: %s", c.what, wname, msg), Case: c.what})
		}
	}
	if i%977 == 0 {
		r.Sample = map[string]interface{}{"part": c.part, "request": c.what}
	}
	return r
}

func product(ms [][]snip) int64 {
	p := int64(1)
	for _, m := range ms {
		p *= int64(len(m))
	}
	return p
}

func build(tier string) (kit.Space, string) {
	thorough := tier == "thorough"
	menus := allMenus()
	s := &space{worlds: 1}
	if thorough {
		s.worlds = 2
	}
	s.fns = registry()
	cache := map[reflect.Type][]snip{}
	menuOf := func(t reflect.Type) []snip {
		if m, ok := cache[t]; ok {
			return m
		}
		m := menuFor(t, menus, thorough)
		cache[t] = m
		return m
	}
	for _, f := range s.fns {
		// a variadic parameter takes exactly one argument here; 0 and 2 are added below
		var ms [][]snip
		for _, p := range f.params {
			ms = append(ms, menuOf(p))
		}
		s.menus = append(s.menus, ms)
		s.offsets = append(s.offsets, s.nA)
		s.nA += product(ms)
	}

	good := func(t reflect.Type) snip { return menuOf(t)[0] }
	edge := func(t reflect.Type) snip { return menuOf(t)[1] }
	goodArgs := func(f fn) []snip {
		var out []snip
		for _, p := range f.params {
			out = append(out, good(p))
		}
		return out
	}
	edgeArgs := func(f fn) []snip {
		var out []snip
		for _, p := range f.params {
			out = append(out, edge(p))
		}
		return out
	}
	anyMenu := menuOf(tAny)

	add := func(f func() caseT) { s.extra = append(s.extra, f) }
	callCase := func(part, name string, args []snip) func() caseT {
		return func() caseT {
			return caseT{part: part, name: name, what: label(name, args), req: request(callProto(symProto(name), protos(args)...))}
		}
	}

	// --- (a) arity variants
	for fi, f := range s.fns {
		n := len(f.params)
		if f.variadic {
			// zero and two variadic arguments (one is covered by the product above)
			fixed := s.menus[fi][:n-1]
			vm := s.menus[fi][n-1]
			var rec func(j int, cur []snip)
			rec = func(j int, cur []snip) {
				if j == len(fixed) {
					add(callCase("a-arity", f.name, cur))
					for _, x := range vm {
						for _, y := range vm {
							add(callCase("a", f.name, append(append([]snip{}, cur...), x, y)))
						}
					}
					return
				}
				for _, x := range fixed[j] {
					rec(j+1, append(append([]snip{}, cur...), x))
				}
			}
			rec(0, nil)
			continue
		}
		ga := goodArgs(f)
		// one argument too many
		for _, x := range anyMenu[:2] {
			add(callCase("a-arity", f.name, append(append([]snip{}, ga...), x)))
		}
		// too few arguments (the partial application is the result)
		for k := 0; k < n; k++ {
			add(callCase("a-arity", f.name, ga[:k]))
		}
		// curried application: ((f a..) b..) and (((f a..) b..) c..) for every split of the good (and edge) arguments
		for vi, args := range [][]snip{ga, edgeArgs(f)} {
			if n < 2 || (vi == 1 && !thorough) {
				continue
			}
			for k := 1; k < n; k++ {
				add(func() caseT {
					inner := callProto(symProto(f.name), protos(args[:k])...)
					return caseT{part: "a-curry", name: f.name,
						what: "(" + label(f.name, args[:k]) + " " + labels(args[k:]) + ")",
						req:  request(callProto(inner, protos(args[k:])...))}
				})
				for k2 := k + 1; k2 < n; k2++ {
					add(func() caseT {
						inner := callProto(symProto(f.name), protos(args[:k])...)
						mid := callProto(inner, protos(args[k:k2])...)
						return caseT{part: "a-curry", name: f.name,
							what: fmt.Sprintf("((%s %s) %s)", label(f.name, args[:k]), labels(args[k:k2]), labels(args[k2:])),
							req:  request(callProto(mid, protos(args[k2:])...))}
					})
				}
			}
		}
	}

	// --- (b) depth-2 compositions along type-compatible edges
	compatible := func(ret reflect.Type, param reflect.Type) bool {
		rc := retCats(ret)
		pc := paramCats(param)
		for _, r := range rc {
			if r == "*" {
				return true
			}
			for _, p := range pc {
				if p == "any" || p == r {
					return true
				}
			}
		}
		return false
	}
	nB := 0
	for _, f := range s.fns {
		for pi, pt := range f.params {
			for _, g := range s.fns {
				if !compatible(g.t.Out(0), pt) {
					continue
				}
				nv := 1
				if thorough && len(g.params) > 0 {
					nv = 2
				}
				for v := 0; v < nv; v++ {
					add(func() caseT {
						gargs := goodArgs(g)
						if v == 1 {
							gargs = edgeArgs(g)
						}
						gp := callProto(symProto(g.name), protos(gargs)...)
						fargs := goodArgs(f)
						fp := protos(fargs)
						fp[pi] = gp
						ls := make([]string, len(fargs))
						for j := range fargs {
							ls[j] = fargs[j].label
						}
						ls[pi] = label(g.name, gargs)
						return caseT{part: "b", name: f.name, what: "(" + f.name + " " + strings.Join(ls, " ") + ")",
							req:   request(callProto(symProto(f.name), fp...)),
							inner: &caseInner{name: g.name, req: request(gp)}}
					})
					nB++
				}
			}
		}
	}

	// --- (c) malformed requests (built on first use)
	var pcOnce sync.Once
	var pcs []caseT
	nC := protoCaseCount(thorough)
	for j := 0; j < nC; j++ {
		add(func() caseT {
			pcOnce.Do(func() { pcs = protoCases(thorough) })
			return pcs[j]
		})
	}

	bound := fmt.Sprintf("%d registered functions; part (a): %d argument tuples (full product of the per-parameter menus, %s tier menus: every snippet of the parameter's categories + 2 ill-typed) + arity/curry variants; "+
		"part (b): %d depth-2 compositions f(..g(good%s)..) over every type-compatible (f, parameter, g); part (c): %d malformed/edge NodeProto and EvaluateRequestProto messages; "+
		"%d world variant(s) (small world%s); integer arguments <= 24 (s2/tile levels above that produce astronomically many cells); hang limit %v",
		len(s.fns), s.nA, tier, nB, map[bool]string{true: "|edge", false: ""}[thorough], nC, s.worlds, map[bool]string{true: ", empty world", false: ""}[thorough], hangConfirm)
	return s, bound
}

func main() {
	kit.Main(&kit.Check{
		ID:    "C23",
		Level: "exploration",
		Rule: "A case is one request: (a) a call of a registered function with one argument tuple from the product of its per-parameter menus of client-sendable expression snippets (values assignable/convertible to the parameter type incl. empty collections, negative/zero counts, absent and invalid ids, lambdas of wrong arity, plus two ill-typed snippets), plus one-too-few/one-too-many arguments and curried forms; " +
			"(b) f(..g(args)..) for every (f, parameter, g) whose result category fits the parameter; (c) malformed NodeProto/EvaluateRequestProto messages in root/argument/function/lambda-body/collection positions. " +
			"Every request is marshalled and unmarshalled (only wire-expressible messages reach the server), then evaluated by api.Evaluate with full recursive consumption of the result and by the in-process gRPC service. " +
			"Non-trivial: the request got past symbol resolution and argument conversion (a value, or an error raised by the function body). Oracle: value or error; panic/crash/hang is a violation classified <function>:<panic site>.",
		Assumptions: []string{
			"requests are what proto.Unmarshal can produce from bytes (oneof wrappers never hold nil messages, repeated fields never hold nil elements)",
			"FileIOAllowed=false (the option of api.Options that guards parse-geojson-file, import-geojson-file, changes-to-file, changes-from-file, export-world), Cores=2",
			"a request that does not finish within 5 s (normal: < 50 ms) on a 14-feature world is a hang; menus exclude s2/tile levels > 24 whose legitimately exponential outputs would be indistinguishable from one",
		},
		Build:            build,
		CaseTimeout:      caseTimeout,
		Chunk:            64,
		QuickDeadline:    150 * time.Second,
		ThoroughDeadline: 25 * time.Minute,
		MaxSamples:       6,
	})
}
