package main

import (
	"fmt"
	"math"
	"reflect"
	"sort"
	"strings"

	"diagonal.works/b6"
	"diagonal.works/b6/api"
	"diagonal.works/b6/api/functions"
	"diagonal.works/b6/geojson"
	"diagonal.works/b6/ingest"
	pb "diagonal.works/b6/proto"
	"github.com/golang/geo/s2"
)

// ---- expression construction (what a protobuf client such as the python
// client sends: trees of symbol / literal / call / lambda nodes) ----

func sym(s string) b6.Expression { return b6.NewSymbolExpression(s) }
func call(f string, args ...b6.Expression) b6.Expression {
	return b6.NewCallExpression(sym(f), args)
}
func callE(f b6.Expression, args ...b6.Expression) b6.Expression {
	return b6.NewCallExpression(f, args)
}
func lam(body b6.Expression, args ...string) b6.Expression {
	return b6.NewLambdaExpression(args, body)
}
func eI(n int) b6.Expression            { return b6.NewIntExpression(n) }
func eF(x float64) b6.Expression        { return b6.NewFloatExpression(x) }
func eS(s string) b6.Expression         { return b6.NewStringExpression(s) }
func eID(id b6.FeatureID) b6.Expression { return b6.NewFeatureIDExpression(id) }
func eQ(q b6.Query) b6.Expression       { return b6.NewQueryExpression(q) }
func eT(k, v string) b6.Expression {
	return b6.Expression{AnyExpression: b6.TagExpression(st(k, v))}
}
func eLL(lat, lng float64) b6.Expression {
	return b6.NewPointExpressionFromLatLng(s2.LatLngFromDegrees(lat, lng))
}
func eColl(kv ...interface{}) b6.Expression {
	c := b6.ArrayCollection[any, any]{Keys: []any{}, Values: []any{}}
	for i := 0; i+1 < len(kv); i += 2 {
		c.Keys = append(c.Keys, kv[i])
		c.Values = append(c.Values, kv[i+1])
	}
	return b6.NewCollectionExpression(c.Collection())
}
func ePath(lls ...float64) b6.Expression {
	pts := []s2.Point{}
	for i := 0; i+1 < len(lls); i += 2 {
		pts = append(pts, s2.PointFromLatLng(s2.LatLngFromDegrees(lls[i], lls[i+1])))
	}
	return b6.Expression{AnyExpression: b6.PathExpression{Path: b6.GeometryFromPoints(pts)}}
}
func eArea(ps ...*s2.Polygon) b6.Expression {
	if ps == nil {
		ps = []*s2.Polygon{}
	}
	return b6.Expression{AnyExpression: b6.AreaExpression{Area: b6.AreaFromS2Polygons(ps)}}
}

// snip is one argument snippet: an expression a client could send, with its
// serialised form.
type snip struct {
	label    string
	e        b6.Expression
	p        *pb.NodeProto
	thorough bool // only part of the thorough tier's menus
}

func mk(label string, e b6.Expression) snip {
	p, err := e.ToProto()
	if err != nil {
		panic(fmt.Sprintf("harness: snippet %s does not serialise: %v", label, err))
	}
	return snip{label: label, e: e, p: p}
}
func mkT(label string, e b6.Expression) snip {
	s := mk(label, e)
	s.thorough = true
	return s
}

const geoJSONPoint = `{"type":"Point","coordinates":[-0.0995,51.5002]}`
const geoJSONEmptyFC = `{"type":"FeatureCollection","features":[]}`
const geoJSONPolygon = `{"type":"Feature","properties":{},"geometry":{"type":"Polygon","coordinates":[[[-0.1,51.5],[-0.0993,51.5],[-0.0993,51.5004],[-0.1,51.5004],[-0.1,51.5]]]}}`
const geoJSONEmptyPolygon = `{"type":"Polygon","coordinates":[]}`

var (
	lamID    = lam(sym("x"), "x")
	lamConst = lam(eI(1), "x")
	lam0     = lam(eI(1))
	lam2     = lam(sym("x"), "x", "y")
	lamBool  = lam(call("gt", sym("x"), eI(0)), "x")
	lamPair  = lam(call("pair", sym("x"), sym("x")), "x")
	qHighway = b6.Keyed{Key: "#highway"}
	qAmenity = b6.Tagged{Key: "#amenity", Value: b6.NewStringExpression("cafe")}
	addTagN5 = call("add-tag", eID(idN5), eT("k", "v"))
	ints     = eColl(0, 10, 1, 20, 2, 10)
	walk     = eColl("mode", "walk")
	empty    = eColl()
	ffN5     = call("find-feature", eID(idN5))
	ffW10    = call("find-feature", eID(idW10))
	faA13    = call("find-area", eID(idA13))
	findHW   = call("find", eQ(qHighway))
	llIn     = call("ll", eF(51.5002), eF(-0.0995))
	squarePg = s2.PolygonFromLoops([]*s2.Loop{s2.LoopFromPoints([]s2.Point{
		s2.PointFromLatLng(s2.LatLngFromDegrees(51.5, -0.1)), s2.PointFromLatLng(s2.LatLngFromDegrees(51.5, -0.0993)),
		s2.PointFromLatLng(s2.LatLngFromDegrees(51.5004, -0.0993)), s2.PointFromLatLng(s2.LatLngFromDegrees(51.5004, -0.1))})})
)

// allMenus returns the per-category menus. In every category entry 0 is the
// plain well-formed value ("good") and entry 1 the canonical edge value.
func allMenus() map[string][]snip {
	m := map[string][]snip{}
	m["int"] = []snip{mk("1", eI(1)), mk("0", eI(0)), mk("-2", eI(-2)), mk("3", eI(3)), mkT("20", eI(20))}
	m["float"] = []snip{mk("500.0", eF(500)), mk("0.0", eF(0)), mk("-1.0", eF(-1)), mk("1.5", eF(1.5)),
		mkT("NaN", eF(math.NaN())), mkT("+Inf", eF(math.Inf(1))), mkT("1e9", eF(1e9))}
	m["string"] = []snip{mk(`"name"`, eS("name")), mk(`""`, eS("")), mk(`"walk"`, eS("walk")), mk(`"487604c"`, eS("487604c")),
		mk("geojson-point-text", eS(geoJSONPoint)),
		mkT(`"#highway"`, eS("#highway")), mkT(`"point"`, eS("point")), mkT("geojson-empty-polygon-text", eS(geoJSONEmptyPolygon)),
		mkT(`"/tmp/c23-no-such-file"`, eS("/tmp/c23-no-such-file")), mkT(`"zz"`, eS("zz"))}
	m["id"] = []snip{mk("/n/1", eID(idN1)), mk("/n/99(absent)", eID(idN99)), mk("/w/10", eID(idW10)), mk("/a/13", eID(idA13)),
		mk("/r/20", eID(idR20)), mk("collection-id", eID(idC1)), mk("expression-id", eID(idE2)), mk("invalid-id", eID(idBad)),
		mk("/a/99(absent)", eID(idA99)), mk("/r/99(absent)", eID(idR99)), mk("collection-id(absent)", eID(idC99)), mkT("new-point-id", eID(idNewP))}
	m["feature"] = []snip{mk("(find-feature /n/5)", ffN5), mk("(find-area /a/99(absent))", call("find-area", eID(idA99))),
		mk("(find-feature /n/99)", call("find-feature", eID(idN99))),
		mk("(find-feature /w/10)", ffW10), mk("(find-area /a/13)", faA13), mk("(find-relation /r/20)", call("find-relation", eID(idR20))),
		mk("(find-collection cid)", call("find-collection", eID(idC1))),
		mkT("(find-feature expression-id)", call("find-feature", eID(idE2))), mkT("(find-feature /w/13)", call("find-feature", eID(idW13))),
		mkT("(find-feature /n/7)", call("find-feature", eID(idN7))), mkT("(find-relation /r/99(absent))", call("find-relation", eID(idR99))),
		mkT("(find-collection cid(absent))", call("find-collection", eID(idC99)))}
	m["geometry"] = []snip{mk("(ll 51.5002 -0.0995)", llIn), mk("path-literal(0 points)", ePath()),
		mk("(find-feature /w/10)", ffW10), mk("(find-area /a/13)", faA13), mk("(find-feature /n/5)", ffN5),
		mk("path-literal(2 points)", ePath(51.5, -0.1, 51.5004, -0.0986)), mk("point-literal", eLL(51.5004, -0.0993)),
		mkT("path-literal(1 point)", ePath(51.5, -0.1)), mkT("area-literal(0 polygons)", eArea()), mkT("(find-area /a/99(absent))", call("find-area", eID(idA99))),
		mkT("(ll 91.0 181.0)", call("ll", eF(91), eF(181))), mkT("(ll NaN NaN)", call("ll", eF(math.NaN()), eF(math.NaN())))}
	m["area"] = []snip{mk("(find-area /a/13)", faA13), mk("area-literal(0 polygons)", eArea()), mk("(find-area /a/99(absent))", call("find-area", eID(idA99))),
		mk("area-literal(square)", eArea(squarePg)), mk("(cap-polygon ll 10.0)", call("cap-polygon", llIn, eF(10))),
		mkT("area-literal(polygon without loops)", eArea(s2.PolygonFromLoops(nil))), mkT("area-literal(full polygon)", eArea(s2.FullPolygon()))}
	m["query"] = []snip{mk("[#highway]", eQ(qHighway)), mk("intersection()", eQ(b6.Intersection{})), mk("[#amenity=cafe]", eQ(qAmenity)),
		mk("(all)", call("all")), mk("union()", eQ(b6.Union{})), mk("[#highway & #amenity=cafe]", eQ(b6.Intersection{qHighway, qAmenity})),
		mk("typed(point,[#amenity=cafe])", eQ(b6.Typed{Type: b6.FeatureTypePoint, Query: qAmenity})),
		mkT("[#highway | #amenity=cafe]", eQ(b6.Union{qHighway, qAmenity})),
		mkT("typed(invalid,[#highway])", eQ(b6.Typed{Type: b6.FeatureTypeInvalid, Query: qHighway})),
		mkT("intersects-feature(/n/99)", eQ(b6.IntersectsFeature{ID: idN99})), mkT("intersects-feature(/a/13)", eQ(b6.IntersectsFeature{ID: idA13})),
		mkT("(intersecting (find-feature /w/10))", call("intersecting", ffW10)), mkT("(within (find-area /a/13))", call("within", faA13)),
		mkT("(intersecting-cap ll 100.0)", call("intersecting-cap", llIn, eF(100))), mkT("empty-query", eQ(b6.Empty{})),
		mkT("intersection(intersection(),union())", eQ(b6.Intersection{b6.Intersection{}, b6.Union{}}))}
	m["tag"] = []snip{mk(`(tag "k" "v")`, call("tag", eS("k"), eS("v"))), mk(`(get /n/5 "absent")`, call("get", eID(idN5), eS("absent"))),
		mk("#highway=primary", eT("#highway", "primary")), mk(`(tag "" "")`, call("tag", eS(""), eS(""))),
		mkT(`(get /w/12 "maxspeed")`, call("get", eID(idW12), eS("maxspeed")))}
	m["pair"] = []snip{mk("(pair 1 2)", call("pair", eI(1), eI(2))), mk(`(pair "a" {})`, call("pair", eS("a"), empty)),
		mkT("(pair /n/1 (tag k v))", call("pair", eID(idN1), call("tag", eS("k"), eS("v"))))}
	m["callable"] = []snip{mk("{x -> x}", lamID), mk("{-> 1}", lam0), mk("{x -> 1}", lamConst), mk("first", sym("first")),
		mk("{x y -> x}", lam2), mk("{x -> gt x 0}", lamBool), mk("(add 1)", call("add", eI(1))), mk("[#highway]", eQ(qHighway)),
		mkT("all", sym("all")), mkT("{x -> pair x x}", lamPair), mkT("(apply-to-point {x -> x})", call("apply-to-point", lamID)),
		mkT("{-> find [#amenity=cafe]}", lam(call("find", eQ(qAmenity)))), mkT("top", sym("top"))}
	m["collection"] = []snip{mk("{0: 10, 1: 20, 2: 10}", ints), mk("{}", empty), mk(`{"mode": "walk"}`, walk), mk("(find [#highway])", findHW),
		mk("{/n/1: /n/5, /n/1: /n/99}", eColl(idN1, idN5, idN1, idN99)), mk("{0: {1: 2}, 1: {}}", call("collection", call("pair", eI(0), eColl(1, 2)), call("pair", eI(1), empty))),
		mk("(all-tags /w/10)", call("all-tags", eID(idW10))), mk(`{1: 2, "a": 1.5}`, eColl(1, 2, "a", 1.5)),
		mkT(`{"a": 1.5, "b": 0.5}`, eColl("a", 1.5, "b", 0.5)), mkT("{0: /n/1, 1: /w/10, 2: /n/99}", eColl(0, idN1, 1, idW10, 2, idN99)),
		mkT("{/n/5: k=v}", eColl(idN5, st("k", "v"))), mkT("(points (find-feature /w/10))", call("points", ffW10)),
		mkT("(find-areas [#building])", call("find-areas", eQ(b6.Keyed{Key: "#building"}))),
		mkT("{0: (add-tag /n/5 k=v)}", call("collection", call("pair", eI(0), addTagN5))), mkT(`{/n/1: "name"}`, eColl(idN1, "name")),
		mkT("(find-collection cid)", call("find-collection", eID(idC1))), mkT("(take ints -2)", call("take", ints, eI(-2))),
		mkT("(map ints first)", call("map", ints, sym("first"))), mkT("(filter ints {x -> 1})", call("filter", ints, lamConst)),
		mkT("{/w/10: (find-feature /w/10)}", call("collection", call("pair", eID(idW10), ffW10))),
		mkT("(find-collection cid(absent))", call("find-collection", eID(idC99))),
		mkT("{{1: 2}: 1}", eColl(b6.ArrayCollection[any, any]{Keys: []any{1}, Values: []any{2}}.Collection(), 1))}
	m["change"] = []snip{mk("(add-tag /n/5 k=v)", addTagN5), mk("(add-tag /n/99 k=v)", call("add-tag", eID(idN99), eT("k", "v"))),
		mk("(merge-changes {})", call("merge-changes", empty)), mk(`(remove-tag /n/5 "name")`, call("remove-tag", eID(idN5), eS("name"))),
		mkT("(add-point ll new-id {})", call("add-point", llIn, eID(idNewP), empty)),
		mkT("(add-collection cid {} ints)", call("add-collection", eID(idC99), empty, ints))}
	m["geojson"] = []snip{mk("(parse-geojson point)", call("parse-geojson", eS(geoJSONPoint))), mk("(parse-geojson empty-feature-collection)", call("parse-geojson", eS(geoJSONEmptyFC))),
		mk("(to-geojson (find-area /a/13))", call("to-geojson", faA13)), mk("(parse-geojson polygon-feature)", call("parse-geojson", eS(geoJSONPolygon))),
		mkT("(parse-geojson empty-polygon)", call("parse-geojson", eS(geoJSONEmptyPolygon)))}
	m["bool"] = []snip{mk("true", b6.Expression{AnyExpression: b6.BoolExpression(true)}), mk("false", b6.Expression{AnyExpression: b6.BoolExpression(false)})}
	m["nil"] = []snip{mk("nil-literal", b6.Expression{AnyExpression: b6.NilExpression{}})}
	// "any": what is passed for interface{} parameters — a few of everything.
	pick := func(cat string, idx ...int) []snip {
		var out []snip
		for _, i := range idx {
			out = append(out, m[cat][i])
		}
		return out
	}
	var any []snip
	any = append(any, pick("int", 0)...)
	any = append(any, pick("collection", 1)...)
	any = append(any, pick("float", 3)...)
	any = append(any, pick("string", 0)...)
	any = append(any, pick("id", 0, 1)...)
	any = append(any, pick("feature", 0)...)
	any = append(any, pick("collection", 0)...)
	any = append(any, pick("callable", 0)...)
	any = append(any, pick("pair", 0)...)
	any = append(any, pick("tag", 0)...)
	any = append(any, pick("nil", 0)...)
	tq := pick("query", 0)
	tq = append(tq, pick("geometry", 0)...)
	tq = append(tq, pick("bool", 0)...)
	tq = append(tq, pick("change", 0)...)
	for i := range tq {
		tq[i].thorough = true
	}
	any = append(any, tq...)
	m["any"] = any
	return m
}

// ill-typed candidates, in preference order
var illCats = []string{"string", "int", "collection", "callable"}

var (
	tUntyped   = reflect.TypeOf((*b6.UntypedCollection)(nil)).Elem()
	tCallable  = reflect.TypeOf((*api.Callable)(nil)).Elem()
	tPair      = reflect.TypeOf((*api.Pair)(nil)).Elem()
	tFeature   = reflect.TypeOf((*b6.Feature)(nil)).Elem()
	tIdent     = reflect.TypeOf((*b6.Identifiable)(nil)).Elem()
	tGeometry  = reflect.TypeOf((*b6.Geometry)(nil)).Elem()
	tArea      = reflect.TypeOf((*b6.Area)(nil)).Elem()
	tQuery     = reflect.TypeOf((*b6.Query)(nil)).Elem()
	tNumber    = reflect.TypeOf((*b6.Number)(nil)).Elem()
	tChange    = reflect.TypeOf((*ingest.Change)(nil)).Elem()
	tGeoJSON   = reflect.TypeOf((*geojson.GeoJSON)(nil)).Elem()
	tAny       = reflect.TypeOf((*interface{})(nil)).Elem()
	tTag       = reflect.TypeOf(b6.Tag{})
	tFeatureID = reflect.TypeOf(b6.FeatureID{})
	tExpr      = reflect.TypeOf(b6.Expression{})
)

// paramCats maps the Go type of a parameter to the snippet categories whose
// values are assignable or convertible to it (api.ConvertWithContext).
func paramCats(t reflect.Type) []string {
	switch {
	case t == tAny:
		return []string{"any"}
	case t.Kind() == reflect.Func || t == tCallable || t == tExpr:
		return []string{"callable"}
	case t.Kind() == reflect.Int:
		return []string{"int", "float"}
	case t.Kind() == reflect.Float64:
		return []string{"float", "int"}
	case t.Kind() == reflect.String:
		return []string{"string"}
	case t == tNumber:
		return []string{"int", "float"}
	case t == tTag:
		return []string{"tag"}
	case t == tPair:
		return []string{"pair"}
	case t == tQuery:
		return []string{"query"}
	case t == tChange:
		return []string{"change"}
	case t == tGeoJSON:
		return []string{"geojson"}
	case t == tArea:
		return []string{"area"}
	case t == tGeometry:
		return []string{"geometry"}
	case t == tIdent:
		return []string{"id", "feature"}
	case t == tFeatureID || t == reflect.TypeOf(b6.CollectionID{}) || t == reflect.TypeOf(b6.RelationID{}) || t == reflect.TypeOf(b6.AreaID{}):
		return []string{"id", "feature"}
	case t.Kind() == reflect.Interface && t.Implements(tFeature):
		return []string{"feature"}
	case t.Implements(tUntyped):
		return []string{"collection"}
	}
	panic("harness: no menu for parameter type " + t.String())
}

// retCats maps the Go type of a result to the categories it belongs to
// (used for the type-compatible edges of part (b)).
func retCats(t reflect.Type) []string {
	switch {
	case t == tAny:
		return []string{"*"}
	case t.Kind() == reflect.Int:
		return []string{"int"}
	case t.Kind() == reflect.Float64:
		return []string{"float"}
	case t.Kind() == reflect.String:
		return []string{"string"}
	case t.Kind() == reflect.Bool:
		return []string{"bool"}
	case t == tNumber:
		return []string{"int", "float"}
	case t == tTag:
		return []string{"tag"}
	case t == tPair:
		return []string{"pair"}
	case t == tCallable:
		return []string{"callable"}
	case t == tChange:
		return []string{"change"}
	case t == tGeoJSON:
		return []string{"geojson"}
	case t == tFeatureID:
		return []string{"id"}
	case t.Kind() == reflect.Interface && t.Implements(tQuery):
		return []string{"query", "callable"}
	case t.Kind() == reflect.Interface && t.Implements(tFeature):
		c := []string{"feature", "id"}
		if t.Implements(tGeometry) {
			c = append(c, "geometry")
		}
		if t.Implements(tArea) {
			c = append(c, "area")
		}
		if t.Implements(tUntyped) {
			c = append(c, "collection")
		}
		return c
	case t == tArea:
		return []string{"area", "geometry"}
	case t == tGeometry:
		return []string{"geometry"}
	case t.Implements(tUntyped):
		return []string{"collection"}
	}
	return nil // *pb.QueryProto, search.Query: nothing accepts them
}

type fn struct {
	name     string
	t        reflect.Type
	params   []reflect.Type // without *Context; the variadic one is the element type
	variadic bool
}

func registry() []fn {
	var out []fn
	for name, f := range functions.Functions() {
		t := reflect.TypeOf(f)
		x := fn{name: name, t: t, variadic: t.IsVariadic()}
		for i := 1; i < t.NumIn(); i++ {
			p := t.In(i)
			if x.variadic && i == t.NumIn()-1 {
				p = p.Elem()
			}
			x.params = append(x.params, p)
		}
		out = append(out, x)
	}
	// simplest first: by arity, then name
	sort.Slice(out, func(i, j int) bool {
		if len(out[i].params) != len(out[j].params) {
			return len(out[i].params) < len(out[j].params)
		}
		return out[i].name < out[j].name
	})
	return out
}

// menuFor builds the argument menu of one parameter: every snippet of its
// categories (restricted to the tier) plus two deliberately ill-typed ones.
func menuFor(t reflect.Type, menus map[string][]snip, thorough bool) []snip {
	cats := paramCats(t)
	var out []snip
	seen := map[string]bool{}
	for ci, c := range cats {
		for si, s := range menus[c] {
			if s.thorough && !thorough {
				continue
			}
			if seen[s.label] {
				continue
			}
			if ci > 0 {
				// secondary (convertible) categories: numbers contribute exactly one
				// value (a float for an int parameter must stay a small level),
				// others their first entry in the quick tier and all in the thorough tier
				switch {
				case c == "float":
					if s.label != "1.5" {
						continue
					}
				case c == "int":
					if si != 0 {
						continue
					}
				case !thorough && si != 0:
					continue
				}
			}
			seen[s.label] = true
			out = append(out, s)
		}
	}
	if cats[0] == "any" {
		return out
	}
	ill := 0
	for _, c := range illCats {
		if ill == 2 {
			break
		}
		in := false
		for _, pc := range cats {
			if pc == c {
				in = true
			}
		}
		if in || (c == "callable" && cats[0] == "query") {
			continue
		}
		s := menus[c][0]
		if !seen[s.label] {
			s.label = "ill:" + s.label
			out = append(out, s)
			ill++
		}
	}
	return out
}

func labels(args []snip) string {
	var ls []string
	for _, a := range args {
		ls = append(ls, a.label)
	}
	return strings.Join(ls, " ")
}

func label(name string, args []snip) string {
	if len(args) == 0 {
		return "(" + name + ")"
	}
	return "(" + name + " " + labels(args) + ")"
}

func callProto(f *pb.NodeProto, args ...*pb.NodeProto) *pb.NodeProto {
	return &pb.NodeProto{Node: &pb.NodeProto_Call{Call: &pb.CallNodeProto{Function: f, Args: args}}}
}
func symProto(s string) *pb.NodeProto { return &pb.NodeProto{Node: &pb.NodeProto_Symbol{Symbol: s}} }
func protos(args []snip) []*pb.NodeProto {
	out := make([]*pb.NodeProto, len(args))
	for i, a := range args {
		out[i] = a.p
	}
	return out
}
