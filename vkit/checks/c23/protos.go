package main

import (
	"bytes"
	"compress/gzip"
	"fmt"
	"math"

	"diagonal.works/b6"
	pb "diagonal.works/b6/proto"
)

// Part (c): malformed / edge NodeProto messages. Every message is sent through
// proto.Marshal + proto.Unmarshal before it reaches the server, so shapes that
// cannot exist on the wire are normalised to what a server would really see.

type atom struct {
	kind string // names the class: proto(<kind>)
	desc string
	lit  *pb.LiteralNodeProto // literal atoms can also sit inside collection literals
	node *pb.NodeProto
}

func litNode(l *pb.LiteralNodeProto) *pb.NodeProto {
	return &pb.NodeProto{Node: &pb.NodeProto_Literal{Literal: l}}
}

func pt(lat, lng int32) *pb.PointProto { return &pb.PointProto{LatE7: lat, LngE7: lng} }

func gz(b []byte) []byte {
	var buf bytes.Buffer
	w := gzip.NewWriter(&buf)
	w.Write(b)
	w.Close()
	return buf.Bytes()
}

func queryAtoms() []struct {
	desc string
	q    *pb.QueryProto
} {
	q := func(d string, p *pb.QueryProto) struct {
		desc string
		q    *pb.QueryProto
	} {
		return struct {
			desc string
			q    *pb.QueryProto
		}{d, p}
	}
	keyed := &pb.QueryProto{Query: &pb.QueryProto_Keyed{Keyed: "#highway"}}
	loop2 := &pb.LoopProto{Points: []*pb.PointProto{pt(515000000, -1000000), pt(515004000, -993000)}}
	loopSame := &pb.LoopProto{Points: []*pb.PointProto{pt(515000000, -1000000), pt(515000000, -1000000), pt(515000000, -1000000)}}
	return []struct {
		desc string
		q    *pb.QueryProto
	}{
		q("query{}", &pb.QueryProto{}),
		q("all", &pb.QueryProto{Query: &pb.QueryProto_All{All: &pb.AllQueryProto{}}}),
		q("empty", &pb.QueryProto{Query: &pb.QueryProto_Empty{Empty: &pb.EmptyQueryProto{}}}),
		q("isValid", &pb.QueryProto{Query: &pb.QueryProto_IsValid{IsValid: &pb.IsValidQueryProto{}}}),
		q("keyed ''", &pb.QueryProto{Query: &pb.QueryProto_Keyed{Keyed: ""}}),
		q("tagged{}", &pb.QueryProto{Query: &pb.QueryProto_Tagged{Tagged: &pb.TagProto{}}}),
		q("typed{}", &pb.QueryProto{Query: &pb.QueryProto_Typed{Typed: &pb.TypedQueryProto{}}}),
		q("typed{type 99, keyed}", &pb.QueryProto{Query: &pb.QueryProto_Typed{Typed: &pb.TypedQueryProto{Type: pb.FeatureType(99), Query: keyed}}}),
		q("typed{point, query{}}", &pb.QueryProto{Query: &pb.QueryProto_Typed{Typed: &pb.TypedQueryProto{Type: pb.FeatureType_FeatureTypePoint, Query: &pb.QueryProto{}}}}),
		q("intersection{}", &pb.QueryProto{Query: &pb.QueryProto_Intersection{Intersection: &pb.QueriesProto{}}}),
		q("intersection{[query{}]}", &pb.QueryProto{Query: &pb.QueryProto_Intersection{Intersection: &pb.QueriesProto{Queries: []*pb.QueryProto{{}}}}}),
		q("intersection{[keyed]}", &pb.QueryProto{Query: &pb.QueryProto_Intersection{Intersection: &pb.QueriesProto{Queries: []*pb.QueryProto{keyed}}}}),
		q("union{}", &pb.QueryProto{Query: &pb.QueryProto_Union{Union: &pb.QueriesProto{}}}),
		q("union{[intersection{}]}", &pb.QueryProto{Query: &pb.QueryProto_Union{Union: &pb.QueriesProto{Queries: []*pb.QueryProto{{Query: &pb.QueryProto_Intersection{Intersection: &pb.QueriesProto{}}}}}}}),
		q("intersectsCap{}", &pb.QueryProto{Query: &pb.QueryProto_IntersectsCap{IntersectsCap: &pb.CapProto{}}}),
		q("intersectsCap{center, NaN}", &pb.QueryProto{Query: &pb.QueryProto_IntersectsCap{IntersectsCap: &pb.CapProto{Center: pt(515000000, -1000000), RadiusMeters: math.NaN()}}}),
		q("intersectsCap{center, -1}", &pb.QueryProto{Query: &pb.QueryProto_IntersectsCap{IntersectsCap: &pb.CapProto{Center: pt(515000000, -1000000), RadiusMeters: -1}}}),
		q("intersectsCap{center, 1e12}", &pb.QueryProto{Query: &pb.QueryProto_IntersectsCap{IntersectsCap: &pb.CapProto{Center: pt(515000000, -1000000), RadiusMeters: 1e12}}}),
		q("intersectsFeature{}", &pb.QueryProto{Query: &pb.QueryProto_IntersectsFeature{IntersectsFeature: &pb.FeatureIDProto{}}}),
		q("intersectsFeature{type 99}", &pb.QueryProto{Query: &pb.QueryProto_IntersectsFeature{IntersectsFeature: &pb.FeatureIDProto{Type: pb.FeatureType(99), Namespace: "x", Value: 1}}}),
		q("intersectsFeature{/a/13}", &pb.QueryProto{Query: &pb.QueryProto_IntersectsFeature{IntersectsFeature: b6.NewProtoFromFeatureID(idA13)}}),
		q("intersectsPoint{}", &pb.QueryProto{Query: &pb.QueryProto_IntersectsPoint{IntersectsPoint: &pb.PointProto{}}}),
		q("intersectsPoint{lat out of range}", &pb.QueryProto{Query: &pb.QueryProto_IntersectsPoint{IntersectsPoint: pt(2000000000, 2000000000)}}),
		q("intersectsPolyline{}", &pb.QueryProto{Query: &pb.QueryProto_IntersectsPolyline{IntersectsPolyline: &pb.PolylineProto{}}}),
		q("intersectsPolyline{1 point}", &pb.QueryProto{Query: &pb.QueryProto_IntersectsPolyline{IntersectsPolyline: &pb.PolylineProto{Points: []*pb.PointProto{pt(515000000, -1000000)}}}}),
		q("intersectsMultiPolygon{}", &pb.QueryProto{Query: &pb.QueryProto_IntersectsMultiPolygon{IntersectsMultiPolygon: &pb.MultiPolygonProto{}}}),
		q("intersectsMultiPolygon{[polygon{}]}", &pb.QueryProto{Query: &pb.QueryProto_IntersectsMultiPolygon{IntersectsMultiPolygon: &pb.MultiPolygonProto{Polygons: []*pb.PolygonProto{{}}}}}),
		q("intersectsMultiPolygon{[polygon{[loop{}]}]}", &pb.QueryProto{Query: &pb.QueryProto_IntersectsMultiPolygon{IntersectsMultiPolygon: &pb.MultiPolygonProto{Polygons: []*pb.PolygonProto{{Loops: []*pb.LoopProto{{}}}}}}}),
		q("intersectsMultiPolygon{loop of 2 points}", &pb.QueryProto{Query: &pb.QueryProto_IntersectsMultiPolygon{IntersectsMultiPolygon: &pb.MultiPolygonProto{Polygons: []*pb.PolygonProto{{Loops: []*pb.LoopProto{loop2}}}}}}),
		q("intersectsMultiPolygon{degenerate loop}", &pb.QueryProto{Query: &pb.QueryProto_IntersectsMultiPolygon{IntersectsMultiPolygon: &pb.MultiPolygonProto{Polygons: []*pb.PolygonProto{{Loops: []*pb.LoopProto{loopSame}}}}}}),
		q("intersectsCells{}", &pb.QueryProto{Query: &pb.QueryProto_IntersectsCells{IntersectsCells: &pb.S2CellIDsProto{}}}),
		q("intersectsCells{[0]}", &pb.QueryProto{Query: &pb.QueryProto_IntersectsCells{IntersectsCells: &pb.S2CellIDsProto{S2CellIDs: []uint64{0}}}}),
		q("mightIntersect{[max]}", &pb.QueryProto{Query: &pb.QueryProto_MightIntersect{MightIntersect: &pb.S2CellIDsProto{S2CellIDs: []uint64{math.MaxUint64}}}}),
	}
}

func literalAtoms(thorough bool) []atom {
	var out []atom
	add := func(kind, desc string, l *pb.LiteralNodeProto) {
		out = append(out, atom{kind: kind, desc: desc, lit: l, node: litNode(l)})
	}
	add("literal-unset", "literal{}", &pb.LiteralNodeProto{})
	add("nil", "nilValue true", &pb.LiteralNodeProto{Value: &pb.LiteralNodeProto_NilValue{NilValue: true}})
	add("nil", "nilValue false", &pb.LiteralNodeProto{Value: &pb.LiteralNodeProto_NilValue{NilValue: false}})
	add("bool", "boolValue", &pb.LiteralNodeProto{Value: &pb.LiteralNodeProto_BoolValue{BoolValue: true}})
	add("string", "stringValue ''", &pb.LiteralNodeProto{Value: &pb.LiteralNodeProto_StringValue{StringValue: ""}})
	add("int", "intValue min", &pb.LiteralNodeProto{Value: &pb.LiteralNodeProto_IntValue{IntValue: math.MinInt64}})
	add("float", "floatValue NaN", &pb.LiteralNodeProto{Value: &pb.LiteralNodeProto_FloatValue{FloatValue: math.NaN()}})
	add("collection", "collection{}", &pb.LiteralNodeProto{Value: &pb.LiteralNodeProto_CollectionValue{CollectionValue: &pb.CollectionProto{}}})
	one := &pb.LiteralNodeProto{Value: &pb.LiteralNodeProto_IntValue{IntValue: 1}}
	add("collection", "collection{keys [1], values []}", &pb.LiteralNodeProto{Value: &pb.LiteralNodeProto_CollectionValue{CollectionValue: &pb.CollectionProto{Keys: []*pb.LiteralNodeProto{one}}}})
	add("collection", "collection{keys [], values [1]}", &pb.LiteralNodeProto{Value: &pb.LiteralNodeProto_CollectionValue{CollectionValue: &pb.CollectionProto{Values: []*pb.LiteralNodeProto{one}}}})
	add("collection", "collection{keys [literal{}], values [1]}", &pb.LiteralNodeProto{Value: &pb.LiteralNodeProto_CollectionValue{CollectionValue: &pb.CollectionProto{Keys: []*pb.LiteralNodeProto{{}}, Values: []*pb.LiteralNodeProto{one}}}})
	add("collection", "collection{keys [1], values [nil]}", &pb.LiteralNodeProto{Value: &pb.LiteralNodeProto_CollectionValue{CollectionValue: &pb.CollectionProto{Keys: []*pb.LiteralNodeProto{one}, Values: []*pb.LiteralNodeProto{{Value: &pb.LiteralNodeProto_NilValue{NilValue: true}}}}}})
	add("pair", "pair{}", &pb.LiteralNodeProto{Value: &pb.LiteralNodeProto_PairValue{PairValue: &pb.PairProto{}}})
	add("pair", "pair{1,1}", &pb.LiteralNodeProto{Value: &pb.LiteralNodeProto_PairValue{PairValue: &pb.PairProto{First: one, Second: one}}})
	add("feature", "feature{}", &pb.LiteralNodeProto{Value: &pb.LiteralNodeProto_FeatureValue{FeatureValue: &pb.FeatureProto{}}})
	add("feature", "feature{point{}}", &pb.LiteralNodeProto{Value: &pb.LiteralNodeProto_FeatureValue{FeatureValue: &pb.FeatureProto{Feature: &pb.FeatureProto_Point{Point: &pb.PointFeatureProto{}}}}})
	for _, q := range queryAtoms() {
		add("query:"+q.desc, "query "+q.desc, &pb.LiteralNodeProto{Value: &pb.LiteralNodeProto_QueryValue{QueryValue: q.q}})
	}
	add("featureID", "featureID{}", &pb.LiteralNodeProto{Value: &pb.LiteralNodeProto_FeatureIDValue{FeatureIDValue: &pb.FeatureIDProto{}}})
	add("featureID:type99", "featureID{type 99}", &pb.LiteralNodeProto{Value: &pb.LiteralNodeProto_FeatureIDValue{FeatureIDValue: &pb.FeatureIDProto{Type: pb.FeatureType(99), Namespace: "x", Value: 1}}})
	add("featureID:type-1", "featureID{type -1}", &pb.LiteralNodeProto{Value: &pb.LiteralNodeProto_FeatureIDValue{FeatureIDValue: &pb.FeatureIDProto{Type: pb.FeatureType(-1), Namespace: "x", Value: 1}}})
	add("point", "point{}", &pb.LiteralNodeProto{Value: &pb.LiteralNodeProto_PointValue{PointValue: &pb.PointProto{}}})
	add("point", "point{out of range}", &pb.LiteralNodeProto{Value: &pb.LiteralNodeProto_PointValue{PointValue: pt(2000000000, 2000000000)}})
	add("path", "path{}", &pb.LiteralNodeProto{Value: &pb.LiteralNodeProto_PathValue{PathValue: &pb.PolylineProto{}}})
	add("path", "path{1 point}", &pb.LiteralNodeProto{Value: &pb.LiteralNodeProto_PathValue{PathValue: &pb.PolylineProto{Points: []*pb.PointProto{pt(515000000, -1000000)}}}})
	add("area", "area{}", &pb.LiteralNodeProto{Value: &pb.LiteralNodeProto_AreaValue{AreaValue: &pb.MultiPolygonProto{}}})
	add("area", "area{[polygon{}]}", &pb.LiteralNodeProto{Value: &pb.LiteralNodeProto_AreaValue{AreaValue: &pb.MultiPolygonProto{Polygons: []*pb.PolygonProto{{}}}}})
	add("area", "area{[polygon{[loop{}]}]}", &pb.LiteralNodeProto{Value: &pb.LiteralNodeProto_AreaValue{AreaValue: &pb.MultiPolygonProto{Polygons: []*pb.PolygonProto{{Loops: []*pb.LoopProto{{}}}}}}})
	add("area", "area{loop of 2 points}", &pb.LiteralNodeProto{Value: &pb.LiteralNodeProto_AreaValue{AreaValue: &pb.MultiPolygonProto{Polygons: []*pb.PolygonProto{{Loops: []*pb.LoopProto{{Points: []*pb.PointProto{pt(515000000, -1000000), pt(515004000, -993000)}}}}}}}})
	add("appliedChange", "appliedChange{}", &pb.LiteralNodeProto{Value: &pb.LiteralNodeProto_AppliedChangeValue{AppliedChangeValue: &pb.AppliedChangeProto{}}})
	add("geojson", "geoJSON empty bytes", &pb.LiteralNodeProto{Value: &pb.LiteralNodeProto_GeoJSONValue{GeoJSONValue: nil}})
	add("geojson", "geoJSON not gzip", &pb.LiteralNodeProto{Value: &pb.LiteralNodeProto_GeoJSONValue{GeoJSONValue: []byte("{}")}})
	add("geojson", "geoJSON gzipped point", &pb.LiteralNodeProto{Value: &pb.LiteralNodeProto_GeoJSONValue{GeoJSONValue: gz([]byte(geoJSONPoint))}})
	add("tag", "tag{}", &pb.LiteralNodeProto{Value: &pb.LiteralNodeProto_TagValue{TagValue: &pb.TagProto{}}})
	add("route", "route{}", &pb.LiteralNodeProto{Value: &pb.LiteralNodeProto_RouteValue{RouteValue: &pb.RouteProto{}}})
	add("route", "route{steps [step{}]}", &pb.LiteralNodeProto{Value: &pb.LiteralNodeProto_RouteValue{RouteValue: &pb.RouteProto{Steps: []*pb.StepProto{{}}}}})
	add("route:type99", "route{origin type 99}", &pb.LiteralNodeProto{Value: &pb.LiteralNodeProto_RouteValue{RouteValue: &pb.RouteProto{Origin: &pb.FeatureIDProto{Type: pb.FeatureType(99)}}}})
	return out
}

func nodeAtoms(thorough bool) []atom {
	var out []atom
	add := func(kind, desc string, n *pb.NodeProto) { out = append(out, atom{kind: kind, desc: desc, node: n}) }
	one := litNode(&pb.LiteralNodeProto{Value: &pb.LiteralNodeProto_IntValue{IntValue: 1}})
	two := litNode(&pb.LiteralNodeProto{Value: &pb.LiteralNodeProto_IntValue{IntValue: 2}})
	lambda := func(n *pb.NodeProto, args ...string) *pb.NodeProto {
		return &pb.NodeProto{Node: &pb.NodeProto_Lambda_{Lambda_: &pb.LambdaNodeProto{Args: args, Node: n}}}
	}
	add("node-unset", "node{}", &pb.NodeProto{})
	add("symbol", "symbol ''", symProto(""))
	add("symbol", "symbol undefined", symProto("no-such-function"))
	add("symbol", "symbol top", symProto("top"))
	add("call-unset", "call{} (no function)", &pb.NodeProto{Node: &pb.NodeProto_Call{Call: &pb.CallNodeProto{}}})
	add("call-unset", "call{function unset, args [1]}", &pb.NodeProto{Node: &pb.NodeProto_Call{Call: &pb.CallNodeProto{Args: []*pb.NodeProto{one}}}})
	add("call-node-unset", "call{function node{}}", callProto(&pb.NodeProto{}))
	add("call-arg-unset", "(count node{})", callProto(symProto("count"), &pb.NodeProto{}))
	add("call-literal", "(1 2)", callProto(one, two))
	add("call-literal", "(1)", callProto(one))
	add("call-lambda", "({x -> x} 1)", callProto(lambda(symProto("x"), "x"), one))
	add("call-lambda", "({-> 1})", callProto(lambda(one)))
	add("call-lambda", "({x y -> x} 1)", callProto(lambda(symProto("x"), "x", "y"), one))
	add("call-lambda", "({x -> x} 1 2)", callProto(lambda(symProto("x"), "x"), one, two))
	add("call-call", "((add 1) 2)", callProto(callProto(symProto("add"), one), two))
	add("call-call", "((add 1 2) 3)", callProto(callProto(symProto("add"), one, two), one))
	add("call-pipelined", "(add 1 2) pipelined", &pb.NodeProto{Node: &pb.NodeProto_Call{Call: &pb.CallNodeProto{Function: symProto("add"), Args: []*pb.NodeProto{one, two}, Pipelined: true}}})
	add("lambda-unset", "lambda{} (no body)", &pb.NodeProto{Node: &pb.NodeProto_Lambda_{Lambda_: &pb.LambdaNodeProto{}}})
	add("lambda-unset", "lambda{args [x], body unset}", &pb.NodeProto{Node: &pb.NodeProto_Lambda_{Lambda_: &pb.LambdaNodeProto{Args: []string{"x"}}}})
	add("lambda-body-unset", "{x -> node{}}", lambda(&pb.NodeProto{}, "x"))
	add("lambda", "{x -> x}", lambda(symProto("x"), "x"))
	add("lambda", "{x x -> x}", lambda(symProto("x"), "x", "x"))
	add("lambda-unbound", "{x -> y}", lambda(symProto("y"), "x"))
	add("lambda-nested", "{x -> {y -> x}}", lambda(lambda(symProto("x"), "y"), "x"))
	add("lambda-nested", "(map ints {x -> (map ints {y -> add x y})})", callProto(symProto("map"), intsProto(), lambda(callProto(symProto("map"), intsProto(), lambda(callProto(symProto("add"), symProto("x"), symProto("y")), "y")), "x")))
	add("lambda-shadow", "(call {add -> add 1 2} 3)", callProto(symProto("call"), lambda(callProto(symProto("add"), one, two), "add"), one))
	// many arguments: the VM has MaxArgs = 32 argument slots
	for _, n := range []int{32, 33, 40} {
		var names []string
		var args []*pb.NodeProto
		for i := 0; i < n; i++ {
			names = append(names, fmt.Sprintf("a%d", i))
			args = append(args, one)
		}
		add("many-args", fmt.Sprintf("(call {a0..a%d -> a0} 1 x%d)", n-1, n), callProto(symProto("call"), append([]*pb.NodeProto{lambda(symProto("a0"), names...)}, args...)...))
		add("many-args", fmt.Sprintf("({a0..a%d -> a0} 1 x%d)", n-1, n), callProto(lambda(symProto("a0"), names...), args...))
		add("many-args", fmt.Sprintf("(add 1 x%d)", n), callProto(symProto("add"), args...))
		add("many-args", fmt.Sprintf("(collection 1 x%d)", n), callProto(symProto("collection"), args...))
		add("many-args", fmt.Sprintf("(call first 1 x%d)", n), callProto(symProto("call"), append([]*pb.NodeProto{symProto("first")}, args...)...))
		// n nested single-argument lambdas, each bound and called through map
		var nest func(d int) *pb.NodeProto
		nest = func(d int) *pb.NodeProto {
			if d == 0 {
				return symProto("v0")
			}
			return callProto(symProto("call"), lambda(nest(d-1), fmt.Sprintf("v%d", d-1)), one)
		}
		add("many-lambdas", fmt.Sprintf("%d nested (call {v -> ..} 1)", n), nest(n))
	}
	// deep nesting
	for _, d := range []int{100, 2000} {
		if d > 100 && !thorough {
			continue
		}
		n := one
		for i := 0; i < d; i++ {
			n = callProto(symProto("first"), callProto(symProto("pair"), n, one))
		}
		add("deep", fmt.Sprintf("first(pair(..)) nested %d deep", d), n)
		l := one
		for i := 0; i < d; i++ {
			l = lambda(l, "x")
		}
		add("deep", fmt.Sprintf("{x -> {x -> ..}} nested %d deep", d), l)
	}
	return out
}

// contexts in which every atom is placed; fn is the function called with the
// atom as an argument ("vm" when the atom is not an argument of a function)
type placement struct {
	fn   string
	desc string
	node *pb.NodeProto
}

func placements(a atom) []placement {
	one := litNode(&pb.LiteralNodeProto{Value: &pb.LiteralNodeProto_IntValue{IntValue: 1}})
	n := a.node
	lambda := func(body *pb.NodeProto) *pb.NodeProto {
		return &pb.NodeProto{Node: &pb.NodeProto_Lambda_{Lambda_: &pb.LambdaNodeProto{Args: []string{"x"}, Node: body}}}
	}
	out := []placement{
		{"vm", a.desc, n},
		{"count", "(count " + a.desc + ")", callProto(symProto("count"), n)},
		{"find", "(find " + a.desc + ")", callProto(symProto("find"), n)},
		{"find-feature", "(find-feature " + a.desc + ")", callProto(symProto("find-feature"), n)},
		{"pair", "(pair 1 " + a.desc + ")", callProto(symProto("pair"), one, n)},
		{"vm", "(" + a.desc + " 1)", callProto(n, one)},
		{"vm", "{x -> " + a.desc + "}", lambda(n)},
		{"map", "(map ints {x -> " + a.desc + "})", callProto(symProto("map"), intsProto(), lambda(n))},
		{"map", "(map ints " + a.desc + ")", callProto(symProto("map"), intsProto(), n)},
		{"to-geojson", "(to-geojson " + a.desc + ")", callProto(symProto("to-geojson"), n)},
		{"snap-area-edges", "(snap-area-edges " + a.desc + " [#highway] 10.0)", callProto(symProto("snap-area-edges"), n, mk("q", eQ(qHighway)).p, mk("f", eF(10)).p)},
		{"matches", "(matches /n/5 " + a.desc + ")", callProto(symProto("matches"), mk("id", eID(idN5)).p, n)},
	}
	if a.lit != nil {
		one := &pb.LiteralNodeProto{Value: &pb.LiteralNodeProto_IntValue{IntValue: 1}}
		out = append(out,
			placement{"vm", "collection{1: " + a.desc + "}", litNode(&pb.LiteralNodeProto{Value: &pb.LiteralNodeProto_CollectionValue{CollectionValue: &pb.CollectionProto{Keys: []*pb.LiteralNodeProto{one}, Values: []*pb.LiteralNodeProto{a.lit}}}})},
			placement{"count", "(count collection{" + a.desc + ": 1})", callProto(symProto("count"), litNode(&pb.LiteralNodeProto{Value: &pb.LiteralNodeProto_CollectionValue{CollectionValue: &pb.CollectionProto{Keys: []*pb.LiteralNodeProto{a.lit}, Values: []*pb.LiteralNodeProto{one}}}}))},
		)
	}
	return out
}

func intsProto() *pb.NodeProto { return mk("ints", ints).p }

func protoCases(thorough bool) []caseT {
	var out []caseT
	atoms := append(literalAtoms(thorough), nodeAtoms(thorough)...)
	for _, a := range atoms {
		for _, p := range placements(a) {
			out = append(out, caseT{part: "c", name: p.fn, what: p.desc, req: request(p.node), alone: a.node})
		}
	}
	// request-level
	one := litNode(&pb.LiteralNodeProto{Value: &pb.LiteralNodeProto_IntValue{IntValue: 1}})
	reqs := []struct {
		desc string
		r    *pb.EvaluateRequestProto
	}{
		{"request{} (no expression, no version)", &pb.EvaluateRequestProto{}},
		{"request{version only}", &pb.EvaluateRequestProto{Version: b6.ApiVersion}},
		{"request{version ''}", &pb.EvaluateRequestProto{Request: one}},
		{"request{version garbage}", &pb.EvaluateRequestProto{Request: one, Version: "not-a-version"}},
		{"request{version 999.0.0}", &pb.EvaluateRequestProto{Request: one, Version: "999.0.0"}},
		{"request{root type 99}", &pb.EvaluateRequestProto{Request: one, Version: b6.ApiVersion, Root: &pb.FeatureIDProto{Type: pb.FeatureType(99), Namespace: "x", Value: 1}}},
		{"request{root other world}", &pb.EvaluateRequestProto{Request: one, Version: b6.ApiVersion, Root: b6.NewProtoFromFeatureID(idC99)}},
		{"request{root {}}", &pb.EvaluateRequestProto{Request: one, Version: b6.ApiVersion, Root: &pb.FeatureIDProto{}}},
	}
	for _, r := range reqs {
		out = append(out, caseT{part: "c", name: "vm", what: r.desc, req: r.r})
	}
	return out
}

// protoCaseCount is the number of part (c) cases without materialising the
// (large) deep-nesting messages: it only depends on the atom lists' lengths.
func protoCaseCount(thorough bool) int {
	return len(protoCases(thorough))
}
