package main

import (
	"sync"

	"diagonal.works/b6"
	"diagonal.works/b6/ingest"
	"github.com/golang/geo/s2"
)

// The small world every request is evaluated against: a 3x2 grid of points
// ~50 m apart, three connected highways, one building area made of a closed
// path, a relation, a collection feature and an expression feature. It is
// built through the production path (ingest.NewWorldFromSource) and wrapped
// in a fresh MutableOverlayWorld / MutableWorlds per evaluation, so no case
// observes the changes applied by another.

func fid(t b6.FeatureType, ns b6.Namespace, v uint64) b6.FeatureID {
	return b6.FeatureID{Type: t, Namespace: ns, Value: v}
}

var (
	idN1   = fid(b6.FeatureTypePoint, b6.NamespaceOSMNode, 1)
	idN5   = fid(b6.FeatureTypePoint, b6.NamespaceOSMNode, 5)
	idN7   = fid(b6.FeatureTypePoint, b6.NamespaceOSMNode, 7)
	idN99  = fid(b6.FeatureTypePoint, b6.NamespaceOSMNode, 99) // absent
	idW10  = fid(b6.FeatureTypePath, b6.NamespaceOSMWay, 10)
	idW12  = fid(b6.FeatureTypePath, b6.NamespaceOSMWay, 12)
	idW13  = fid(b6.FeatureTypePath, b6.NamespaceOSMWay, 13)
	idA13  = fid(b6.FeatureTypeArea, b6.NamespaceOSMWay, 13)
	idA99  = fid(b6.FeatureTypeArea, b6.NamespaceOSMWay, 99) // absent
	idR20  = fid(b6.FeatureTypeRelation, b6.NamespaceOSMRelation, 20)
	idR99  = fid(b6.FeatureTypeRelation, b6.NamespaceOSMRelation, 99) // absent
	idC1   = fid(b6.FeatureTypeCollection, "diagonal.works/test", 1)
	idC99  = fid(b6.FeatureTypeCollection, "diagonal.works/test", 99) // absent
	idE2   = fid(b6.FeatureTypeExpression, "diagonal.works/test", 2)
	idBad  = b6.FeatureIDInvalid
	idNewP = fid(b6.FeatureTypePoint, "diagonal.works/test", 1000) // absent, used as the id of added features
)

func st(k, v string) b6.Tag { return b6.Tag{Key: k, Value: b6.NewStringExpression(v)} }

func wPoint(id uint64, lat, lng float64, tags ...b6.Tag) ingest.Feature {
	f := &ingest.GenericFeature{ID: fid(b6.FeatureTypePoint, b6.NamespaceOSMNode, id)}
	f.Tags = append(f.Tags, b6.Tag{Key: b6.PointTag, Value: b6.NewPointExpressionFromLatLng(s2.LatLngFromDegrees(lat, lng))})
	f.Tags = append(f.Tags, tags...)
	return f
}

func wPath(id uint64, pts []uint64, tags ...b6.Tag) ingest.Feature {
	f := &ingest.GenericFeature{ID: fid(b6.FeatureTypePath, b6.NamespaceOSMWay, id)}
	var es []b6.AnyExpression
	for _, p := range pts {
		es = append(es, b6.FeatureIDExpression(fid(b6.FeatureTypePoint, b6.NamespaceOSMNode, p)))
	}
	f.Tags = append(f.Tags, b6.Tag{Key: b6.PathTag, Value: b6.NewExpressions(es)})
	f.Tags = append(f.Tags, tags...)
	return f
}

func buildSmallWorld() b6.World {
	var fs ingest.MemoryFeatureSource
	fs = append(fs,
		wPoint(1, 51.5000, -0.1000), wPoint(2, 51.5000, -0.0993), wPoint(3, 51.5000, -0.0986),
		wPoint(4, 51.5004, -0.1000), wPoint(5, 51.5004, -0.0993, st("#amenity", "cafe"), st("name", "Five")), wPoint(6, 51.5004, -0.0986),
		wPoint(7, 51.5010, -0.1000, st("#entrance", "main")))
	fs = append(fs, wPath(10, []uint64{1, 2, 3}, st("#highway", "residential"), st("name", "Low Street")))
	fs = append(fs, wPath(11, []uint64{2, 5}, st("#highway", "footway")))
	fs = append(fs, wPath(12, []uint64{4, 5, 6}, st("#highway", "primary"), st("maxspeed", "30")))
	fs = append(fs, wPath(13, []uint64{1, 2, 5, 4, 1}))
	a := ingest.NewAreaFeature(1)
	a.AreaID = idA13.ToAreaID()
	a.SetPathIDs(0, []b6.FeatureID{idW13})
	a.Tags = b6.Tags{st("#building", "yes"), st("building:levels", "3")}
	fs = append(fs, a)
	r := ingest.NewRelationFeature(2)
	r.RelationID = idR20.ToRelationID()
	r.Members[0] = b6.RelationMember{ID: idW10, Role: "forward"}
	r.Members[1] = b6.RelationMember{ID: idW12}
	r.Tags = b6.Tags{st("#route", "bus")}
	fs = append(fs, r)
	c := &ingest.CollectionFeature{CollectionID: idC1.ToCollectionID(),
		Keys: []interface{}{"a", "b"}, Values: []interface{}{1, 2}, Tags: b6.Tags{st("b6", "collection")}}
	fs = append(fs, c)
	e := &ingest.GenericFeature{ID: idE2}
	e.Tags = b6.Tags{{Key: b6.ExpressionTag, Value: b6.NewCallExpression(b6.NewSymbolExpression("add"), []b6.Expression{b6.NewIntExpression(1), b6.NewIntExpression(2)})}}
	fs = append(fs, e)
	w, err := ingest.NewWorldFromSource(fs, &ingest.BuildOptions{Cores: 1, FailInvalidFeatures: true})
	if err != nil {
		panic("harness: building the small world failed: " + err.Error())
	}
	return w
}

var (
	worldOnce  sync.Once
	smallWorld b6.World
)

// baseWorld returns the immutable base for world variant v (0 = small world,
// 1 = empty world).
func baseWorld(v int) b6.World {
	if v == 1 {
		return b6.EmptyWorld{}
	}
	worldOnce.Do(func() { smallWorld = buildSmallWorld() })
	return smallWorld
}
