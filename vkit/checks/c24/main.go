// C24 — collection functions compute what their documentation says.
//
// Engine E1 (bounded-exhaustive input enumeration). Every list of (key,
// value) items up to a length bound over small typed alphabets (ints, floats,
// strings, feature IDs; duplicates and ties included) is turned into a b6
// collection — once as a collection literal and once through the `collection`
// function — and passed through api.Evaluate to every collection function with
// every count argument in {-2..len+1} and a menu of lambdas. The result is
// iterated (twice) and compared with a list-based reference written from the
// doc strings; whenever the returned collection reports Count() ok, the
// iteration must yield exactly that many items (also observed through the
// `count` function). ingest.CollectionFeature.FindValue(s) is compared with a
// linear scan for sorted and unsorted features, directly and through a world.
package main

import (
	"fmt"
	"reflect"
	"sort"
	"strings"

	"diagonal.works/b6"
	"diagonal.works/b6/api"
	"diagonal.works/b6/api/functions"
	"diagonal.works/b6/ingest"
	"verif/kit"
)

// ---------- items, lists, alphabets ----------

type item struct{ k, v interface{} }

type profile struct {
	name   string
	keys   []interface{}
	values []interface{}
	absent interface{} // a key of the key type that never occurs
	mid    interface{} // threshold for the gt predicate (nil: not ordered by gt)
}

func id(n uint64) b6.FeatureID {
	return b6.FeatureID{Type: b6.FeatureTypePoint, Namespace: "diagonal.works/test", Value: n}
}

func profiles(thorough bool) []profile {
	nv := 2
	if thorough {
		nv = 3
	}
	return []profile{
		{name: "int->int", keys: []interface{}{0, 1, 2}, values: []interface{}{1, 2, 3}[:nv], absent: 7, mid: 1},
		{name: "string->float", keys: []interface{}{"a", "b", "c"}, values: []interface{}{0.5, 1.5, 2.5}[:nv], absent: "zz", mid: 1.0},
		{name: "id->string", keys: []interface{}{id(1), id(2), id(3)}, values: []interface{}{"x", "y", "z"}[:nv], absent: id(9), mid: "x"},
		{name: "int->id", keys: []interface{}{0, 1, 2}, values: []interface{}{id(1), id(2), id(3)}[:nv], absent: -1},
		{name: "float->int", keys: []interface{}{0.5, 1.5}, values: []interface{}{1, 2, 3}[:nv], absent: 9.5, mid: 2},
	}
}

func (p profile) items() []item {
	var out []item
	for _, k := range p.keys {
		for _, v := range p.values {
			out = append(out, item{k, v})
		}
	}
	return out
}

// list number i (shortest first) over n items with length <= maxLen
func listCount(n, maxLen int) int64 {
	t, p := int64(0), int64(1)
	for l := 0; l <= maxLen; l++ {
		t += p
		p *= int64(n)
	}
	return t
}

func listAt(items []item, i int64) []item {
	n := int64(len(items))
	l, p := 0, int64(1)
	for i >= p {
		i -= p
		p *= n
		l++
	}
	out := make([]item, l)
	for j := l - 1; j >= 0; j-- {
		out[j] = items[i%n]
		i /= n
	}
	return out
}

func showV(v interface{}) string {
	switch x := v.(type) {
	case b6.FeatureID:
		return fmt.Sprintf("id%d", x.Value)
	case string:
		return fmt.Sprintf("%q", x)
	case float64:
		return fmt.Sprintf("%.1f", x)
	case api.Pair:
		return "(" + showV(x.First()) + "," + showV(x.Second()) + ")"
	case b6.UntypedCollection:
		l, _ := drain(x)
		return show(l)
	}
	return fmt.Sprintf("%v", v)
}

func show(l []item) string {
	var s []string
	for _, it := range l {
		s = append(s, showV(it.k)+": "+showV(it.v))
	}
	return "{" + strings.Join(s, ", ") + "}"
}

// ---------- expressions ----------

func sym(s string) b6.Expression { return b6.NewSymbolExpression(s) }
func call(f string, args ...b6.Expression) b6.Expression {
	return b6.NewCallExpression(sym(f), args)
}
func lam(body b6.Expression, args ...string) b6.Expression {
	return b6.NewLambdaExpression(args, body)
}
func lit(v interface{}) b6.Expression {
	l, err := b6.FromLiteral(v)
	if err != nil {
		panic("harness: " + err.Error())
	}
	return b6.Expression{AnyExpression: l.AnyLiteral}
}

// the two ways a client builds a collection
func collLiteral(l []item) b6.Expression {
	c := b6.ArrayCollection[any, any]{Keys: []any{}, Values: []any{}}
	for _, it := range l {
		c.Keys = append(c.Keys, it.k)
		c.Values = append(c.Values, it.v)
	}
	return b6.NewCollectionExpression(c.Collection())
}

func collPairs(l []item) b6.Expression {
	var args []b6.Expression
	for _, it := range l {
		args = append(args, call("pair", lit(it.k), lit(it.v)))
	}
	return call("collection", args...)
}

// ---------- evaluation & observation ----------

func drain(c b6.UntypedCollection) ([]item, error) {
	var out []item
	i := c.BeginUntyped()
	for {
		ok, err := i.Next()
		if err != nil {
			return out, err
		}
		if !ok {
			return out, nil
		}
		out = append(out, item{i.Key(), i.Value()})
		if len(out) > 100000 {
			return out, fmt.Errorf("harness: more than 100000 items")
		}
	}
}

type observed struct {
	items   []item
	isColl  bool
	value   interface{}
	err     error // evaluation or iteration error
	panicCl string
	panicM  string
	count   int
	countOK bool
	second  []item // second iteration
	err2    error
}

func evaluate(e b6.Expression) observed {
	var o observed
	o.panicCl, o.panicM = kit.Catch(func() {
		v, err := api.Evaluate(e, functions.NewContext(b6.EmptyWorld{}))
		if err != nil {
			o.err = err
			return
		}
		o.value = v
		if c, ok := v.(b6.UntypedCollection); ok {
			o.isColl = true
			o.count, o.countOK = c.Count()
			o.items, o.err = drain(c)
			if o.err == nil {
				o.second, o.err2 = drain(c)
			}
		}
	})
	return o
}

func same(a, b interface{}) bool {
	if ca, ok := a.(b6.UntypedCollection); ok {
		cb, ok := b.(b6.UntypedCollection)
		if !ok {
			return false
		}
		la, ea := drain(ca)
		lb, eb := drain(cb)
		return ea == nil && eb == nil && sameList(la, lb)
	}
	if pa, ok := a.(api.Pair); ok {
		pb, ok := b.(api.Pair)
		return ok && same(pa.First(), pb.First()) && same(pa.Second(), pb.Second())
	}
	return reflect.DeepEqual(a, b)
}

func sameList(a, b []item) bool {
	if len(a) != len(b) {
		return false
	}
	for i := range a {
		if !same(a[i].k, b[i].k) || !same(a[i].v, b[i].v) {
			return false
		}
	}
	return true
}

// sameBag: equal as multisets of items
func sameBag(a, b []item) bool {
	if len(a) != len(b) {
		return false
	}
	used := make([]bool, len(b))
outer:
	for _, x := range a {
		for j, y := range b {
			if !used[j] && same(x.k, y.k) && same(x.v, y.v) {
				used[j] = true
				continue outer
			}
		}
		return false
	}
	return true
}

// subBag: a is a sub-multiset of b
func subBag(a, b []item) bool {
	used := make([]bool, len(b))
outer:
	for _, x := range a {
		for j, y := range b {
			if !used[j] && same(x.k, y.k) && same(x.v, y.v) {
				used[j] = true
				continue outer
			}
		}
		return false
	}
	return true
}

// ---------- the checker ----------

type checker struct {
	r     *kit.Result
	input string
}

// reported limits the violations emitted by one worker process to one per
// class: the kit keeps at most 2000 violations in total, and a single defect
// (take's negative Count) is hit by thousands of sub-cases, which would crowd
// out every other class. The true number per class is kept in the counters.
var reported = map[string]bool{}

func (c *checker) violate(class, format string, a ...interface{}) {
	c.r.Count("violations:"+class, 1)
	if reported[class] {
		return
	}
	reported[class] = true
	c.r.Violate(class, format, a...)
}

type expect struct {
	list    []item
	ordered bool                // compare as list (else as multiset)
	isErr   bool                // an error (not a value, not a panic) is required
	custom  func([]item) string // extra acceptance test ("" = ok); replaces list comparison when set
	// the expression wraps (take x n) with n < 0, whose wrong Count() is reported
	// under take; map/map-items only forward it, so it is not reported again
	inheritsCount bool
}

// check evaluates e and compares with the expectation. fn names the function
// under test for the violation class.
func (c *checker) check(fn, what string, e b6.Expression, want expect) {
	c.r.Evals++
	o := evaluate(e)
	desc := fmt.Sprintf("%s on %s", what, c.input)
	switch {
	case o.panicCl != "":
		c.r.AddOutcome(fn + ":panic")
		c.violate(fn+":"+o.panicCl, "%s panicked: %s", desc, o.panicM)
		return
	case want.isErr:
		if o.err == nil {
			c.r.AddOutcome(fn + ":missing-error")
			c.violate(fn+":missing-error", "%s returned %s, the documentation requires an error", desc, show(o.items))
			return
		}
		c.r.AddOutcome(fn + ":error-as-documented")
		return
	case o.err != nil:
		c.r.AddOutcome(fn + ":unexpected-error")
		c.violate(fn+":unexpected-error", "%s failed with %q, want %s", desc, o.err, show(want.list))
		return
	case !o.isColl:
		c.violate(fn+":not-a-collection", "%s returned %T", desc, o.value)
		return
	}
	if len(want.list) > 0 {
		c.r.Distinct++
	}
	c.r.AddOutcome(fmt.Sprintf("%s:ok:len%d", fn, len(o.items)))
	ok := true
	if want.custom != nil {
		if m := want.custom(o.items); m != "" {
			ok = false
			c.violate(fn+":wrong-result", "%s returned %s: %s", desc, show(o.items), m)
		}
	} else if want.ordered && !sameList(o.items, want.list) || !want.ordered && !sameBag(o.items, want.list) {
		ok = false
		c.violate(fn+":wrong-result", "%s returned %s, want %s", desc, show(o.items), show(want.list))
	}
	countWrong := o.countOK && o.count != len(o.items)
	if countWrong && !want.inheritsCount {
		c.violate(fn+":count-mismatch", "%s: Count() reports (%d, true) but iterating yields %d items %s", desc, o.count, len(o.items), show(o.items))
	}
	if o.countOK {
		c.r.Count("count-reported", 1)
	}
	if ok && (o.err2 != nil || (want.ordered && !sameList(o.items, o.second)) || (!want.ordered && !sameBag(o.items, o.second))) {
		c.violate(fn+":second-iteration-differs", "%s: first iteration %s, second iteration %s (err %v)", desc, show(o.items), show(o.second), o.err2)
	}
	// the same collection observed through the `count` function
	if ok && !countWrong {
		c.r.Evals++
		oc := evaluate(call("count", e))
		switch {
		case oc.panicCl != "":
			c.violate(fn+":count-fn:"+oc.panicCl, "(count %s) panicked: %s", desc, oc.panicM)
		case oc.err != nil:
			c.violate(fn+":count-fn-error", "(count %s) failed: %v", desc, oc.err)
		default:
			if n, isInt := oc.value.(int); !isInt || n != len(o.items) {
				c.violate(fn+":count-fn-mismatch", "(count %s) = %v but the collection has %d items %s", desc, oc.value, len(o.items), show(o.items))
			}
		}
	}
}

// ---------- reference definitions (from the doc strings) ----------

func clampN(n, l int) int {
	if n < 0 {
		return 0
	}
	if n > l {
		return l
	}
	return n
}

// "Return a collection with the first n entries of the given collection."
func refTake(l []item, n int) []item { return append([]item{}, l[:clampN(n, len(l))]...) }

func less(a, b interface{}) bool {
	switch x := a.(type) {
	case int:
		return x < b.(int)
	case float64:
		return x < b.(float64)
	case string:
		return x < b.(string)
	case b6.FeatureID:
		return x.Less(b.(b6.FeatureID))
	}
	panic("harness: unordered type")
}

// "Return a collection with the n entries from the given collection with the
// greatest values." Ties make the selection ambiguous: accept any n entries
// of the input whose values are the n greatest values (as multisets).
func acceptTop(l []item, n int) func([]item) string {
	return func(got []item) string {
		m := clampN(n, len(l))
		if len(got) != m {
			return fmt.Sprintf("want %d entries", m)
		}
		if !subBag(got, l) {
			return "not a sub-multiset of the input entries"
		}
		vs := make([]interface{}, len(l))
		for i := range l {
			vs[i] = l[i].v
		}
		sort.Slice(vs, func(i, j int) bool { return less(vs[j], vs[i]) })
		gv := make([]interface{}, len(got))
		for i := range got {
			gv[i] = got[i].v
		}
		sort.Slice(gv, func(i, j int) bool { return less(gv[j], gv[i]) })
		for i := range gv {
			if !same(gv[i], vs[i]) {
				return fmt.Sprintf("values are not the %d greatest %v", m, vs[:m])
			}
		}
		return ""
	}
}

func isNumeric(v interface{}) bool {
	switch v.(type) {
	case int, float64:
		return true
	}
	return false
}

func isInt(v interface{}) bool { _, ok := v.(int); return ok }

// grouped counts/sums keyed by an arbitrary comparable value, in first-seen order
func groupBy(l []item, key func(item) interface{}, val func(item) int) []item {
	var out []item
	for _, it := range l {
		k := key(it)
		found := false
		for j := range out {
			if same(out[j].k, k) {
				out[j].v = out[j].v.(int) + val(it)
				found = true
			}
		}
		if !found {
			out = append(out, item{k, val(it)})
		}
	}
	return out
}

type fnV struct {
	name string
	e    b6.Expression
	f    func(v interface{}) interface{}
}

// ---------- one input list through every function ----------

func (c *checker) runList(p profile, l []item, thorough bool) {
	numeric := len(p.values) > 0 && isNumeric(p.values[0])
	ints := len(p.values) > 0 && isInt(p.values[0])
	for ci, mkColl := range []func([]item) b6.Expression{collLiteral, collPairs} {
		cn := []string{"literal", "(collection pairs..)"}[ci]
		in := func() b6.Expression { return mkColl(l) }

		// collection: "Return a collection of the given key value pairs."
		if ci == 1 {
			c.check("collection", "(collection pairs..)", in(), expect{list: l, ordered: true})
		}

		// take / top with every count in -2..len+1
		for n := -2; n <= len(l)+1; n++ {
			c.check("take", fmt.Sprintf("(take %s %d)", cn, n), call("take", in(), lit(n)), expect{list: refTake(l, n), ordered: true})
			if numeric || len(l) == 0 {
				c.check("top", fmt.Sprintf("(top %s %d)", cn, n), call("top", in(), lit(n)), expect{custom: acceptTop(l, n), list: refTake(l, n)})
			} else {
				// "Requires the values of the given collection to be integers or floats."
				c.check("top", fmt.Sprintf("(top %s %d)", cn, n), call("top", in(), lit(n)), expect{isErr: true})
			}
		}

		// filter: "items ... for which the value of the given function applied to each value is true"
		preds := []struct {
			name string
			e    b6.Expression
			f    func(v interface{}) bool
		}{
			{"{v -> true}", lam(lit(true), "v"), func(interface{}) bool { return true }},
			{"{v -> false}", lam(lit(false), "v"), func(interface{}) bool { return false }},
		}
		if p.mid != nil && numeric {
			mid := p.values[0]
			preds = append(preds, struct {
				name string
				e    b6.Expression
				f    func(v interface{}) bool
			}{fmt.Sprintf("{v -> gt v %v}", showV(mid)), lam(call("gt", sym("v"), lit(mid)), "v"), func(v interface{}) bool { return less(mid, v) }})
		}
		for _, pr := range preds {
			var want []item
			for _, it := range l {
				if pr.f(it.v) {
					want = append(want, it)
				}
			}
			c.check("filter", fmt.Sprintf("(filter %s %s)", cn, pr.name), call("filter", in(), pr.e), expect{list: want, ordered: true})
		}

		// map: "the result of applying the given function to each value. Keys are unmodified."
		fns := []fnV{
			{"{v -> v}", lam(sym("v"), "v"), func(v interface{}) interface{} { return v }},
			{"{v -> 7}", lam(lit(7), "v"), func(interface{}) interface{} { return 7 }},
			{"{v -> pair v 0}", lam(call("pair", sym("v"), lit(0)), "v"), func(v interface{}) interface{} { return api.AnyAnyPair{v, 0} }},
		}
		if ints {
			fns = append(fns, fnV{"{v -> add-ints v 1}", lam(call("add-ints", sym("v"), lit(1)), "v"), func(v interface{}) interface{} { return v.(int) + 1 }})
			fns = append(fns, fnV{"to-str", sym("to-str"), func(v interface{}) interface{} { return fmt.Sprint(v.(int)) }})
		}
		for _, f := range fns {
			var want []item
			for _, it := range l {
				want = append(want, item{it.k, f.f(it.v)})
			}
			c.check("map", fmt.Sprintf("(map %s %s)", cn, f.name), call("map", in(), f.e), expect{list: want, ordered: true})
		}

		// map-items: "the result of applying the given function to each pair(key, value)": the
		// returned pair is the new (key, value) (TestMapItems; the doc's "Keys are unmodified" is
		// only true of functions that return the key as the first element).
		ifs := []struct {
			name string
			e    b6.Expression
			f    func(it item) item
		}{
			{"{p -> p}", lam(sym("p"), "p"), func(it item) item { return it }},
			{"{p -> pair (second p) (first p)}", lam(call("pair", call("second", sym("p")), call("first", sym("p"))), "p"), func(it item) item { return item{it.v, it.k} }},
			{"{p -> pair (first p) 1}", lam(call("pair", call("first", sym("p")), lit(1)), "p"), func(it item) item { return item{it.k, 1} }},
		}
		for _, f := range ifs {
			var want []item
			for _, it := range l {
				want = append(want, f.f(it))
			}
			c.check("map-items", fmt.Sprintf("(map-items %s %s)", cn, f.name), call("map-items", in(), f.e), expect{list: want, ordered: true})
		}

		// sum-by-key: "summing the values of each item with the same key. Requires values to be integers."
		if ints || len(l) == 0 {
			c.check("sum-by-key", fmt.Sprintf("(sum-by-key %s)", cn), call("sum-by-key", in()),
				expect{list: groupBy(l, func(it item) interface{} { return it.k }, func(it item) int { return it.v.(int) })})
		} else {
			c.check("sum-by-key", fmt.Sprintf("(sum-by-key %s)", cn), call("sum-by-key", in()), expect{isErr: true})
		}
		// count-values: "the number of occurances of each value"
		c.check("count-values", fmt.Sprintf("(count-values %s)", cn), call("count-values", in()),
			expect{list: groupBy(l, func(it item) interface{} { return it.v }, func(item) int { return 1 })})
		// count-keys: the number of occurrences of each key (TestCountKeys; the doc string is a copy of count-values')
		c.check("count-keys", fmt.Sprintf("(count-keys %s)", cn), call("count-keys", in()),
			expect{list: groupBy(l, func(it item) interface{} { return it.k }, func(item) int { return 1 })})

		// depth-2: take around / inside the lazy collections
		for n := -2; n <= len(l)+1; n++ {
			for m := -1; m <= len(l)+1; m++ {
				if !thorough && m != -1 && m != 1 && m != len(l) {
					continue
				}
				c.check("take", fmt.Sprintf("(take (take %s %d) %d)", cn, m, n), call("take", call("take", in(), lit(m)), lit(n)), expect{list: refTake(refTake(l, m), n), ordered: true})
			}
			c.check("take", fmt.Sprintf("(take (map %s {v -> v}) %d)", cn, n), call("take", call("map", in(), fns[0].e), lit(n)), expect{list: refTake(l, n), ordered: true})
			c.check("map", fmt.Sprintf("(map (take %s %d) {v -> v})", cn, n), call("map", call("take", in(), lit(n)), fns[0].e), expect{list: refTake(l, n), ordered: true, inheritsCount: n < 0})
			c.check("take", fmt.Sprintf("(take (filter %s {v -> true}) %d)", cn, n), call("take", call("filter", in(), preds[0].e), lit(n)), expect{list: refTake(l, n), ordered: true})
			c.check("filter", fmt.Sprintf("(filter (take %s %d) {v -> true})", cn, n), call("filter", call("take", in(), lit(n)), preds[0].e), expect{list: refTake(l, n), ordered: true})
			c.check("map-items", fmt.Sprintf("(map-items (take %s %d) {p -> p})", cn, n), call("map-items", call("take", in(), lit(n)), ifs[0].e), expect{list: refTake(l, n), ordered: true, inheritsCount: n < 0})
			if numeric && len(l) > 0 {
				c.check("top", fmt.Sprintf("(top (take %s %d) 1)", cn, n), call("top", call("take", in(), lit(n)), lit(1)), topAfterTake(l, n))
			}
		}
	}
}

// top of a possibly empty prefix: the empty case is "top of an empty collection"
func topAfterTake(l []item, n int) expect {
	pre := refTake(l, n)
	return expect{custom: acceptTop(pre, 1), list: refTake(pre, 1)}
}

// ---------- flatten ----------

// "Return a collection with keys and values taken from the collections that
// form the values of the given collection."
func (c *checker) runFlatten(inners [][]item, outer []int) {
	var want []item
	var args []b6.Expression
	var lits []item
	for j, ix := range outer {
		want = append(want, inners[ix]...)
		args = append(args, call("pair", lit(j), collLiteral(inners[ix])))
		lits = append(lits, item{j, collValue(inners[ix])})
	}
	c.check("flatten", "(flatten (collection (pair i inner_i)..))", call("flatten", call("collection", args...)), expect{list: want, ordered: true})
	c.check("flatten", "(flatten literal-of-collections)", call("flatten", collLiteral(lits)), expect{list: want, ordered: true})
	for n := -1; n <= len(want)+1; n++ {
		c.check("take", fmt.Sprintf("(take (flatten ..) %d)", n), call("take", call("flatten", call("collection", args...)), lit(n)), expect{list: refTake(want, n), ordered: true})
	}
}

func collValue(l []item) b6.UntypedCollection {
	c := b6.ArrayCollection[any, any]{Keys: []any{}, Values: []any{}}
	for _, it := range l {
		c.Keys = append(c.Keys, it.k)
		c.Values = append(c.Values, it.v)
	}
	return c.Collection()
}

// ---------- join-missing ----------

func sortedByKey(l []item) bool {
	for i := 1; i < len(l); i++ {
		if less(l[i].k, l[i-1].k) {
			return false
		}
	}
	return true
}

// join-missing has no doc string; its definition is taken from the comment
// and test of joinMissingCollection: both inputs are ordered by key, the
// result is their merge by key in which an entry of `joined` whose key occurs
// in `base` is left out.
func refJoinMissing(base, joined []item) []item {
	var extra []item
	for _, j := range joined {
		in := false
		for _, b := range base {
			if same(b.k, j.k) {
				in = true
			}
		}
		if !in {
			extra = append(extra, j)
		}
	}
	// merge (keys of base and extra are disjoint, both are sorted)
	var out []item
	i, j := 0, 0
	for i < len(base) || j < len(extra) {
		if j == len(extra) || (i < len(base) && less(base[i].k, extra[j].k)) {
			out = append(out, base[i])
			i++
		} else {
			out = append(out, extra[j])
			j++
		}
	}
	return out
}

// ---------- collection features ----------

func (c *checker) runFeature(p profile, l []item, sorted bool) {
	mk := func() *ingest.CollectionFeature {
		f := &ingest.CollectionFeature{CollectionID: b6.CollectionID{Namespace: "diagonal.works/test", Value: 1}}
		for _, it := range l {
			f.Keys = append(f.Keys, it.k)
			f.Values = append(f.Values, it.v)
		}
		if sorted {
			f.Sort()
		}
		return f
	}
	direct := mk()
	var viaWorld b6.CollectionFeature
	w := ingest.NewBasicMutableWorld()
	cl, msg := kit.Catch(func() {
		if err := w.AddFeature(mk()); err != nil {
			panic("harness: AddFeature: " + err.Error())
		}
		viaWorld = b6.FindCollectionByID(direct.CollectionID, w)
	})
	if cl != "" {
		c.violate("collection-feature:world:"+cl, "adding collection feature %s: %s", c.input, msg)
	}
	// the arrays as the feature holds them (after sorting) are the reference order
	var held []item
	for i := range direct.Keys {
		held = append(held, item{direct.Keys[i], direct.Values[i]})
	}
	if sorted {
		if !sameBag(held, l) {
			c.violate("collection-feature:sort-loses-items", "Sort() of %s gives %s", c.input, show(held))
		}
		if !sortedByKey(held) {
			c.violate("collection-feature:sort-not-sorted", "Sort() of %s gives %s", c.input, show(held))
		}
	}
	probes := append(append([]interface{}{}, p.keys...), p.absent)
	switch p.keys[0].(type) {
	case string:
		probes = append(probes, 1) // a key of another type
	default:
		probes = append(probes, "other-type")
	}
	targets := []finder{direct}
	names := []string{"CollectionFeature", "world.FindCollectionByID(..)"}
	// the same content held by a feature that previously held it with the
	// opposite sortedness: merged directly, and replaced in a world by AddFeature
	mkOther := func() *ingest.CollectionFeature {
		f := &ingest.CollectionFeature{CollectionID: b6.CollectionID{Namespace: "diagonal.works/test", Value: 1}}
		for _, it := range l {
			f.Keys = append(f.Keys, it.k)
			f.Values = append(f.Values, it.v)
		}
		if !sorted {
			f.Sort()
		}
		return f
	}
	var merged *ingest.CollectionFeature
	var replaced b6.CollectionFeature
	cl2, msg2 := kit.Catch(func() {
		merged = mkOther()
		merged.MergeFrom(mk())
		w2 := ingest.NewBasicMutableWorld()
		if err := w2.AddFeature(mkOther()); err != nil {
			panic("harness: AddFeature: " + err.Error())
		}
		if err := w2.AddFeature(mk()); err != nil {
			panic("harness: AddFeature (replace): " + err.Error())
		}
		replaced = b6.FindCollectionByID(direct.CollectionID, w2)
	})
	if cl2 != "" {
		c.violate("collection-feature:replace:"+cl2, "replacing collection feature %s: %s", c.input, msg2)
	}
	if viaWorld != nil {
		targets = append(targets, viaWorld)
		// iterating the feature yields the items, and Count agrees
		got, err := drain(viaWorld)
		if err != nil || !sameList(got, held) {
			c.violate("collection-feature:iteration", "world.FindCollectionByID(..) of %s (sorted=%v) iterates as %s (err %v), want %s", c.input, sorted, show(got), err, show(held))
		}
		if n, ok := viaWorld.Count(); ok && n != len(got) {
			c.violate("collection-feature:count-mismatch", "world.FindCollectionByID(..) of %s: Count() = %d, iteration yields %d", c.input, n, len(got))
		}
	}
	if merged != nil {
		targets = append(targets, merged)
		names = append(names, "feature-of-opposite-sortedness.MergeFrom(..)")
	}
	if replaced != nil {
		targets = append(targets, replaced)
		names = append(names, "world after replacing a feature of opposite sortedness")
	}
	for ti, target := range targets {
		tn := names[ti]
		for _, key := range probes {
			c.r.Evals += 2
			var wantAll []interface{}
			for _, it := range held {
				if same(it.k, key) {
					wantAll = append(wantAll, it.v)
				}
			}
			var gv interface{}
			var gok bool
			var gall []interface{}
			cl, msg := kit.Catch(func() {
				gv, gok = target.FindValue(key)
				gall = target.FindValues(key, []interface{}{"prefix"})
			})
			what := fmt.Sprintf("%s %s (sorted=%v) key %s", tn, c.input, sorted, showV(key))
			if cl != "" {
				c.violate("FindValue:"+cl, "%s: %s", what, msg)
				continue
			}
			if gok != (len(wantAll) > 0) || (gok && !same(gv, wantAll[0])) {
				c.violate(fmt.Sprintf("FindValue:wrong:sorted=%v", sorted), "%s: FindValue = (%s, %v), linear scan gives %v", what, showV(gv), gok, wantAll)
			}
			if len(gall) < 1 || gall[0] != "prefix" {
				c.violate("FindValues:drops-prefix", "%s: FindValues(key, [prefix]) = %v", what, gall)
			} else {
				rest := gall[1:]
				okAll := len(rest) == len(wantAll)
				for i := 0; okAll && i < len(rest); i++ {
					okAll = same(rest[i], wantAll[i])
				}
				if !okAll {
					c.violate(fmt.Sprintf("FindValues:wrong:sorted=%v", sorted), "%s: FindValues = %v, linear scan gives %v", what, rest, wantAll)
				}
			}
			if len(wantAll) > 0 {
				c.r.Distinct++
			}
			c.r.AddOutcome(fmt.Sprintf("FindValue:%d-matches", len(wantAll)))
		}
	}
}

type finder interface {
	FindValue(key any) (any, bool)
	FindValues(key any, values []any) []any
}

// ---------- the space ----------

type section struct {
	name string
	n    int64
	run  func(i int64, r *kit.Result)
}

func build(tier string) (kit.Space, string) {
	thorough := tier == "thorough"
	maxLen := 3
	if thorough {
		maxLen = 4
	}
	ps := profiles(thorough)
	var secs []section
	var bounds []string

	// A: every list through every function
	for _, p := range ps {
		p := p
		items := p.items()
		n := listCount(len(items), maxLen)
		bounds = append(bounds, fmt.Sprintf("%s: %d lists (<=%d of %d items)", p.name, n, maxLen, len(items)))
		secs = append(secs, section{"functions/" + p.name, n, func(i int64, r *kit.Result) {
			l := listAt(items, i)
			c := &checker{r: r, input: show(l)}
			c.runList(p, l, thorough)
			r.Nontrivial = len(l) > 0
			r.Key = p.name + show(l)
			if i == 40 {
				r.Sample = map[string]interface{}{"profile": p.name, "list": show(l), "functions": "collection take top filter map map-items sum-by-key count-values count-keys (+ take compositions, count)", "counts": "-2..len+1"}
			}
		}})
	}

	// B: flatten — outer lists (<= 3) of inner collections (all lists <= 2 over 4 items of a profile)
	for _, p := range ps[:3] {
		p := p
		items := p.items()
		if len(items) > 4 && !thorough {
			items = []item{items[0], items[1], items[len(p.values)], items[len(p.values)+1]}
		}
		var inners [][]item
		for i := int64(0); i < listCount(len(items), 2); i++ {
			inners = append(inners, listAt(items, i))
		}
		outerLen := 2
		if thorough {
			outerLen = 3
		}
		if thorough && len(inners) > 40 {
			outerLen = 2
		}
		n := listCount(len(inners), outerLen)
		bounds = append(bounds, fmt.Sprintf("flatten/%s: %d outer lists (<=%d of %d inner collections)", p.name, n, outerLen, len(inners)))
		idx := make([]item, len(inners))
		for i := range idx {
			idx[i] = item{i, nil}
		}
		secs = append(secs, section{"flatten/" + p.name, n, func(i int64, r *kit.Result) {
			var outer []int
			for _, it := range listAt(idx, i) {
				outer = append(outer, it.k.(int))
			}
			var parts []string
			for _, ix := range outer {
				parts = append(parts, show(inners[ix]))
			}
			c := &checker{r: r, input: "[" + strings.Join(parts, " ") + "]"}
			c.runFlatten(inners, outer)
			r.Nontrivial = len(outer) > 0
			r.Key = "flatten" + p.name + c.input
		}})
	}

	// C: join-missing — every pair of key-sorted lists
	for _, p := range ps {
		p := p
		items := p.items()
		var sortedLists [][]item
		jl := 3
		for i := int64(0); i < listCount(len(items), jl); i++ {
			if l := listAt(items, i); sortedByKey(l) {
				sortedLists = append(sortedLists, l)
			}
		}
		bounds = append(bounds, fmt.Sprintf("join-missing/%s: %d x %d pairs of key-sorted lists (<=%d)", p.name, len(sortedLists), len(sortedLists), jl))
		secs = append(secs, section{"join-missing/" + p.name, int64(len(sortedLists)), func(i int64, r *kit.Result) {
			base := sortedLists[i]
			for _, joined := range sortedLists {
				c := &checker{r: r, input: "base " + show(base) + " joined " + show(joined)}
				c.check("join-missing", "(join-missing base joined)", call("join-missing", collLiteral(base), collLiteral(joined)), expect{list: refJoinMissing(base, joined), ordered: true})
			}
			r.Nontrivial = true
			r.Key = "join" + p.name + show(base)
		}})
	}

	// D: collection features
	for _, p := range ps {
		p := p
		items := p.items()
		n := listCount(len(items), maxLen)
		bounds = append(bounds, fmt.Sprintf("collection-feature/%s: %d lists x {unsorted, sorted} x %d probe keys x {direct, via world}", p.name, n, len(p.keys)+2))
		secs = append(secs, section{"collection-feature/" + p.name, n, func(i int64, r *kit.Result) {
			l := listAt(items, i)
			c := &checker{r: r, input: show(l)}
			c.runFeature(p, l, false)
			c.runFeature(p, l, true)
			r.Nontrivial = len(l) > 0
			r.Key = "feature" + p.name + show(l)
			if i == 40 {
				r.Sample = map[string]interface{}{"profile": p.name, "collection-feature": show(l), "probes": "every alphabet key, an absent key, a key of another type"}
			}
		}})
	}

	total := int64(0)
	for _, s := range secs {
		total += s.n
	}
	// interleave sections shortest-lists-first: index i -> (section by round-robin over remaining)
	return kit.FuncSpace{N: total, F: func(i int64) kit.Result {
		var r kit.Result
		for _, s := range secs {
			if i < s.n {
				s.run(i, &r)
				return r
			}
			i -= s.n
		}
		return r
	}}, strings.Join(bounds, "; ") + "; counts -2..len+1; two constructions of every input (collection literal, `collection` of pairs)"
}

func main() {
	kit.Main(&kit.Check{
		ID:    "C24",
		Level: "exploration",
		Rule: "Every list of (key, value) items up to the length bound over each typed alphabet (3 keys x 2-3 values; ints, floats, strings, feature IDs; duplicates and ties arise from repetition) is evaluated through api.Evaluate(functions.NewContext) with collection, take, top (counts -2..len+1), filter, map, map-items (menus of lambdas), sum-by-key, count-values, count-keys, flatten (lists of inner collections), join-missing (all pairs of key-sorted lists) and take-compositions; " +
			"each result is iterated twice and compared with a list reference written from the doc string (top: any n entries whose values are the n greatest, as multisets; unordered results as multisets); Count()==(n,true) must equal the iterated length, also observed through `count`. " +
			"Collection features: FindValue/FindValues for every alphabet key, an absent key and a key of another type vs a linear scan of the held arrays, unsorted and after Sort(), directly and through a BasicMutableWorld. A sub-case is non-trivial when the expected result is non-empty / the key has matches.",
		Assumptions: []string{
			"map-items: the pair returned by the function is the new (key, value) (TestMapItems); the doc string's 'Keys are unmodified' is not demanded",
			"count-keys counts keys (its name and TestCountKeys); its doc string is a copy of count-values'",
			"join-missing has no doc string: inputs ordered by key, result = merge by key without the entries of `joined` whose key occurs in `base` (its code comment and test)",
			"top: order of the result and the choice among tied entries are not specified and not demanded",
			"take/top with a negative count: 'the first n entries' of a list for n <= 0 is the empty list",
		},
		Build: build,
		Chunk: 8,
	})
}
