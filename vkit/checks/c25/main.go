// C25 — map-parallel returns map's results for any core count and schedule.
//
// Engine E3: the real mapParallelCollection (dispatcher, workers, consumer,
// errgroup, channels) runs under the controlled scheduler; every interleaving
// is explored per scenario (items, cores, failing item).
package main

import (
	"context"
	"errors"
	"fmt"
	"runtime"
	"strings"

	"diagonal.works/b6"
	"diagonal.works/b6/api"
	"diagonal.works/b6/api/functions"
	"verif/kit"
	"verif/racekit"
	"verif/sched"
)

var errBoom = errors.New("boom")

type obsT struct {
	keys, values []int
	err          error
	done         bool
	beginErr     error
}

var obs obsT

type scenario struct {
	items, cores int
	failItem     int // index of the item whose function call fails (-1 = none)
	iterFail     int // the input iterator fails after this many items (-1 = never)
	// failOK: the failing Next returns (true, err) — as map's own iterator does
	// when its function fails — instead of (false, err)
	failOK bool
}

func (s scenario) String() string {
	if s.failOK {
		return fmt.Sprintf("items=%d cores=%d failItem=%d iterFail=%d(Next returns true with the error)", s.items, s.cores, s.failItem, s.iterFail)
	}
	return fmt.Sprintf("items=%d cores=%d failItem=%d iterFail=%d", s.items, s.cores, s.failItem, s.iterFail)
}

// failingCollection yields 0..n-1 => 10*i and fails after `after` items.
type failingCollection struct {
	n, after int
	okOnFail bool
}

type failingIterator struct {
	c *failingCollection
	i int
}

func (c *failingCollection) Begin() b6.Iterator[any, any] { return &failingIterator{c: c, i: -1} }
func (c *failingCollection) Count() (int, bool)           { return c.n, true }
func (it *failingIterator) Next() (bool, error) {
	it.i++
	if it.c.after >= 0 && it.i >= it.c.after {
		return it.c.okOnFail, errBoom
	}
	return it.i < it.c.n, nil
}
func (it *failingIterator) Key() interface{}               { return it.i }
func (it *failingIterator) Value() interface{}             { return 10 * it.i }
func (it *failingIterator) KeyExpression() b6.Expression   { return b6.NewIntExpression(it.i) }
func (it *failingIterator) ValueExpression() b6.Expression { return b6.NewIntExpression(10 * it.i) }

func (s scenario) input() b6.UntypedCollection {
	return b6.Collection[any, any]{AnyCollection: &failingCollection{n: s.items, after: s.iterFail, okOnFail: s.failOK}}
}

func (s scenario) function() api.Callable {
	f := func(c *api.Context, v interface{}) (interface{}, error) {
		sched.Yield() // the mapped function takes time: let others run
		if s.failItem >= 0 && v.(int) == 10*s.failItem {
			return 0, errBoom
		}
		return v.(int) + 1, nil
	}
	return api.NewNativeFunction1(f, b6.NewSymbolExpression("x-native"))
}

func drain(c b6.Collection[any, any]) {
	it := c.Begin()
	for {
		ok, err := it.Next()
		if err != nil {
			obs.err = err
			break
		}
		if !ok {
			break
		}
		k, _ := it.Key().(int)
		v, _ := it.Value().(int)
		obs.keys = append(obs.keys, k)
		obs.values = append(obs.values, v)
	}
	obs.done = true
}

func (s scenario) body() func() {
	return func() {
		obs = obsT{}
		ctx := &api.Context{Cores: s.cores, Context: context.Background(), VM: &api.VM{}}
		c, err := functions.VerifMapParallel(ctx, s.input(), s.function())
		if err != nil {
			obs.beginErr = err
			obs.done = true
			return
		}
		drain(c)
	}
}

// reference: what a sequential, lazy map yields on the same input — each
// item's key and f(value) in input order, stopping with the error at the first
// failing function call or when the input iterator fails.
func (s scenario) reference() obsT {
	var r obsT
	for i := 0; i < s.items; i++ {
		if s.iterFail >= 0 && i >= s.iterFail {
			r.err = errBoom
			break
		}
		if i == s.failItem {
			r.err = errBoom
			break
		}
		r.keys = append(r.keys, i)
		r.values = append(r.values, 10*i+1)
	}
	if r.err == nil && s.iterFail >= 0 && s.iterFail <= s.items {
		r.err = errBoom
	}
	r.done = true
	return r
}

func (s scenario) check(ref obsT) sched.Check {
	return func(e *sched.Exec) (string, []sched.Failure) {
		var fails []sched.Failure
		add := func(class, msg string) {
			fails = append(fails, sched.Failure{Class: "map-parallel:" + class, Msg: msg + " [" + s.String() + "]"})
		}
		for _, ev := range e.Events {
			if ev.Kind == "panic" {
				add("panic", ev.Msg)
			} else if ev.Kind == "horizon" {
				add("livelock", ev.Msg)
			}
		}
		if e.Deadlocked && !obs.done {
			add("hang", "the consumer never finishes: "+strings.Join(e.Blocked, "; "))
			return "hang", fails
		}
		outcome := "ok"
		if e.Deadlocked {
			outcome = "finished-but-goroutines-leaked"
		}
		// prefix of map's results
		if len(obs.keys) > len(ref.keys) {
			add("extra-items", fmt.Sprintf("yielded %v, map yields %v", obs.keys, ref.keys))
		} else {
			for i := range obs.keys {
				if obs.keys[i] != ref.keys[i] || obs.values[i] != ref.values[i] {
					add("wrong-order-or-value", fmt.Sprintf("yielded keys %v values %v; map yields keys %v values %v", obs.keys, obs.values, ref.keys, ref.values))
					break
				}
			}
		}
		if ref.err == nil {
			if obs.err != nil {
				add("spurious-error", fmt.Sprintf("map succeeds, map-parallel returned %v", obs.err))
			} else if len(obs.keys) != len(ref.keys) {
				add("missing-items", fmt.Sprintf("yielded %d of %d items without an error", len(obs.keys), len(ref.keys)))
			}
			outcome += ":complete"
		} else {
			if obs.err == nil {
				add("error-lost", fmt.Sprintf("map fails with %v after %d items; map-parallel reported success after %d items", ref.err, len(ref.keys), len(obs.keys)))
			} else if !errors.Is(obs.err, errBoom) {
				add("wrong-error", fmt.Sprintf("map fails with %v; map-parallel returned %v", ref.err, obs.err))
			}
			outcome += fmt.Sprintf(":error-after-%d-of-%d", len(obs.keys), len(ref.keys))
		}
		return outcome, fails
	}
}

func scenarios(tier string) []scenario {
	var out []scenario
	maxItems := 3
	coresMenu := []int{2, 3}
	if tier == "thorough" {
		maxItems = 5
	}
	for _, cores := range coresMenu {
		for items := 0; items <= maxItems; items++ {
			out = append(out, scenario{items: items, cores: cores, failItem: -1, iterFail: -1})
			for j := 0; j < items; j++ {
				out = append(out, scenario{items: items, cores: cores, failItem: j, iterFail: -1})
			}
			for j := 0; j <= items; j++ {
				out = append(out, scenario{items: items, cores: cores, failItem: -1, iterFail: j})
			}
			for j := 0; j <= items; j++ {
				out = append(out, scenario{items: items, cores: cores, failItem: -1, iterFail: j, failOK: true})
			}
		}
	}
	if tier != "thorough" {
		// a worker only blocks on its output channel (capacity 1) when it holds
		// two undelivered results: that needs items >= 2*cores+1
		for _, items := range []int{4, 5} {
			for _, j := range []int{-1, 0, 1} {
				out = append(out, scenario{items: items, cores: 2, failItem: j, iterFail: -1})
			}
			out = append(out, scenario{items: items, cores: 2, failItem: -1, iterFail: items - 1})
			out = append(out, scenario{items: items, cores: 2, failItem: -1, iterFail: items - 1, failOK: true})
		}
	}
	return out
}

func main() {
	if n, ok := racekit.BodyMode(); ok {
		// race pass: the same bodies free-running (no controlled execution is
		// active, so the shims are the real primitives), un-rewritten tree, -race
		runtime.GOMAXPROCS(16)
		for it := 0; it < n; it++ {
			for _, s := range scenarios("thorough") {
				s.body()()
			}
			for _, s := range vmScenarios("thorough") {
				s.body()()
			}
		}
		fmt.Println("race pass done")
		return
	}
	kit.Main(&kit.Check{
		ID: "C25", Level: "model_checking", SlowIsNotHang: true,
		Rule:          "scenario = (items, cores, failing item | failing input iterator position, the failing Next returning (false, err) or (true, err)); per scenario every interleaving of dispatcher, workers, errgroup and consumer at the synchronisation points of the rewritten real code plus a yield inside the mapped function. VM family: the whole expression evaluated by api.Evaluate with Context.Cores>=2, compared with the same expression with map in place of map-parallel. Oracle: the sequence map-parallel yields is map's sequence (run sequentially on the same input), or a prefix of it followed by the error when map fails; the consumer always finishes.",
		Assumptions:   []string{"code between two synchronisation operations runs atomically", "the consumer drains the iterator to its end (the statement does not cover abandoned iterators)"},
		QuickDeadline: 200e9, ThoroughDeadline: 1500e9, CaseTimeout: 400e9, Chunk: 1, WorkerEnv: []string{"GOMAXPROCS=1"},
		Build: func(tier string) (kit.Space, string) {
			sc := scenarios(tier)
			bound, maxExec := 2, int64(30000)
			if tier == "thorough" {
				bound, maxExec = 3, 500000
			}
			vsc := vmScenarios(tier)
			return kit.FuncSpace{N: int64(len(sc)+len(vsc)) + 1, F: func(i int64) kit.Result {
				var r kit.Result
				if i == int64(len(sc)+len(vsc)) {
					// auxiliary: the same bodies free-running under the race detector
					iters := "20"
					if tier == "thorough" {
						iters = "500"
					}
					racekit.Pass(&r, "c25", "./checks/c25", "", nil, []string{"VERIF_RACE_BODY=" + iters})
					return r
				}
				var body func()
				var check sched.Check
				var name string
				if i < int64(len(sc)) {
					s := sc[i]
					body, check, name = s.body(), s.check(s.reference()), s.String()
				} else {
					s := vsc[i-int64(len(sc))]
					body, check, name = s.body(), s.check(s.reference()), s.String()
					r.Count("vm_scenarios", 1)
				}
				res := sched.Explore(body, check, sched.Options{MaxPreemptions: bound, MaxExecutions: maxExec})
				r.Evals, r.States, r.Transitions, r.Distinct = res.Executions, res.States, res.Transitions, res.States
				r.Nontrivial = res.MaxPoints > 0
				r.Capped = res.Capped
				r.Outcomes = res.Outcomes
				r.Count("executions_pruned_by_hb_cache", res.Pruned)
				if res.Unbounded {
					r.Count("scenarios_explored_without_bound", 1)
				} else {
					r.Count(fmt.Sprintf("scenarios_completed_to_bound_%d", res.BoundCompleted), 1)
				}
				for _, f := range res.Failures {
					e1 := sched.Replay(body, f.Choices, 0)
					_, f1 := check(e1)
					e2 := sched.Replay(body, f.Choices, 0)
					_, f2 := check(e2)
					if fmt.Sprint(f1) != fmt.Sprint(f2) || len(f1) == 0 {
						r.Violate("harness:nondeterministic-replay", "%s: schedule %v gave %v then %v", f.Class, f.Choices, f1, f2)
						continue
					}
					tr := e1.Trace
					if len(tr) > 30 {
						tr = tr[len(tr)-30:]
					}
					r.Violate(f.Class, "%s\nschedule (choices): %v\ntrace tail:\n  %s", f.Msg, f.Choices, strings.Join(tr, "\n  "))
				}
				if i%5 == 0 || i >= int64(len(sc)) {
					r.Sample = map[string]interface{}{"scenario": name, "executions": res.Executions, "states": res.States, "unbounded": res.Unbounded, "outcomes": res.Outcomes}
				}
				return r
			}}, fmt.Sprintf("%d scenarios on the collection function directly + %d scenarios through the VM (lambda, closure over an enclosing lambda's variable, partial application, failing lambda, nested map-parallel; cores 2%s); preemption bound %d (unbounded where no alternative was cut); execution cap %d per scenario", len(sc), len(vsc), map[bool]string{true: ",3", false: ""}[tier == "thorough"], bound, maxExec)
		},
	})
}
