package main

// VM family: map-parallel called through the real VM (api.Evaluate) with a
// lambda, a closure over the variable of an enclosing lambda, a partial
// application, a failing lambda and nested map-parallel, with Cores >= 2 under
// the controlled scheduler; oracle: the sequence yielded equals what the same
// expression yields with `map` in place of `map-parallel` (evaluated natively,
// sequentially), or a prefix of it followed by map's error.

import (
	"fmt"
	"strings"

	"diagonal.works/b6"
	"diagonal.works/b6/api"
	"diagonal.works/b6/api/functions"
	"diagonal.works/b6/ingest"
	"verif/sched"
)

type vmScenario struct {
	name  string
	expr  string
	cores int
}

func (s vmScenario) String() string {
	return fmt.Sprintf("vm %s cores=%d: %s", s.name, s.cores, s.expr)
}

var vmExprs = []struct{ name, expr string }{
	{"closed-lambda", `map-parallel {36,42,7} {x -> add x 1}`},
	{"closure-over-enclosing-lambda", `call {a -> map-parallel {36,42,7} {x -> add (add x x) a}} 10`},
	{"partial-application", `map-parallel {36,42,7} (add 5)`},
	{"failing-lambda", `map-parallel {4,2,0,1} {x -> divide 100 x}`},
	{"failing-closure", `call {a -> map-parallel {4,0,1} {x -> divide a x}} 100`},
	{"over-a-failing-map", `map-parallel (map {4,2,0,1} {x -> divide 100 x}) {y -> add y 1}`},
	{"closure-two-levels", `call {a -> call {b -> map-parallel {1,2,3} {x -> add (add x a) b}} 3} 10`},
	{"closure-five-items", `call {a -> map-parallel {36,42,7,9,11} {x -> add (add x x) a}} 10`},
	{"nested-outer-of-inner", `map-parallel (map-parallel {1,2} {x -> add x 1}) {y -> add y y}`},
	{"nested-inside-lambda", `call {a -> map-parallel {1,2} {x -> count (map-parallel {5,6} {y -> add (add x y) a})}} 1`},
}

func vmScenarios(tier string) []vmScenario {
	var out []vmScenario
	n, cores := 6, []int{2}
	if tier == "thorough" {
		n, cores = len(vmExprs), []int{2, 3}
	}
	for _, c := range cores {
		for _, e := range vmExprs[:n] {
			out = append(out, vmScenario{e.name, e.expr, c})
		}
	}
	return out
}

type vmObs struct {
	items []string
	err   string
	done  bool
}

var vobs vmObs

var vmWorld = ingest.NewBasicMutableWorld()

func vmDrain(v interface{}, o *vmObs) {
	c, ok := v.(b6.UntypedCollection)
	if !ok {
		o.err = fmt.Sprintf("not a collection: %T", v)
		return
	}
	it := c.BeginUntyped()
	for {
		ok, err := it.Next()
		if err != nil {
			o.err = err.Error()
			return
		}
		if !ok {
			return
		}
		o.items = append(o.items, fmt.Sprintf("%v=%v", it.Key(), it.Value()))
	}
}

func vmEval(expr string, cores int, o *vmObs) {
	ctx := functions.NewContext(vmWorld)
	ctx.Cores = cores
	v, err := api.EvaluateString(expr, ctx)
	if err != nil {
		o.err = err.Error()
	} else {
		vmDrain(v, o)
	}
	o.done = true
}

func (s vmScenario) body() func() {
	return func() {
		vobs = vmObs{}
		vmEval(s.expr, s.cores, &vobs)
	}
}

func (s vmScenario) reference() vmObs {
	var r vmObs
	vmEval(strings.ReplaceAll(s.expr, "map-parallel", "map"), 1, &r)
	return r
}

func (s vmScenario) check(ref vmObs) sched.Check {
	return func(e *sched.Exec) (string, []sched.Failure) {
		var fails []sched.Failure
		add := func(class, msg string) {
			fails = append(fails, sched.Failure{Class: "map-parallel:vm:" + class, Msg: msg + " [" + s.String() + "]"})
		}
		for _, ev := range e.Events {
			if ev.Kind == "panic" {
				add("panic", ev.Msg)
			} else if ev.Kind == "horizon" {
				add("livelock", ev.Msg)
			}
		}
		if e.Deadlocked && !vobs.done {
			add("hang", "the evaluation never finishes: "+strings.Join(e.Blocked, "; "))
			return "hang", fails
		}
		if len(vobs.items) > len(ref.items) {
			add("extra-items", fmt.Sprintf("yielded %v, map yields %v", vobs.items, ref.items))
		} else {
			for i := range vobs.items {
				if vobs.items[i] != ref.items[i] {
					add("wrong-order-or-value", fmt.Sprintf("yielded %v; map yields %v", vobs.items, ref.items))
					break
				}
			}
		}
		if ref.err == "" {
			if vobs.err != "" {
				add("spurious-error", fmt.Sprintf("map succeeds with %v; map-parallel returned error %q after %v", ref.items, vobs.err, vobs.items))
			} else if len(vobs.items) != len(ref.items) {
				add("missing-items", fmt.Sprintf("yielded %d of %d items without an error", len(vobs.items), len(ref.items)))
			}
			return "vm:ok:complete", fails
		}
		if vobs.err == "" {
			add("error-lost", fmt.Sprintf("map fails with %q after %d items; map-parallel reported success after %d items", ref.err, len(ref.items), len(vobs.items)))
		} else if !strings.Contains(vobs.err, ref.err) && !strings.Contains(ref.err, vobs.err) {
			add("wrong-error", fmt.Sprintf("map fails with %q; map-parallel returned %q", ref.err, vobs.err))
		}
		return fmt.Sprintf("vm:ok:error-after-%d-of-%d", len(vobs.items), len(ref.items)), fails
	}
}
