// C26 — callers are told whether their change was applied.
//
// Engine E1/E2: a menu of client expressions that evaluate to a change
// (add-tag / add-tags / remove-tag / remove-tags on present and absent IDs,
// add-point / add-relation / add-collection, import-geojson, connect,
// changes-from-file with succeeding and failing feature documents — a path
// referencing a missing point, an area over an open path, an area over a
// missing path — every add-tags / remove-tags / import-geojson change whose
// collection has 2..3 entries drawn in every order, with repetition, from a
// menu of entries that are each independently valid or failing (so the failing
// entry comes first, in the middle, last, alone among valid ones or next to
// other failing ones), and every merge-changes sequence of <= 2 / 3 parts,
// single- and multi-entry, whose k-th part fails), written as shell text and
// parsed with api.ParseExpression like a client would, is evaluated
//
//	(a) through the gRPC service's Evaluate (grpc.NewB6Service over
//	    ingest.MutableWorlds, in-process), and
//	(b) through api.Evaluator.EvaluateExpression (the UI evaluator),
//
// from several pre-states (fresh world; world with overlay features and
// modified tags; world with a replaced base point) and for the default and a
// named world root, over three kinds of world: a writable server
// (ingest.MutableWorlds); the same with a fault injected: the k-th mutating call
// (AddFeature / AddTag / RemoveTag) the evaluation makes on the world fails,
// for every k up to the number of such calls the evaluation makes (a thin
// ingest.Worlds / ingest.MutableWorld wrapper by delegation, handed to the
// service and to the evaluator, records the calls and injects the fault); and a
// read-only server (ingest.ReadOnlyWorlds, as b6 --read-only uses).
// Oracle. "Applying the change failed" is decided WITHOUT Change.Apply (which is
// part of the code under test): the identical change, built with the ingest
// constructors, is taken apart into its entries (AddTags / RemoveTags /
// AddFeatures elements, merged changes flattened in order) and the entries are
// applied one by one, in order, with the world's own elementary operations
// (MutableWorld.AddTag / RemoveTag / AddFeature) to an identical fresh
// MutableOverlayWorld brought to the same pre-state. Applying the change failed
// iff one of these operations returns an error. For the multi-entry menus each
// entry also carries a declared validity (the feature ID is present in the
// pre-state or not; the line string has two points or one), and the entrywise
// application has to agree with it. The response must report an error iff
// applying the change failed. The entries of a change read from a file can't be
// read from the change (the type is private): for files made of tag-edit
// documents only (add / remove lists on a present or absent ID) the entries are
// written out by hand next to the file text; otherwise the entries are the
// documents of the file, each applied on its own by ingesting it as a
// one-document file (fresh reader) into the model world.
// On a read-only world the same entrywise application (on ingest.ReadOnlyWorld)
// says that every change fails. Independently of any model, the wrapper shows
// what happened: whenever a mutating call the evaluation made on the world
// returned an error (injected, read-only, or real), the response must report an
// error.
// As before, the identical change is also applied with Change.Apply to a second
// identical world: on success the IDs returned must be those Apply reports,
// contain every target feature whose own tags/existence changed and nothing but
// targets of the change; the evaluator's world must dump equal to that
// reference world, and, when every entry succeeds, equal to the world after the
// entrywise application.
package main

import (
	"context"
	"fmt"
	"os"
	"path/filepath"
	"sort"
	"strings"
	"sync"

	"diagonal.works/b6"
	"diagonal.works/b6/api"
	"diagonal.works/b6/api/functions"
	"diagonal.works/b6/geojson"
	bgrpc "diagonal.works/b6/grpc"
	"diagonal.works/b6/ingest"
	pb "diagonal.works/b6/proto"
	"github.com/golang/geo/s2"
	"verif/kit"
	wk "verif/worldkit"
)

// ---- world menu ------------------------------------------------------------------

type ids struct {
	P                 [4]b6.FeatureID
	W0, A0, R0        b6.FeatureID
	Q, W1, A1, R1, C1 b6.FeatureID
	Missing, MissingW b6.FeatureID
	// a base collection; overlay-only path/area/relation/collection (pre-state
	// "overlay-features+modified-tags"); absent area/relation/collection
	C0                           b6.FeatureID
	W2, A2, R2, C2               b6.FeatureID
	MissingA, MissingR, MissingC b6.FeatureID
	BadPath                      b6.FeatureID // path-typed ID given to add-point
	Geo0, Geo1, GeoA             b6.FeatureID // import-geojson IDs
	Access                       b6.FeatureID // the path `connect` adds
	Universe                     []b6.FeatureID
}

const geoNS = "diagonal.works/test/geo"

func idsFor(s wk.IDScheme) ids {
	x := ids{W0: s.W(0), A0: s.A(0), R0: s.R(0), Q: s.P(4), W1: s.W(1), A1: s.A(1), R1: s.R(1), C1: s.C(1),
		Missing: wk.PointID(s.PointNS, s.Base+50*s.Stride), MissingW: wk.PathID(s.PathNS, s.Base+51*s.Stride), BadPath: s.W(7),
		Geo0: wk.PointID(geoNS, 0), Geo1: wk.PathID(geoNS, 0), GeoA: wk.AreaID(geoNS, 0),
		Access: b6.FeatureID{Type: b6.FeatureTypePath, Namespace: b6.NamespaceDiagonalAccessPoints, Value: 1}}
	for i := range x.P {
		x.P[i] = s.P(i)
	}
	x.C0, x.W2, x.A2, x.R2, x.C2 = s.C(0), s.W(2), s.A(2), s.R(2), s.C(2)
	x.MissingA, x.MissingR, x.MissingC = wk.AreaID(s.AreaNS, s.Base+52*s.Stride), wk.RelationID(s.RelNS, s.Base+53*s.Stride), wk.CollectionID(s.CollNS, s.Base+54*s.Stride)
	x.Universe = []b6.FeatureID{x.P[0], x.P[1], x.P[2], x.P[3], x.W0, x.A0, x.R0, x.Q, x.W1, x.A1, x.R1, x.C1, x.Missing, x.MissingW, x.BadPath, x.Geo0, x.Geo1, wk.PathID(geoNS, 1), x.GeoA, x.Access}
	x.Universe = append(x.Universe, x.C0, x.W2, x.A2, x.R2, x.C2, x.MissingA, x.MissingR, x.MissingC)
	// import-geojson numbers the features of a collection by position: every
	// ID a collection of <= 3 entries can create
	for i := uint64(0); i < 3; i++ {
		for _, id := range []b6.FeatureID{wk.PointID(geoNS, i), wk.PathID(geoNS, i), wk.AreaID(geoNS, i)} {
			seen := false
			for _, u := range x.Universe {
				seen = seen || u == id
			}
			if !seen {
				x.Universe = append(x.Universe, id)
			}
		}
	}
	return x
}

func baseSpec(x ids) wk.Spec {
	return wk.Spec{
		{ID: x.P[0], Kind: wk.KPoint, LL: wk.G(0, 0), Tags: []wk.TagSpec{{"#amenity", "cafe"}, {"name", "p0"}}},
		{ID: x.P[1], Kind: wk.KPoint, LL: wk.G(0, 2), Tags: []wk.TagSpec{{"name", "two"}, {"@flag", "yes"}}},
		{ID: x.P[2], Kind: wk.KPoint, LL: wk.G(2, 2), Tags: []wk.TagSpec{{"#amenity", "bench"}}},
		{ID: x.P[3], Kind: wk.KPoint, LL: wk.G(2, 0)},
		{ID: x.W0, Kind: wk.KPath, Path: wk.Refs(x.P[0], x.P[1], x.P[2], x.P[3], x.P[0]), Tags: []wk.TagSpec{{"#highway", "path"}, {"name", "w0"}}},
		{ID: x.A0, Kind: wk.KArea, Polys: []wk.PolySpec{{Paths: []b6.FeatureID{x.W0}}}, Tags: []wk.TagSpec{{"#building", "yes"}, {"name", "a0"}}},
		{ID: x.R0, Kind: wk.KRelation, Members: []wk.MemberSpec{{x.P[0], "stop"}, {x.W0, ""}}, Tags: []wk.TagSpec{{"#route", "bus"}, {"name", "r0"}}},
		{ID: x.C0, Kind: wk.KCollection, Items: []wk.KV{{K: "id:" + x.P[0].String(), V: "s:x"}}, Tags: []wk.TagSpec{{"#kind", "base"}, {"name", "c0"}}},
	}
}

// ---- change menu -----------------------------------------------------------------

// part = one change: the client's shell text and the identical change built
// with the ingest constructors.
type part struct {
	name    string
	kind    string // tag-edit | feature-addition | file-change
	shell   func(dir string) string
	ref     func(dir string) ingest.Change
	targets []b6.FeatureID
	files   map[string]string // files the expression reads (written under dir)
	// multi-entry menus only: the declared validity of each entry of the
	// collection, in order (a pure rule: is the ID present in the pre-state;
	// has the line string two points)
	entries []entryDecl
	// change files of tag-edit documents only: the entries, written out by
	// hand (the change type read from a file is private; its entries can't be
	// read from the change)
	ops func() []op
}

// entryDecl: one entry of a multi-entry collection and whether applying it on
// its own to the pre-state is declared to succeed.
type entryDecl struct {
	name  string
	op    string // add-tag | remove-tag | add-feature
	valid func(pre prestate) bool
	// tag edits: the feature edited; the entry is declared valid iff the
	// feature is declared present in the pre-state
	id b6.FeatureID
}

func lit(id b6.FeatureID) string { return "/" + id.String() }

func str(s string) b6.Expression { return b6.NewStringExpression(s) }

func sh(s string) func(string) string { return func(string) string { return s } }

func rf(c ingest.Change) func(string) ingest.Change { return func(string) ingest.Change { return c } }

func pointFeature(id b6.FeatureID, ll s2.LatLng, tags ...b6.Tag) *ingest.GenericFeature {
	f := &ingest.GenericFeature{ID: id, Tags: []b6.Tag{{Key: b6.PointTag, Value: b6.NewPointExpressionFromLatLng(ll)}}}
	f.Tags = append(f.Tags, tags...)
	return f
}

func addFeatures(fs ...ingest.Feature) ingest.Change {
	a := ingest.AddFeatures(fs)
	return &a
}

func fileRef(name string, text string) func(string) ingest.Change {
	return func(string) ingest.Change { return ingest.IngestChangesFromYAML(strings.NewReader(text)) }
}

func filePart(name, file, text string, targets ...b6.FeatureID) part {
	return part{name: name, kind: "file-change", files: map[string]string{file: text},
		shell:   func(dir string) string { return fmt.Sprintf("changes-from-file %q", filepath.Join(dir, file)) },
		ref:     fileRef(name, text),
		ops:     documentOps(text),
		targets: targets}
}

// documentOps: the entries of a change file are its documents; a document is
// applied on its own by ingesting it as a one-document file (the features
// documents describe can only be built by the YAML ingestion itself).
func documentOps(text string) func() []op {
	return func() []op {
		docs := strings.Split(text, "---\n")
		var ops []op
		for i, d := range docs {
			d := d
			ops = append(ops, op{kind: "file-document", idx: i, n: len(docs), do: func(w ingest.MutableWorld) error {
				_, err := ingest.IngestChangesFromYAML(strings.NewReader(d)).Apply(w)
				return err
			}})
		}
		return ops
	}
}

func geoPart(name, json string, fill func() *ingest.AddFeatures, targets ...b6.FeatureID) part {
	return part{name: name, kind: "feature-addition",
		shell:   sh(fmt.Sprintf("import-geojson (parse-geojson %q) %q", json, geoNS)),
		ref:     func(string) ingest.Change { return fill() },
		targets: targets}
}

func parts(x ids) []part {
	tag := func(k, v string) b6.Tag { return b6.Tag{Key: k, Value: str(v)} }
	qll := s2.LatLngFromDegrees(51.5355, -0.1245)
	var ps []part
	add := func(p part) { ps = append(ps, p) }
	// --- tag edits
	add(part{name: "add-tag:searchable:base-point", kind: "tag-edit", shell: sh("add-tag " + lit(x.P[0]) + " #s=x"), ref: rf(ingest.AddTags{{ID: x.P[0], Tag: tag("#s", "x")}}), targets: []b6.FeatureID{x.P[0]}})
	add(part{name: "add-tag:plain:base-point", kind: "tag-edit", shell: sh("add-tag " + lit(x.P[1]) + " p=x"), ref: rf(ingest.AddTags{{ID: x.P[1], Tag: tag("p", "x")}}), targets: []b6.FeatureID{x.P[1]}})
	add(part{name: "add-tag:plain:base-area", kind: "tag-edit", shell: sh("add-tag " + lit(x.A0) + " p=x"), ref: rf(ingest.AddTags{{ID: x.A0, Tag: tag("p", "x")}}), targets: []b6.FeatureID{x.A0}})
	add(part{name: "add-tag:same-value-as-present", kind: "tag-edit", shell: sh("add-tag " + lit(x.P[0]) + " #amenity=cafe"), ref: rf(ingest.AddTags{{ID: x.P[0], Tag: tag("#amenity", "cafe")}}), targets: []b6.FeatureID{x.P[0]}})
	add(part{name: "add-tag:overlay-or-absent-point", kind: "tag-edit", shell: sh("add-tag " + lit(x.Q) + " p=x"), ref: rf(ingest.AddTags{{ID: x.Q, Tag: tag("p", "x")}}), targets: []b6.FeatureID{x.Q}})
	add(part{name: "add-tag:absent-id", kind: "tag-edit", shell: sh("add-tag " + lit(x.Missing) + " p=x"), ref: rf(ingest.AddTags{{ID: x.Missing, Tag: tag("p", "x")}}), targets: []b6.FeatureID{x.Missing}})
	add(part{name: "remove-tag:searchable:base-point", kind: "tag-edit", shell: sh("remove-tag " + lit(x.P[0]) + ` "#amenity"`), ref: rf(ingest.RemoveTags{{ID: x.P[0], Key: "#amenity"}}), targets: []b6.FeatureID{x.P[0]}})
	add(part{name: "remove-tag:plain:base-point", kind: "tag-edit", shell: sh("remove-tag " + lit(x.P[1]) + ` "name"`), ref: rf(ingest.RemoveTags{{ID: x.P[1], Key: "name"}}), targets: []b6.FeatureID{x.P[1]}})
	add(part{name: "remove-tag:absent-key", kind: "tag-edit", shell: sh("remove-tag " + lit(x.P[0]) + ` "nokey"`), ref: rf(ingest.RemoveTags{{ID: x.P[0], Key: "nokey"}}), targets: []b6.FeatureID{x.P[0]}})
	add(part{name: "remove-tag:absent-id", kind: "tag-edit", shell: sh("remove-tag " + lit(x.Missing) + ` "p"`), ref: rf(ingest.RemoveTags{{ID: x.Missing, Key: "p"}}), targets: []b6.FeatureID{x.Missing}})
	add(part{name: "add-tags:two-present", kind: "tag-edit",
		shell: sh(fmt.Sprintf(`add-tags (collection (pair %s (tag "p" "x")) (pair %s (tag "#s" "y")))`, lit(x.P[0]), lit(x.P[1]))),
		ref:   rf(ingest.AddTags{{ID: x.P[0], Tag: tag("p", "x")}, {ID: x.P[1], Tag: tag("#s", "y")}}), targets: []b6.FeatureID{x.P[0], x.P[1]}})
	add(part{name: "add-tags:second-absent", kind: "tag-edit",
		shell: sh(fmt.Sprintf(`add-tags (collection (pair %s (tag "p" "x")) (pair %s (tag "p" "y")))`, lit(x.P[0]), lit(x.Missing))),
		ref:   rf(ingest.AddTags{{ID: x.P[0], Tag: tag("p", "x")}, {ID: x.Missing, Tag: tag("p", "y")}}), targets: []b6.FeatureID{x.P[0], x.Missing}})
	add(part{name: "add-tags:first-absent", kind: "tag-edit",
		shell: sh(fmt.Sprintf(`add-tags (collection (pair %s (tag "p" "x")) (pair %s (tag "p" "y")))`, lit(x.Missing), lit(x.P[0]))),
		ref:   rf(ingest.AddTags{{ID: x.Missing, Tag: tag("p", "x")}, {ID: x.P[0], Tag: tag("p", "y")}}), targets: []b6.FeatureID{x.P[0], x.Missing}})
	add(part{name: "add-tags:literal-collection", kind: "tag-edit",
		shell: sh(fmt.Sprintf(`add-tags {%s: p=x}`, lit(x.P[2]))),
		ref:   rf(ingest.AddTags{{ID: x.P[2], Tag: tag("p", "x")}}), targets: []b6.FeatureID{x.P[2]}})
	add(part{name: "remove-tags:second-absent", kind: "tag-edit",
		shell: sh(fmt.Sprintf(`remove-tags (collection (pair %s "#amenity") (pair %s "p"))`, lit(x.P[0]), lit(x.Missing))),
		ref:   rf(ingest.RemoveTags{{ID: x.P[0], Key: "#amenity"}, {ID: x.Missing, Key: "p"}}), targets: []b6.FeatureID{x.P[0], x.Missing}})
	// --- feature additions through API functions
	add(part{name: "add-point:new", kind: "feature-addition", shell: sh("add-point 51.5355,-0.1245 " + lit(x.Q) + " (collection)"),
		ref: func(string) ingest.Change { return addFeatures(pointFeature(x.Q, qll)) }, targets: []b6.FeatureID{x.Q}})
	add(part{name: "add-point:new-tagged", kind: "feature-addition", shell: sh("add-point 51.5355,-0.1245 " + lit(x.Q) + ` (collection (pair 0 (tag "#amenity" "pub")) (pair 1 (tag "name" "q")))`),
		ref: func(string) ingest.Change {
			return addFeatures(pointFeature(x.Q, qll, tag("#amenity", "pub"), tag("name", "q")))
		}, targets: []b6.FeatureID{x.Q}})
	add(part{name: "add-point:replaces-base-point", kind: "feature-addition", shell: sh("add-point 51.535,-0.1247 " + lit(x.P[1]) + ` (collection (pair 0 (tag "name" "moved")))`),
		ref: func(string) ingest.Change {
			return addFeatures(pointFeature(x.P[1], s2.LatLngFromDegrees(51.535, -0.1247), tag("name", "moved")))
		}, targets: []b6.FeatureID{x.P[1]}})
	add(part{name: "add-point:path-typed-id", kind: "feature-addition", shell: sh("add-point 51.5355,-0.1245 " + lit(x.BadPath) + " (collection)"),
		ref: func(string) ingest.Change { return addFeatures(pointFeature(x.BadPath, qll)) }, targets: []b6.FeatureID{x.BadPath}})
	add(part{name: "add-relation", kind: "feature-addition", shell: sh(fmt.Sprintf(`add-relation %s (collection (pair 0 (tag "#route" "tram"))) (collection (pair %s "stop") (pair %s ""))`, lit(x.R1), lit(x.P[0]), lit(x.W0))),
		ref: func(string) ingest.Change {
			return addFeatures(&ingest.RelationFeature{RelationID: x.R1.ToRelationID(), Tags: b6.Tags{tag("#route", "tram")}, Members: []b6.RelationMember{{ID: x.P[0], Role: "stop"}, {ID: x.W0, Role: ""}}})
		}, targets: []b6.FeatureID{x.R1}})
	add(part{name: "add-relation:member-absent", kind: "feature-addition", shell: sh(fmt.Sprintf(`add-relation %s (collection) {%s: "gone"}`, lit(x.R1), lit(x.Missing))),
		ref: func(string) ingest.Change {
			return addFeatures(&ingest.RelationFeature{RelationID: x.R1.ToRelationID(), Members: []b6.RelationMember{{ID: x.Missing, Role: "gone"}}})
		}, targets: []b6.FeatureID{x.R1}})
	add(part{name: "add-collection", kind: "feature-addition", shell: sh(fmt.Sprintf(`add-collection %s (collection (pair 0 (tag "#kind" "set"))) {%s: "x"}`, lit(x.C1), lit(x.P[0]))),
		ref: func(string) ingest.Change {
			return addFeatures(&ingest.CollectionFeature{CollectionID: x.C1.ToCollectionID(), Tags: b6.Tags{tag("#kind", "set")}, Keys: []interface{}{x.P[0]}, Values: []interface{}{"x"}})
		}, targets: []b6.FeatureID{x.C1}})
	fillGeo := func(json string) func() *ingest.AddFeatures {
		return func() *ingest.AddFeatures {
			g, err := parseGeoJSON(json)
			if err != nil {
				panic(err)
			}
			a := &ingest.AddFeatures{}
			a.FillFromGeoJSON(g, b6.Namespace(geoNS))
			return a
		}
	}
	for _, g := range []struct {
		name, json string
		targets    []b6.FeatureID
	}{
		{"import-geojson:point", `{"type":"Feature","geometry":{"type":"Point","coordinates":[-0.1245,51.5355]}}`, []b6.FeatureID{x.Geo0}},
		{"import-geojson:linestring", `{"type":"Feature","geometry":{"type":"LineString","coordinates":[[-0.1245,51.5355],[-0.1244,51.5356]]}}`, []b6.FeatureID{x.Geo1}},
		{"import-geojson:polygon", `{"type":"Feature","geometry":{"type":"Polygon","coordinates":[[[-0.123,51.537],[-0.1226,51.537],[-0.1226,51.5374],[-0.123,51.537]]]}}`, []b6.FeatureID{x.GeoA}},
		{"import-geojson:linestring-of-one-point", `{"type":"Feature","geometry":{"type":"LineString","coordinates":[[-0.1245,51.5355]]}}`, []b6.FeatureID{x.Geo1}},
		{"import-geojson:collection-second-invalid", `{"type":"FeatureCollection","features":[{"type":"Feature","geometry":{"type":"Point","coordinates":[-0.1245,51.5355]}},{"type":"Feature","geometry":{"type":"LineString","coordinates":[[-0.1245,51.5355]]}}]}`, []b6.FeatureID{x.Geo0, wk.PathID(geoNS, 1)}},
	} {
		add(geoPart(g.name, g.json, fillGeo(g.json), g.targets...))
	}
	connectRef := func(a, b b6.FeatureID) func(string) ingest.Change {
		return func(string) ingest.Change {
			p := &ingest.GenericFeature{ID: x.Access}
			p.ModifyOrAddTag(b6.Tag{Key: b6.PathTag, Value: b6.NewExpressions([]b6.AnyExpression{b6.FeatureIDExpression(a), b6.FeatureIDExpression(b)})})
			return addFeatures(p)
		}
	}
	add(part{name: "connect:two-points", kind: "feature-addition", shell: sh(fmt.Sprintf("connect (find-feature %s) (find-feature %s)", lit(x.P[1]), lit(x.P[3]))), ref: connectRef(x.P[1], x.P[3]), targets: []b6.FeatureID{x.Access}})
	add(part{name: "connect:point-to-area", kind: "feature-addition", shell: sh(fmt.Sprintf("connect (find-feature %s) (find-feature %s)", lit(x.P[0]), lit(x.A0))), ref: connectRef(x.P[0], x.A0), targets: []b6.FeatureID{x.Access}})
	// --- change files
	pathDoc := func(id b6.FeatureID, pts ...b6.FeatureID) string {
		var s []string
		for _, p := range pts {
			s = append(s, p.String())
		}
		return fmt.Sprintf("id: %s\ntags:\n- key: path\n  value: %s\n- key: '#highway'\n  value: footway\n", lit(id), strings.Join(s, ";"))
	}
	areaDoc := func(id b6.FeatureID, path b6.FeatureID) string {
		return fmt.Sprintf("area:\n- - %s\nid: %s\ntags:\n- key: '#landuse'\n  value: park\n", lit(path), lit(id))
	}
	add(filePart("file:path-over-base-points", "ok-path.yaml", pathDoc(x.W1, x.P[1], x.P[3]), x.W1))
	add(filePart("file:path-references-missing-point", "bad-path.yaml", pathDoc(x.W1, x.P[0], x.Missing), x.W1))
	add(filePart("file:area-over-closed-base-path", "ok-area.yaml", areaDoc(x.A1, x.W0), x.A1))
	add(filePart("file:open-path-then-area-over-it", "open-area.yaml", pathDoc(x.W1, x.P[1], x.P[3])+"---\n"+areaDoc(x.A1, x.W1), x.W1, x.A1))
	add(filePart("file:area-over-missing-path", "missing-area.yaml", areaDoc(x.A1, x.MissingW), x.A1))
	add(filePart("file:point-path-area-chain", "chain.yaml",
		fmt.Sprintf("id: %s\ntags:\n- key: point\n  value:\n    point: 51.5355,-0.1245\n", lit(x.Q))+"---\n"+pathDoc(x.W1, x.P[0], x.P[1], x.Q, x.P[0])+"---\n"+areaDoc(x.A1, x.W1), x.Q, x.W1, x.A1))
	// documents that only edit tags: "add" entries, then "remove" entries
	type tagDoc struct {
		id          b6.FeatureID
		add, remove []string // keys; added with value "x"
	}
	tagFile := func(name, file string, docs ...tagDoc) part {
		var texts []string
		var targets []b6.FeatureID
		for _, d := range docs {
			t := fmt.Sprintf("id: %s\n", lit(d.id))
			if len(d.add) > 0 {
				t += "add:\n"
				for _, k := range d.add {
					t += fmt.Sprintf("- key: '%s'\n  value: x\n", k)
				}
			}
			if len(d.remove) > 0 {
				t += "remove:\n"
				for _, k := range d.remove {
					t += fmt.Sprintf("- '%s'\n", k)
				}
			}
			texts = append(texts, t)
			targets = append(targets, d.id)
		}
		p := filePart(name, file, strings.Join(texts, "---\n"), targets...)
		p.ops = func() []op {
			var ops []op
			for _, d := range docs {
				d := d
				for _, k := range d.add {
					k := k
					ops = append(ops, op{kind: "add-tag", id: d.id, do: func(w ingest.MutableWorld) error { return w.AddTag(d.id, tag(k, "x")) }})
				}
				for _, k := range d.remove {
					k := k
					ops = append(ops, op{kind: "remove-tag", id: d.id, do: func(w ingest.MutableWorld) error { return w.RemoveTag(d.id, k) }})
				}
			}
			for i := range ops {
				ops[i].idx, ops[i].n = i, len(ops)
			}
			return ops
		}
		return p
	}
	add(tagFile("file:tag-edits", "tags.yaml", tagDoc{x.P[0], []string{"p"}, []string{"#amenity"}}))
	add(tagFile("file:add-tag-on-absent-id", "tag-absent.yaml", tagDoc{x.Missing, []string{"p"}, nil}))
	add(tagFile("file:remove-tag-on-absent-id", "untag-absent.yaml", tagDoc{x.Missing, nil, []string{"p"}}))
	add(tagFile("file:tag-edits:absent-id-then-present-id", "tags-absent-present.yaml", tagDoc{x.Missing, []string{"p"}, nil}, tagDoc{x.P[1], []string{"p"}, nil}))
	add(tagFile("file:tag-edits:present-id-then-absent-id", "tags-present-absent.yaml", tagDoc{x.P[1], []string{"p"}, nil}, tagDoc{x.Missing, []string{"p"}, nil}))
	add(filePart("file:malformed", "broken.yaml", "id: [unclosed\n", x.P[0]))
	// --- collections of 2..3 entries, each entry independently valid or failing
	// --- a tag edit for every feature type x presence x kind of key
	ps = append(ps, typedTagEdits(x)...)
	ps = append(ps, multiEntryParts(x)...)
	return ps
}

// ---- multi-entry menus -----------------------------------------------------------

const minEntries, maxEntries = 2, 3

// sequences: every sequence over {0..n-1} (repetition allowed) of length
// lo..hi, shorter first, each length in lexicographic order.
func sequences(n, lo, hi int) [][]int {
	var out [][]int
	for l := lo; l <= hi; l++ {
		total := 1
		for i := 0; i < l; i++ {
			total *= n
		}
		for v := 0; v < total; v++ {
			s := make([]int, l)
			for i, r := l-1, v; i >= 0; i-- {
				s[i] = r % n
				r /= n
			}
			out = append(out, s)
		}
	}
	return out
}

func always(prestate) bool  { return true }
func never(prestate) bool   { return false }
func whenQ(p prestate) bool { return p.hasQ }
func idsOf(l []tagEntry, s []int) (out []b6.FeatureID) {
	for _, i := range s {
		out = append(out, l[i].id)
	}
	return out
}

// tagEntry: one entry of an add-tags (key, val) or remove-tags (key) collection.
type tagEntry struct {
	name     string
	id       b6.FeatureID
	key, val string
	present  func(prestate) bool // is id present in the pre-state: the entry is valid iff it is
}

func addTagsMenu(x ids) []tagEntry {
	return []tagEntry{
		{"P0:p", x.P[0], "p", "x", always},
		{"P1:#s", x.P[1], "#s", "y", always},
		{"Q:p", x.Q, "p", "q", whenQ}, // present only in the pre-state with the overlay point
		{"absent-point:p", x.Missing, "p", "m", never},
		{"absent-path:#s", x.MissingW, "#s", "w", never},
	}
}

func removeTagsMenu(x ids) []tagEntry {
	return []tagEntry{
		{"P0:#amenity", x.P[0], "#amenity", "", always},
		{"P1:name", x.P[1], "name", "", always},
		{"Q:#amenity", x.Q, "#amenity", "", whenQ},
		{"absent-point:p", x.Missing, "p", "", never},
		{"absent-path:#highway", x.MissingW, "#highway", "", never},
	}
}

// geoEntry: one feature of a GeoJSON feature collection given to import-geojson.
type geoEntry struct {
	name, json string
	valid      bool
	id         func(i uint64) b6.FeatureID // the ID import-geojson gives it at position i
}

func geoMenu() []geoEntry {
	return []geoEntry{
		{"point", `{"type":"Feature","geometry":{"type":"Point","coordinates":[-0.1245,51.5355]}}`, true, func(i uint64) b6.FeatureID { return wk.PointID(geoNS, i) }},
		{"line", `{"type":"Feature","geometry":{"type":"LineString","coordinates":[[-0.1245,51.5355],[-0.1244,51.5356]]}}`, true, func(i uint64) b6.FeatureID { return wk.PathID(geoNS, i) }},
		{"line-of-1-point", `{"type":"Feature","geometry":{"type":"LineString","coordinates":[[-0.1245,51.5355]]}}`, false, func(i uint64) b6.FeatureID { return wk.PathID(geoNS, i) }},
		{"polygon", `{"type":"Feature","geometry":{"type":"Polygon","coordinates":[[[-0.123,51.537],[-0.1226,51.537],[-0.1226,51.5374],[-0.123,51.537]]]}}`, true, func(i uint64) b6.FeatureID { return wk.AreaID(geoNS, i) }},
	}
}

func addTagsPart(menu []tagEntry, s []int) part {
	var names, pairs []string
	var ref ingest.AddTags
	var decl []entryDecl
	for _, i := range s {
		e := menu[i]
		names = append(names, e.name)
		pairs = append(pairs, fmt.Sprintf("(pair %s (tag %q %q))", lit(e.id), e.key, e.val))
		ref = append(ref, ingest.AddTag{ID: e.id, Tag: b6.Tag{Key: e.key, Value: str(e.val)}})
		decl = append(decl, entryDecl{name: e.name, op: "add-tag", valid: e.present, id: e.id})
	}
	return part{name: "add-tags[" + strings.Join(names, ", ") + "]", kind: "tag-edit",
		shell: sh("add-tags (collection " + strings.Join(pairs, " ") + ")"), ref: rf(ref), targets: idsOf(menu, s), entries: decl}
}

func removeTagsPart(menu []tagEntry, s []int) part {
	var names, pairs []string
	var ref ingest.RemoveTags
	var decl []entryDecl
	for _, i := range s {
		e := menu[i]
		names = append(names, e.name)
		pairs = append(pairs, fmt.Sprintf("(pair %s %q)", lit(e.id), e.key))
		ref = append(ref, ingest.RemoveTag{ID: e.id, Key: e.key})
		decl = append(decl, entryDecl{name: e.name, op: "remove-tag", valid: e.present, id: e.id})
	}
	return part{name: "remove-tags[" + strings.Join(names, ", ") + "]", kind: "tag-edit",
		shell: sh("remove-tags (collection " + strings.Join(pairs, " ") + ")"), ref: rf(ref), targets: idsOf(menu, s), entries: decl}
}

func geoCollectionPart(menu []geoEntry, s []int) part {
	var names, docs []string
	var targets []b6.FeatureID
	var decl []entryDecl
	for pos, i := range s {
		e := menu[i]
		names = append(names, e.name)
		docs = append(docs, e.json)
		targets = append(targets, e.id(uint64(pos)))
		valid := e.valid
		decl = append(decl, entryDecl{name: e.name, op: "add-feature", valid: func(prestate) bool { return valid }})
	}
	json := `{"type":"FeatureCollection","features":[` + strings.Join(docs, ",") + `]}`
	p := geoPart("import-geojson["+strings.Join(names, ", ")+"]", json, func() *ingest.AddFeatures {
		g, err := parseGeoJSON(json)
		if err != nil {
			panic(err)
		}
		a := &ingest.AddFeatures{}
		a.FillFromGeoJSON(g, b6.Namespace(geoNS))
		return a
	}, targets...)
	p.entries = decl
	return p
}

// typedTagEntries: a tag edit for every feature type x {present in the base,
// present only in the overlay of one pre-state, absent} x {plain key,
// searchable key}; for add (key + value) or remove (key of a tag the present
// features have).
func typedTagEntries(x ids, remove bool) []tagEntry {
	type target struct {
		typ  string
		id   b6.FeatureID
		skey string // a searchable key the feature has
	}
	var out []tagEntry
	for _, w := range []struct {
		where   string
		present func(prestate) bool
		targets []target
	}{
		{"base", always, []target{{"point", x.P[0], "#amenity"}, {"path", x.W0, "#highway"}, {"area", x.A0, "#building"}, {"relation", x.R0, "#route"}, {"collection", x.C0, "#kind"}}},
		{"overlay-only", whenQ, []target{{"point", x.Q, "#amenity"}, {"path", x.W2, "#kind"}, {"area", x.A2, "#kind"}, {"relation", x.R2, "#kind"}, {"collection", x.C2, "#kind"}}},
		{"absent", never, []target{{"point", x.Missing, "#kind"}, {"path", x.MissingW, "#kind"}, {"area", x.MissingA, "#kind"}, {"relation", x.MissingR, "#kind"}, {"collection", x.MissingC, "#kind"}}},
	} {
		for _, t := range w.targets {
			for _, searchable := range []bool{false, true} {
				e := tagEntry{id: t.id, present: w.present}
				switch {
				case !remove && !searchable:
					e.name, e.key, e.val = t.typ+":"+w.where+":plain-key", "note", "n"
				case !remove && searchable:
					e.name, e.key, e.val = t.typ+":"+w.where+":searchable-key", "#mark", "m"
				case remove && !searchable:
					e.name, e.key = t.typ+":"+w.where+":plain-key", "name"
				default:
					e.name, e.key = t.typ+":"+w.where+":searchable-key", t.skey
				}
				out = append(out, e)
			}
		}
	}
	return out
}

// typedTagEdits: add-tag and remove-tag for every entry of typedTagEntries.
func typedTagEdits(x ids) []part {
	var ps []part
	for _, e := range typedTagEntries(x, false) {
		ps = append(ps, part{name: "add-tag:" + e.name, kind: "tag-edit",
			shell: sh(fmt.Sprintf("add-tag %s (tag %q %q)", lit(e.id), e.key, e.val)), ref: rf(ingest.AddTags{{ID: e.id, Tag: b6.Tag{Key: e.key, Value: str(e.val)}}}),
			targets: []b6.FeatureID{e.id}, entries: []entryDecl{{name: e.name, op: "add-tag", valid: e.present, id: e.id}}})
	}
	for _, e := range typedTagEntries(x, true) {
		ps = append(ps, part{name: "remove-tag:" + e.name, kind: "tag-edit",
			shell: sh(fmt.Sprintf("remove-tag %s %q", lit(e.id), e.key)), ref: rf(ingest.RemoveTags{{ID: e.id, Key: e.key}}),
			targets: []b6.FeatureID{e.id}, entries: []entryDecl{{name: e.name, op: "remove-tag", valid: e.present, id: e.id}}})
	}
	return ps
}

// typedTagPairs: add-tags / remove-tags of two entries, an always valid one on
// a base point and an entry of typedTagEntries, in both orders.
func typedTagPairs(x ids) []part {
	var ps []part
	for _, e := range typedTagEntries(x, false) {
		menu := []tagEntry{{"P1:p", x.P[1], "p", "x", always}, e}
		ps = append(ps, addTagsPart(menu, []int{0, 1}), addTagsPart(menu, []int{1, 0}))
	}
	for _, e := range typedTagEntries(x, true) {
		menu := []tagEntry{{"P1:name", x.P[1], "name", "", always}, e}
		ps = append(ps, removeTagsPart(menu, []int{0, 1}), removeTagsPart(menu, []int{1, 0}))
	}
	return ps
}

func multiEntryParts(x ids) []part {
	var ps []part
	am, rm, gm := addTagsMenu(x), removeTagsMenu(x), geoMenu()
	// shorter collections first within each family
	for l := minEntries; l <= maxEntries; l++ {
		if l == 2 {
			ps = append(ps, typedTagPairs(x)...)
		}
		for _, s := range sequences(len(am), l, l) {
			ps = append(ps, addTagsPart(am, s))
		}
		for _, s := range sequences(len(rm), l, l) {
			ps = append(ps, removeTagsPart(rm, s))
		}
		for _, s := range sequences(len(gm), l, l) {
			ps = append(ps, geoCollectionPart(gm, s))
		}
	}
	return ps
}

// mergeMenu: indices into parts() used as parts of merged changes.
var mergeMenu = []string{"add-tag:searchable:base-point", "add-tag:plain:base-point", "add-tag:overlay-or-absent-point", "add-tag:absent-id", "remove-tag:absent-id",
	"add-point:new-tagged", "add-point:path-typed-id", "add-relation", "file:path-references-missing-point", "file:path-over-base-points", "import-geojson:linestring-of-one-point",
	// multi-entry parts: all entries valid; the failing entry first / last /
	// in the middle; an entry that is valid only once an earlier part
	// (add-point:new-tagged) or the pre-state has added its feature
	"add-tags[P0:p, P1:#s]", "add-tags[absent-point:p, P0:p]", "add-tags[P0:p, absent-point:p]", "add-tags[P0:p, absent-point:p, P1:#s]", "add-tags[Q:p, P0:p]",
	"remove-tags[absent-point:p, P0:#amenity]", "remove-tags[P0:#amenity, absent-point:p]",
	"import-geojson[line-of-1-point, point]", "import-geojson[point, line-of-1-point]",
	// a plain tag on a path that does not exist
	"add-tag:path:absent:plain-key"}

type change struct {
	name   string
	kind   string
	parts  []part
	merged bool // false: parts[0] itself; true: merge-changes over the parts (also over a single part)
	nested bool // merge-changes [ merge-changes [parts[:n-1]], parts[n-1] ]
}

func (c change) shell(dir string) string {
	if !c.merged {
		return c.parts[0].shell(dir)
	}
	var ps []string
	for i, p := range c.parts {
		ps = append(ps, fmt.Sprintf("(pair %d (%s))", i, p.shell(dir)))
	}
	if c.nested {
		// merge-changes [ merge-changes [parts[:n-1]], parts[n-1] ]
		inner := "merge-changes (collection " + strings.Join(ps[:len(ps)-1], " ") + ")"
		return fmt.Sprintf("merge-changes (collection (pair 0 (%s)) (pair 1 (%s)))", inner, c.parts[len(c.parts)-1].shell(dir))
	}
	return "merge-changes (collection " + strings.Join(ps, " ") + ")"
}

func (c change) ref(dir string) ingest.Change {
	if !c.merged {
		return c.parts[0].ref(dir)
	}
	var m ingest.MergedChange
	for _, p := range c.parts {
		m = append(m, p.ref(dir))
	}
	if c.nested {
		return ingest.MergedChange{m[:len(m)-1], m[len(m)-1]}
	}
	return m
}

// ops: the entries of the change in application order; ok is false if a part
// has no readable entries.
func (c change) ops(dir string) (ops []op, ok bool) {
	for _, p := range c.parts {
		if p.ops != nil {
			ops = append(ops, p.ops()...)
			continue
		}
		o, ok := elementary(p.ref(dir))
		if !ok {
			return nil, false
		}
		ops = append(ops, o...)
	}
	return ops, true
}

func (c change) targets() map[b6.FeatureID]bool {
	t := map[b6.FeatureID]bool{}
	for _, p := range c.parts {
		for _, id := range p.targets {
			t[id] = true
		}
	}
	return t
}

func changes(x ids, maxMerge int) []change {
	ps := parts(x)
	byName := map[string]part{}
	var out []change
	for _, p := range ps {
		byName[p.name] = p
		out = append(out, change{name: p.name, kind: p.kind, parts: []part{p}})
	}
	var menu []part
	for _, n := range mergeMenu {
		p, ok := byName[n]
		if !ok {
			panic("merge menu: " + n)
		}
		menu = append(menu, p)
	}
	// shorter merges first; each length in lexicographic order of the menu
	for _, s := range sequences(len(menu), 1, maxMerge) {
		var cur []part
		var names []string
		for _, i := range s {
			cur = append(cur, menu[i])
			names = append(names, menu[i].name)
		}
		out = append(out, change{name: "merge[" + strings.Join(names, ", ") + "]", kind: "merged-change", parts: cur, merged: true})
		if len(cur) == 2 {
			out = append(out, change{name: "merge[merge[" + names[0] + "], " + names[1] + "]", kind: "merged-change", parts: cur, merged: true, nested: true})
		}
	}
	return out
}

// ---- pre-states ------------------------------------------------------------------

type prestate struct {
	name  string
	hasQ  bool // the pre-state contains the overlay-only features (x.Q, x.W2, x.A2, x.R2, x.C2), absent from the base
	apply func(x ids, w ingest.MutableWorld) error
}

var prestates = []prestate{
	{"fresh", false, func(ids, ingest.MutableWorld) error { return nil }},
	{"overlay-features+modified-tags", true, func(x ids, w ingest.MutableWorld) error {
		if _, err := addFeatures(pointFeature(x.Q, s2.LatLngFromDegrees(51.5356, -0.1244), b6.Tag{Key: "#amenity", Value: str("bar")}, b6.Tag{Key: "name", Value: str("q")})).Apply(w); err != nil {
			return err
		}
		// a feature of every other type that only the overlay has
		tags := []wk.TagSpec{{"#kind", "overlay"}, {"name", "o"}}
		for _, f := range []wk.FSpec{
			{ID: x.W2, Kind: wk.KPath, Path: wk.Refs(x.P[0], x.P[2]), Tags: tags}, // not P1-P3: `connect` is asked to join those
			{ID: x.A2, Kind: wk.KArea, Polys: []wk.PolySpec{{Paths: []b6.FeatureID{x.W0}}}, Tags: tags},
			{ID: x.R2, Kind: wk.KRelation, Members: []wk.MemberSpec{{x.P[1], "stop"}}, Tags: tags},
			{ID: x.C2, Kind: wk.KCollection, Items: []wk.KV{{K: "id:" + x.P[1].String(), V: "s:y"}}, Tags: tags},
		} {
			if err := w.AddFeature(f.Feature()); err != nil {
				return err
			}
		}
		_, err := ingest.AddTags{{ID: x.P[2], Tag: b6.Tag{Key: "note", Value: str("n")}}, {ID: x.W0, Tag: b6.Tag{Key: "#s", Value: str("w")}}}.Apply(w)
		return err
	}},
	{"base-point-replaced", false, func(x ids, w ingest.MutableWorld) error {
		_, err := addFeatures(pointFeature(x.P[3], s2.LatLngFromDegrees(51.5352, -0.1251), b6.Tag{Key: "name", Value: str("p3")})).Apply(w)
		return err
	}},
}

// ---- evaluation ------------------------------------------------------------------

type outcome struct {
	err     error
	ids     []b6.FeatureID
	pairsOK bool // every returned key equals its value
	typ     string
}

func idSet(l []b6.FeatureID) string {
	m := map[string]bool{}
	for _, id := range l {
		m[id.String()] = true
	}
	var s []string
	for k := range m {
		s = append(s, k)
	}
	sort.Strings(s)
	return "{" + strings.Join(s, " ") + "}"
}

func collectionIDs(c b6.UntypedCollection) (keys []b6.FeatureID, pairsOK bool, err error) {
	pairsOK = true
	i := c.BeginUntyped()
	for {
		ok, e := i.Next()
		if e != nil {
			return keys, pairsOK, e
		}
		if !ok {
			return keys, pairsOK, nil
		}
		k, kok := i.Key().(b6.FeatureID)
		v, vok := i.Value().(b6.FeatureID)
		if !kok {
			if ki, ok := i.Key().(b6.Identifiable); ok {
				k, kok = ki.FeatureID(), true
			}
		}
		if !vok {
			if vi, ok := i.Value().(b6.Identifiable); ok {
				v, vok = vi.FeatureID(), true
			}
		}
		if !kok || !vok || k != v {
			pairsOK = false
		}
		if kok {
			keys = append(keys, k)
		}
	}
}

var options = api.Options{Cores: 1, FileIOAllowed: true}

func evalGRPC(worlds ingest.Worlds, e b6.Expression, root b6.FeatureID) outcome {
	var lock sync.RWMutex
	svc := bgrpc.NewB6Service(worlds, options, &lock)
	p, err := e.ToProto()
	if err != nil {
		return outcome{err: fmt.Errorf("harness: ToProto: %w", err), typ: "harness"}
	}
	req := &pb.EvaluateRequestProto{Request: p, Version: b6.ApiVersion}
	if root.IsValid() {
		req.Root = b6.NewProtoFromFeatureID(root)
	}
	resp, err := svc.Evaluate(context.Background(), req)
	if err != nil {
		return outcome{err: err, typ: "error"}
	}
	r, err := b6.ExpressionFromProto(resp.GetResult())
	if err != nil {
		return outcome{typ: fmt.Sprintf("undecodable result: %v", err)}
	}
	c, ok := r.AnyExpression.(b6.CollectionExpression)
	if !ok {
		return outcome{typ: fmt.Sprintf("%T", r.AnyExpression)}
	}
	o := outcome{typ: "collection"}
	var ierr error
	o.ids, o.pairsOK, ierr = collectionIDs(c.UntypedCollection)
	if ierr != nil {
		o.typ = "broken collection: " + ierr.Error()
	}
	return o
}

func evalUI(worlds ingest.Worlds, e b6.Expression, root b6.FeatureID) outcome {
	var lock sync.RWMutex
	ev := api.Evaluator{Worlds: worlds, FunctionSymbols: functions.Functions(), Adaptors: functions.Adaptors(), Options: options, Lock: &lock}
	lock.RLock() // callers hold the read lock (ui.OpenSourceUI.ServeStack)
	v, err := ev.EvaluateExpression(e, root)
	lock.RUnlock()
	if err != nil {
		return outcome{err: err, typ: "error"}
	}
	a, ok := v.(*api.AppliedChange)
	if !ok {
		return outcome{typ: fmt.Sprintf("%T", v)}
	}
	o := outcome{typ: "collection"}
	var ierr error
	o.ids, o.pairsOK, ierr = collectionIDs(a.Modified)
	if ierr != nil {
		o.typ = "broken collection: " + ierr.Error()
	}
	return o
}

func parseGeoJSON(s string) (geojson.GeoJSON, error) { return geojson.Unmarshal([]byte(s)) }

// ---- observed and fault-injecting worlds -------------------------------------------

// mutCall: one mutating call the code under test made on the real world.
type mutCall struct {
	kind     string // add-feature | add-tag | remove-tag
	id       b6.FeatureID
	err      error
	injected bool
}

// faultWorld implements ingest.MutableWorld by delegation. It records every
// mutating call (AddFeature / AddTag / RemoveTag) made on the world and its
// result, and fails the failAt-th of them (1-based; 0 = never) without
// performing it.
type faultWorld struct {
	ingest.MutableWorld
	log *mutLog
}

type mutLog struct {
	sync.Mutex
	failAt int
	calls  []mutCall
}

func (f *faultWorld) mutate(kind string, id b6.FeatureID, do func() error) error {
	f.log.Lock()
	defer f.log.Unlock()
	if len(f.log.calls)+1 == f.log.failAt {
		err := fmt.Errorf("injected fault: mutating call %d (%s %s) fails", f.log.failAt, kind, id)
		f.log.calls = append(f.log.calls, mutCall{kind, id, err, true})
		return err
	}
	err := do()
	f.log.calls = append(f.log.calls, mutCall{kind, id, err, false})
	return err
}

func (f *faultWorld) AddFeature(feature ingest.Feature) error {
	return f.mutate("add-feature", feature.FeatureID(), func() error { return f.MutableWorld.AddFeature(feature) })
}

func (f *faultWorld) AddTag(id b6.FeatureID, tag b6.Tag) error {
	return f.mutate("add-tag", id, func() error { return f.MutableWorld.AddTag(id, tag) })
}

func (f *faultWorld) RemoveTag(id b6.FeatureID, key string) error {
	return f.mutate("remove-tag", id, func() error { return f.MutableWorld.RemoveTag(id, key) })
}

// faultWorlds implements ingest.Worlds by delegation, handing out the worlds
// of inner wrapped in faultWorld (one log, so calls are numbered across them).
type faultWorlds struct {
	inner ingest.Worlds
	log   mutLog
}

func (f *faultWorlds) FindOrCreateWorld(id b6.FeatureID) ingest.MutableWorld {
	return &faultWorld{MutableWorld: f.inner.FindOrCreateWorld(id), log: &f.log}
}

func (f *faultWorlds) ListWorlds() []b6.FeatureID { return f.inner.ListWorlds() }

func (f *faultWorlds) DeleteWorld(id b6.FeatureID) { f.inner.DeleteWorld(id) }

// firstFailure: the first mutating call that returned an error (nil if none).
func (f *faultWorlds) firstFailure() *mutCall {
	f.log.Lock()
	defer f.log.Unlock()
	for i := range f.log.calls {
		if f.log.calls[i].err != nil {
			return &f.log.calls[i]
		}
	}
	return nil
}

func (f *faultWorlds) ncalls() int {
	f.log.Lock()
	defer f.log.Unlock()
	return len(f.log.calls)
}

// ---- entrywise application (the independent model of "applying the change") ------

// op: one entry of a change, applied with the world's own elementary operation.
type op struct {
	kind   string // add-tag | remove-tag | add-feature
	id     b6.FeatureID
	idx, n int // position in, and length of, the collection the entry belongs to
	do     func(w ingest.MutableWorld) error
}

func (o op) String() string { return fmt.Sprintf("%s %s (entry %d of %d)", o.kind, o.id, o.idx+1, o.n) }

// position of the entry within its collection, as a small class
func (o op) pos() string {
	switch {
	case o.n == 1:
		return "only-entry"
	case o.idx == 0:
		return "first-entry"
	case o.idx == o.n-1:
		return "last-entry"
	}
	return "middle-entry"
}

// elementary takes a change apart into its entries, in application order; ok
// is false if the change (or a part of a merged change) is of a type whose
// entries can't be read (changes from files).
func elementary(c ingest.Change) (ops []op, ok bool) {
	addFeature := func(fs []ingest.Feature) {
		for i, f := range fs {
			f := f
			ops = append(ops, op{kind: "add-feature", id: f.FeatureID(), idx: i, n: len(fs), do: func(w ingest.MutableWorld) error { return w.AddFeature(f) }})
		}
	}
	switch c := c.(type) {
	case ingest.AddTags:
		for i, t := range c {
			t := t
			ops = append(ops, op{kind: "add-tag", id: t.ID, idx: i, n: len(c), do: func(w ingest.MutableWorld) error { return w.AddTag(t.ID, t.Tag) }})
		}
	case ingest.RemoveTags:
		for i, t := range c {
			t := t
			ops = append(ops, op{kind: "remove-tag", id: t.ID, idx: i, n: len(c), do: func(w ingest.MutableWorld) error { return w.RemoveTag(t.ID, t.Key) }})
		}
	case *ingest.AddFeatures:
		addFeature(*c)
	case ingest.MergedChange:
		for _, sub := range c {
			o, ok := elementary(sub)
			if !ok {
				return nil, false
			}
			ops = append(ops, o...)
		}
	default:
		return nil, false
	}
	return ops, true
}

// ---- one case --------------------------------------------------------------------

type env struct {
	x       ids
	base    b6.World
	changes []change
	queries []wk.NamedQuery
}

func (e *env) dump(w b6.World) wk.Dump {
	return wk.DumpWorld(w, &wk.DumpOptions{IDs: e.x.Universe, Queries: e.queries})
}

var roots = []b6.FeatureID{b6.FeatureIDInvalid, {Type: b6.FeatureTypeCollection, Namespace: "diagonal.works/test/world", Value: 7}}
var evaluators = []string{"grpc", "ui"}

func failureCause(err error) string {
	m := err.Error()
	switch {
	case strings.Contains(m, "No feature with ID"):
		return "tag-edit-on-absent-id"
	case strings.Contains(m, "missing point"):
		return "path-references-missing-point"
	case strings.Contains(m, "not closed"):
		return "area-over-open-path"
	case strings.Contains(m, "non-existant path"):
		return "area-over-missing-path"
	case strings.Contains(m, "expected 2 or more"):
		return "path-with-fewer-than-2-points"
	case strings.HasPrefix(m, "yaml:"):
		return "malformed-file"
	}
	return "other"
}

// setup writes the files the change reads and returns the client's text.
func setup(ch change, r *kit.Result) (dir, text, shown string, cleanup func(), ok bool) {
	cleanup = func() {}
	needsFiles := false
	for _, p := range ch.parts {
		needsFiles = needsFiles || len(p.files) > 0
	}
	if needsFiles {
		var err error
		if dir, err = os.MkdirTemp("", "c26-"); err != nil {
			r.Violate("harness:tempdir", "%v", err)
			return "", "", "", cleanup, false
		}
		d := dir
		cleanup = func() { os.RemoveAll(d) }
	}
	for _, p := range ch.parts {
		for name, content := range p.files {
			if err := os.WriteFile(filepath.Join(dir, name), []byte(content), 0o644); err != nil {
				r.Violate("harness:tempfile", "%v", err)
				return dir, "", "", cleanup, false
			}
		}
	}
	text = ch.shell(dir)
	shown = text
	if dir != "" {
		shown = strings.ReplaceAll(text, dir, "<dir>")
	}
	return dir, text, shown, cleanup, true
}

// evaluate sends the expression through one of the two evaluators.
func evaluate(evaluator string, worlds ingest.Worlds, expr b6.Expression, root b6.FeatureID) (got outcome, cls, msg string) {
	cls, msg = kit.Catch(func() {
		if evaluator == "grpc" {
			got = evalGRPC(worlds, expr, root)
		} else {
			got = evalUI(worlds, expr, root)
		}
	})
	return got, cls, msg
}

func (e *env) run(cd caseDef) kit.Result {
	if cd.readOnly {
		return e.runReadOnly(cd)
	}
	var r kit.Result
	ch := e.changes[cd.change]
	pre := prestates[cd.pre]
	root := roots[cd.root]
	evaluator := evaluators[cd.eval]
	dir, text, shown, cleanup, ok := setup(ch, &r)
	defer cleanup()
	if !ok {
		return r
	}
	desc := fmt.Sprintf("evaluator=%s root=%s pre-state=%s\nexpression: %s", evaluator, root, pre.name, shown)
	r.Key = fmt.Sprintf("%s|%s|%s|%d", evaluator, ch.name, pre.name, cd.root)
	r.Nontrivial = true
	r.Evals = 1

	// the world the evaluators act on
	worlds := &ingest.MutableWorlds{Base: e.base}
	live := worlds.FindOrCreateWorld(root)
	if err := pre.apply(e.x, live); err != nil {
		r.Violate("harness:prestate", "%s: %v", pre.name, err)
		return r
	}
	// the identical fresh world for the reference Apply
	ref := ingest.NewMutableOverlayWorld(e.base)
	if err := pre.apply(e.x, ref); err != nil {
		r.Violate("harness:prestate", "%s: %v", pre.name, err)
		return r
	}
	// the declared presence of the features the entries edit, against the pre-state
	if !ch.merged {
		for _, d := range ch.parts[0].entries {
			if d.id.IsValid() && (live.FindFeatureByID(d.id) != nil) != d.valid(pre) {
				r.Violate("harness:declared-presence-disagrees-with-FindFeatureByID-on-the-pre-state", "%s\n%s: declared present %v", desc, d.id, d.valid(pre))
				return r
			}
		}
	}
	before := e.dump(live)
	if d := wk.Diff(before, e.dump(ref), true); len(d) > 0 {
		r.Violate("harness:prestates-differ", "%s\n%s", desc, strings.Join(d, "\n"))
		return r
	}

	expr, err := api.ParseExpression(text)
	if err != nil {
		r.Violate("harness:expression-does-not-parse", "%s\n%v", desc, err)
		return r
	}
	// the evaluators get the world through a wrapper that records the mutating
	// calls made on it (and, here, injects no fault)
	observed := &faultWorlds{inner: worlds}
	got, cls, msg := evaluate(evaluator, observed, expr, root)
	if cls != "" {
		r.Violate(evaluator+":"+cls, "%s\n%s", desc, msg)
		return r
	}
	if got.typ == "harness" {
		r.Violate("harness:to-proto", "%s\n%v", desc, got.err)
		return r
	}

	// reference: the identical change applied directly
	var refIDs []b6.FeatureID
	var refErr error
	if cls, msg := kit.Catch(func() {
		var c b6.Collection[b6.FeatureID, b6.FeatureID]
		c, refErr = ch.ref(dir).Apply(ref)
		if refErr == nil {
			refIDs, _, _ = collectionIDs(c)
		}
	}); cls != "" {
		r.Violate("reference-apply:"+cls, "%s\n%s", desc, msg)
		return r
	}
	after := e.dump(live)
	refAfter := e.dump(ref)
	changed := len(wk.Diff(before, after, true)) > 0

	// entrywise application: the entries of the identical change, one by one,
	// with the world's elementary operations, on a third identical world
	ops, modelled := ch.ops(dir)
	failAt := -1
	var failErr error
	absentTarget := false // the failing entry is a tag edit of a feature absent from the world
	var absentOpErr error // what the world's own operation returned for it
	var modelAfter wk.Dump
	if modelled {
		model := ingest.NewMutableOverlayWorld(e.base)
		if err := pre.apply(e.x, model); err != nil {
			r.Violate("harness:prestate", "%s: %v", pre.name, err)
			return r
		}
		if cls, msg := kit.Catch(func() {
			for i, o := range ops {
				// a tag edit of a feature that is not in the world at that
				// point fails, whatever the world's operation says about it
				absent := (o.kind == "add-tag" || o.kind == "remove-tag") && model.FindFeatureByID(o.id) == nil
				err := o.do(model)
				if absent {
					failAt, absentTarget, absentOpErr = i, true, err
					failErr = fmt.Errorf("no feature %s in the world (FindFeatureByID returns nil); MutableWorld.%s on it returns: %v", o.id, map[string]string{"add-tag": "AddTag", "remove-tag": "RemoveTag"}[o.kind], err)
					break
				}
				if err != nil {
					failAt, failErr = i, err
					break
				}
			}
		}); cls != "" {
			r.Violate("entrywise-application:"+cls, "%s\n%s", desc, msg)
			return r
		}
		if absentTarget && absentOpErr == nil {
			r.Count("world-operation-accepts-a-tag-edit-of-an-absent-feature:"+ops[failAt].kind+":"+ops[failAt].id.Type.String(), 1)
		}
		if failAt < 0 {
			modelAfter = e.dump(model)
		}
		// the declared validity of the entries of a multi-entry collection
		if !ch.merged && ch.parts[0].entries != nil {
			decl := ch.parts[0].entries
			want, shape := -1, make([]string, len(decl))
			for i := len(decl) - 1; i >= 0; i-- {
				shape[i] = "valid"
				if !decl[i].valid(pre) {
					want, shape[i] = i, "failing"
				}
			}
			first := "none"
			if want >= 0 {
				first = fmt.Sprintf("%d", want+1)
			}
			r.Count(fmt.Sprintf("entries:%s:%d-entries:first-failing-entry=%s", decl[0].op, len(decl), first), 1)
			r.Count("entries:"+decl[0].op+":["+strings.Join(shape, " ")+"]", 1)
			if len(ops) != len(decl) || want != failAt {
				r.Violate("model:world-operation-disagrees-with-declared-entry-validity:"+decl[0].op,
					"%s\ndeclared: %v (first failing entry index %d); applying the %d entries one by one fails at index %d: %v", desc, shape, want, len(ops), failAt, failErr)
				return r
			}
		}
	}

	res := "applied"
	if refErr != nil {
		res = "apply-fails:" + failureCause(refErr)
		if len(wk.Diff(before, refAfter, true)) > 0 {
			res += ":partially-applied"
		}
	}
	r.Outcome = fmt.Sprintf("%s:%s:%s", evaluator, ch.kind, res)
	r.Count("change:"+ch.kind, 1)
	if modelled {
		r.Count("decided-by:entrywise-application", 1)
		if failAt >= 0 {
			r.Count(fmt.Sprintf("entrywise:fails:%s:%s", ops[failAt].kind, ops[failAt].pos()), 1)
		} else {
			r.Count("entrywise:every-entry-succeeds", 1)
		}
	} else {
		r.Count("decided-by:direct-apply-only", 1)
	}
	if cd.change%7 == 0 && cd.pre == 0 && cd.root == 0 {
		sm := map[string]interface{}{"evaluator": evaluator, "expression": shown, "pre_state": pre.name, "reference_apply_error": fmt.Sprint(refErr), "response_error": fmt.Sprint(got.err)}
		if modelled {
			sm["entries"] = len(ops)
			sm["entrywise_first_failure"] = "none"
			if failAt >= 0 {
				sm["entrywise_first_failure"] = fmt.Sprintf("%s: %v", ops[failAt], failErr)
			}
		}
		r.Sample = sm
	}

	// (1) error reported iff applying the change failed
	fails := refErr != nil // file changes: the differential with Change.Apply
	if modelled {
		fails = failAt >= 0
	}
	switch {
	case fails && got.err == nil && absentTarget:
		r.Violate(fmt.Sprintf("%s:success-reported-for-an-edit-of-an-absent-feature:%s:%s:%s:%s", evaluator, ch.kind, ops[failAt].kind, ops[failAt].id.Type, ops[failAt].pos()),
			"%s\n%s: %v\nthe response reports no error (result %s, ids %s); Change.Apply of the identical change on an identical fresh world: error %v, ids %s; world changed by the evaluation: %v",
			desc, ops[failAt], failErr, got.typ, idSet(got.ids), refErr, idSet(refIDs), changed)
	case fails && got.err == nil && refErr != nil:
		r.Violate(fmt.Sprintf("%s:no-error-reported-though-apply-fails:%s", evaluator, ch.kind),
			"%s\nChange.Apply on an identical fresh world fails: %v\nthe response reports no error (result %s, ids %s); world changed by the evaluation: %v", desc, refErr, got.typ, idSet(got.ids), changed)
	case fails && got.err == nil:
		// modelled, and Change.Apply itself reports success
		r.Violate(fmt.Sprintf("%s:no-error-reported-though-entry-fails:%s:%s:%s", evaluator, ch.kind, ops[failAt].kind, ops[failAt].pos()),
			"%s\napplying the entries of the identical change (%d) one by one (MutableWorld.AddTag/RemoveTag/AddFeature) to an identical fresh world fails at %s: %v\nthe response reports no error (result %s, ids %s); Change.Apply of the identical change on an identical fresh world also reports no error (ids %s); world changed by the evaluation: %v",
			desc, len(ops), ops[failAt], failErr, got.typ, idSet(got.ids), idSet(refIDs), changed)
	case !fails && got.err != nil && refErr == nil:
		r.Violate(fmt.Sprintf("%s:error-reported-though-apply-succeeds:%s", evaluator, ch.kind),
			"%s\nChange.Apply on an identical fresh world succeeds (ids %s)\nthe response reports: %v", desc, idSet(refIDs), got.err)
	case !fails && got.err != nil:
		// modelled: every entry succeeds on its own, yet Change.Apply and the
		// response report an error. If the evaluator's world nevertheless is
		// the world with every entry applied, the caller is told that a change
		// failed which was applied in full; otherwise applying did fail, and
		// the response is right to say so.
		if len(wk.Diff(modelAfter, after, true)) == 0 && changed {
			r.Violate(fmt.Sprintf("%s:error-reported-though-every-entry-was-applied:%s", evaluator, ch.kind),
				"%s\nevery one of the %d entries succeeds when applied one by one, and the evaluator's world equals the world with all of them applied\nthe response reports: %v (Change.Apply on an identical fresh world: %v)", desc, len(ops), got.err, refErr)
		} else {
			r.Count("apply-fails-though-every-entry-succeeds-on-its-own", 1)
		}
	}
	// (1b) observed: a mutating call the evaluation made on the world failed
	if f := observed.firstFailure(); f != nil && got.err == nil {
		r.Violate(fmt.Sprintf("%s:no-error-reported-though-a-mutation-of-the-world-failed:writable-world:%s:%s", evaluator, ch.kind, f.kind),
			"%s\nwhile the change was applied, %s %s on the world returned: %v\nthe response reports no error (result %s, ids %s)", desc, f.kind, f.id, f.err, got.typ, idSet(got.ids))
	}
	// (1c) fault injection: the same request on an identical world whose k-th
	// mutating call fails, for every k up to the number of mutating calls the
	// evaluation made: the caller must be told
	ncalls := observed.ncalls()
	r.Count(fmt.Sprintf("mutating-calls-on-the-world:%d", ncalls), 1)
	for k := 1; k <= ncalls; k++ {
		fworlds := &ingest.MutableWorlds{Base: e.base}
		if err := pre.apply(e.x, fworlds.FindOrCreateWorld(root)); err != nil {
			r.Violate("harness:prestate", "%s: %v", pre.name, err)
			return r
		}
		faulty := &faultWorlds{inner: fworlds}
		faulty.log.failAt = k
		fgot, cls, msg := evaluate(evaluator, faulty, expr, root)
		r.Evals++
		if cls != "" {
			r.Violate(evaluator+":fault-injected:"+cls, "%s\nmutating call %d of %d on the world fails (injected)\n%s", desc, k, ncalls, msg)
			continue
		}
		f := faulty.firstFailure()
		if f == nil || faulty.ncalls() < k {
			r.Violate("harness:injected-fault-not-reached", "%s\nmutating call %d of %d was to fail; the evaluation made %d", desc, k, ncalls, faulty.ncalls())
			continue
		}
		r.Keys = append(r.Keys, fmt.Sprintf("%s|fault@%d", r.Key, k))
		r.Count("fault-injected:"+ch.kind+":"+f.kind, 1)
		if fgot.err == nil {
			r.Violate(fmt.Sprintf("%s:no-error-reported-though-a-mutation-of-the-world-failed:fault-injected:%s:%s", evaluator, ch.kind, f.kind),
				"%s\nmutating call %d of %d the evaluation makes on the world (%s %s) fails: %v\nthe response reports no error (result %s, ids %s); the evaluation went on to make %d mutating calls",
				desc, k, ncalls, f.kind, f.id, f.err, fgot.typ, idSet(fgot.ids), faulty.ncalls())
		}
	}
	// (2) the world: identical to the reference world after the identical Apply
	if d := wk.Diff(refAfter, after, true); len(d) > 0 {
		if len(d) > 8 {
			d = append(d[:8], fmt.Sprintf("... %d more", len(d)-8))
		}
		state := "success"
		if refErr != nil {
			state = "failure"
		}
		r.Violate(fmt.Sprintf("%s:world-differs-from-direct-apply:on-%s:%s", evaluator, state, ch.kind),
			"%s\nreference Apply error: %v; response error: %v\n(A = fresh world + Change.Apply, B = evaluator's world)\n%s", desc, refErr, got.err, strings.Join(d, "\n"))
	}
	// (2b) a change reported as applied: the world with every entry applied
	if modelled && failAt < 0 && got.err == nil {
		if d := wk.Diff(modelAfter, after, true); len(d) > 0 {
			if len(d) > 8 {
				d = append(d[:8], fmt.Sprintf("... %d more", len(d)-8))
			}
			r.Violate(fmt.Sprintf("%s:world-differs-from-entrywise-application:on-success:%s", evaluator, ch.kind),
				"%s\nthe response reports no error\n(A = fresh world + the %d entries applied one by one, B = evaluator's world)\n%s", desc, len(ops), strings.Join(d, "\n"))
		}
	}
	// (3) on success: the IDs
	if refErr == nil && got.err == nil {
		if got.typ != "collection" {
			r.Violate(fmt.Sprintf("%s:result-is-not-the-modified-ids:%s", evaluator, ch.kind), "%s\nresult: %s", desc, got.typ)
			return r
		}
		targets := ch.targets()
		if idSet(got.ids) != idSet(refIDs) {
			r.Violate(fmt.Sprintf("%s:ids-differ-from-direct-apply:%s", evaluator, ch.kind), "%s\nreturned %s, Change.Apply reports %s", desc, idSet(got.ids), idSet(refIDs))
		}
		if !got.pairsOK {
			r.Violate(fmt.Sprintf("%s:ids-collection-key-differs-from-value:%s", evaluator, ch.kind), "%s\nreturned %s", desc, idSet(got.ids))
		}
		returned := map[b6.FeatureID]bool{}
		for _, id := range got.ids {
			returned[id] = true
			if !targets[id] {
				r.Violate(fmt.Sprintf("%s:returns-id-the-change-does-not-touch:%s", evaluator, ch.kind), "%s\nreturned %s; the change only names %v", desc, idSet(got.ids), targets)
			}
		}
		for id := range targets {
			s := id.String()
			if (before["has:"+s] != after["has:"+s] || before["feat:"+s] != after["feat:"+s]) && !returned[id] {
				r.Violate(fmt.Sprintf("%s:modified-feature-not-returned:%s", evaluator, ch.kind), "%s\n%s was modified:\n  before: %s\n  after:  %s\nreturned %s", desc, s, before["feat:"+s], after["feat:"+s], idSet(got.ids))
			}
		}
	}
	return r
}

// runReadOnly: the request against a read-only server (ingest.ReadOnlyWorlds
// over the base, as b6 --read-only uses): no entry of any change can be
// applied, so the caller must be told.
func (e *env) runReadOnly(cd caseDef) kit.Result {
	var r kit.Result
	ch := e.changes[cd.change]
	root := roots[cd.root]
	evaluator := evaluators[cd.eval]
	dir, text, shown, cleanup, ok := setup(ch, &r)
	defer cleanup()
	if !ok {
		return r
	}
	desc := fmt.Sprintf("evaluator=%s root=%s world=read-only (ingest.ReadOnlyWorlds over the base)\nexpression: %s", evaluator, root, shown)
	r.Key = fmt.Sprintf("%s|%s|read-only|%d", evaluator, ch.name, cd.root)
	r.Nontrivial = true
	r.Count("change:"+ch.kind, 1)
	expr, err := api.ParseExpression(text)
	if err != nil {
		r.Violate("harness:expression-does-not-parse", "%s\n%v", desc, err)
		return r
	}
	observed := &faultWorlds{inner: ingest.ReadOnlyWorlds{Base: e.base}}
	got, cls, msg := evaluate(evaluator, observed, expr, root)
	if cls != "" {
		r.Violate(evaluator+":read-only-world:"+cls, "%s\n%s", desc, msg)
		return r
	}
	if got.typ == "harness" {
		r.Violate("harness:to-proto", "%s\n%v", desc, got.err)
		return r
	}
	// applying failed: the entries one by one on a read-only world; for files
	// with feature documents (no readable entries) Change.Apply on one
	ro := ingest.ReadOnlyWorld{World: e.base}
	ops, modelled := ch.ops(dir)
	failAt := -1
	var failErr error
	how := "applying the entries of the identical change one by one to a read-only world"
	if cls, msg := kit.Catch(func() {
		if modelled {
			for i, o := range ops {
				if err := o.do(ro); err != nil {
					failAt, failErr = i, err
					break
				}
			}
		} else {
			how = "Change.Apply of the identical change on a read-only world"
			_, failErr = ch.ref(dir).Apply(ro)
		}
	}); cls != "" {
		r.Violate("reference-on-read-only-world:"+cls, "%s\n%s", desc, msg)
		return r
	}
	fails := failErr != nil
	res := "error-reported"
	if got.err == nil {
		res = "no-error-reported"
	}
	r.Outcome = fmt.Sprintf("%s:%s:read-only-world:%s", evaluator, ch.kind, res)
	r.Count(fmt.Sprintf("read-only-world:mutating-calls-on-the-world:%d", observed.ncalls()), 1)
	if cd.change%7 == 0 && cd.root == 0 {
		r.Sample = map[string]interface{}{"evaluator": evaluator, "expression": shown, "world": "read-only", "reference_error": fmt.Sprint(failErr), "response_error": fmt.Sprint(got.err)}
	}
	if fails && got.err == nil {
		what := "feature-documents"
		if modelled {
			what = ops[failAt].kind
		}
		r.Violate(fmt.Sprintf("%s:no-error-reported-though-entry-fails:read-only-world:%s:%s", evaluator, ch.kind, what),
			"%s\n%s fails: %v\nthe response reports no error (result %s, ids %s)", desc, how, failErr, got.typ, idSet(got.ids))
	}
	if f := observed.firstFailure(); f != nil && got.err == nil {
		r.Violate(fmt.Sprintf("%s:no-error-reported-though-a-mutation-of-the-world-failed:read-only-world:%s:%s", evaluator, ch.kind, f.kind),
			"%s\nwhile the change was applied, %s %s on the world returned: %v\nthe response reports no error (result %s, ids %s)", desc, f.kind, f.id, f.err, got.typ, idSet(got.ids))
	}
	return r
}

type caseDef struct {
	change, pre, root, eval int
	readOnly                bool // the evaluators run over ingest.ReadOnlyWorlds (pre-state fresh)
}

func main() {
	kit.Main(&kit.Check{
		ID: "C26", Level: "exploration",
		Rule: "every change of the menu: (a) single changes: 15 tag edits on present/absent IDs; 60 typed tag edits = {add-tag, remove-tag} x target of every feature type {point, path, area, relation, collection} x {present in the base, present only in the overlay (one pre-state; absent in the others), absent} x {plain key, searchable '#' key}; 14 feature additions via add-point/add-relation/add-collection/import-geojson/connect incl. failing ones; 12 change files incl. path over a missing point, area over an open path, area over a missing path, malformed file, and 5 files of tag-edit documents (add/remove lists) on a present ID, an absent ID, absent then present, present then absent; " +
			"(b) multi-entry collections: every add-tags and every remove-tags change whose collection is a sequence (repetition allowed, every order) of 2..3 entries over a 5-entry menu {2 entries on base features (plain and searchable key), 1 entry on a point that only one pre-state contains, 2 entries on absent IDs}, and every import-geojson feature collection that is a sequence of 2..3 features over {point, line string, line string of one point (invalid), polygon} - so every pattern valid/failing x valid/failing (x valid/failing), failure first / middle / last / several; " +
			"(b') every add-tags / remove-tags collection of 2 entries made of an always valid entry on a base point and one of the 30 typed entries of (a), in both orders (120); (c) every merge-changes sequence of <= M parts over a 21-part menu of succeeding and failing parts (12 single-entry parts incl. 2 change files and a plain-key add-tag on an absent path; 9 multi-entry parts: add-tags [valid valid], [failing valid], [valid failing], [valid failing valid], [valid-once-the-point-exists valid], remove-tags [failing valid], [valid failing], import-geojson [invalid valid], [valid invalid]), and the nested form merge[merge[a], b] of every 2-part sequence; " +
			"each x 2 world roots x {gRPC Evaluate, api.Evaluator.EvaluateExpression} x {writable server in each of 3 pre-states; read-only server (ingest.ReadOnlyWorlds)}; and inside every writable case, fault injection: the same request on an identical world where the k-th mutating call (AddFeature/AddTag/RemoveTag) made on the world fails, for every k = 1..N, N = number of mutating calls the fault-free evaluation made on the world (both evaluators get the world through a delegating ingest.Worlds/MutableWorld wrapper); ordered single changes, 2-entry collections, 3-entry collections, merges by length. Expressions are shell text parsed with api.ParseExpression. Every case is non-trivial; distinct by (evaluator, change, pre-state or read-only, root) and, for fault-injected runs, k. " +
			"Oracle: 'applying the change failed' is decided without Change.Apply: the identical change built with ingest constructors is taken apart into its entries (merged changes flattened in order) and these are applied one by one with MutableWorld.AddTag/RemoveTag/AddFeature to an identical fresh MutableOverlayWorld in the identical pre-state; it failed iff an operation returns an error, or the entry is a tag edit (add-tag / remove-tag) of a feature that is not in that world at that point (FindFeatureByID returns nil) - whatever the world's AddTag / RemoveTag returns for it (for the typed tag edits and (b), (b') this must also agree with the declared validity of each entry: ID declared present in the pre-state / line string has 2 points; and the declared presence must agree with FindFeatureByID on the pre-state). The response must report an error iff applying failed (the entries of a file of tag-edit documents are written out by hand; the entries of any other change file are its documents, each ingested on its own as a one-document file). " +
			"Read-only server: the entries applied one by one to ingest.ReadOnlyWorld fail, so an error must be reported. All world kinds: if any mutating call the evaluation made on the world returned an error (observed by the wrapper: injected fault, read-only world, or a real failure), the response must report an error. " +
			"On success returned IDs == IDs Change.Apply reports, are targets of the change, and include every target whose existence/tags/geometry changed; evaluator's world dump == dump of the identical world after Change.Apply of the identical change, and, when no error is reported and every entry succeeds, == dump of the world with the entries applied one by one.",
		Assumptions: []string{
			"a tag edit of a feature that is absent from the world cannot be applied: success reported for it is a violation even if MutableWorld.AddTag / RemoveTag accept it",
			"'applying the change failed' is read as: applying the entries of the change in order with the world's elementary operations (AddTag, RemoveTag, AddFeature), one of them returns an error; an entry of a change file with feature documents is one document, applied by ingesting it alone",
			"a response error for a change all of whose entries succeed one by one is a violation only if Change.Apply on an identical world succeeds or the evaluator's world shows every entry applied; otherwise (Apply itself fails and the world is not the fully applied one) applying did fail and the error is due",
			"after a failing change the evaluator's world is compared with the reference world after the same failing Apply (AddTags/AddFeatures are not atomic; atomicity is C13's subject), not with the world before",
			"a fault is a mutating call on the world returning an error without being performed; the canary overlay a merged change validates against is not the world, so faults hit the commit pass only",
			"on a read-only server only the fresh pre-state exists",
			"returned IDs are compared as sets",
			"callers of Evaluator.EvaluateExpression hold the read lock, as ui.OpenSourceUI.ServeStack does",
		},
		QuickDeadline: 900e9, ThoroughDeadline: 3600e9,
		Build: func(tier string) (kit.Space, string) {
			maxMerge := 2
			if tier == "thorough" {
				maxMerge = 3
			}
			sch := wk.Schemes[1]
			x := idsFor(sch)
			chs := changes(x, maxMerge)
			nSingle, nMulti := 0, 0
			for _, c := range chs {
				if c.kind != "merged-change" {
					if len(c.parts[0].entries) >= 2 {
						nMulti++
					} else {
						nSingle++
					}
				}
			}
			var cases []caseDef
			// simplest first: plain changes before merges (changes() order), fresh pre-state first
			for c := range chs {
				for p := range prestates {
					for rt := range roots {
						for ev := range evaluators {
							cases = append(cases, caseDef{change: c, pre: p, root: rt, eval: ev})
						}
					}
				}
				for rt := range roots {
					for ev := range evaluators {
						cases = append(cases, caseDef{change: c, root: rt, eval: ev, readOnly: true})
					}
				}
			}
			var e *env
			return kit.FuncSpace{N: int64(len(cases)), F: func(i int64) kit.Result {
					if e == nil {
						base, err := wk.BasicStrict(baseSpec(x), 1)
						if err != nil {
							var r kit.Result
							r.Violate("harness:base-build", "%v", err)
							return r
						}
						atoms := []wk.RQ{{Op: "all"}, {Op: "keyed", Key: "#s"}, {Op: "keyed", Key: "#amenity"}, {Op: "keyed", Key: "#highway"}, {Op: "keyed", Key: "#route"}, {Op: "keyed", Key: "#landuse"}, {Op: "keyed", Key: "#kind"}, {Op: "keyed", Key: "#mark"}, {Op: "tagged", Key: "#s", Val: "x"}, {Op: "tagged", Key: "#amenity", Val: "cafe"}}
						e = &env{x: x, base: base, changes: chs, queries: wk.NamedQueries(atoms)}
					}
					return e.run(cases[i])
				}}, fmt.Sprintf("%d changes (%d single incl. 60 typed tag edits: add/remove x 5 feature types x base/overlay-only/absent x plain/searchable key; %d collections of %d..%d entries: add-tags and remove-tags over 5-entry menus, import-geojson over a 4-feature menu, every sequence, and 2-entry add-tags / remove-tags of a valid entry and a typed entry in both orders; %d merges of <= %d parts over a %d-part menu incl. nested 2-part merges) x %d roots x 2 evaluators x (%d pre-states of a writable server, each with a fault injected at every mutating call 1..N the evaluation makes on the world, + a read-only server), ID scheme %s",
					len(chs), nSingle, nMulti, minEntries, maxEntries, len(chs)-nSingle-nMulti, maxMerge, len(mergeMenu), len(roots), len(prestates), sch.Name)
		},
	})
}
