// C26 — callers are told whether their change was applied.
//
// Engine E1/E2: a menu of client expressions that evaluate to a change
// (add-tag / add-tags / remove-tag / remove-tags on present and absent IDs,
// add-point / add-relation / add-collection, import-geojson, connect,
// changes-from-file with succeeding and failing feature documents — a path
// referencing a missing point, an area over an open path, an area over a
// missing path — and every merge-changes sequence of <= 2 / 3 parts whose k-th
// part fails), written as shell text and parsed with api.ParseExpression like
// a client would, is evaluated
//
//	(a) through the gRPC service's Evaluate (grpc.NewB6Service over
//	    ingest.MutableWorlds, in-process), and
//	(b) through api.Evaluator.EvaluateExpression (the UI evaluator),
//
// from several pre-states (fresh world; world with overlay features and
// modified tags; world with a replaced base point) and for the default and a
// named world root.
// Oracle (differential, the statement's own): an identical fresh
// MutableOverlayWorld over the same base is brought to the same pre-state and
// the identical change, built with the ingest constructors, is applied with
// Change.Apply. The response must report an error iff that Apply fails; on
// success the IDs returned must be those Apply reports, contain every target
// feature whose own tags/existence changed and nothing but targets of the
// change; and the evaluator's world must dump equal to the reference world.
package main

import (
	"context"
	"fmt"
	"os"
	"path/filepath"
	"sort"
	"strings"
	"sync"

	"diagonal.works/b6"
	"diagonal.works/b6/api"
	"diagonal.works/b6/api/functions"
	"diagonal.works/b6/geojson"
	bgrpc "diagonal.works/b6/grpc"
	"diagonal.works/b6/ingest"
	pb "diagonal.works/b6/proto"
	"github.com/golang/geo/s2"
	"verif/kit"
	wk "verif/worldkit"
)

// ---- world menu ------------------------------------------------------------------

type ids struct {
	P                 [4]b6.FeatureID
	W0, A0, R0        b6.FeatureID
	Q, W1, A1, R1, C1 b6.FeatureID
	Missing, MissingW b6.FeatureID
	BadPath           b6.FeatureID // path-typed ID given to add-point
	Geo0, Geo1, GeoA  b6.FeatureID // import-geojson IDs
	Access            b6.FeatureID // the path `connect` adds
	Universe          []b6.FeatureID
}

const geoNS = "diagonal.works/test/geo"

func idsFor(s wk.IDScheme) ids {
	x := ids{W0: s.W(0), A0: s.A(0), R0: s.R(0), Q: s.P(4), W1: s.W(1), A1: s.A(1), R1: s.R(1), C1: s.C(1),
		Missing: wk.PointID(s.PointNS, s.Base+50*s.Stride), MissingW: wk.PathID(s.PathNS, s.Base+51*s.Stride), BadPath: s.W(7),
		Geo0: wk.PointID(geoNS, 0), Geo1: wk.PathID(geoNS, 0), GeoA: wk.AreaID(geoNS, 0),
		Access: b6.FeatureID{Type: b6.FeatureTypePath, Namespace: b6.NamespaceDiagonalAccessPoints, Value: 1}}
	for i := range x.P {
		x.P[i] = s.P(i)
	}
	x.Universe = []b6.FeatureID{x.P[0], x.P[1], x.P[2], x.P[3], x.W0, x.A0, x.R0, x.Q, x.W1, x.A1, x.R1, x.C1, x.Missing, x.MissingW, x.BadPath, x.Geo0, x.Geo1, wk.PathID(geoNS, 1), x.GeoA, x.Access}
	return x
}

func baseSpec(x ids) wk.Spec {
	return wk.Spec{
		{ID: x.P[0], Kind: wk.KPoint, LL: wk.G(0, 0), Tags: []wk.TagSpec{{"#amenity", "cafe"}}},
		{ID: x.P[1], Kind: wk.KPoint, LL: wk.G(0, 2), Tags: []wk.TagSpec{{"name", "two"}, {"@flag", "yes"}}},
		{ID: x.P[2], Kind: wk.KPoint, LL: wk.G(2, 2), Tags: []wk.TagSpec{{"#amenity", "bench"}}},
		{ID: x.P[3], Kind: wk.KPoint, LL: wk.G(2, 0)},
		{ID: x.W0, Kind: wk.KPath, Path: wk.Refs(x.P[0], x.P[1], x.P[2], x.P[3], x.P[0]), Tags: []wk.TagSpec{{"#highway", "path"}}},
		{ID: x.A0, Kind: wk.KArea, Polys: []wk.PolySpec{{Paths: []b6.FeatureID{x.W0}}}, Tags: []wk.TagSpec{{"#building", "yes"}}},
		{ID: x.R0, Kind: wk.KRelation, Members: []wk.MemberSpec{{x.P[0], "stop"}, {x.W0, ""}}, Tags: []wk.TagSpec{{"#route", "bus"}}},
	}
}

// ---- change menu -----------------------------------------------------------------

// part = one change: the client's shell text and the identical change built
// with the ingest constructors.
type part struct {
	name    string
	kind    string // tag-edit | feature-addition | file-change
	shell   func(dir string) string
	ref     func(dir string) ingest.Change
	targets []b6.FeatureID
	files   map[string]string // files the expression reads (written under dir)
}

func lit(id b6.FeatureID) string { return "/" + id.String() }

func str(s string) b6.Expression { return b6.NewStringExpression(s) }

func sh(s string) func(string) string { return func(string) string { return s } }

func rf(c ingest.Change) func(string) ingest.Change { return func(string) ingest.Change { return c } }

func pointFeature(id b6.FeatureID, ll s2.LatLng, tags ...b6.Tag) *ingest.GenericFeature {
	f := &ingest.GenericFeature{ID: id, Tags: []b6.Tag{{Key: b6.PointTag, Value: b6.NewPointExpressionFromLatLng(ll)}}}
	f.Tags = append(f.Tags, tags...)
	return f
}

func addFeatures(fs ...ingest.Feature) ingest.Change {
	a := ingest.AddFeatures(fs)
	return &a
}

func fileRef(name string, text string) func(string) ingest.Change {
	return func(string) ingest.Change { return ingest.IngestChangesFromYAML(strings.NewReader(text)) }
}

func filePart(name, file, text string, targets ...b6.FeatureID) part {
	return part{name: name, kind: "file-change", files: map[string]string{file: text},
		shell:   func(dir string) string { return fmt.Sprintf("changes-from-file %q", filepath.Join(dir, file)) },
		ref:     fileRef(name, text),
		targets: targets}
}

func geoPart(name, json string, fill func() *ingest.AddFeatures, targets ...b6.FeatureID) part {
	return part{name: name, kind: "feature-addition",
		shell:   sh(fmt.Sprintf("import-geojson (parse-geojson %q) %q", json, geoNS)),
		ref:     func(string) ingest.Change { return fill() },
		targets: targets}
}

func parts(x ids) []part {
	tag := func(k, v string) b6.Tag { return b6.Tag{Key: k, Value: str(v)} }
	qll := s2.LatLngFromDegrees(51.5355, -0.1245)
	var ps []part
	add := func(p part) { ps = append(ps, p) }
	// --- tag edits
	add(part{name: "add-tag:searchable:base-point", kind: "tag-edit", shell: sh("add-tag " + lit(x.P[0]) + " #s=x"), ref: rf(ingest.AddTags{{ID: x.P[0], Tag: tag("#s", "x")}}), targets: []b6.FeatureID{x.P[0]}})
	add(part{name: "add-tag:plain:base-point", kind: "tag-edit", shell: sh("add-tag " + lit(x.P[1]) + " p=x"), ref: rf(ingest.AddTags{{ID: x.P[1], Tag: tag("p", "x")}}), targets: []b6.FeatureID{x.P[1]}})
	add(part{name: "add-tag:plain:base-area", kind: "tag-edit", shell: sh("add-tag " + lit(x.A0) + " p=x"), ref: rf(ingest.AddTags{{ID: x.A0, Tag: tag("p", "x")}}), targets: []b6.FeatureID{x.A0}})
	add(part{name: "add-tag:same-value-as-present", kind: "tag-edit", shell: sh("add-tag " + lit(x.P[0]) + " #amenity=cafe"), ref: rf(ingest.AddTags{{ID: x.P[0], Tag: tag("#amenity", "cafe")}}), targets: []b6.FeatureID{x.P[0]}})
	add(part{name: "add-tag:overlay-or-absent-point", kind: "tag-edit", shell: sh("add-tag " + lit(x.Q) + " p=x"), ref: rf(ingest.AddTags{{ID: x.Q, Tag: tag("p", "x")}}), targets: []b6.FeatureID{x.Q}})
	add(part{name: "add-tag:absent-id", kind: "tag-edit", shell: sh("add-tag " + lit(x.Missing) + " p=x"), ref: rf(ingest.AddTags{{ID: x.Missing, Tag: tag("p", "x")}}), targets: []b6.FeatureID{x.Missing}})
	add(part{name: "remove-tag:searchable:base-point", kind: "tag-edit", shell: sh("remove-tag " + lit(x.P[0]) + ` "#amenity"`), ref: rf(ingest.RemoveTags{{ID: x.P[0], Key: "#amenity"}}), targets: []b6.FeatureID{x.P[0]}})
	add(part{name: "remove-tag:plain:base-point", kind: "tag-edit", shell: sh("remove-tag " + lit(x.P[1]) + ` "name"`), ref: rf(ingest.RemoveTags{{ID: x.P[1], Key: "name"}}), targets: []b6.FeatureID{x.P[1]}})
	add(part{name: "remove-tag:absent-key", kind: "tag-edit", shell: sh("remove-tag " + lit(x.P[0]) + ` "nokey"`), ref: rf(ingest.RemoveTags{{ID: x.P[0], Key: "nokey"}}), targets: []b6.FeatureID{x.P[0]}})
	add(part{name: "remove-tag:absent-id", kind: "tag-edit", shell: sh("remove-tag " + lit(x.Missing) + ` "p"`), ref: rf(ingest.RemoveTags{{ID: x.Missing, Key: "p"}}), targets: []b6.FeatureID{x.Missing}})
	add(part{name: "add-tags:two-present", kind: "tag-edit",
		shell: sh(fmt.Sprintf(`add-tags (collection (pair %s (tag "p" "x")) (pair %s (tag "#s" "y")))`, lit(x.P[0]), lit(x.P[1]))),
		ref:   rf(ingest.AddTags{{ID: x.P[0], Tag: tag("p", "x")}, {ID: x.P[1], Tag: tag("#s", "y")}}), targets: []b6.FeatureID{x.P[0], x.P[1]}})
	add(part{name: "add-tags:second-absent", kind: "tag-edit",
		shell: sh(fmt.Sprintf(`add-tags (collection (pair %s (tag "p" "x")) (pair %s (tag "p" "y")))`, lit(x.P[0]), lit(x.Missing))),
		ref:   rf(ingest.AddTags{{ID: x.P[0], Tag: tag("p", "x")}, {ID: x.Missing, Tag: tag("p", "y")}}), targets: []b6.FeatureID{x.P[0], x.Missing}})
	add(part{name: "add-tags:first-absent", kind: "tag-edit",
		shell: sh(fmt.Sprintf(`add-tags (collection (pair %s (tag "p" "x")) (pair %s (tag "p" "y")))`, lit(x.Missing), lit(x.P[0]))),
		ref:   rf(ingest.AddTags{{ID: x.Missing, Tag: tag("p", "x")}, {ID: x.P[0], Tag: tag("p", "y")}}), targets: []b6.FeatureID{x.P[0], x.Missing}})
	add(part{name: "add-tags:literal-collection", kind: "tag-edit",
		shell: sh(fmt.Sprintf(`add-tags {%s: p=x}`, lit(x.P[2]))),
		ref:   rf(ingest.AddTags{{ID: x.P[2], Tag: tag("p", "x")}}), targets: []b6.FeatureID{x.P[2]}})
	add(part{name: "remove-tags:second-absent", kind: "tag-edit",
		shell: sh(fmt.Sprintf(`remove-tags (collection (pair %s "#amenity") (pair %s "p"))`, lit(x.P[0]), lit(x.Missing))),
		ref:   rf(ingest.RemoveTags{{ID: x.P[0], Key: "#amenity"}, {ID: x.Missing, Key: "p"}}), targets: []b6.FeatureID{x.P[0], x.Missing}})
	// --- feature additions through API functions
	add(part{name: "add-point:new", kind: "feature-addition", shell: sh("add-point 51.5355,-0.1245 " + lit(x.Q) + " (collection)"),
		ref: func(string) ingest.Change { return addFeatures(pointFeature(x.Q, qll)) }, targets: []b6.FeatureID{x.Q}})
	add(part{name: "add-point:new-tagged", kind: "feature-addition", shell: sh("add-point 51.5355,-0.1245 " + lit(x.Q) + ` (collection (pair 0 (tag "#amenity" "pub")) (pair 1 (tag "name" "q")))`),
		ref: func(string) ingest.Change {
			return addFeatures(pointFeature(x.Q, qll, tag("#amenity", "pub"), tag("name", "q")))
		}, targets: []b6.FeatureID{x.Q}})
	add(part{name: "add-point:replaces-base-point", kind: "feature-addition", shell: sh("add-point 51.535,-0.1247 " + lit(x.P[1]) + ` (collection (pair 0 (tag "name" "moved")))`),
		ref: func(string) ingest.Change {
			return addFeatures(pointFeature(x.P[1], s2.LatLngFromDegrees(51.535, -0.1247), tag("name", "moved")))
		}, targets: []b6.FeatureID{x.P[1]}})
	add(part{name: "add-point:path-typed-id", kind: "feature-addition", shell: sh("add-point 51.5355,-0.1245 " + lit(x.BadPath) + " (collection)"),
		ref: func(string) ingest.Change { return addFeatures(pointFeature(x.BadPath, qll)) }, targets: []b6.FeatureID{x.BadPath}})
	add(part{name: "add-relation", kind: "feature-addition", shell: sh(fmt.Sprintf(`add-relation %s (collection (pair 0 (tag "#route" "tram"))) (collection (pair %s "stop") (pair %s ""))`, lit(x.R1), lit(x.P[0]), lit(x.W0))),
		ref: func(string) ingest.Change {
			return addFeatures(&ingest.RelationFeature{RelationID: x.R1.ToRelationID(), Tags: b6.Tags{tag("#route", "tram")}, Members: []b6.RelationMember{{ID: x.P[0], Role: "stop"}, {ID: x.W0, Role: ""}}})
		}, targets: []b6.FeatureID{x.R1}})
	add(part{name: "add-relation:member-absent", kind: "feature-addition", shell: sh(fmt.Sprintf(`add-relation %s (collection) {%s: "gone"}`, lit(x.R1), lit(x.Missing))),
		ref: func(string) ingest.Change {
			return addFeatures(&ingest.RelationFeature{RelationID: x.R1.ToRelationID(), Members: []b6.RelationMember{{ID: x.Missing, Role: "gone"}}})
		}, targets: []b6.FeatureID{x.R1}})
	add(part{name: "add-collection", kind: "feature-addition", shell: sh(fmt.Sprintf(`add-collection %s (collection (pair 0 (tag "#kind" "set"))) {%s: "x"}`, lit(x.C1), lit(x.P[0]))),
		ref: func(string) ingest.Change {
			return addFeatures(&ingest.CollectionFeature{CollectionID: x.C1.ToCollectionID(), Tags: b6.Tags{tag("#kind", "set")}, Keys: []interface{}{x.P[0]}, Values: []interface{}{"x"}})
		}, targets: []b6.FeatureID{x.C1}})
	fillGeo := func(json string) func() *ingest.AddFeatures {
		return func() *ingest.AddFeatures {
			g, err := parseGeoJSON(json)
			if err != nil {
				panic(err)
			}
			a := &ingest.AddFeatures{}
			a.FillFromGeoJSON(g, b6.Namespace(geoNS))
			return a
		}
	}
	for _, g := range []struct {
		name, json string
		targets    []b6.FeatureID
	}{
		{"import-geojson:point", `{"type":"Feature","geometry":{"type":"Point","coordinates":[-0.1245,51.5355]}}`, []b6.FeatureID{x.Geo0}},
		{"import-geojson:linestring", `{"type":"Feature","geometry":{"type":"LineString","coordinates":[[-0.1245,51.5355],[-0.1244,51.5356]]}}`, []b6.FeatureID{x.Geo1}},
		{"import-geojson:polygon", `{"type":"Feature","geometry":{"type":"Polygon","coordinates":[[[-0.123,51.537],[-0.1226,51.537],[-0.1226,51.5374],[-0.123,51.537]]]}}`, []b6.FeatureID{x.GeoA}},
		{"import-geojson:linestring-of-one-point", `{"type":"Feature","geometry":{"type":"LineString","coordinates":[[-0.1245,51.5355]]}}`, []b6.FeatureID{x.Geo1}},
		{"import-geojson:collection-second-invalid", `{"type":"FeatureCollection","features":[{"type":"Feature","geometry":{"type":"Point","coordinates":[-0.1245,51.5355]}},{"type":"Feature","geometry":{"type":"LineString","coordinates":[[-0.1245,51.5355]]}}]}`, []b6.FeatureID{x.Geo0, wk.PathID(geoNS, 1)}},
	} {
		add(geoPart(g.name, g.json, fillGeo(g.json), g.targets...))
	}
	connectRef := func(a, b b6.FeatureID) func(string) ingest.Change {
		return func(string) ingest.Change {
			p := &ingest.GenericFeature{ID: x.Access}
			p.ModifyOrAddTag(b6.Tag{Key: b6.PathTag, Value: b6.NewExpressions([]b6.AnyExpression{b6.FeatureIDExpression(a), b6.FeatureIDExpression(b)})})
			return addFeatures(p)
		}
	}
	add(part{name: "connect:two-points", kind: "feature-addition", shell: sh(fmt.Sprintf("connect (find-feature %s) (find-feature %s)", lit(x.P[1]), lit(x.P[3]))), ref: connectRef(x.P[1], x.P[3]), targets: []b6.FeatureID{x.Access}})
	add(part{name: "connect:point-to-area", kind: "feature-addition", shell: sh(fmt.Sprintf("connect (find-feature %s) (find-feature %s)", lit(x.P[0]), lit(x.A0))), ref: connectRef(x.P[0], x.A0), targets: []b6.FeatureID{x.Access}})
	// --- change files
	pathDoc := func(id b6.FeatureID, pts ...b6.FeatureID) string {
		var s []string
		for _, p := range pts {
			s = append(s, p.String())
		}
		return fmt.Sprintf("id: %s\ntags:\n- key: path\n  value: %s\n- key: '#highway'\n  value: footway\n", lit(id), strings.Join(s, ";"))
	}
	areaDoc := func(id b6.FeatureID, path b6.FeatureID) string {
		return fmt.Sprintf("area:\n- - %s\nid: %s\ntags:\n- key: '#landuse'\n  value: park\n", lit(path), lit(id))
	}
	add(filePart("file:path-over-base-points", "ok-path.yaml", pathDoc(x.W1, x.P[1], x.P[3]), x.W1))
	add(filePart("file:path-references-missing-point", "bad-path.yaml", pathDoc(x.W1, x.P[0], x.Missing), x.W1))
	add(filePart("file:area-over-closed-base-path", "ok-area.yaml", areaDoc(x.A1, x.W0), x.A1))
	add(filePart("file:open-path-then-area-over-it", "open-area.yaml", pathDoc(x.W1, x.P[1], x.P[3])+"---\n"+areaDoc(x.A1, x.W1), x.W1, x.A1))
	add(filePart("file:area-over-missing-path", "missing-area.yaml", areaDoc(x.A1, x.MissingW), x.A1))
	add(filePart("file:point-path-area-chain", "chain.yaml",
		fmt.Sprintf("id: %s\ntags:\n- key: point\n  value:\n    point: 51.5355,-0.1245\n", lit(x.Q))+"---\n"+pathDoc(x.W1, x.P[0], x.P[1], x.Q, x.P[0])+"---\n"+areaDoc(x.A1, x.W1), x.Q, x.W1, x.A1))
	add(filePart("file:tag-edits", "tags.yaml", fmt.Sprintf("id: %s\nadd:\n- key: p\n  value: x\nremove:\n- '#amenity'\n", lit(x.P[0])), x.P[0]))
	add(filePart("file:malformed", "broken.yaml", "id: [unclosed\n", x.P[0]))
	return ps
}

// mergeMenu: indices into parts() used as parts of merged changes.
var mergeMenu = []string{"add-tag:searchable:base-point", "add-tag:plain:base-point", "add-tag:overlay-or-absent-point", "add-tag:absent-id", "remove-tag:absent-id",
	"add-point:new-tagged", "add-point:path-typed-id", "add-relation", "file:path-references-missing-point", "file:path-over-base-points", "import-geojson:linestring-of-one-point"}

type change struct {
	name   string
	kind   string
	parts  []part // len 1 = plain; more = merge-changes; nested = merge of merge
	nested bool
}

func (c change) shell(dir string) string {
	if len(c.parts) == 1 && !c.nested {
		return c.parts[0].shell(dir)
	}
	var ps []string
	for i, p := range c.parts {
		ps = append(ps, fmt.Sprintf("(pair %d (%s))", i, p.shell(dir)))
	}
	if c.nested {
		// merge-changes [ merge-changes [parts[:n-1]], parts[n-1] ]
		inner := "merge-changes (collection " + strings.Join(ps[:len(ps)-1], " ") + ")"
		return fmt.Sprintf("merge-changes (collection (pair 0 (%s)) (pair 1 (%s)))", inner, c.parts[len(c.parts)-1].shell(dir))
	}
	return "merge-changes (collection " + strings.Join(ps, " ") + ")"
}

func (c change) ref(dir string) ingest.Change {
	if len(c.parts) == 1 && !c.nested {
		return c.parts[0].ref(dir)
	}
	var m ingest.MergedChange
	for _, p := range c.parts {
		m = append(m, p.ref(dir))
	}
	if c.nested {
		return ingest.MergedChange{m[:len(m)-1], m[len(m)-1]}
	}
	return m
}

func (c change) targets() map[b6.FeatureID]bool {
	t := map[b6.FeatureID]bool{}
	for _, p := range c.parts {
		for _, id := range p.targets {
			t[id] = true
		}
	}
	return t
}

func changes(x ids, maxMerge int) []change {
	ps := parts(x)
	byName := map[string]part{}
	var out []change
	for _, p := range ps {
		byName[p.name] = p
		out = append(out, change{name: p.name, kind: p.kind, parts: []part{p}})
	}
	var menu []part
	for _, n := range mergeMenu {
		p, ok := byName[n]
		if !ok {
			panic("merge menu: " + n)
		}
		menu = append(menu, p)
	}
	var rec func(cur []part)
	rec = func(cur []part) {
		if len(cur) > 0 {
			var names []string
			for _, p := range cur {
				names = append(names, p.name)
			}
			out = append(out, change{name: "merge[" + strings.Join(names, ", ") + "]", kind: "merged-change", parts: append([]part{}, cur...)})
			if len(cur) == 2 {
				out = append(out, change{name: "merge[merge[" + names[0] + "], " + names[1] + "]", kind: "merged-change", parts: append([]part{}, cur...), nested: true})
			}
		}
		if len(cur) == maxMerge {
			return
		}
		for _, p := range menu {
			rec(append(cur, p))
		}
	}
	rec(nil)
	return out
}

// ---- pre-states ------------------------------------------------------------------

type prestate struct {
	name  string
	apply func(x ids, w ingest.MutableWorld) error
}

var prestates = []prestate{
	{"fresh", func(ids, ingest.MutableWorld) error { return nil }},
	{"overlay-point+modified-tags", func(x ids, w ingest.MutableWorld) error {
		if _, err := addFeatures(pointFeature(x.Q, s2.LatLngFromDegrees(51.5356, -0.1244), b6.Tag{Key: "#amenity", Value: str("bar")})).Apply(w); err != nil {
			return err
		}
		_, err := ingest.AddTags{{ID: x.P[2], Tag: b6.Tag{Key: "note", Value: str("n")}}, {ID: x.W0, Tag: b6.Tag{Key: "#s", Value: str("w")}}}.Apply(w)
		return err
	}},
	{"base-point-replaced", func(x ids, w ingest.MutableWorld) error {
		_, err := addFeatures(pointFeature(x.P[3], s2.LatLngFromDegrees(51.5352, -0.1251), b6.Tag{Key: "name", Value: str("p3")})).Apply(w)
		return err
	}},
}

// ---- evaluation ------------------------------------------------------------------

type outcome struct {
	err     error
	ids     []b6.FeatureID
	pairsOK bool // every returned key equals its value
	typ     string
}

func idSet(l []b6.FeatureID) string {
	m := map[string]bool{}
	for _, id := range l {
		m[id.String()] = true
	}
	var s []string
	for k := range m {
		s = append(s, k)
	}
	sort.Strings(s)
	return "{" + strings.Join(s, " ") + "}"
}

func collectionIDs(c b6.UntypedCollection) (keys []b6.FeatureID, pairsOK bool, err error) {
	pairsOK = true
	i := c.BeginUntyped()
	for {
		ok, e := i.Next()
		if e != nil {
			return keys, pairsOK, e
		}
		if !ok {
			return keys, pairsOK, nil
		}
		k, kok := i.Key().(b6.FeatureID)
		v, vok := i.Value().(b6.FeatureID)
		if !kok {
			if ki, ok := i.Key().(b6.Identifiable); ok {
				k, kok = ki.FeatureID(), true
			}
		}
		if !vok {
			if vi, ok := i.Value().(b6.Identifiable); ok {
				v, vok = vi.FeatureID(), true
			}
		}
		if !kok || !vok || k != v {
			pairsOK = false
		}
		if kok {
			keys = append(keys, k)
		}
	}
}

var options = api.Options{Cores: 1, FileIOAllowed: true}

func evalGRPC(worlds ingest.Worlds, e b6.Expression, root b6.FeatureID) outcome {
	var lock sync.RWMutex
	svc := bgrpc.NewB6Service(worlds, options, &lock)
	p, err := e.ToProto()
	if err != nil {
		return outcome{err: fmt.Errorf("harness: ToProto: %w", err), typ: "harness"}
	}
	req := &pb.EvaluateRequestProto{Request: p, Version: b6.ApiVersion}
	if root.IsValid() {
		req.Root = b6.NewProtoFromFeatureID(root)
	}
	resp, err := svc.Evaluate(context.Background(), req)
	if err != nil {
		return outcome{err: err, typ: "error"}
	}
	r, err := b6.ExpressionFromProto(resp.GetResult())
	if err != nil {
		return outcome{typ: fmt.Sprintf("undecodable result: %v", err)}
	}
	c, ok := r.AnyExpression.(b6.CollectionExpression)
	if !ok {
		return outcome{typ: fmt.Sprintf("%T", r.AnyExpression)}
	}
	o := outcome{typ: "collection"}
	var ierr error
	o.ids, o.pairsOK, ierr = collectionIDs(c.UntypedCollection)
	if ierr != nil {
		o.typ = "broken collection: " + ierr.Error()
	}
	return o
}

func evalUI(worlds ingest.Worlds, e b6.Expression, root b6.FeatureID) outcome {
	var lock sync.RWMutex
	ev := api.Evaluator{Worlds: worlds, FunctionSymbols: functions.Functions(), Adaptors: functions.Adaptors(), Options: options, Lock: &lock}
	lock.RLock() // callers hold the read lock (ui.OpenSourceUI.ServeStack)
	v, err := ev.EvaluateExpression(e, root)
	lock.RUnlock()
	if err != nil {
		return outcome{err: err, typ: "error"}
	}
	a, ok := v.(*api.AppliedChange)
	if !ok {
		return outcome{typ: fmt.Sprintf("%T", v)}
	}
	o := outcome{typ: "collection"}
	var ierr error
	o.ids, o.pairsOK, ierr = collectionIDs(a.Modified)
	if ierr != nil {
		o.typ = "broken collection: " + ierr.Error()
	}
	return o
}

func parseGeoJSON(s string) (geojson.GeoJSON, error) { return geojson.Unmarshal([]byte(s)) }

// ---- one case --------------------------------------------------------------------

type env struct {
	x       ids
	base    b6.World
	changes []change
	queries []wk.NamedQuery
}

func (e *env) dump(w b6.World) wk.Dump {
	return wk.DumpWorld(w, &wk.DumpOptions{IDs: e.x.Universe, Queries: e.queries})
}

var roots = []b6.FeatureID{b6.FeatureIDInvalid, {Type: b6.FeatureTypeCollection, Namespace: "diagonal.works/test/world", Value: 7}}
var evaluators = []string{"grpc", "ui"}

func failureCause(err error) string {
	m := err.Error()
	switch {
	case strings.Contains(m, "No feature with ID"):
		return "tag-edit-on-absent-id"
	case strings.Contains(m, "missing point"):
		return "path-references-missing-point"
	case strings.Contains(m, "not closed"):
		return "area-over-open-path"
	case strings.Contains(m, "non-existant path"):
		return "area-over-missing-path"
	case strings.Contains(m, "expected 2 or more"):
		return "path-with-fewer-than-2-points"
	case strings.HasPrefix(m, "yaml:"):
		return "malformed-file"
	}
	return "other"
}

func (e *env) run(cd caseDef) kit.Result {
	var r kit.Result
	ch := e.changes[cd.change]
	pre := prestates[cd.pre]
	root := roots[cd.root]
	evaluator := evaluators[cd.eval]
	dir, err := os.MkdirTemp("", "c26-")
	if err != nil {
		r.Violate("harness:tempdir", "%v", err)
		return r
	}
	defer os.RemoveAll(dir)
	for _, p := range ch.parts {
		for name, text := range p.files {
			if err := os.WriteFile(filepath.Join(dir, name), []byte(text), 0o644); err != nil {
				r.Violate("harness:tempfile", "%v", err)
				return r
			}
		}
	}
	text := ch.shell(dir)
	desc := fmt.Sprintf("evaluator=%s root=%s pre-state=%s\nexpression: %s", evaluator, root, pre.name, strings.ReplaceAll(text, dir, "<dir>"))
	r.Key = fmt.Sprintf("%s|%s|%s|%d", evaluator, ch.name, pre.name, cd.root)
	r.Nontrivial = true

	// the world the evaluators act on
	worlds := &ingest.MutableWorlds{Base: e.base}
	live := worlds.FindOrCreateWorld(root)
	if err := pre.apply(e.x, live); err != nil {
		r.Violate("harness:prestate", "%s: %v", pre.name, err)
		return r
	}
	// the identical fresh world for the reference Apply
	ref := ingest.NewMutableOverlayWorld(e.base)
	if err := pre.apply(e.x, ref); err != nil {
		r.Violate("harness:prestate", "%s: %v", pre.name, err)
		return r
	}
	before := e.dump(live)
	if d := wk.Diff(before, e.dump(ref), true); len(d) > 0 {
		r.Violate("harness:prestates-differ", "%s\n%s", desc, strings.Join(d, "\n"))
		return r
	}

	expr, err := api.ParseExpression(text)
	if err != nil {
		r.Violate("harness:expression-does-not-parse", "%s\n%v", desc, err)
		return r
	}
	var got outcome
	if cls, msg := kit.Catch(func() {
		if evaluator == "grpc" {
			got = evalGRPC(worlds, expr, root)
		} else {
			got = evalUI(worlds, expr, root)
		}
	}); cls != "" {
		r.Violate(evaluator+":"+cls, "%s\n%s", desc, msg)
		return r
	}
	if got.typ == "harness" {
		r.Violate("harness:to-proto", "%s\n%v", desc, got.err)
		return r
	}

	// reference: the identical change applied directly
	var refIDs []b6.FeatureID
	var refErr error
	if cls, msg := kit.Catch(func() {
		var c b6.Collection[b6.FeatureID, b6.FeatureID]
		c, refErr = ch.ref(dir).Apply(ref)
		if refErr == nil {
			refIDs, _, _ = collectionIDs(c)
		}
	}); cls != "" {
		r.Violate("reference-apply:"+cls, "%s\n%s", desc, msg)
		return r
	}
	after := e.dump(live)
	refAfter := e.dump(ref)
	changed := len(wk.Diff(before, after, true)) > 0

	res := "applied"
	if refErr != nil {
		res = "apply-fails:" + failureCause(refErr)
		if len(wk.Diff(before, refAfter, true)) > 0 {
			res += ":partially-applied"
		}
	}
	r.Outcome = fmt.Sprintf("%s:%s:%s", evaluator, ch.kind, res)
	r.Count("change:"+ch.kind, 1)
	if cd.change%7 == 0 && cd.pre == 0 && cd.root == 0 {
		r.Sample = map[string]interface{}{"evaluator": evaluator, "expression": strings.ReplaceAll(text, dir, "<dir>"), "pre_state": pre.name, "reference_apply_error": fmt.Sprint(refErr), "response_error": fmt.Sprint(got.err)}
	}

	// (1) error reported iff Apply fails
	switch {
	case refErr != nil && got.err == nil:
		r.Violate(fmt.Sprintf("%s:no-error-reported-though-apply-fails:%s", evaluator, ch.kind),
			"%s\nChange.Apply on an identical fresh world fails: %v\nthe response reports no error (result %s, ids %s); world changed by the evaluation: %v", desc, refErr, got.typ, idSet(got.ids), changed)
	case refErr == nil && got.err != nil:
		r.Violate(fmt.Sprintf("%s:error-reported-though-apply-succeeds:%s", evaluator, ch.kind),
			"%s\nChange.Apply on an identical fresh world succeeds (ids %s)\nthe response reports: %v", desc, idSet(refIDs), got.err)
	}
	// (2) the world: identical to the reference world after the identical Apply
	if d := wk.Diff(refAfter, after, true); len(d) > 0 {
		if len(d) > 8 {
			d = append(d[:8], fmt.Sprintf("... %d more", len(d)-8))
		}
		state := "success"
		if refErr != nil {
			state = "failure"
		}
		r.Violate(fmt.Sprintf("%s:world-differs-from-direct-apply:on-%s:%s", evaluator, state, ch.kind),
			"%s\nreference Apply error: %v; response error: %v\n(A = fresh world + Change.Apply, B = evaluator's world)\n%s", desc, refErr, got.err, strings.Join(d, "\n"))
	}
	// (3) on success: the IDs
	if refErr == nil && got.err == nil {
		if got.typ != "collection" {
			r.Violate(fmt.Sprintf("%s:result-is-not-the-modified-ids:%s", evaluator, ch.kind), "%s\nresult: %s", desc, got.typ)
			return r
		}
		targets := ch.targets()
		if idSet(got.ids) != idSet(refIDs) {
			r.Violate(fmt.Sprintf("%s:ids-differ-from-direct-apply:%s", evaluator, ch.kind), "%s\nreturned %s, Change.Apply reports %s", desc, idSet(got.ids), idSet(refIDs))
		}
		if !got.pairsOK {
			r.Violate(fmt.Sprintf("%s:ids-collection-key-differs-from-value:%s", evaluator, ch.kind), "%s\nreturned %s", desc, idSet(got.ids))
		}
		returned := map[b6.FeatureID]bool{}
		for _, id := range got.ids {
			returned[id] = true
			if !targets[id] {
				r.Violate(fmt.Sprintf("%s:returns-id-the-change-does-not-touch:%s", evaluator, ch.kind), "%s\nreturned %s; the change only names %v", desc, idSet(got.ids), targets)
			}
		}
		for id := range targets {
			s := id.String()
			if (before["has:"+s] != after["has:"+s] || before["feat:"+s] != after["feat:"+s]) && !returned[id] {
				r.Violate(fmt.Sprintf("%s:modified-feature-not-returned:%s", evaluator, ch.kind), "%s\n%s was modified:\n  before: %s\n  after:  %s\nreturned %s", desc, s, before["feat:"+s], after["feat:"+s], idSet(got.ids))
			}
		}
	}
	return r
}

type caseDef struct{ change, pre, root, eval int }

func main() {
	kit.Main(&kit.Check{
		ID: "C26", Level: "exploration",
		Rule: "every change of the menu (15 tag edits on present/absent IDs incl. multi-tag collections whose k-th entry is absent; 14 feature additions via add-point/add-relation/add-collection/import-geojson/connect incl. failing ones; 8 change files incl. path over a missing point, area over an open path, area over a missing path, malformed file; every merge-changes sequence of <= M parts over an 11-part menu of succeeding and failing parts, and nested merges) x 3 pre-states x 2 world roots x {gRPC Evaluate, api.Evaluator.EvaluateExpression}. Expressions are shell text parsed with api.ParseExpression. Every case is non-trivial; distinct by (evaluator, change, pre-state, root). " +
			"Oracle: identical fresh MutableOverlayWorld + identical pre-state + the identical change built with ingest constructors applied with Change.Apply: error reported iff Apply fails; evaluator's world dump == reference world dump; on success returned IDs == IDs Apply reports, are targets of the change, and include every target whose existence/tags/geometry changed.",
		Assumptions: []string{
			"'applying the change failed' is read as: Change.Apply of the identical change on an identical fresh world returns an error",
			"after a failing change the evaluator's world is compared with the reference world after the same failing Apply (AddTags/AddFeatures are not atomic; atomicity is C13's subject), not with the world before",
			"returned IDs are compared as sets",
			"callers of Evaluator.EvaluateExpression hold the read lock, as ui.OpenSourceUI.ServeStack does",
		},
		QuickDeadline: 300e9, ThoroughDeadline: 1500e9,
		Build: func(tier string) (kit.Space, string) {
			maxMerge := 2
			if tier == "thorough" {
				maxMerge = 3
			}
			sch := wk.Schemes[1]
			x := idsFor(sch)
			chs := changes(x, maxMerge)
			var cases []caseDef
			// simplest first: plain changes before merges (changes() order), fresh pre-state first
			for c := range chs {
				for p := range prestates {
					for rt := range roots {
						for ev := range evaluators {
							cases = append(cases, caseDef{c, p, rt, ev})
						}
					}
				}
			}
			var e *env
			return kit.FuncSpace{N: int64(len(cases)), F: func(i int64) kit.Result {
				if e == nil {
					base, err := wk.BasicStrict(baseSpec(x), 1)
					if err != nil {
						var r kit.Result
						r.Violate("harness:base-build", "%v", err)
						return r
					}
					atoms := []wk.RQ{{Op: "all"}, {Op: "keyed", Key: "#s"}, {Op: "keyed", Key: "#amenity"}, {Op: "keyed", Key: "#highway"}, {Op: "keyed", Key: "#route"}, {Op: "keyed", Key: "#landuse"}, {Op: "keyed", Key: "#kind"}, {Op: "tagged", Key: "#s", Val: "x"}, {Op: "tagged", Key: "#amenity", Val: "cafe"}}
					e = &env{x: x, base: base, changes: chs, queries: wk.NamedQueries(atoms)}
				}
				return e.run(cases[i])
			}}, fmt.Sprintf("%d changes (merges of <= %d parts) x %d pre-states x %d roots x 2 evaluators, ID scheme %s", len(chs), maxMerge, len(prestates), len(roots), sch.Name)
		},
	})
}
