// C27 — OSM PBF files read back what was written.
//
// Engine E1 (bounded-exhaustive input enumeration against the real
// osm.Writer / osm.ReadPBFWithOptions).
//
// Section S: every sequence up to a length bound over an alphabet of nodes,
// ways, relations (empty / repeated strings, negative / extreme IDs, extreme
// and sub-granularity coordinates, members of all three types with roles) and
// the pseudo element F (an explicit Writer.Flush(), which is exactly the
// transition the writer takes when a block overflows, so block boundaries at
// every position of every sequence are covered without 8000-element inputs).
// Section L (thorough): longer sequences over a pruned alphabet.
// Section M: macro sequences that really overflow blocks (7999/8000/8001/16001
// elements per type, type interleavings around the overflow point, many tiny
// blocks) with every short prefix and suffix.
// Section P: a deterministic probe of what a multi-core read promises about
// order across blocks (recorded as an outcome, see Assumptions).
//
// Every written file is read back with 1, 2, 3 and 4 reader cores.
//
// Oracle (independent: the expected result is the input itself):
//   - cores = 1: the emitted sequence equals the written one exactly, in order
//     (IDs, tags in order, way nodes, members with type/ID/role; coordinates
//     within one granularity step = 100 nanodegrees), every callback gets
//     goroutine index 0.
//   - cores > 1: the callback is invoked concurrently from several goroutines
//     and carries the goroutine index; the code guarantees (FIFO blob channel,
//     each blob decoded sequentially by one goroutine) that the elements seen
//     by each goroutine index are in written order and that the union is the
//     written multiset.  Demanded: the written sequence is an order-preserving
//     merge of the per-goroutine sequences (=> same multiset, order preserved
//     within each goroutine and therefore within each block) and indices are
//     within [0,cores).  Global wall-clock order across goroutines is not
//     promised by the reader and is not demanded; how often it differs is
//     counted.
package main

import (
	"bytes"
	"encoding/binary"
	"fmt"
	"math"
	"os"
	"runtime"
	"strings"
	"sync"
	"time"

	"diagonal.works/b6/osm"
	"verif/kit"
)

const granularityStep = 100e-9 // degrees: default PBF granularity of 100 nanodegrees

type member struct {
	typ  int // 0 node, 1 way, 2 relation
	id   int64
	role string
}

// el is the harness' own element model (independent of the osm package).
type el struct {
	kind     byte // 'N', 'W', 'R', 'F' (flush pseudo element)
	name     string
	id       int64
	lat, lng float64
	tags     [][2]string
	nodes    []int64
	members  []member
}

func (e *el) exactKey() string {
	var sb strings.Builder
	fmt.Fprintf(&sb, "%c|%d|", e.kind, e.id)
	for _, t := range e.tags {
		fmt.Fprintf(&sb, "%q=%q,", t[0], t[1])
	}
	sb.WriteByte('|')
	for _, n := range e.nodes {
		fmt.Fprintf(&sb, "%d,", n)
	}
	sb.WriteByte('|')
	for _, m := range e.members {
		fmt.Fprintf(&sb, "%d:%d:%q,", m.typ, m.id, m.role)
	}
	return sb.String()
}

func (e *el) String() string {
	if e.kind == 'N' {
		return fmt.Sprintf("%s@(%v,%v)", e.exactKey(), e.lat, e.lng)
	}
	return e.exactKey()
}

func tol(x float64) float64 {
	return granularityStep + math.Max(1e-12, math.Abs(x)*1e-14)
}

func sameElement(want, got *el) bool {
	if want.kind != got.kind || want.id != got.id || len(want.tags) != len(got.tags) ||
		len(want.nodes) != len(got.nodes) || len(want.members) != len(got.members) {
		return false
	}
	for i := range want.tags {
		if want.tags[i] != got.tags[i] {
			return false
		}
	}
	for i := range want.nodes {
		if want.nodes[i] != got.nodes[i] {
			return false
		}
	}
	for i := range want.members {
		if want.members[i] != got.members[i] {
			return false
		}
	}
	if want.kind == 'N' {
		if !(math.Abs(want.lat-got.lat) <= tol(want.lat)) || !(math.Abs(want.lng-got.lng) <= tol(want.lng)) {
			return false
		}
	}
	return true
}

// diffClass names what differs (used in the violation classifier).
func diffClass(want, got *el) string {
	switch {
	case want.kind != got.kind:
		return "kind"
	case want.id != got.id:
		return "id"
	}
	if len(want.tags) != len(got.tags) {
		return "tags"
	}
	for i := range want.tags {
		if want.tags[i] != got.tags[i] {
			return "tags"
		}
	}
	if len(want.nodes) != len(got.nodes) {
		return "way-nodes"
	}
	for i := range want.nodes {
		if want.nodes[i] != got.nodes[i] {
			return "way-nodes"
		}
	}
	if len(want.members) != len(got.members) {
		return "members"
	}
	for i := range want.members {
		if want.members[i].typ != got.members[i].typ {
			return "member-type"
		}
		if want.members[i].id != got.members[i].id {
			return "member-id"
		}
		if want.members[i].role != got.members[i].role {
			return "member-role"
		}
	}
	return "coordinates"
}

func osmTags(t [][2]string) osm.Tags {
	if t == nil {
		return nil
	}
	out := make(osm.Tags, len(t))
	for i, kv := range t {
		out[i] = osm.Tag{Key: kv[0], Value: kv[1]}
	}
	return out
}

var memberTypes = []osm.ElementType{osm.ElementTypeNode, osm.ElementTypeWay, osm.ElementTypeRelation}

func (e *el) toOSM() osm.Element {
	switch e.kind {
	case 'N':
		return &osm.Node{ID: osm.NodeID(e.id), Location: osm.LatLng{Lat: e.lat, Lng: e.lng}, Tags: osmTags(e.tags)}
	case 'W':
		w := &osm.Way{ID: osm.WayID(e.id), Tags: osmTags(e.tags)}
		if e.nodes != nil {
			w.Nodes = make([]osm.NodeID, len(e.nodes))
			for i, n := range e.nodes {
				w.Nodes[i] = osm.NodeID(n)
			}
		}
		return w
	case 'R':
		r := &osm.Relation{ID: osm.RelationID(e.id), Tags: osmTags(e.tags)}
		if e.members != nil {
			r.Members = make([]osm.Member, len(e.members))
			for i, m := range e.members {
				r.Members[i] = osm.Member{Type: memberTypes[m.typ], ID: osm.AnyID(m.id), Role: m.role}
			}
		}
		return r
	}
	panic("not an element")
}

// fromOSM deep-copies an emitted element (the reader reuses its buffers).
func fromOSM(e osm.Element) el {
	cpTags := func(t []osm.Tag) [][2]string {
		out := make([][2]string, len(t))
		for i, kv := range t {
			out[i] = [2]string{kv.Key, kv.Value}
		}
		return out
	}
	switch e := e.(type) {
	case *osm.Node:
		return el{kind: 'N', id: int64(e.ID), lat: e.Location.Lat, lng: e.Location.Lng, tags: cpTags(e.Tags)}
	case *osm.Way:
		out := el{kind: 'W', id: int64(e.ID), tags: cpTags(e.Tags), nodes: make([]int64, len(e.Nodes))}
		for i, n := range e.Nodes {
			out.nodes[i] = int64(n)
		}
		return out
	case *osm.Relation:
		out := el{kind: 'R', id: int64(e.ID), tags: cpTags(e.Tags), members: make([]member, len(e.Members))}
		for i, m := range e.Members {
			t := -1
			switch m.Type {
			case osm.ElementTypeNode:
				t = 0
			case osm.ElementTypeWay:
				t = 1
			case osm.ElementTypeRelation:
				t = 2
			}
			out.members[i] = member{typ: t, id: int64(m.ID), role: m.Role}
		}
		return out
	}
	return el{kind: '?'}
}

const (
	maxI = math.MaxInt64
	minI = math.MinInt64
)

var flush = el{kind: 'F', name: "F"}

// The full alphabet. Order: simplest first.
var alphabet = []el{
	{kind: 'N', name: "N0", id: 1, lat: 0, lng: 0},
	{kind: 'W', name: "W0", id: 1},
	{kind: 'R', name: "R0", id: 1},
	flush,
	{kind: 'N', name: "N1", id: 2, lat: 51.5354932, lng: -0.1258180, tags: [][2]string{{"highway", "primary"}}},
	{kind: 'W', name: "W1", id: 2, nodes: []int64{1, 2, 3}, tags: [][2]string{{"highway", "primary"}}},
	{kind: 'R', name: "R1", id: 2, members: []member{{0, 1, ""}, {1, 2, "outer"}, {2, 3, "inner"}}, tags: [][2]string{{"type", "multipolygon"}}},
	{kind: 'N', name: "N2", id: -1, lat: -90, lng: -180, tags: [][2]string{{"", ""}}},
	{kind: 'W', name: "W2", id: -5, nodes: []int64{maxI, minI, 0, -1}, tags: [][2]string{{"", ""}}},
	{kind: 'R', name: "R2", id: minI, members: []member{{2, maxI, "outer"}, {0, minI, "outer"}, {1, -1, ""}}, tags: [][2]string{{"", "type"}}},
	{kind: 'N', name: "N3", id: maxI, lat: 90, lng: 180, tags: [][2]string{{"k", "k"}, {"name", ""}}},
	{kind: 'W', name: "W3", id: maxI, nodes: []int64{5, 5}, tags: [][2]string{{"name", "highway"}, {"primary", "name"}}},
	{kind: 'R', name: "R3", id: -7, members: []member{{1, 2, "highway"}, {1, 2, "highway"}}, tags: [][2]string{{"highway", "highway"}}},
	{kind: 'N', name: "N4", id: minI, lat: 1e-8, lng: -1e-8, tags: [][2]string{{"highway", "primary"}, {"highway", "primary"}}},
	{kind: 'N', name: "N5", id: 1<<40 + 7, lat: -0.00000005, lng: 179.9999999, tags: [][2]string{{"primary", "highway"}, {"naïve ключ", "值\x00\n"}}},
}

// Extra elements of the thorough tier.
var extra = []el{
	{kind: 'N', name: "N6", id: 2, lat: -33.8688197, lng: 151.2092955},                                  // same ID as N1, no tags after tagged nodes
	{kind: 'N', name: "N7", id: -(1 << 33), lat: 100000.5, lng: -12345.6789012, tags: [][2]string{{"", "x"}}}, // out of the geographic range but representable
	{kind: 'W', name: "W4", id: minI, nodes: []int64{minI, maxI, minI}},
	{kind: 'R', name: "R4", id: maxI, members: []member{{0, 0, "outer"}}, tags: [][2]string{{"outer", "inner"}, {"inner", "outer"}}},
	{kind: 'W', name: "W5", id: 0, nodes: []int64{0}, tags: [][2]string{{"k", ""}, {"", "k"}}},
}

func pick(all []el, names ...string) []el {
	var out []el
	for _, n := range names {
		found := false
		for _, e := range all {
			if e.name == n {
				out = append(out, e)
				found = true
			}
		}
		if !found {
			panic("no element " + n)
		}
	}
	return out
}

// ---------- independent framing parser: number of OSMData blobs ----------

func varint(b []byte) (uint64, int) {
	var x uint64
	for i := 0; i < len(b) && i < 10; i++ {
		x |= uint64(b[i]&0x7f) << (7 * uint(i))
		if b[i] < 0x80 {
			return x, i + 1
		}
	}
	return 0, 0
}

// countBlobs returns (#OSMHeader, #OSMData, ok).
func countBlobs(file []byte) (int, int, bool) {
	headers, data := 0, 0
	for len(file) > 0 {
		if len(file) < 4 {
			return 0, 0, false
		}
		hl := int(binary.BigEndian.Uint32(file))
		file = file[4:]
		if hl > len(file) {
			return 0, 0, false
		}
		h := file[:hl]
		file = file[hl:]
		typ, size := "", -1
		for len(h) > 0 {
			tag, n := varint(h)
			if n == 0 {
				return 0, 0, false
			}
			h = h[n:]
			switch tag & 7 {
			case 0:
				v, n := varint(h)
				if n == 0 {
					return 0, 0, false
				}
				h = h[n:]
				if tag>>3 == 3 {
					size = int(v)
				}
			case 2:
				l, n := varint(h)
				if n == 0 || int(l) > len(h)-n {
					return 0, 0, false
				}
				if tag>>3 == 1 {
					typ = string(h[n : n+int(l)])
				}
				h = h[n+int(l):]
			default:
				return 0, 0, false
			}
		}
		if size < 0 || size > len(file) {
			return 0, 0, false
		}
		file = file[size:]
		switch typ {
		case "OSMHeader":
			headers++
		case "OSMData":
			data++
		default:
			return 0, 0, false
		}
	}
	return headers, data, true
}

// ---------- write / read ----------

func write(seq []el, viaWriteElement bool) ([]byte, error) {
	var buf bytes.Buffer
	w, err := osm.NewWriter(&buf)
	if err != nil {
		return nil, fmt.Errorf("NewWriter: %v", err)
	}
	for i := range seq {
		e := &seq[i]
		if e.kind == 'F' {
			if err := w.Flush(); err != nil {
				return nil, fmt.Errorf("Flush: %v", err)
			}
			continue
		}
		o := e.toOSM()
		if viaWriteElement {
			err = w.WriteElement(o)
		} else {
			switch o := o.(type) {
			case *osm.Node:
				err = w.WriteNode(o)
			case *osm.Way:
				err = w.WriteWay(o)
			case *osm.Relation:
				err = w.WriteRelation(o)
			}
		}
		if err != nil {
			return nil, fmt.Errorf("write %s: %v", e.name, err)
		}
	}
	if err := w.Flush(); err != nil {
		return nil, fmt.Errorf("final Flush: %v", err)
	}
	return buf.Bytes(), nil
}

type readResult struct {
	per       [][]el // per goroutine index
	global    []int  // goroutine index of the k-th emit, in mutex order
	badIndex  int    // an out-of-range goroutine index seen (or -1)
	err       error
	callbacks int
}

func read(file []byte, cores int) readResult {
	n := cores
	if n < 1 {
		n = 1
	}
	res := readResult{per: make([][]el, n), badIndex: -1}
	var mu sync.Mutex
	emit := func(e osm.Element, g int) error {
		c := fromOSM(e)
		mu.Lock()
		defer mu.Unlock()
		res.callbacks++
		if g < 0 || g >= n {
			res.badIndex = g
			return nil
		}
		res.per[g] = append(res.per[g], c)
		res.global = append(res.global, g)
		return nil
	}
	if cores == 0 { // the plain API
		res.err = osm.ReadPBF(bytes.NewReader(file), func(e osm.Element) error { return emit(e, 0) })
		return res
	}
	res.err = osm.ReadPBFWithOptions(bytes.NewReader(file), emit, osm.ReadOptions{Cores: cores})
	return res
}

// mergeable reports whether want is an order-preserving merge of the
// per-goroutine sequences; on failure it returns the first written position
// that cannot be matched.
func mergeable(want []el, per [][]el) (bool, int) {
	total := 0
	for _, p := range per {
		total += len(p)
	}
	if total != len(want) {
		return false, -1
	}
	pos := make([]int, len(per))
	memo := map[string]bool{}
	deepest := 0
	var rec func(t int) bool
	rec = func(t int) bool {
		for t < len(want) {
			if t > deepest {
				deepest = t
			}
			var cands []int
			for g := range per {
				if pos[g] < len(per[g]) && sameElement(&want[t], &per[g][pos[g]]) {
					cands = append(cands, g)
				}
			}
			if len(cands) == 0 {
				return false
			}
			if len(cands) == 1 {
				pos[cands[0]]++
				t++
				continue
			}
			key := fmt.Sprint(pos)
			if memo[key] {
				return false
			}
			saved := append([]int{}, pos...)
			for _, g := range cands {
				copy(pos, saved)
				pos[g]++
				if rec(t + 1) {
					return true
				}
			}
			copy(pos, saved)
			memo[key] = true
			return false
		}
		return true
	}
	if rec(0) {
		return true, 0
	}
	return false, deepest
}

func elementsOnly(seq []el) []el {
	out := make([]el, 0, len(seq))
	for _, e := range seq {
		if e.kind != 'F' {
			out = append(out, e)
		}
	}
	return out
}

func describe(seq []el) string {
	if len(seq) > 12 {
		return fmt.Sprintf("%d elements", len(seq))
	}
	var s []string
	for _, e := range seq {
		s = append(s, e.name)
	}
	return "[" + strings.Join(s, " ") + "]"
}

func blobClass(n int) string {
	if n >= 4 {
		return "4+"
	}
	return fmt.Sprint(n)
}

// check writes seq and reads it back with 1..4 cores.
func check(r *kit.Result, seq []el, label string, variants []bool, coreList []int) {
	want := elementsOnly(seq)
	for _, viaWE := range variants {
		via := "WriteNode/Way/Relation"
		if viaWE {
			via = "WriteElement"
		}
		var file []byte
		var werr error
		cls, msg := kit.Catch(func() { file, werr = write(seq, viaWE) })
		if cls != "" {
			r.Violate("write:"+cls, "writing %s via %s: %s", label, via, msg)
			continue
		}
		if werr != nil {
			r.Violate("write:error", "writing %s via %s: %v", label, via, werr)
			continue
		}
		hdrs, blobs, ok := countBlobs(file)
		if !ok || hdrs != 1 {
			r.Violate("write:bad-framing", "file written for %s is not a sequence of one OSMHeader blob followed by OSMData blobs (headers=%d ok=%v)", label, hdrs, ok)
			continue
		}
		cl := coreList
		if viaWE {
			cl = append([]int{0}, coreList...) // 0 = osm.ReadPBF
		}
		for _, cores := range cl {
			r.Evals++
			var res readResult
			cls, msg := kit.Catch(func() { res = read(file, cores) })
			if cls != "" {
				r.Violate(fmt.Sprintf("read:%s", cls), "reading %s (written via %s) with %d cores: %s", label, via, cores, msg)
				continue
			}
			if res.err != nil {
				r.Violate("read:error", "reading %s (written via %s) with %d cores: %v", label, via, cores, res.err)
				continue
			}
			if res.badIndex != -1 {
				r.Violate("read:goroutine-index-out-of-range", "reading %s with %d cores: callback got goroutine index %d", label, cores, res.badIndex)
				continue
			}
			if cores <= 1 {
				got := res.per[0]
				if len(got) != len(want) {
					r.Violate(fmt.Sprintf("cores1:count:%s", lossClass(want, got)), "%s (via %s): wrote %d elements, read %d with one core\nwrote %s\nread  %s", label, via, len(want), len(got), show(want), show(got))
					continue
				}
				bad := false
				for i := range want {
					if !sameElement(&want[i], &got[i]) {
						r.Violate(fmt.Sprintf("cores1:%c:%s", want[i].kind, diffClass(&want[i], &got[i])), "%s (via %s): element %d differs with one core\nwrote %s\nread  %s", label, via, i, want[i].String(), got[i].String())
						bad = true
						break
					}
				}
				if !bad {
					if cores == 0 {
						r.AddOutcome(fmt.Sprintf("ok:ReadPBF:blobs%s", blobClass(blobs)))
					} else {
						r.AddOutcome(fmt.Sprintf("ok:cores1:blobs%s", blobClass(blobs)))
					}
				}
				continue
			}
			total := 0
			for _, p := range res.per {
				total += len(p)
			}
			if total != len(want) {
				r.Violate("multicore:count", "%s (via %s): wrote %d elements, read %d with %d cores", label, via, len(want), total, cores)
				continue
			}
			if ok, at := mergeable(want, res.per); !ok {
				// distinguish wrong content from wrong per-goroutine order
				cl := "multicore:per-goroutine-order-or-content"
				if sameMultiset(want, res.per) {
					cl = "multicore:per-goroutine-order"
				} else {
					cl = "multicore:content"
				}
				r.Violate(cl, "%s (via %s) with %d cores: the written sequence is not an order-preserving merge of what the goroutines saw (stuck at written position %d)\nwrote %s\nsaw   %s", label, via, cores, at, show(want), showPer(res.per))
				continue
			}
			used := 0
			for _, p := range res.per {
				if len(p) > 0 {
					used++
				}
			}
			// scheduler-dependent observations go to counters, not outcomes
			if used > 1 {
				r.Count("multicore_reads_served_by_more_than_one_goroutine", 1)
			}
			pos := make([]int, len(res.per))
			for k, g := range res.global {
				if !sameElement(&want[k], &res.per[g][pos[g]]) {
					r.Count("multicore_reads_whose_wall_clock_order_differs_from_written_order(not demanded)", 1)
					break
				}
				pos[g]++
			}
			r.AddOutcome(fmt.Sprintf("ok:cores%d:blobs%s", cores, blobClass(blobs)))
		}
	}
}

func lossClass(want, got []el) string {
	if len(got) < len(want) {
		return "lost"
	}
	return "extra"
}

func sameMultiset(want []el, per [][]el) bool {
	var got []el
	for _, p := range per {
		got = append(got, p...)
	}
	if len(got) != len(want) {
		return false
	}
	used := make([]bool, len(got))
	// quadratic, only used on the failure path
	for i := range want {
		f := false
		for j := range got {
			if !used[j] && sameElement(&want[i], &got[j]) {
				used[j] = true
				f = true
				break
			}
		}
		if !f {
			return false
		}
	}
	return true
}

func show(s []el) string {
	if len(s) > 8 {
		var parts []string
		for _, e := range s[:4] {
			parts = append(parts, e.String())
		}
		parts = append(parts, fmt.Sprintf("… (%d elements) …", len(s)))
		for _, e := range s[len(s)-3:] {
			parts = append(parts, e.String())
		}
		return strings.Join(parts, " ; ")
	}
	var parts []string
	for _, e := range s {
		parts = append(parts, e.String())
	}
	return "[" + strings.Join(parts, " ; ") + "]"
}

func showPer(per [][]el) string {
	var parts []string
	for g, p := range per {
		parts = append(parts, fmt.Sprintf("g%d:%s", g, show(p)))
	}
	return strings.Join(parts, " | ")
}

// ---------- macro sequences ----------

// macroNode / macroWay / macroRelation generate pairwise distinct elements.
func macroNode(i int) el {
	e := el{kind: 'N', name: fmt.Sprintf("n%d", i)}
	switch i % 4 {
	case 0:
		e.id = int64(i) + 1
	case 1:
		e.id = -int64(i) - 1
	case 2:
		e.id = maxI - int64(i)
	default:
		e.id = minI + int64(i)
	}
	e.lat = -90 + float64((i*7919)%1800000)/10000.0
	e.lng = -180 + float64((i*104729)%3600000)/10000.0 + 1e-8*float64(i%9)
	switch i % 5 {
	case 1:
		e.tags = [][2]string{{fmt.Sprintf("k%d", i%7), fmt.Sprintf("v%d", i%11)}}
	case 2:
		e.tags = [][2]string{{"", ""}, {"name", fmt.Sprintf("unique %d", i)}}
	case 3:
		e.tags = [][2]string{{"highway", "primary"}, {"highway", "primary"}, {fmt.Sprintf("v%d", i%11), fmt.Sprintf("k%d", i%7)}}
	}
	return e
}

func macroWay(i int) el {
	e := el{kind: 'W', name: fmt.Sprintf("w%d", i), id: int64(i)*3 - 12000}
	for j := 0; j < i%4; j++ {
		switch j % 3 {
		case 0:
			e.nodes = append(e.nodes, int64(i+j))
		case 1:
			e.nodes = append(e.nodes, maxI-int64(i))
		default:
			e.nodes = append(e.nodes, minI+int64(j))
		}
	}
	if i%3 != 0 {
		e.tags = [][2]string{{"highway", fmt.Sprintf("class%d", i%13)}, {fmt.Sprintf("ref%d", i), ""}}
	}
	return e
}

func macroRelation(i int) el {
	e := el{kind: 'R', name: fmt.Sprintf("r%d", i), id: maxI - int64(i)*2}
	for j := 0; j < i%4; j++ {
		e.members = append(e.members, member{typ: (i + j) % 3, id: int64(i*(j+1)) * int64(1-2*(j%2)), role: []string{"", "outer", "inner", fmt.Sprintf("role%d", i%17)}[(i+j)%4]})
	}
	if i%2 == 0 {
		e.tags = [][2]string{{"type", []string{"multipolygon", "route", ""}[i%3]}}
	}
	return e
}

func run(kind byte, from, n int) []el {
	out := make([]el, 0, n)
	for i := from; i < from+n; i++ {
		switch kind {
		case 'N':
			out = append(out, macroNode(i))
		case 'W':
			out = append(out, macroWay(i))
		default:
			out = append(out, macroRelation(i))
		}
	}
	return out
}

type macro struct {
	name  string
	build func() []el
}

func concat(parts ...[]el) []el {
	var out []el
	for _, p := range parts {
		out = append(out, p...)
	}
	return out
}

func macros(tier string) []macro {
	var ms []macro
	kinds := []byte{'N', 'W', 'R'}
	// a short context of distinct elements before / after the overflowing run
	ctx := func(code string, base int) []el {
		var out []el
		for i, c := range code {
			out = append(out, run(byte(c), base+i, 1)...)
		}
		return out
	}
	contexts := []string{"", "N", "W", "R"}
	if tier == "thorough" {
		contexts = []string{"", "N", "W", "R", "NW", "WN", "NR", "RN", "WR", "RW", "NN", "WW", "RR"}
	}
	counts := []int{7999, 8000, 8001}
	for _, k := range kinds {
		k := k
		for _, n := range counts {
			n := n
			for _, pre := range contexts {
				for _, suf := range contexts {
					pre, suf := pre, suf
					if tier != "thorough" && (pre != "" || suf != "") && (n == 7999 || (pre != "" && suf != "")) {
						continue // quick: context on one side only, and none for 7999
					}
					ms = append(ms, macro{fmt.Sprintf("%s·%c^%d·%s", pre, k, n, suf), func() []el {
						return concat(ctx(pre, 100000), run(k, 0, n), ctx(suf, 200000))
					}})
				}
			}
		}
	}
	big := []int{16000, 16001}
	if tier == "thorough" {
		big = []int{15999, 16000, 16001, 24001}
	}
	for _, k := range kinds {
		k := k
		for _, n := range big {
			n := n
			ms = append(ms, macro{fmt.Sprintf("%c^%d", k, n), func() []el { return run(k, 0, n) }})
		}
	}
	// all orders of three overflowing runs
	perms := []string{"NWR", "NRW", "WNR", "WRN", "RNW", "RWN"}
	for _, p := range perms {
		p := p
		ms = append(ms, macro{fmt.Sprintf("%c^8001·%c^8001·%c^8001", p[0], p[1], p[2]), func() []el {
			return concat(run(p[0], 0, 8001), run(p[1], 0, 8001), run(p[2], 0, 8001))
		}})
		ms = append(ms, macro{fmt.Sprintf("%c^8000·%c^8000·%c^8000", p[0], p[1], p[2]), func() []el {
			return concat(run(p[0], 0, 8000), run(p[1], 0, 8000), run(p[2], 0, 8000))
		}})
	}
	// the same type resumed after an interruption: X^8000 · Y · X^8001
	for _, a := range kinds {
		for _, b := range kinds {
			a, b := a, b
			if a == b {
				continue
			}
			ms = append(ms, macro{fmt.Sprintf("%c^8000·%c·%c^8001", a, b, a), func() []el {
				return concat(run(a, 0, 8000), run(b, 0, 1), run(a, 8000, 8001))
			}})
			ms = append(ms, macro{fmt.Sprintf("%c^7999·%c·%c^2", a, b, a), func() []el {
				return concat(run(a, 0, 7999), run(b, 0, 1), run(a, 7999, 2))
			}})
		}
	}
	// many tiny blocks: strict alternation forces a flush per element
	reps := []int{40}
	if tier == "thorough" {
		reps = []int{40, 400}
	}
	for _, n := range reps {
		n := n
		for _, p := range []string{"NW", "NR", "WR", "NWR", "RWN", "NNW", "WWRN"} {
			p := p
			ms = append(ms, macro{fmt.Sprintf("(%s)^%d", p, n), func() []el {
				var out []el
				for i := 0; i < n; i++ {
					for j, c := range p {
						out = append(out, run(byte(c), i*len(p)+j, 1)...)
					}
				}
				return out
			}})
		}
	}
	// one block whose string table is large (every tag string distinct)
	ms = append(ms, macro{"N^8000 all-distinct-strings · W · N^8000 same strings", func() []el {
		a := run('N', 0, 8000)
		for i := range a {
			a[i].tags = [][2]string{{fmt.Sprintf("key%d", i), fmt.Sprintf("value%d", i)}}
		}
		b := run('N', 8000, 8000)
		for i := range b {
			b[i].tags = [][2]string{{fmt.Sprintf("value%d", i), fmt.Sprintf("key%d", i)}}
		}
		return concat(a, run('W', 0, 1), b)
	}})
	return ms
}

// ---------- order probe ----------

// probe: two blocks (a node, then a way). The callback for the node waits
// until the way has been emitted by another goroutine (or a timeout). If the
// way arrives while the node's callback is still running, elements of a later
// block can be delivered before an earlier block has been fully delivered, so
// no global order across blocks is promised for a multi-core read.
func probe(r *kit.Result, cores int) {
	seq := []el{alphabet[4], alphabet[5]}
	file, err := write(seq, false)
	if err != nil {
		r.Violate("write:error", "probe: %v", err)
		return
	}
	waySeen := make(chan struct{})
	var once sync.Once
	overtaken := false
	var order []byte
	var mu sync.Mutex
	emit := func(e osm.Element, g int) error {
		switch e.(type) {
		case *osm.Node:
			select {
			case <-waySeen:
				overtaken = true
			case <-time.After(5 * time.Second):
			}
			mu.Lock()
			order = append(order, 'N')
			mu.Unlock()
		case *osm.Way:
			mu.Lock()
			order = append(order, 'W')
			mu.Unlock()
			once.Do(func() { close(waySeen) })
		}
		return nil
	}
	if err := osm.ReadPBFWithOptions(bytes.NewReader(file), emit, osm.ReadOptions{Cores: cores}); err != nil {
		r.Violate("read:error", "probe with %d cores: %v", cores, err)
		return
	}
	if cores <= 1 {
		if overtaken || string(order) != "NW" {
			r.Violate("cores1:order", "probe: with one core the way of block 2 was delivered before the node of block 1 had been delivered (order %s)", order)
			return
		}
		r.AddOutcome("probe:cores1:later-block-waits-for-earlier-block")
		return
	}
	if overtaken {
		r.AddOutcome(fmt.Sprintf("probe:cores%d:later-block-delivered-while-earlier-block-still-in-callback(no cross-block order promised)", cores))
	} else {
		r.AddOutcome(fmt.Sprintf("probe:cores%d:later-block-waited", cores))
	}
}

// ---------- space ----------

type section struct {
	alpha  []el
	minLen int
	maxLen int
	start  int64 // first case index
	counts []int64
}

func pow(a, n int) int64 {
	p := int64(1)
	for i := 0; i < n; i++ {
		p *= int64(a)
	}
	return p
}

func (s *section) size() int64 {
	var n int64
	s.counts = nil
	for l := s.minLen; l <= s.maxLen; l++ {
		c := pow(len(s.alpha), l)
		s.counts = append(s.counts, c)
		n += c
	}
	return n
}

func (s *section) decode(i int64) []el {
	l := s.minLen
	for _, c := range s.counts {
		if i < c {
			break
		}
		i -= c
		l++
	}
	seq := make([]el, l)
	for j := l - 1; j >= 0; j-- {
		seq[j] = s.alpha[i%int64(len(s.alpha))]
		i /= int64(len(s.alpha))
	}
	return seq
}

// ballast keeps the Go heap goal (and with it the amount of memory the
// runtime keeps resident) well above the ~2 MB a fresh osm.Writer allocates:
// without it every NewWriter page-faults its buffers in again after the
// scavenger returned them, which costs ~10 ms per writer in this sandbox.
// Harness-only; the code under test is unaffected.
var ballast []byte

func main() {
	for _, a := range os.Args[1:] {
		if strings.Contains(a, "-worker") || strings.Contains(a, "-case") || strings.Contains(a, "-replay") {
			ballast = make([]byte, 96<<20)
			for i := 0; i < len(ballast); i += 4096 {
				ballast[i] = 1
			}
			break
		}
	}
	defer runtime.KeepAlive(ballast)
	kit.Main(&kit.Check{
		ID:    "C27",
		Level: "exploration",
		Rule: "Case = one written sequence; each is written with osm.NewWriter (final Flush) and read back with osm.ReadPBFWithOptions using 1, 2, 3 and 4 reader cores (real goroutines); sequences of length <= 3 are additionally written through Writer.WriteElement and read with osm.ReadPBF. " +
			"Sections: S = every sequence up to the length bound over the full alphabet (nodes/ways/relations with empty, repeated and role/key/value-shared strings, IDs incl. 0, negative, MinInt64, MaxInt64, coordinates incl. ±90/±180, sub-granularity, out-of-range-but-representable; F = explicit Flush, the writer's block-overflow transition); " +
			"L = longer sequences over a pruned alphabet; M = macro sequences of pairwise distinct elements that overflow blocks (7999/8000/8001 of a type with every short prefix/suffix, 16001+, all orders of three overflowing runs, resumed types, strict alternations); P = deterministic cross-block order probe. " +
			"A sequence is non-trivial when it contains at least one element. Oracle: the input itself (see file comment).",
		Assumptions: []string{
			"coordinates are finite and representable at nanodegree resolution in int64 (|deg| < 9.2e9); the alphabet stays within ±100000.5 degrees so that float64 rounding is far below one granularity step",
			"'within one granularity step' = |read - written| <= 100 nanodegrees (default granularity; the writer never sets another) plus float64 rounding slack max(1e-12, 1e-14*|x|)",
			"the statement's 'same order ... for any number of reader cores' is demanded as: exact order with one core; with several cores the callback is invoked concurrently with a goroutine index and the reader only promises order per goroutine index (FIFO blob channel, each blob decoded by one goroutine) — demanded: the written sequence is an order-preserving merge of the per-goroutine sequences. A global order across goroutines is not defined by the API (section P shows a later block is delivered while an earlier block's callback is still running)",
			"multi-core reads run free (Go scheduler); the systematic schedule exploration of the reader is C28's/E3's job — here the number of cores is an input dimension",
			"the caller finishes with Writer.Flush() (as pbf_test.go does); the writer has no Close",
		},
		QuickDeadline:    150 * time.Second,
		ThoroughDeadline: 15 * time.Minute,
		CaseTimeout:      120 * time.Second,
		Chunk:            20,
		Build: func(tier string) (kit.Space, string) {
			all := append(append([]el{}, alphabet...), extra...)
			var secs []*section
			var bound string
			if tier == "thorough" {
				pruned := pick(all, "N1", "W1", "R1", "F", "N3", "W2", "R2", "N4", "R3")
				secs = []*section{
					{alpha: all, minLen: 0, maxLen: 4},
					{alpha: pruned, minLen: 5, maxLen: 6},
				}
				bound = fmt.Sprintf("S: all sequences of length 0..4 over %d symbols (%d elements + F); L: all sequences of length 5..6 over %d symbols %s; ", len(all), len(all)-1, len(pruned), describe(pruned))
			} else {
				pruned := pick(all, "N1", "W1", "R1", "F", "N3", "W2", "R2", "N4")
				secs = []*section{
					{alpha: alphabet, minLen: 0, maxLen: 3},
					{alpha: pruned, minLen: 4, maxLen: 4},
				}
				bound = fmt.Sprintf("S: all sequences of length 0..3 over %d symbols (%d elements + F); L: all sequences of length 4 over %d symbols %s; ", len(alphabet), len(alphabet)-1, len(pruned), describe(pruned))
			}
			var n int64
			for _, s := range secs {
				s.start = n
				n += s.size()
			}
			ms := macros(tier)
			macroStart := n
			n += int64(len(ms))
			probeStart := n
			n += 4
			bound += fmt.Sprintf("M: %d macro sequences (block size 8000); P: order probe with 1..4 cores; every file read with cores 1,2,3,4 (quick: sections L and M with cores 1,2,4)", len(ms))
			cores := []int{1, 2, 3, 4}
			coresLM := cores // sections L and M
			if tier != "thorough" {
				coresLM = []int{1, 2, 4}
			}
			return kit.FuncSpace{N: n, F: func(i int64) kit.Result {
				var r kit.Result
				switch {
				case i >= probeStart:
					c := int(i-probeStart) + 1
					probe(&r, c)
					r.Evals = 1
					r.Nontrivial = true
					r.Key = fmt.Sprintf("probe:%d", c)
					return r
				case i >= macroStart:
					m := ms[i-macroStart]
					seq := m.build()
					check(&r, seq, "macro "+m.name, []bool{false}, coresLM)
					r.Nontrivial = true
					r.Key = "macro:" + m.name
					if i == macroStart {
						r.Sample = map[string]interface{}{"macro": m.name, "elements": len(seq), "first": seq[0].String()}
					}
					return r
				}
				var sec *section
				for _, s := range secs {
					if i >= s.start {
						sec = s
					}
				}
				seq := sec.decode(i - sec.start)
				variants := []bool{false}
				if len(seq) <= 3 {
					variants = []bool{false, true}
				}
				if sec == secs[0] {
					check(&r, seq, describe(seq), variants, cores)
				} else {
					check(&r, seq, describe(seq), variants, coresLM)
				}
				if len(elementsOnly(seq)) > 0 {
					r.Nontrivial = true
					r.Key = describe(seq)
				}
				if i == 777 || i == 5011 {
					var lit []string
					for _, e := range seq {
						lit = append(lit, e.name+"="+e.String())
					}
					r.Sample = map[string]interface{}{"sequence": lit}
				}
				return r
			}}, bound
		},
	})
}
