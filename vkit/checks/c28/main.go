// C28 — a callback error stops streaming and is reported.
//
// Engine E3: every goroutine interleaving (iterative preemption bounding,
// happens-before caching; unbounded where it finishes) of the REAL streaming
// mechanisms — rewritten at build time so their goroutines, channels, selects,
// locks, wait groups and contexts run under the controlled scheduler — with a
// callback that fails at a chosen position.
package main

import (
	"bytes"
	"context"
	"errors"
	"fmt"
	"runtime"
	"strings"

	"diagonal.works/b6"
	"diagonal.works/b6/encoding"
	"diagonal.works/b6/ingest"
	"diagonal.works/b6/osm"
	"verif/kit"
	"verif/racekit"
	"verif/sched"
	wk "verif/worldkit"
)

var errBoom = errors.New("boom")

// obs is what one execution observed (reset by each body run).
type obsT struct {
	calls      int   // callbacks begun
	callsAfter int   // callbacks begun after the first failing callback returned
	failed     bool  // a failing callback has returned
	returned   bool  // the streaming call returned
	ret        error // what it returned
	lateCalls  int   // callbacks begun after the call returned
}

var obs obsT

type scenario struct {
	mech       string
	items      int
	goroutines int
	failAt     int  // 1-based index of the callback invocation that fails (0 = never)
	always     bool // every invocation from failAt on fails
}

func (s scenario) String() string {
	return fmt.Sprintf("%s items=%d goroutines=%d failAt=%d always=%v", s.mech, s.items, s.goroutines, s.failAt, s.always)
}

// callback is the failing user callback; it yields so other goroutines can
// interleave with it.
func (s scenario) callback() error {
	obs.calls++
	n := obs.calls
	if obs.returned {
		obs.lateCalls++
	}
	if obs.failed {
		obs.callsAfter++
	}
	sched.Yield()
	if s.failAt > 0 && (n == s.failAt || (s.always && n > s.failAt)) {
		obs.failed = true
		return errBoom
	}
	return nil
}

// buildMap: IDs 0..n-1 in a map of 2^bits buckets (3: every ID alone in its
// bucket; 1 and 0: several IDs share a bucket, so the failing item may be a
// first, inner or last ID of its bucket).
func buildMap(n int, bits int) *encoding.Uint64Map {
	b := encoding.NewUint64MapBuilder(bits, 0)
	for i := 0; i < n; i++ {
		b.Reserve(uint64(i), 0, 1)
	}
	var out encoding.Buffer
	b.WriteHeader(&out, 0)
	for i := 0; i < n; i++ {
		b.WriteItem(uint64(i), 0, []byte{byte(i)}, &out)
	}
	var zeros [64]byte
	out.WriteAt(zeros[:], int64(b.Length()))
	return encoding.NewUint64Map(out.Bytes())
}

func pointSpec(n int) wk.Spec {
	var s wk.Spec
	for i := 0; i < n; i++ {
		s = append(s, wk.FSpec{ID: wk.PointID("diagonal.works/test", uint64(i+1)), Kind: wk.KPoint, LL: wk.G(i, i), Tags: []wk.TagSpec{{Key: "#n", Value: fmt.Sprint(i)}}})
	}
	return s
}

func pbfBytes(n int) []byte {
	var buf bytes.Buffer
	w, _ := osm.NewWriter(&buf)
	// alternate element types so each element lands in its own block
	for i := 0; i < n; i++ {
		switch i % 3 {
		case 0:
			w.WriteNode(&osm.Node{ID: osm.NodeID(i + 1)})
		case 1:
			w.WriteWay(&osm.Way{ID: osm.WayID(i + 1), Nodes: []osm.NodeID{1, 2}})
		case 2:
			w.WriteRelation(&osm.Relation{ID: osm.RelationID(i + 1)})
		}
	}
	w.Flush()
	return buf.Bytes()
}

// body returns the function that one execution runs.
func (s scenario) body() func() {
	switch s.mech {
	case "Uint64Map.EachItem", "Uint64Map.EachItem[2 buckets]", "Uint64Map.EachItem[1 bucket]":
		bits := map[string]int{"Uint64Map.EachItem": 3, "Uint64Map.EachItem[2 buckets]": 1, "Uint64Map.EachItem[1 bucket]": 0}[s.mech]
		return func() {
			obs = obsT{}
			m := buildMap(s.items, bits)
			obs.ret = m.EachItem(func(id uint64, tagged []encoding.Tagged, g int) error { return s.callback() }, s.goroutines)
			obs.returned = true
		}
	case "MemoryFeatureSource.Read":
		return func() {
			obs = obsT{}
			src := ingest.MemoryFeatureSource(pointSpec(s.items).Features())
			obs.ret = src.Read(ingest.ReadOptions{Goroutines: s.goroutines}, func(f ingest.Feature, g int) error { return s.callback() }, context.Background())
			obs.returned = true
		}
	case "BasicMutableWorld.EachFeature", "MutableOverlayWorld.EachFeature":
		return func() {
			obs = obsT{}
			var w b6.World
			bw, _ := wk.BasicMutable(pointSpec(s.items))
			w = bw
			if s.mech == "MutableOverlayWorld.EachFeature" {
				// half of the features in the base, half in the overlay
				sp := pointSpec(s.items)
				base, _ := wk.BasicMutable(sp[:len(sp)/2])
				ow, _ := wk.OverlayOn(base, sp[len(sp)/2:])
				w = ow
			}
			obs.ret = w.EachFeature(func(f b6.Feature, g int) error { return s.callback() }, &b6.EachFeatureOptions{Goroutines: s.goroutines})
			obs.returned = true
		}
	case "EachModifiedTag":
		return func() {
			obs = obsT{}
			base, _ := wk.BasicMutable(pointSpec(s.items))
			ow := ingest.NewMutableOverlayWorld(base)
			for _, f := range pointSpec(s.items) {
				ow.AddTag(f.ID, b6.Tag{Key: "plain", Value: b6.NewStringExpression("v")})
			}
			obs.ret = ow.EachModifiedTag(func(t ingest.ModifiedTag, g int) error { return s.callback() }, &b6.EachFeatureOptions{Goroutines: s.goroutines})
			obs.returned = true
		}
	case "ReadPBFWithOptions":
		data := pbfBytes(s.items)
		return func() {
			obs = obsT{}
			obs.ret = osm.ReadPBFWithOptions(bytes.NewReader(data), func(e osm.Element, g int) error { return s.callback() }, osm.ReadOptions{Cores: s.goroutines})
			obs.returned = true
		}
	}
	panic("unknown mechanism " + s.mech)
}

// slack is the number of work items that may legitimately begin after the
// first failing callback returned: one per goroutine already holding an item
// plus the channel capacity.
func (s scenario) slack() int { return 2*s.goroutines + 1 }

func (s scenario) check(e *sched.Exec) (string, []sched.Failure) {
	var fails []sched.Failure
	add := func(class, msg string) {
		fails = append(fails, sched.Failure{Class: s.mech + ":" + class, Msg: msg + " [" + s.String() + "]"})
	}
	for _, ev := range e.Events {
		switch ev.Kind {
		case "panic":
			add("panic", ev.Msg)
		case "horizon":
			add("livelock", ev.Msg)
		}
	}
	outcome := "ok"
	if e.Deadlocked {
		if !obs.returned {
			add("hang", "the call never returns: "+strings.Join(e.Blocked, "; "))
			return "hang", fails
		}
		outcome = "returned-but-goroutines-leaked"
	}
	if s.failAt > 0 && obs.failed {
		if obs.ret == nil {
			add("reports-success", "callback failed but the call returned nil")
		}
		if e.DeclinedStop == 0 && obs.callsAfter > s.slack() {
			add("not-prompt", fmt.Sprintf("%d callbacks began after the first failure returned (allowed %d)", obs.callsAfter, s.slack()))
		}
		if e.DeclinedStop > 0 {
			outcome += ":unfair-select"
		}
		outcome += fmt.Sprintf(":err after=%d", obs.callsAfter)
	} else {
		if obs.ret != nil {
			add("spurious-error", fmt.Sprintf("no callback failed but the call returned %v", obs.ret))
		}
		if obs.calls != s.expectedCalls() {
			add("missed-items", fmt.Sprintf("no failure: %d callbacks, expected %d", obs.calls, s.expectedCalls()))
		}
		outcome += ":complete"
	}
	if obs.lateCalls > 0 {
		add("callback-after-return", fmt.Sprintf("%d callbacks began after the call returned", obs.lateCalls))
	}
	return outcome, fails
}

func (s scenario) expectedCalls() int { return s.items }

func scenarios(tier string) []scenario {
	var out []scenario
	mechs := []string{"Uint64Map.EachItem", "Uint64Map.EachItem[2 buckets]", "Uint64Map.EachItem[1 bucket]", "MemoryFeatureSource.Read", "BasicMutableWorld.EachFeature", "MutableOverlayWorld.EachFeature", "EachModifiedTag", "ReadPBFWithOptions"}
	maxItems, maxG := 3, 2
	if tier == "thorough" {
		maxItems, maxG = 4, 3
	}
	for _, m := range mechs {
		for items := 1; items <= maxItems; items++ {
			for g := 1; g <= maxG; g++ {
				for failAt := 0; failAt <= items; failAt++ {
					for _, always := range []bool{false, true} {
						if failAt == 0 && always {
							continue
						}
						out = append(out, scenario{m, items, g, failAt, always})
					}
				}
			}
		}
	}
	return out
}

func main() {
	if n, ok := racekit.BodyMode(); ok {
		// race pass: the same bodies free-running (no controlled execution is
		// active, so the shims are the real primitives), un-rewritten tree, -race
		runtime.GOMAXPROCS(16)
		for it := 0; it < n; it++ {
			for _, s := range scenarios("thorough") {
				s.body()()
			}
		}
		fmt.Println("race pass done")
		return
	}
	kit.Main(&kit.Check{
		ID: "C28", Level: "model_checking", SlowIsNotHang: true,
		Rule:          "scenario = (mechanism, items, goroutines, failing callback position, fail-once|fail-always); per scenario every interleaving at the synchronisation points of the rewritten real code plus a yield inside the callback, iterative preemption bounds with happens-before caching. Non-trivial = execution with at least one scheduling choice; distinct = happens-before keys at choice points.",
		Assumptions:   []string{"code between two synchronisation operations runs atomically (data-race freedom is checked separately)", "sync/atomic operations are not scheduling points", "map iteration uses one fixed (sorted) order"},
		QuickDeadline: 200e9, ThoroughDeadline: 1500e9, CaseTimeout: 300e9, Chunk: 1, WorkerEnv: []string{"GOMAXPROCS=1"},
		Build: func(tier string) (kit.Space, string) {
			sc := scenarios(tier)
			bound := 2
			maxExec := int64(20000)
			if tier == "thorough" {
				bound = 3
				maxExec = 400000
			}
			return kit.FuncSpace{N: int64(len(sc)) + 1, F: func(i int64) kit.Result {
				var r kit.Result
				if i == int64(len(sc)) {
					// auxiliary: the same bodies free-running under the race detector
					iters := "10"
					if tier == "thorough" {
						iters = "300"
					}
					racekit.Pass(&r, "c28", "./checks/c28", "", nil, []string{"VERIF_RACE_BODY=" + iters})
					return r
				}
				s := sc[i]
				res := sched.Explore(s.body(), s.check, sched.Options{MaxPreemptions: bound, MaxExecutions: maxExec})
				r.Evals = res.Executions
				r.States = res.States
				r.Transitions = res.Transitions
				r.Distinct = res.States
				r.Nontrivial = res.MaxPoints > 0
				r.Capped = res.Capped || !res.Unbounded && res.BoundCompleted < bound
				for o, n := range res.Outcomes {
					if r.Outcomes == nil {
						r.Outcomes = map[string]int64{}
					}
					r.Outcomes[o] += n
				}
				r.Count("executions_pruned_by_hb_cache", res.Pruned)
				if res.Unbounded {
					r.Count("scenarios_explored_without_bound", 1)
				} else {
					r.Count(fmt.Sprintf("scenarios_completed_to_bound_%d", res.BoundCompleted), 1)
				}
				for _, f := range res.Failures {
					// confirm determinism: the failing schedule must fail identically twice
					e1 := sched.Replay(s.body(), f.Choices, 0)
					_, f1 := s.check(e1)
					e2 := sched.Replay(s.body(), f.Choices, 0)
					_, f2 := s.check(e2)
					if fmt.Sprint(f1) != fmt.Sprint(f2) || len(f1) == 0 {
						r.Violate("harness:nondeterministic-replay", "%s: schedule %v gave %v then %v", f.Class, f.Choices, f1, f2)
						continue
					}
					tr := e1.Trace
					if len(tr) > 25 {
						tr = tr[len(tr)-25:]
					}
					r.Violate(f.Class, "%s\nschedule (choices): %v\ntrace tail:\n  %s", f.Msg, f.Choices, strings.Join(tr, "\n  "))
				}
				if i%7 == 0 {
					r.Sample = map[string]interface{}{"scenario": s.String(), "executions": res.Executions, "states": res.States, "unbounded": res.Unbounded, "outcomes": res.Outcomes}
				}
				return r
			}}, fmt.Sprintf("%d scenarios; preemption bound %d (unbounded where no alternative was cut); execution cap %d per scenario", len(sc), bound, maxExec)
		},
	})
}
