// C29 — OSM data maps to features by fixed rules.
//
// Engine E1: the full product of the osmkit menu (nodes with/without tags or
// missing; open, closed, clockwise, degenerate ways and ways with a missing
// node; multipolygon relations with outer/inner/empty roles, node members and
// missing members; plain relations whose members are nodes, open ways, closed
// ways, multipolygon relations, plain relations and missing elements, with
// roles; tag keys inside and outside the searchable-key table) x OSM ID
// schemes. Each input is ingested with ingest.BuildWorldFromOSM and the world's
// canonical dump is compared with the dump of a reference world over the
// features demanded by an independent coding of the rules (osmkit.Expect).
//
// A second part of the space (mpseq.go) enumerates the member sequences of a
// multipolygon relation over three closed ways: way members with the ring roles
// and non-way members (node, relation) with every role of the role menu, at
// every position of the sequence. The same oracle applies: the polygons follow
// the way members; members that are not ways have no influence on them.
//
// A third part (relref.go) enumerates small relation graphs whose plain
// relations have relation-typed members pointing at multipolygon, plain and
// absent relations with lower and higher IDs, in both source orders, through
// the in-memory and the PBF source, observed in the world and on the first
// Read of a fresh feature source.
//
// A fourth part (reskeys.go) gives nodes, open ways, closed ways, multipolygon
// and plain relations OSM tags whose keys are the keys b6 reserves for itself
// (point, path, expression, b6:colour).
package main

import (
	"fmt"
	"sort"
	"strings"

	"diagonal.works/b6"
	"verif/kit"
	ok "verif/osmkit"
	wk "verif/worldkit"
)

// Tag queries: every searchable key used by the menu (mapped form), some
// values, the unmapped spellings (which must find nothing) and combinations.
func queries() []wk.RQ {
	atoms := []wk.RQ{
		{Op: "all"},
		{Op: "keyed", Key: "#building"}, {Op: "tagged", Key: "#building", Val: "yes"},
		{Op: "keyed", Key: "#highway"}, {Op: "tagged", Key: "#highway", Val: "path"}, {Op: "tagged", Key: "#highway", Val: "crossing"},
		{Op: "keyed", Key: "#amenity"}, {Op: "keyed", Key: "#natural"}, {Op: "keyed", Key: "#landuse"}, {Op: "keyed", Key: "#leisure"},
		{Op: "keyed", Key: "#route"}, {Op: "tagged", Key: "#network", Val: "x"},
		{Op: "keyed", Key: "@wikidata"}, {Op: "keyed", Key: "@fhrs:id"},
		// unmapped spellings of mapped keys: no feature carries them
		{Op: "keyed", Key: "building"}, {Op: "keyed", Key: "highway"}, {Op: "keyed", Key: "wikidata"}, {Op: "keyed", Key: "#wikidata"}, {Op: "keyed", Key: "fhrs:id"},
		// keys outside the table are not rewritten to a searchable form
		{Op: "keyed", Key: "#name"}, {Op: "keyed", Key: "#type"}, {Op: "keyed", Key: "@note"},
	}
	qs := append([]wk.RQ{}, atoms...)
	for _, t := range []b6.FeatureType{b6.FeatureTypePoint, b6.FeatureTypePath, b6.FeatureTypeArea, b6.FeatureTypeRelation} {
		qs = append(qs, wk.RQ{Op: "typed", Type: t, Sub: []wk.RQ{{Op: "all"}}})
		qs = append(qs, wk.RQ{Op: "typed", Type: t, Sub: []wk.RQ{{Op: "keyed", Key: "#building"}}})
	}
	return qs
}

func main() {
	slots := ok.Menu()
	qs := queries()
	nq := wk.NamedQueries(qs)
	kit.Main(&kit.Check{
		ID: "C29", Level: "exploration",
		Rule: "every choice of one variant per slot of osmkit.Menu (n2 plain/searchable tag/missing/plain tag; n1, n8 tagged or not; way A closed ccw/cw, open, degenerate, absent; way B joining, inner ring ccw/cw, missing node, open; way C; multipolygon relation M with outer/inner/empty roles, node and missing members; plain relations P and Q over nodes, open ways, closed ways, M, P and missing elements) x ID scheme (way and relation numbers overlapping / disjoint / > 2^32). Non-trivial = at least one way or relation; distinct by the literal input. Oracle: osmkit.Expect (independent coding of the statement's rules and of the documented searchable-key table) -> worldkit reference dump: existence, tags with kinds, E7 points, path references in order, polygons as vertex loops with their path IDs, relation members and roles, referrers, relations/areas by feature, tag searches, EachFeature. Second part, multipolygon member sequences: over a fixed input (nodes n1..n11, closed counter-clockwise ways A=1 square, B=2 triangle inside A, C=3 triangle beside A, plain relation 2) the members of multipolygon relation 1 are every sequence over the member alphabet {way 1,2,3} x role {outer, \"\", inner} (each way at most once) + {node n1, relation 2 [thorough: also an absent node and an absent relation]} x role {\"\", outer, inner, label} (repetition allowed) within the stated numbers of way and non-way members, so non-way members of both types and all four roles occur at every position (before the first ring, between an outer ring and its inner rings, between polygons, after the last ring, adjacent to each other); under the overlap ID scheme node 1 / relation 2 carry the numbers of ways A / B. Ordered by sequence length, then number of non-way members. Non-trivial = the rules define the area (all way members closed and present, first ring not inner); distinct by the literal input. Oracle for the area: a way member with role outer or no role opens a polygon, an inner way member adds a loop to the polygon of the preceding outer, members that are not ways have no influence on the polygons whatever their role and position (osmkit.Expect skips them before looking at the role); all other observations as in the first part. Third part, relation-typed members: over the same nodes and closed ways, each relation number 1..3 is absent / a multipolygon over the closed way of its number / a plain relation with an ordered sequence of distinct relation-typed members from {the two other numbers, absent relation 88} (roles sub, \"\", outer by position), all acyclic combinations, so plain relations reference multipolygon, plain and absent relations with lower and with higher IDs; the present relations are supplied in ascending and descending [thorough: every] source order, so every reference occurs with its target read earlier and later; each input goes through ingest.MemoryOSMSource and through PBF bytes (osm.NewWriter, read back with osm.ReadPBFWithOptions), Cores/Goroutines = 1. Ordered by number of relations, then members. Non-trivial = some plain relation has a relation-typed member; distinct by source kind + literal input. Oracle: a relation-typed member points at the AREA of the referenced relation iff that relation is in the input and is a multipolygon, otherwise at a relation with that number, whatever the IDs and the source order (osmkit.Expect looks the target up in the whole input); observed (a) in the world (built by the single first Read of a fresh NewFeatureSourceFromPBF source) as in the first part and (b) directly on the RelationFeatures emitted by the FIRST Read of another fresh source: each non-multipolygon relation emitted exactly once with exactly the demanded member IDs and roles, no relation feature for a multipolygon. Fourth part, OSM tags keyed like the tags b6 reserves (b6.PointTag point, b6.PathTag path, b6.ExpressionTag expression, b6.ColourTag b6:colour): over nodes n1..n11, open way 1 = n1 n2 n3, closed way 3, multipolygon relation 1 [way 3 outer] and plain relation 2 [n8, way 1, way 3, relation 1] (overlap IDs), each of the five elements node n1 / open way / closed way / multipolygon / plain relation carries either its ordinary tag list [a searchable key, a key outside the table] or a tag with one of the four reserved keys and a string value (yes [thorough: also a lat,lng-looking string]) alone, first or last [thorough: also in the middle] in that list; every assignment with at most 2 [thorough: any number] of elements carrying a reserved key; inputs with <= 1 such element also through PBF bytes. Ordered by number of elements carrying a reserved key. Non-trivial = some element carries one; distinct by source kind + literal input. Oracle: the rules of the first part unchanged (node -> point at its location, way -> path over its nodes in order, closed way -> area with the way's tags and a tagless path, multipolygon -> area, other relation -> relation over what its members became, tags kept with the documented key mapping) whatever the tags are keyed; violations are named by the element whose feature is wrong and the reserved key that element carries.",
		Assumptions: []string{
			"features the build is documented to delete as invalid (BuildOptions.FailInvalidFeatures=false: paths with a missing node or < 2 points, invalid loops, areas over them) are expected absent; clockwise closed ways are expected inverted (BuildOptions.FailClockwisePaths=false); both coded independently in worldkit.ValidSubset",
			"a multipolygon relation whose way members are not all present closed ways (or that starts with an inner ring) is outside the rules: nothing is demanded of its area and differences naming that area are ignored",
			"relation membership is acyclic in the menu (cycles belong to C15)",
			"polygon loops compared up to rotation at E7 precision; tag order within a feature is not compared",
			"the statement does not settle what becomes of an OSM tag keyed point or path on an element that becomes a point or a path (features that keep their geometry under those keys of their tag list): that tag's presence, the Get/AllTags disagreement a doubled key causes, and (when it is the feature's only tag) the feature's presence in search results are not judged; the feature's geometry, references and every other tag are",
		},
		QuickDeadline: 300e9, ThoroughDeadline: 40 * 60e9, Chunk: 64,
		WorkerEnv: []string{"GOGC=800", "GOMAXPROCS=2"},
		Build: func(tier string) (kit.Space, string) {
			blocks := ok.Blocks(slots, tier)
			menuN := ok.Total(blocks)
			mp := newMPSpace(tier)
			rr := newRRSpace(tier)
			rk := newRKSpace(tier)
			return kit.FuncSpace{N: menuN + mp.Len() + rr.Len() + rk.Len(), F: func(i int64) kit.Result {
				if i >= menuN+mp.Len()+rr.Len() {
					// OSM tags keyed like b6's reserved tags (reskeys.go)
					j := i - menuN - mp.Len() - rr.Len()
					c := rk.cases[j]
					ev := evaluation{in: c.Input(), ids: ok.Schemes[0].Name, desc: c.Describe(), sample: j%499 == 0, viaPBF: c.pbf, rk: &c}
					return ev.run(qs, nq)
				}
				if i >= menuN+mp.Len() {
					// relation-typed members of plain relations (relref.go)
					j := i - menuN - mp.Len()
					c := rr.cases[j]
					sch := rr.Scheme(c)
					ev := evaluation{in: c.Input(sch), ids: sch.Name, desc: c.Describe(), sample: j%499 == 0, viaPBF: c.pbf, rr: &c}
					return ev.run(qs, nq)
				}
				if i >= menuN {
					// multipolygon member sequences (mpseq.go)
					c := mp.Case(i - menuN)
					ev := evaluation{in: c.Input(), ids: c.Scheme.Name, desc: c.Describe(), sample: (i-menuN)%1009 == 0, mp: &c}
					return ev.run(qs, nq)
				}
				blk, choice := ok.Locate(blocks, i)
				sch := blk.Scheme
				ev := evaluation{in: ok.Expand(slots, choice, sch), ids: sch.Name, desc: ok.ChoiceNames(slots, choice), sample: i%1009 == 0, viaPBF: blk.ViaPBF}
				return ev.run(qs, nq)
			}}, fmt.Sprintf("(1) menu inputs of <= 11 nodes, <= 3 ways, <= 3 relations (slots n2, n1+n8, wayA, wayB, wayC, relM, relP, relQ): %s; (2) multipolygon member sequences (nodes n1..n11, closed ways A=1, B=2 inside A, C=3 beside A, multipolygon relation 1, plain relation 2): every sequence, in every interleaving, of distinct way members {1,2,3} x role {outer,\"\",inner} and non-way members {node, relation} x role {\"\",outer,inner,label} (repetition allowed): %s; (3) relation graphs over relation numbers 1..3 (same nodes and closed ways; each number absent / multipolygon over the way of its number / plain with an ordered sequence of distinct relation-typed members from {the two other numbers, absent relation 88}, references among plain relations acyclic), every distinct source order of the present relations within the stated orders, each through ingest.MemoryOSMSource and through PBF bytes (osm.NewWriter -> osm.ReadPBFWithOptions): %s; (4) OSM tags keyed like b6's reserved tags, over node n1, open way 1 (n1 n2 n3), closed way 3, multipolygon relation 1 [way 3 outer], plain relation 2 [n8, way 1, way 3, relation 1] (overlap IDs): each element carries either its ordinary tags [mapped, unmapped] or a tag with a reserved key and a string value, alone / first / last [/ middle] in its tag list: %s; %d tag queries each", ok.BlocksString(blocks), mp.String(), rr.String(), rk.String(), len(qs))
		},
	})
}

// evaluation is one input checked against the rules.
type evaluation struct {
	in     ok.Input
	ids    string // ID scheme name
	desc   string // how the input was chosen
	sample bool
	viaPBF bool
	mp     *mpCase // non-nil: a multipolygon member-sequence case
	rr     *rrCase // non-nil: a relation-graph case
	rk     *rkCase // non-nil: a reserved-key tags case
}

func (ev *evaluation) run(qs []wk.RQ, nq []wk.NamedQuery) kit.Result {
	var r kit.Result
	in := ev.in
	var pbf []byte
	if ev.viaPBF {
		// the rules are applied to what the file says (the writer quantises coordinates)
		var err error
		if pbf, err = ok.PBF(in); err == nil {
			in, err = ok.ReadBack(pbf)
		}
		if err != nil {
			r.Violate("harness:pbf", "%v", err)
			return r
		}
	}
	r.Nontrivial = len(in.Ways)+len(in.Relations) > 0
	r.Key = in.String()
	if ev.sample {
		r.Sample = map[string]string{"ids": ev.ids, "input": in.String()}
	}
	e := ok.Expect(in)
	var w b6.World
	var err error
	if ev.viaPBF {
		w, err = ok.BasicFromPBF(pbf, 1)
	} else {
		w, err = ok.Basic(in, 1)
	}
	if err != nil {
		r.Violate("build-error", "ids %s %s\ninput: %s\n%v", ev.ids, ev.desc, in, err)
		r.Outcome = "build-error"
		return r
	}
	var unjudged map[b6.FeatureID][]wk.TagSpec
	var bare map[string]bool
	if ev.rk != nil {
		unjudged, bare = rkUnjudged(&e)
	}
	got := wk.DumpWorld(w, &wk.DumpOptions{IDs: e.Universe, Queries: nq, Skip: []string{"trav:", "colls:"}})
	if ev.rk != nil {
		rkNormalise(got, unjudged, bare)
	}
	want := wk.NewRef(e.Valid).ExpectedDump(e.Universe, qs, true, true)
	if ev.rk != nil {
		rkNormalise(want, unjudged, bare)
	}
	diffs := wk.Diff(got, want, false)
	// Nothing is demanded of an unconstrained multipolygon area. When the
	// world does not have it the expected world (without it) is exact;
	// when it does, every observation naming it is ignored.
	var present []b6.FeatureID
	for _, id := range e.Unconstrained {
		if got["has:"+id.String()] != "false" {
			present = append(present, id)
		}
	}
	diffs = ignoreUnconstrained(diffs, present)
	r.Outcome = fmt.Sprintf("ok:%d-features,%d-dropped,%d-unconstrained", bucket(len(e.Valid)), len(e.Dropped), len(e.Unconstrained))
	r.Count("features", int64(len(e.Valid)))
	r.Count("relations-with-area-members", int64(areaMembers(e.Valid)))
	if c := ev.mp; c != nil {
		// the sequence is non-trivial when the rules say what its area is
		r.Nontrivial = len(e.Unconstrained) == 0
		r.Outcome = "mp-ok:" + mpShape(e, c)
		r.Count("mp-sequences", 1)
		if c.NonWays > 0 {
			r.Count("mp-sequences-with-non-way-members", 1)
			if r.Nontrivial {
				r.Count("mp-constrained-sequences-with-non-way-members", 1)
			}
		}
		if c.Between > 0 && r.Nontrivial {
			r.Count("mp-constrained-sequences-with-a-non-way-member-between-a-polygon's-rings", 1)
		}
	}
	if c := ev.rk; c != nil {
		kind := "memory"
		if ev.viaPBF {
			kind = "pbf"
		}
		r.Key = kind + " " + r.Key
		r.Nontrivial = c.carried > 0
		r.Outcome = fmt.Sprintf("reserved-keys-ok:%d-elements-carry-one,%d-dropped", c.carried, len(e.Dropped))
		r.Count("reserved-key-inputs["+kind+"]", 1)
		for i, el := range rkElements {
			if k := c.choices[i].Key; k != "" {
				r.Count("reserved-key-inputs-with:"+el+":"+k, 1)
			}
		}
		r.Count("reserved-key-inputs-unjudged-tags", int64(len(unjudged)))
	}
	if c := ev.rr; c != nil {
		kind := "memory"
		if ev.viaPBF {
			kind = "pbf"
		}
		r.Key = kind + " " + r.Key
		refs := c.refClasses()
		r.Nontrivial = len(refs) > 0
		r.Outcome = fmt.Sprintf("relrefs-ok:%d-relations,%d-kinds-of-reference", len(c.order), len(refs))
		r.Count("relref-graphs["+kind+"]", 1)
		for _, cl := range refs {
			r.Count("relref-graphs-with-reference-to:"+cl, 1)
		}
		var raw []byte
		if ev.viaPBF {
			raw = pbf
		}
		checkFirstRead(&r, *c, in, raw, e, kind, "ids "+ev.ids+" "+ev.desc)
		if len(r.Violations) > 0 {
			r.Outcome = "diff"
		}
	}
	if len(diffs) > 0 {
		cls := map[string]bool{}
		for _, d := range diffs {
			cls[classify(d, got, want)] = true
		}
		var names []string
		for c := range cls {
			names = append(names, c)
		}
		sort.Strings(names)
		// report the root-cause classes only: member-kind errors explain
		// the derived referrer / relation-by-feature differences.
		if hasPrefix(names, "member-kind:") {
			names = keepPrefix(names, "member-kind:")
		}
		if ev.mp != nil {
			// likewise a wrong multipolygon area explains the differences in
			// references, areas-by-feature, searches and iteration that follow.
			var root []string
			for _, n := range names {
				switch n {
				case "mapping:geometry-or-members:area", "mapping:feature-missing:area", "mapping:feature-unexpected:area", "mapping:tags:area":
					root = append(root, n)
				}
			}
			if len(root) > 0 {
				names = root
			}
		}
		if ev.rk != nil {
			// a wrong feature of one of the varied elements is the root cause; name
			// it by that element's own tag choice and leave the differences that
			// follow from it (references, searches, iteration) out of the classes
			seen := map[string]bool{}
			var root []string
			for _, d := range diffs {
				if rc := ev.rk.rkRootClass(d); rc != "" {
					if n := rc + ":" + classify(d, got, want); !seen[n] {
						seen[n] = true
						root = append(root, n)
					}
				}
			}
			sort.Strings(root)
			if len(root) > 0 {
				names = root
			} else {
				for i, n := range names {
					names[i] = "reserved-key-tags(" + ev.rk.InputClass() + "):" + n
				}
			}
		}
		for _, c := range names {
			if ev.mp != nil {
				// name the member-sequence class the failing input belongs to
				c = "multipolygon-members:" + ev.mp.InputClass() + ":" + c
			}
			if ev.rr != nil {
				kind := "memory"
				if ev.viaPBF {
					kind = "pbf"
				}
				c = "relation-graph[" + kind + "]:world:" + c
			}
			r.Violate(c, "ids %s %s\ninput: %s\nexpected features: %s\ndropped: %v\n(A = world, B = rules)\n%s", ev.ids, ev.desc, in, e.Valid, e.Dropped, strings.Join(diffs, "\n"))
		}
		r.Outcome = "diff"
	}
	return r
}

// mpShape: what the rules demand of the multipolygon of a member-sequence
// case, e.g. "2+1-loops" = two polygons of 2 loops and 1 loop.
func mpShape(e ok.Expectation, c *mpCase) string {
	if len(e.Unconstrained) > 0 {
		return "unconstrained"
	}
	id := ok.RelAreaID(c.Scheme.R(1))
	for _, f := range e.AsGiven {
		if f.ID == id {
			if len(f.Polys) == 0 {
				return "no-polygons"
			}
			parts := make([]string, len(f.Polys))
			for i, p := range f.Polys {
				parts[i] = fmt.Sprint(len(p.Paths))
			}
			return strings.Join(parts, "+") + "-loops"
		}
	}
	return "absent"
}

func bucket(n int) int { return n / 4 * 4 }

func areaMembers(s wk.Spec) int {
	n := 0
	for _, f := range s {
		if f.Kind == wk.KRelation {
			for _, m := range f.Members {
				if m.ID.Type == b6.FeatureTypeArea {
					n++
					break
				}
			}
		}
	}
	return n
}

func hasPrefix(names []string, p string) bool { return len(keepPrefix(names, p)) > 0 }

func keepPrefix(names []string, p string) []string {
	var out []string
	for _, n := range names {
		if strings.HasPrefix(n, p) {
			out = append(out, n)
		}
	}
	return out
}

func ignoreUnconstrained(diffs []string, ids []b6.FeatureID) []string {
	if len(ids) == 0 {
		return diffs
	}
	var out []string
next:
	for _, d := range diffs {
		for _, id := range ids {
			if mentions(d, id.String()) {
				continue next
			}
		}
		out = append(out, d)
	}
	return out
}

// mentions: s occurs in d followed by a non-digit (or the end), so that
// relation/1 does not match relation/12.
func mentions(d, s string) bool {
	for off := 0; ; {
		j := strings.Index(d[off:], s)
		if j < 0 {
			return false
		}
		end := off + j + len(s)
		if end == len(d) || d[end] < '0' || d[end] > '9' {
			return true
		}
		off = end
	}
}

// classify names the failing observation. For relation features whose member
// list differs it names the element kind the wrong member came from and the
// feature type it was given, e.g.
// "member-kind:multipolygon-relation-member-became-relation".
func classify(d string, got, want wk.Dump) string {
	sec := wk.SectionClass(d)
	rest := d[len(sec):]
	typ := ""
	for _, t := range []string{"point", "path", "area", "relation"} {
		if strings.HasPrefix(rest, ":"+t+"/") {
			typ = t
		}
	}
	if strings.Contains(d, "PANIC(") {
		i := strings.Index(d, "PANIC(")
		j := strings.IndexByte(d[i:], ':')
		return "mapping:" + sec + ":" + typ + ":" + d[i+6:i+j]
	}
	if sec == "feat" && typ == "relation" {
		key := strings.SplitN(d, ":\n", 2)[0]
		if c := memberKind(got[key], want[key]); c != "" {
			return "member-kind:" + c
		}
	}
	if sec == "feat" {
		key := strings.SplitN(d, ":\n", 2)[0]
		g, w := got[key], want[key]
		switch {
		case g == "nil":
			return "mapping:feature-missing:" + typ
		case w == "nil":
			return "mapping:feature-unexpected:" + typ
		case tagsOf(g) != tagsOf(w):
			return "mapping:tags:" + typ
		}
		return "mapping:geometry-or-members:" + typ
	}
	if strings.HasPrefix(sec, "find") {
		return "mapping:search"
	}
	return "mapping:" + sec + ":" + typ
}

func tagsOf(s string) string {
	i := strings.Index(s, "tags=[")
	if i < 0 {
		return ""
	}
	j := strings.Index(s[i:], "]")
	return s[i : i+j]
}

func members(s string) []string {
	i := strings.Index(s, " rel[")
	if i < 0 {
		return nil
	}
	var out []string
	for _, p := range strings.Split(s[i:], " (")[1:] {
		out = append(out, strings.SplitN(p, ",", 2)[0])
	}
	return out
}

func memberKind(got, want string) string {
	g, w := members(got), members(want)
	if len(g) != len(w) {
		return ""
	}
	for i := range g {
		if g[i] == w[i] {
			continue
		}
		gt, wt := strings.SplitN(g[i], "/", 2)[0], strings.SplitN(w[i], "/", 2)[0]
		if strings.SplitN(g[i], "/", 2)[1] != strings.SplitN(w[i], "/", 2)[1] {
			return "member-points-at-a-different-element"
		}
		src := map[string]string{"area/openstreetmap.org/way": "closed-way", "path/openstreetmap.org/way": "open-way", "area/openstreetmap.org/relation": "multipolygon-relation", "relation/openstreetmap.org/relation": "plain-relation"}
		wi := w[i][:strings.LastIndex(w[i], "/")]
		return src[wi] + "-member-became-" + gt + "-not-" + wt
	}
	return ""
}
