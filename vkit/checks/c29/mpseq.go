package main

// Member sequences of multipolygon relations.
//
// The statement says a multipolygon relation becomes "an area whose polygons
// follow its outer/inner members": the polygons are a function of the way
// members (which are outer rings, which are inner rings, in what order) and of
// nothing else. Members that are not ways (label / admin_centre nodes,
// sub-relations) cannot be rings, whatever their role says, so they have no
// influence on the polygons: the area of a member sequence is the area of the
// same sequence with its non-way members deleted. osmkit.Expect codes exactly
// that (it skips members whose type is not way before looking at the role).
//
// This file enumerates the member sequences themselves, so that non-way
// members of both types occur with every role of the role menu at every
// position of the sequence (before the first way, between an outer ring and
// its inner rings, between polygons, after the last way, next to each other).

import (
	"fmt"
	"sort"
	"strings"

	"diagonal.works/b6/osm"
	ok "verif/osmkit"
)

// Way members: the three closed ways of every input, each at most once per
// sequence, with each ring role.
//
//	way 1 = A, the square n1 n2 n3 n4 (counter-clockwise, tagged)
//	way 2 = B, the triangle n5 n6 n7 strictly inside A (untagged)
//	way 3 = C, the triangle n9 n10 n11 east of A (tagged)
var mpWays = []int{1, 2, 3}
var mpWayRoles = []string{"outer", "", "inner"}

// Roles of non-way members: the two spellings that open a polygon when carried
// by a way, the role that adds a ring when carried by a way, and a role that
// means nothing for rings.
var mpNonWayRoles = []string{"", "outer", "inner", "label"}

// Non-way member targets. Under the "overlap" ID scheme node 1 has the number
// of way A and relation 2 the number of way B, so a member whose type is
// ignored would be taken for a ring; under "disjoint" the numbers name no way.
type mpTarget struct {
	T byte // 'n' or 'r'
	I int
}

var mpTargetsQuick = []mpTarget{{'n', 1}, {'r', 2}}
var mpTargetsThorough = []mpTarget{{'n', 1}, {'r', 2}, {'n', ok.MissingNode}, {'r', ok.MissingRel}}

// mpAlphabet is the symbol table of one part of the space: symbols
// 0..len(ways)*3-1 are way members, the rest non-way members.
type mpAlphabet struct {
	syms  []ok.M
	nWay  int // number of way symbols
	wayOf []int
}

func newMPAlphabet(targets []mpTarget) *mpAlphabet {
	a := &mpAlphabet{}
	for wi, w := range mpWays {
		for _, role := range mpWayRoles {
			a.syms = append(a.syms, ok.M{T: 'w', I: w, Role: role})
			a.wayOf = append(a.wayOf, wi)
		}
	}
	a.nWay = len(a.syms)
	for _, t := range targets {
		for _, role := range mpNonWayRoles {
			a.syms = append(a.syms, ok.M{T: t.T, I: t.I, Role: role})
		}
	}
	if len(a.syms) > 31 {
		panic("mpseq: alphabet does not fit 5 bits per symbol")
	}
	return a
}

// mpPart is one exhaustively enumerated set of sequences: every sequence over
// the alphabet with waysMin..waysMax way members (distinct ways) and
// nonMin..nonMax non-way members (repetition allowed), in every interleaving.
type mpPart struct {
	Scheme           ok.IDs
	Targets          []mpTarget
	WaysMin, WaysMax int
	NonMin, NonMax   int
	n                int64
}

func (p mpPart) String() string {
	ts := make([]string, len(p.Targets))
	for i, t := range p.Targets {
		name := fmt.Sprintf("%c%d", t.T, t.I)
		if (t.T == 'n' && t.I == ok.MissingNode) || (t.T == 'r' && t.I == ok.MissingRel) {
			name += "(absent)"
		}
		ts[i] = name
	}
	return fmt.Sprintf("%s IDs, %d..%d way members x %d..%d non-way members over {%s} = %d", p.Scheme.Name, p.WaysMin, p.WaysMax, p.NonMin, p.NonMax, strings.Join(ts, ","), p.n)
}

// mpSeq is a packed sequence: bits 0..2 the length, then 5 bits per symbol;
// bits 56.. the index of the part it belongs to.
type mpSeq uint64

func (s mpSeq) len() int      { return int(s & 7) }
func (s mpSeq) sym(i int) int { return int(s>>(3+5*uint(i))) & 31 }
func (s mpSeq) part() int     { return int(s >> 56) }

type mpSpace struct {
	parts []mpPart
	alpha []*mpAlphabet
	seqs  []mpSeq
}

func mpParts(tier string) []mpPart {
	if tier == "thorough" {
		return []mpPart{
			{Scheme: ok.Schemes[0], Targets: mpTargetsThorough, WaysMin: 0, WaysMax: 3, NonMin: 0, NonMax: 2},
			{Scheme: ok.Schemes[0], Targets: mpTargetsQuick, WaysMin: 0, WaysMax: 2, NonMin: 3, NonMax: 3},
			{Scheme: ok.Schemes[1], Targets: mpTargetsQuick, WaysMin: 0, WaysMax: 3, NonMin: 0, NonMax: 2},
		}
	}
	return []mpPart{
		{Scheme: ok.Schemes[0], Targets: mpTargetsQuick, WaysMin: 0, WaysMax: 3, NonMin: 0, NonMax: 1},
		{Scheme: ok.Schemes[0], Targets: mpTargetsQuick, WaysMin: 0, WaysMax: 2, NonMin: 2, NonMax: 2},
		{Scheme: ok.Schemes[1], Targets: mpTargetsQuick, WaysMin: 0, WaysMax: 3, NonMin: 0, NonMax: 1},
	}
}

// newMPSpace enumerates every part (depth-first, symbols in table order) and
// orders the union simplest-first: by sequence length, then by number of
// non-way members, then by part, then in enumeration order (the sort is stable
// and the enumeration deterministic).
func newMPSpace(tier string) *mpSpace {
	sp := &mpSpace{parts: mpParts(tier)}
	for pi := range sp.parts {
		p := &sp.parts[pi]
		a := newMPAlphabet(p.Targets)
		sp.alpha = append(sp.alpha, a)
		maxLen := p.WaysMax + p.NonMax
		if maxLen > 7 {
			panic("mpseq: sequence too long for the packing")
		}
		var rec func(cur mpSeq, n int, used uint, ways, non int)
		rec = func(cur mpSeq, n int, used uint, ways, non int) {
			if ways >= p.WaysMin && non >= p.NonMin {
				sp.seqs = append(sp.seqs, cur&^7|mpSeq(n)|mpSeq(pi)<<56)
				p.n++
			}
			for s := range a.syms {
				if s < a.nWay {
					if ways == p.WaysMax || used&(1<<uint(a.wayOf[s])) != 0 {
						continue
					}
					rec(cur|mpSeq(s)<<(3+5*uint(n)), n+1, used|1<<uint(a.wayOf[s]), ways+1, non)
				} else {
					if non == p.NonMax {
						continue
					}
					rec(cur|mpSeq(s)<<(3+5*uint(n)), n+1, used, ways, non+1)
				}
			}
		}
		rec(0, 0, 0, 0, 0)
	}
	nonWay := func(s mpSeq) int {
		a, k := sp.alpha[s.part()], 0
		for i := 0; i < s.len(); i++ {
			if s.sym(i) >= a.nWay {
				k++
			}
		}
		return k
	}
	sort.SliceStable(sp.seqs, func(i, j int) bool {
		x, y := sp.seqs[i], sp.seqs[j]
		if x.len() != y.len() {
			return x.len() < y.len()
		}
		if kx, ky := nonWay(x), nonWay(y); kx != ky {
			return kx < ky
		}
		return x.part() < y.part()
	})
	return sp
}

func (sp *mpSpace) Len() int64 { return int64(len(sp.seqs)) }

func (sp *mpSpace) String() string {
	ps := make([]string, len(sp.parts))
	for i, p := range sp.parts {
		ps[i] = p.String()
	}
	return strings.Join(ps, "; ")
}

// mpCase is one decoded sequence.
type mpCase struct {
	Scheme  ok.IDs
	Members []ok.M
	Ways    int
	NonWays int
	// Between: non-way members placed after a ring of a polygon and before a
	// later inner ring of the same polygon (by the statement's reading of the
	// way members alone).
	Between int
	// NonWayTokens: the distinct "<type>:<role>" of the non-way members.
	NonWayTokens []string
}

func (sp *mpSpace) Case(i int64) mpCase {
	s := sp.seqs[i]
	a := sp.alpha[s.part()]
	c := mpCase{Scheme: sp.parts[s.part()].Scheme}
	seen := map[string]bool{}
	for j := 0; j < s.len(); j++ {
		m := a.syms[s.sym(j)]
		c.Members = append(c.Members, m)
		if m.T == 'w' {
			c.Ways++
			continue
		}
		c.NonWays++
		kind := map[byte]string{'n': "node", 'r': "relation"}[m.T]
		if t := kind + ":" + fmt.Sprintf("%q", m.Role); !seen[t] {
			seen[t] = true
			c.NonWayTokens = append(c.NonWayTokens, t)
		}
	}
	sort.Strings(c.NonWayTokens)
	// a non-way member is "between" when some way precedes it and the next way
	// member after it is an inner ring
	for j, m := range c.Members {
		if m.T == 'w' {
			continue
		}
		before := false
		for _, b := range c.Members[:j] {
			before = before || b.T == 'w'
		}
		for _, n := range c.Members[j+1:] {
			if n.T == 'w' {
				if before && n.Role == "inner" {
					c.Between++
				}
				break
			}
		}
	}
	return c
}

// Input builds the OSM input of a case: nodes n1..n11 (n1 and n8 tagged), the
// closed ways A, B, C, the multipolygon relation 1 with the member sequence
// and the plain relation 2 (the target of relation members).
func (c mpCase) Input() ok.Input {
	s := c.Scheme
	var in ok.Input
	for i := 1; i <= 11; i++ {
		n := osm.Node{ID: s.N(i), Location: osm.LatLng{Lat: float64(ok.Pos(i).Lat) / 1e7, Lng: float64(ok.Pos(i).Lng) / 1e7}}
		switch i {
		case 1:
			n.Tags = osm.Tags{{Key: "name", Value: "label"}}
		case 8:
			n.Tags = osm.Tags{{Key: "amenity", Value: "cafe"}}
		}
		in.Nodes = append(in.Nodes, n)
	}
	way := func(w int, ns []int, t osm.Tags) {
		ids := make([]osm.NodeID, len(ns))
		for i, n := range ns {
			ids[i] = s.N(n)
		}
		in.Ways = append(in.Ways, osm.Way{ID: s.W(w), Nodes: ids, Tags: t})
	}
	way(1, []int{1, 2, 3, 4, 1}, osm.Tags{{Key: "building", Value: "yes"}, {Key: "name", Value: "hall"}})
	way(2, []int{5, 6, 7, 5}, nil)
	way(3, []int{9, 10, 11, 9}, osm.Tags{{Key: "landuse", Value: "grass"}})
	members := make([]osm.Member, len(c.Members))
	for i, m := range c.Members {
		switch m.T {
		case 'n':
			members[i] = osm.Member{Type: osm.ElementTypeNode, ID: osm.AnyID(s.N(m.I)), Role: m.Role}
		case 'w':
			members[i] = osm.Member{Type: osm.ElementTypeWay, ID: osm.AnyID(s.W(m.I)), Role: m.Role}
		case 'r':
			members[i] = osm.Member{Type: osm.ElementTypeRelation, ID: osm.AnyID(s.R(m.I)), Role: m.Role}
		}
	}
	in.Relations = append(in.Relations,
		osm.Relation{ID: s.R(1), Members: members, Tags: osm.Tags{{Key: "type", Value: "multipolygon"}, {Key: "natural", Value: "wood"}, {Key: "name", Value: "mp"}}},
		osm.Relation{ID: s.R(2), Members: []osm.Member{{Type: osm.ElementTypeNode, ID: osm.AnyID(s.N(8)), Role: "entrance"}}, Tags: osm.Tags{{Key: "type", Value: "site"}}},
	)
	return in
}

// Describe is the literal member sequence, e.g. [w1:"outer" n1:"" w2:"inner"].
func (c mpCase) Describe() string {
	parts := make([]string, len(c.Members))
	for i, m := range c.Members {
		parts[i] = fmt.Sprintf("%c%d:%q", m.T, m.I, m.Role)
	}
	return "multipolygon members (symbolic numbers) [" + strings.Join(parts, " ") + "]"
}

// InputClass classifies the member sequence for violation classes:
// "ways-only" or the distinct non-way member kinds with their roles.
func (c mpCase) InputClass() string {
	if c.NonWays == 0 {
		return "ways-only"
	}
	return "with-nonway-members(" + strings.Join(c.NonWayTokens, "+") + ")"
}
