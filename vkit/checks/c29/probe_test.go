package main

import (
	"fmt"
	"testing"

	ok "verif/osmkit"
	wk "verif/worldkit"
)

func TestProbe(t *testing.T) {
	slots := ok.Menu()
	choice := []int{1, 1, 1, 0, 2, 1, 1, 1, 1}
	in := ok.Expand(slots, choice, ok.Schemes[0])
	fmt.Println(in.String())
	e := ok.Expect(in)
	fmt.Println("VALID:", e.Valid)
	fmt.Println("DROPPED:", e.Dropped, "UNCONSTRAINED:", e.Unconstrained)
	b, err := ok.Basic(in, 1)
	if err != nil {
		t.Fatal(err)
	}
	c, err := ok.Compact(in, 1)
	if err != nil {
		t.Fatal(err)
	}
	opts := &wk.DumpOptions{IDs: e.Universe}
	db := wk.DumpWorld(b, opts)
	dc := wk.DumpWorld(c, &wk.DumpOptions{IDs: e.Universe, NoFeatureRefs: true})
	want := wk.NewRef(e.Valid).ExpectedDump(e.Universe, nil, true, true)
	fmt.Println("---- basic vs expected")
	for _, d := range wk.Diff(db, want, false) {
		fmt.Println(d)
	}
	fmt.Println("---- basic vs compact")
	opts.NoFeatureRefs = true
	db = wk.DumpWorld(b, opts)
	for _, d := range wk.Diff(db, dc, false) {
		fmt.Println(d)
	}
}
