package main

// Relation-typed members of plain relations.
//
// The statement: "every other relation [becomes] a relation whose members
// point at the features those elements became (areas for closed ways and
// multipolygons)". What a relation-typed member points at is a function of
// what the referenced relation IS (a multipolygon -> its area; anything else,
// including a relation absent from the input -> a relation), never of where
// the referenced relation stands relative to the referrer: not of whether its
// ID is lower or higher, not of whether the source yields it earlier or later.
// osmkit.Expect codes exactly that (it looks the target up in the whole input).
//
// This file enumerates small relation graphs over three relation numbers in
// which plain relations reference multipolygon relations, plain relations and
// absent relations with lower and higher IDs, feeds them in every (quick: both
// monotone) source order through both source kinds the harness can drive
// (ingest.MemoryOSMSource and PBF bytes written with osm.NewWriter, read by
// osm.ReadPBFWithOptions), and observes
//   - the world built by the first and only Read of a fresh
//     ingest.NewFeatureSourceFromPBF source (the evaluation shared with the
//     other parts), and
//   - directly, the RelationFeatures emitted by the FIRST Read of another
//     fresh source (pbfSource.Read's member ID selection).

import (
	"bytes"
	"context"
	"fmt"
	"sort"
	"strings"

	"diagonal.works/b6"
	"diagonal.works/b6/ingest"
	"diagonal.works/b6/osm"
	"verif/kit"
	ok "verif/osmkit"
)

// Relation numbers 1..3. Variant of one number:
//
//	absent
//	multipolygon over the closed way with the same number (role outer)
//	plain, with an ordered sequence of distinct relation-typed members drawn
//	from {the two other numbers, the never-present relation 88}
type rrVariant struct {
	Kind    byte  // '-' absent, 'm' multipolygon, 'p' plain
	Targets []int // plain: relation numbers referenced, in member order
}

func (v rrVariant) String() string {
	switch v.Kind {
	case '-':
		return "absent"
	case 'm':
		return "multipolygon"
	}
	return fmt.Sprintf("plain%v", v.Targets)
}

// rrRoles: the role of the member at each position.
var rrRoles = []string{"sub", "", "outer"}

func rrVariants(self, maxMembers int) []rrVariant {
	vs := []rrVariant{{Kind: '-'}, {Kind: 'm'}}
	var pool []int
	for n := 1; n <= 3; n++ {
		if n != self {
			pool = append(pool, n)
		}
	}
	pool = append(pool, ok.MissingRel)
	var rec func(cur []int)
	var seqs [][]int
	rec = func(cur []int) {
		seqs = append(seqs, append([]int{}, cur...))
		if len(cur) == maxMembers {
			return
		}
	next:
		for _, t := range pool {
			for _, c := range cur {
				if c == t {
					continue next
				}
			}
			rec(append(cur, t))
		}
	}
	rec(nil)
	sort.SliceStable(seqs, func(i, j int) bool { return len(seqs[i]) < len(seqs[j]) })
	for _, s := range seqs {
		vs = append(vs, rrVariant{Kind: 'p', Targets: s})
	}
	return vs
}

var rrPerms = [][]int{{0, 1, 2}, {2, 1, 0}, {0, 2, 1}, {1, 0, 2}, {1, 2, 0}, {2, 0, 1}}

type rrPart struct {
	Scheme     ok.IDs
	MaxMembers int
	Orders     int // leading rrPerms used: 2 = ascending and descending, 6 = every order
	n          int64
}

func (p rrPart) String() string {
	orders := "ascending and descending source order"
	if p.Orders == 6 {
		orders = "every source order"
	}
	return fmt.Sprintf("%s IDs, <= %d members per plain relation, %s, x {memory, pbf} = %d", p.Scheme.Name, p.MaxMembers, orders, p.n)
}

type rrCase struct {
	part     int
	variants [3]rrVariant
	order    []int // relation numbers (1..3, present ones only) in source order
	pbf      bool
	weight   int
}

type rrSpace struct {
	parts []rrPart
	cases []rrCase
}

func rrParts(tier string) []rrPart {
	if tier == "thorough" {
		return []rrPart{
			{Scheme: ok.Schemes[0], MaxMembers: 3, Orders: 6},
			{Scheme: ok.Schemes[1], MaxMembers: 2, Orders: 2},
			{Scheme: ok.Schemes[2], MaxMembers: 2, Orders: 2},
		}
	}
	return []rrPart{{Scheme: ok.Schemes[0], MaxMembers: 2, Orders: 2}}
}

// acyclic: the references among present plain relations contain no cycle
// (relation cycles belong to C15).
func rrAcyclic(vs [3]rrVariant) bool {
	state := [4]int{}
	var visit func(n int) bool
	visit = func(n int) bool {
		if n < 1 || n > 3 || vs[n-1].Kind != 'p' {
			return true
		}
		switch state[n] {
		case 1:
			return false
		case 2:
			return true
		}
		state[n] = 1
		for _, t := range vs[n-1].Targets {
			if !visit(t) {
				return false
			}
		}
		state[n] = 2
		return true
	}
	for n := 1; n <= 3; n++ {
		if !visit(n) {
			return false
		}
	}
	return true
}

// newRRSpace: every acyclic choice of one variant per relation number x every
// distinct source order of the present relations among the part's orders x
// source kind; ordered by number of present relations, then number of members,
// then part, then enumeration order.
func newRRSpace(tier string) *rrSpace {
	sp := &rrSpace{parts: rrParts(tier)}
	for pi := range sp.parts {
		p := &sp.parts[pi]
		var vars [3][]rrVariant
		for n := 1; n <= 3; n++ {
			vars[n-1] = rrVariants(n, p.MaxMembers)
		}
		for a := range vars[0] {
			for b := range vars[1] {
				for c := range vars[2] {
					vs := [3]rrVariant{vars[0][a], vars[1][b], vars[2][c]}
					if !rrAcyclic(vs) {
						continue
					}
					weight := 0
					for _, v := range vs {
						if v.Kind != '-' {
							weight += 100 + len(v.Targets)
						}
					}
					seen := map[string]bool{}
					for _, perm := range rrPerms[:p.Orders] {
						var order []int
						for _, k := range perm {
							if vs[k].Kind != '-' {
								order = append(order, k+1)
							}
						}
						key := fmt.Sprint(order)
						if seen[key] {
							continue
						}
						seen[key] = true
						for _, pbf := range []bool{false, true} {
							sp.cases = append(sp.cases, rrCase{part: pi, variants: vs, order: order, pbf: pbf, weight: weight})
							p.n++
						}
					}
				}
			}
		}
	}
	sort.SliceStable(sp.cases, func(i, j int) bool {
		x, y := sp.cases[i], sp.cases[j]
		if x.weight != y.weight {
			return x.weight < y.weight
		}
		return x.part < y.part
	})
	return sp
}

func (sp *rrSpace) Len() int64 { return int64(len(sp.cases)) }

func (sp *rrSpace) String() string {
	ps := make([]string, len(sp.parts))
	for i, p := range sp.parts {
		ps[i] = p.String()
	}
	return strings.Join(ps, "; ")
}

func (sp *rrSpace) Scheme(c rrCase) ok.IDs { return sp.parts[c.part].Scheme }

func (c rrCase) Describe() string {
	kind := "memory"
	if c.pbf {
		kind = "pbf"
	}
	return fmt.Sprintf("relation graph r1=%s r2=%s r3=%s source order %v source kind %s", c.variants[0], c.variants[1], c.variants[2], c.order, kind)
}

// Input: nodes n1..n11, closed ways 1..3 (as in the member-sequence part) and
// the present relations in source order.
func (c rrCase) Input(s ok.IDs) ok.Input {
	in := (mpCase{Scheme: s}).Input()
	in.Relations = nil
	for _, n := range c.order {
		v := c.variants[n-1]
		r := osm.Relation{ID: s.R(n)}
		if v.Kind == 'm' {
			r.Members = []osm.Member{{Type: osm.ElementTypeWay, ID: osm.AnyID(s.W(n)), Role: "outer"}}
			r.Tags = osm.Tags{{Key: "type", Value: "multipolygon"}, {Key: "leisure", Value: "park"}}
		} else {
			for i, t := range v.Targets {
				r.Members = append(r.Members, osm.Member{Type: osm.ElementTypeRelation, ID: osm.AnyID(s.R(t)), Role: rrRoles[i]})
			}
			r.Tags = osm.Tags{{Key: "type", Value: "site"}, {Key: "name", Value: fmt.Sprintf("r%d", n)}}
		}
		in.Relations = append(in.Relations, r)
	}
	return in
}

// refClasses: the kinds of relation-typed reference the case contains, e.g.
// "multipolygon:higher-id:later", for counters.
func (c rrCase) refClasses() []string {
	pos := map[int]int{}
	for i, n := range c.order {
		pos[n] = i
	}
	seen := map[string]bool{}
	var out []string
	for _, n := range c.order {
		v := c.variants[n-1]
		if v.Kind != 'p' {
			continue
		}
		for _, t := range v.Targets {
			var cl string
			switch {
			case t == ok.MissingRel || c.variants[t-1].Kind == '-':
				cl = "absent"
				if t < n {
					cl += ":lower-id"
				} else {
					cl += ":higher-id"
				}
			default:
				cl = map[byte]string{'m': "multipolygon", 'p': "plain"}[c.variants[t-1].Kind]
				if t < n {
					cl += ":lower-id"
				} else {
					cl += ":higher-id"
				}
				if pos[t] < pos[n] {
					cl += ":earlier"
				} else {
					cl += ":later"
				}
			}
			if !seen[cl] {
				seen[cl] = true
				out = append(out, cl)
			}
		}
	}
	sort.Strings(out)
	return out
}

type rrBytesSource struct{ data []byte }

func (s rrBytesSource) Read(options osm.ReadOptions, emit osm.EmitWithGoroutine, ctx context.Context) error {
	return osm.ReadPBFWithOptions(bytes.NewReader(s.data), emit, options)
}

// firstRead builds a fresh feature source over the input (from memory, or
// from PBF bytes when pbf != nil) and returns the members of every
// RelationFeature emitted by its first Read.
func firstRead(in ok.Input, pbf []byte) (map[b6.FeatureID][]b6.RelationMember, map[b6.FeatureID]int, error) {
	var src ingest.OSMSource
	if pbf != nil {
		src = rrBytesSource{pbf}
	} else {
		m := &ingest.MemoryOSMSource{}
		for i := range in.Nodes {
			m.Nodes = append(m.Nodes, in.Nodes[i].Clone())
		}
		for i := range in.Ways {
			m.Ways = append(m.Ways, in.Ways[i].Clone())
		}
		for i := range in.Relations {
			m.Relations = append(m.Relations, in.Relations[i].Clone())
		}
		src = m
	}
	fs, err := ingest.NewFeatureSourceFromPBF(src, &ingest.BuildOptions{Cores: 1}, context.Background())
	if err != nil {
		return nil, nil, err
	}
	members := map[b6.FeatureID][]b6.RelationMember{}
	emitted := map[b6.FeatureID]int{}
	err = fs.Read(ingest.ReadOptions{Goroutines: 1}, func(f ingest.Feature, g int) error {
		if r, isRel := f.(*ingest.RelationFeature); isRel {
			id := r.RelationID.FeatureID()
			emitted[id]++
			members[id] = append([]b6.RelationMember{}, r.Members...)
		}
		return nil
	}, context.Background())
	return members, emitted, err
}

// checkFirstRead compares the first Read's relation features with the rules
// (the relation features of Expectation.AsGiven: before any validity
// filtering, which is the world's business, not the source's).
func checkFirstRead(r *kit.Result, c rrCase, in ok.Input, pbf []byte, e ok.Expectation, kind, desc string) {
	got, emitted, err := firstRead(in, pbf)
	if err != nil {
		r.Violate("first-read["+kind+"]:error", "%s\ninput: %s\n%v", desc, in, err)
		return
	}
	pos := map[string]int{}
	for i, rel := range in.Relations {
		pos[ok.RelID(rel.ID).String()] = i
		pos[ok.RelAreaID(rel.ID).String()] = i
	}
	want := map[b6.FeatureID]bool{}
	for _, f := range e.AsGiven {
		if f.ID.Type != b6.FeatureTypeRelation {
			continue
		}
		want[f.ID] = true
		g, present := got[f.ID]
		if !present || emitted[f.ID] != 1 {
			r.Violate("first-read["+kind+"]:relation-emitted-"+fmt.Sprint(emitted[f.ID])+"-times", "%s\ninput: %s\nrelation %s", desc, in, f.ID)
			continue
		}
		if len(g) != len(f.Members) {
			r.Violate("first-read["+kind+"]:member-count", "%s\ninput: %s\nrelation %s: %d members, rules demand %d", desc, in, f.ID, len(g), len(f.Members))
			continue
		}
		for i := range g {
			if g[i].ID == f.Members[i].ID && g[i].Role == f.Members[i].Role {
				continue
			}
			cl := "member-role"
			if g[i].ID != f.Members[i].ID {
				dir := "absent-target"
				if p, isPresent := pos[f.Members[i].ID.String()]; isPresent {
					dir = "target-read-earlier"
					if p > pos[f.ID.String()] {
						dir = "target-read-later"
					}
				}
				cl = fmt.Sprintf("relation-typed-member-is-%s-not-%s:%s", g[i].ID.Type, f.Members[i].ID.Type, dir)
				if g[i].ID.Value != f.Members[i].ID.Value || g[i].ID.Namespace != f.Members[i].ID.Namespace {
					cl = "member-points-at-a-different-element"
				}
			}
			r.Violate("first-read["+kind+"]:"+cl, "%s\ninput: %s\nfirst Read of a fresh source: relation %s member %d is (%s, %q), the rules demand (%s, %q)", desc, in, f.ID, i, g[i].ID, g[i].Role, f.Members[i].ID, f.Members[i].Role)
		}
	}
	var extra []string
	byName := map[string]b6.FeatureID{}
	for id := range got {
		if !want[id] {
			extra = append(extra, id.String())
			byName[id.String()] = id
		}
	}
	sort.Strings(extra)
	for _, name := range extra {
		id := byName[name]
		{
			r.Violate("first-read["+kind+"]:unexpected-relation-feature", "%s\ninput: %s\nrelation feature %s emitted; the rules demand none (multipolygon relations become areas only)", desc, in, id)
		}
	}
}
