package main

// OSM tags whose keys are the keys b6 itself reserves.
//
// b6 stores a feature's geometry in its tag list (b6.PointTag "point",
// b6.PathTag "path") and reserves b6.ExpressionTag "expression" and
// b6.ColourTag "b6:colour" for its own use. OSM data is free to use any of
// these as ordinary keys with string values. The statement is unconditional:
// each node becomes a point (at its location), each way a path over its nodes
// in order, each closed way additionally an area carrying the way's tags while
// the path keeps none, each multipolygon an area, every other relation a
// relation over the features its members became — whatever the elements' tags
// say.
//
// What the statement does not settle is what becomes of an OSM tag whose key
// is one of the two geometry keys when the element becomes a feature that
// keeps its geometry in its tag list (a point or a path: point=... / path=...
// on a node or on a way): the geometry needs the key, or reads the list by
// key, so the OSM tag cannot simply stand next to it. Those tags are not
// judged (they are removed from both sides before comparing, together with the
// Get/AllTags disagreement a doubled key causes); only the geometry mapping
// is. Every other tag — expression=... / b6:colour=... anywhere, point=... /
// path=... on an area or a relation — is an ordinary unmapped tag and is
// demanded unchanged, like any other tag.

import (
	"fmt"
	"regexp"
	"sort"
	"strings"

	"diagonal.works/b6"
	"diagonal.works/b6/osm"
	ok "verif/osmkit"
	wk "verif/worldkit"
)

// rkKeys: every tag key b6 reserves (world.go).
var rkKeys = []string{b6.PointTag, b6.PathTag, b6.ExpressionTag, b6.ColourTag}

// Elements that carry a varied tag list.
//
//	node      n1 (first node of both ways' neighbourhood: way 1 starts at it)
//	open-way  way 1 = n1 n2 n3
//	closed-way way 3 = n9 n10 n11 n9
//	multipolygon relation 1 = [way 3 outer]
//	relation  relation 2 = [n8, way 1, way 3, relation 1]
var rkElements = []string{"node", "open-way", "closed-way", "multipolygon", "relation"}

// ordinary tags of each element: a key of the searchable table, then a key
// outside it.
var rkOrdinary = map[string][2]osm.Tag{
	"node":         {{Key: "amenity", Value: "cafe"}, {Key: "name", Value: "one"}},
	"open-way":     {{Key: "highway", Value: "path"}, {Key: "name", Value: "street"}},
	"closed-way":   {{Key: "building", Value: "yes"}, {Key: "name", Value: "hall"}},
	"multipolygon": {{Key: "landuse", Value: "park"}, {Key: "type", Value: "multipolygon"}},
	"relation":     {{Key: "route", Value: "bus"}, {Key: "type", Value: "route"}},
}

// Shapes of a tag list with a reserved-key tag R, a mapped tag m, an unmapped
// tag u. "alone" keeps type=multipolygon on the multipolygon relation (after
// R), without which it would not be one.
var rkShapes = []string{"alone", "first", "last", "middle"}

// rkChoice: what one element carries: Key == "" -> ordinary tags only.
type rkChoice struct {
	Key, Value, Shape string
}

func (c rkChoice) String() string {
	if c.Key == "" {
		return "ordinary"
	}
	return fmt.Sprintf("%s=%s/%s", c.Key, c.Value, c.Shape)
}

func rkTags(element string, c rkChoice) osm.Tags {
	o := rkOrdinary[element]
	m, u := o[0], o[1]
	if c.Key == "" {
		return osm.Tags{m, u}
	}
	r := osm.Tag{Key: c.Key, Value: c.Value}
	switch c.Shape {
	case "alone":
		if element == "multipolygon" {
			return osm.Tags{r, u}
		}
		return osm.Tags{r}
	case "first":
		return osm.Tags{r, m, u}
	case "last":
		return osm.Tags{m, u, r}
	}
	return osm.Tags{m, r, u}
}

type rkPart struct {
	Values      []string
	Shapes      []string
	MaxElements int // at most this many elements carry a reserved-key tag
	PBFUpTo     int // cases with at most this many such elements also run through PBF bytes
	n           int64
}

func (p rkPart) String() string {
	return fmt.Sprintf("<= %d of the 5 elements carry a reserved-key tag, keys %v x values %q x shapes %v (through PBF bytes too when <= %d) = %d", p.MaxElements, rkKeys, p.Values, p.Shapes, p.PBFUpTo, p.n)
}

type rkCase struct {
	part    int
	choices [5]rkChoice
	pbf     bool
	carried int
}

type rkSpace struct {
	parts []rkPart
	cases []rkCase
}

const rkLatLngLike = "51.5350000,-0.1250000"

func rkParts(tier string) []rkPart {
	if tier == "thorough" {
		return []rkPart{
			{Values: []string{"yes"}, Shapes: rkShapes[:3], MaxElements: 5, PBFUpTo: 1},
			{Values: []string{rkLatLngLike}, Shapes: rkShapes, MaxElements: 2, PBFUpTo: 1},
			{Values: []string{"yes"}, Shapes: rkShapes[3:], MaxElements: 2, PBFUpTo: 1},
		}
	}
	return []rkPart{{Values: []string{"yes"}, Shapes: rkShapes[:3], MaxElements: 2, PBFUpTo: 1}}
}

// newRKSpace: every assignment of ordinary / reserved-key choices to the five
// elements with at most MaxElements reserved; ordered by the number of
// elements that carry a reserved key, then part, then enumeration order
// (elements in rkElements order, keys in rkKeys order, values, shapes).
func newRKSpace(tier string) *rkSpace {
	sp := &rkSpace{parts: rkParts(tier)}
	for pi := range sp.parts {
		p := &sp.parts[pi]
		options := []rkChoice{{}}
		for _, k := range rkKeys {
			for _, v := range p.Values {
				for _, s := range p.Shapes {
					options = append(options, rkChoice{Key: k, Value: v, Shape: s})
				}
			}
		}
		var rec func(i int, cur [5]rkChoice, carried int)
		rec = func(i int, cur [5]rkChoice, carried int) {
			if i == len(rkElements) {
				// the all-ordinary input belongs to the first part only
				if carried == 0 && pi > 0 {
					return
				}
				kinds := []bool{false}
				if carried <= p.PBFUpTo {
					kinds = append(kinds, true)
				}
				for _, pbf := range kinds {
					sp.cases = append(sp.cases, rkCase{part: pi, choices: cur, pbf: pbf, carried: carried})
					p.n++
				}
				return
			}
			for oi, o := range options {
				if oi > 0 && carried == p.MaxElements {
					break
				}
				cur[i] = o
				c := carried
				if oi > 0 {
					c++
				}
				rec(i+1, cur, c)
			}
		}
		rec(0, [5]rkChoice{}, 0)
	}
	sort.SliceStable(sp.cases, func(i, j int) bool {
		x, y := sp.cases[i], sp.cases[j]
		if x.carried != y.carried {
			return x.carried < y.carried
		}
		return x.part < y.part
	})
	return sp
}

func (sp *rkSpace) Len() int64 { return int64(len(sp.cases)) }

func (sp *rkSpace) String() string {
	ps := make([]string, len(sp.parts))
	for i, p := range sp.parts {
		ps[i] = p.String()
	}
	return strings.Join(ps, "; ")
}

func (c rkCase) Describe() string {
	parts := make([]string, len(rkElements))
	for i, e := range rkElements {
		parts[i] = e + ":" + c.choices[i].String()
	}
	kind := "memory"
	if c.pbf {
		kind = "pbf"
	}
	return "reserved-key tags " + strings.Join(parts, " ") + " source kind " + kind
}

// InputClass names the elements that carry a reserved key and the key, e.g.
// "node:point+open-way:path".
func (c rkCase) InputClass() string {
	var parts []string
	for i, e := range rkElements {
		if c.choices[i].Key != "" {
			parts = append(parts, e+":"+c.choices[i].Key)
		}
	}
	if len(parts) == 0 {
		return "ordinary-tags-only"
	}
	return strings.Join(parts, "+")
}

func (c rkCase) Input() ok.Input {
	s := ok.Schemes[0]
	var in ok.Input
	for i := 1; i <= 11; i++ {
		n := osm.Node{ID: s.N(i), Location: osm.LatLng{Lat: float64(ok.Pos(i).Lat) / 1e7, Lng: float64(ok.Pos(i).Lng) / 1e7}}
		if i == 1 {
			n.Tags = rkTags("node", c.choices[0])
		}
		in.Nodes = append(in.Nodes, n)
	}
	in.Ways = []osm.Way{
		{ID: s.W(1), Nodes: []osm.NodeID{s.N(1), s.N(2), s.N(3)}, Tags: rkTags("open-way", c.choices[1])},
		{ID: s.W(3), Nodes: []osm.NodeID{s.N(9), s.N(10), s.N(11), s.N(9)}, Tags: rkTags("closed-way", c.choices[2])},
	}
	in.Relations = []osm.Relation{
		{ID: s.R(1), Members: []osm.Member{{Type: osm.ElementTypeWay, ID: osm.AnyID(s.W(3)), Role: "outer"}}, Tags: rkTags("multipolygon", c.choices[3])},
		{ID: s.R(2), Members: []osm.Member{
			{Type: osm.ElementTypeNode, ID: osm.AnyID(s.N(8)), Role: "stop"},
			{Type: osm.ElementTypeWay, ID: osm.AnyID(s.W(1)), Role: ""},
			{Type: osm.ElementTypeWay, ID: osm.AnyID(s.W(3)), Role: "x"},
			{Type: osm.ElementTypeRelation, ID: osm.AnyID(s.R(1)), Role: "sub"},
		}, Tags: rkTags("relation", c.choices[4])},
	}
	return in
}

// rkUnjudged removes from the expectation the tags the statement does not
// settle — string tags keyed "point" or "path" on a point or a path — and
// returns them by feature.
func rkUnjudged(e *ok.Expectation) (map[b6.FeatureID][]wk.TagSpec, map[string]bool) {
	out := map[b6.FeatureID][]wk.TagSpec{}
	// features left without any judged tag: whether "all" searches find them
	// hinges on the unjudged tag
	bare := map[string]bool{}
	strip := func(s wk.Spec, record bool) {
		for i := range s {
			f := &s[i]
			if f.Kind != wk.KPoint && f.Kind != wk.KPath {
				continue
			}
			var kept []wk.TagSpec
			for _, t := range f.Tags {
				if t.Key == b6.PointTag || t.Key == b6.PathTag {
					if record {
						out[f.ID] = append(out[f.ID], t)
					}
					continue
				}
				kept = append(kept, t)
			}
			f.Tags = kept
			if record && len(out[f.ID]) > 0 && len(kept) == 0 {
				bare[f.ID.String()] = true
			}
		}
	}
	strip(e.AsGiven, true)
	strip(e.Valid, false)
	return out, bare
}

// rkElementOf names the varied element a feature comes from.
func rkElementOf(id b6.FeatureID) int {
	s := ok.Schemes[0]
	switch id {
	case ok.PointID(s.N(1)):
		return 0
	case ok.PathID(s.W(1)), ok.WayAreaID(s.W(1)):
		return 1
	case ok.PathID(s.W(3)), ok.WayAreaID(s.W(3)):
		return 2
	case ok.RelAreaID(s.R(1)), ok.RelID(s.R(1)):
		return 3
	case ok.RelID(s.R(2)), ok.RelAreaID(s.R(2)):
		return 4
	}
	return -1
}

// rkRootClass: for a difference in the rendering of the feature of one of the
// varied elements, "reserved-key-tags(<element>:<the key it carries>)".
func (c rkCase) rkRootClass(diff string) string {
	if !strings.HasPrefix(diff, "feat:") {
		return ""
	}
	name := strings.SplitN(diff[len("feat:"):], ":\n", 2)[0]
	for _, id := range []b6.FeatureID{
		ok.PointID(ok.Schemes[0].N(1)), ok.PathID(ok.Schemes[0].W(1)), ok.WayAreaID(ok.Schemes[0].W(1)),
		ok.PathID(ok.Schemes[0].W(3)), ok.WayAreaID(ok.Schemes[0].W(3)),
		ok.RelAreaID(ok.Schemes[0].R(1)), ok.RelID(ok.Schemes[0].R(1)), ok.RelID(ok.Schemes[0].R(2)), ok.RelAreaID(ok.Schemes[0].R(2)),
	} {
		if id.String() == name {
			el := rkElementOf(id)
			key := c.choices[el].Key
			if key == "" {
				key = "ordinary"
			}
			return "reserved-key-tags(" + rkElements[el] + ":" + key + ")"
		}
	}
	return ""
}

var rkMismatch = regexp.MustCompile(` GET-MISMATCH\((point|path): [^)]*\)`)

// rkNormalise removes the unjudged tags from the world's rendering of the
// features that could carry them: the element "key=s:value" of the tag list
// and the Get/AllTags disagreement notes for that key.
func rkNormalise(got wk.Dump, unjudged map[b6.FeatureID][]wk.TagSpec, bare map[string]bool) {
	// whether a feature with no other tag is found by a search for everything
	// hinges on the unjudged tag (a feature without tags is not indexed): its
	// presence in search results is not judged either
	if len(bare) > 0 {
		for k, v := range got {
			if !strings.HasPrefix(k, "find:") {
				continue
			}
			var kept []string
			for _, f := range strings.Fields(v) {
				if !bare[f] {
					kept = append(kept, f)
				}
			}
			got[k] = strings.Join(kept, " ")
		}
	}
	for id, ts := range unjudged {
		k := "feat:" + id.String()
		s, present := got[k]
		if !present {
			continue
		}
		i := strings.Index(s, "tags=[")
		if i < 0 {
			continue
		}
		// the matching bracket: path geometry renders as list[...] inside the list
		j, depth := -1, 0
		for x := i + len("tags="); x < len(s); x++ {
			if s[x] == '[' {
				depth++
			} else if s[x] == ']' {
				depth--
				if depth == 0 {
					j = x
					break
				}
			}
		}
		if j < 0 {
			continue
		}
		items := strings.Split(s[i+len("tags=["):j], "; ")
		for _, t := range ts {
			drop := t.Key + "=s:" + t.Value
			for x, it := range items {
				if it == drop {
					items = append(items[:x:x], items[x+1:]...)
					break
				}
			}
		}
		rest := rkMismatch.ReplaceAllStringFunc(s[j:], func(m string) string {
			for _, t := range ts {
				if strings.HasPrefix(m, " GET-MISMATCH("+t.Key+":") {
					return ""
				}
			}
			return m
		})
		got[k] = s[:i] + "tags=[" + strings.Join(items, "; ") + rest
	}
}
