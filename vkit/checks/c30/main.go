// C30 — shortest-path search finds true shortest distances and routes.
//
// Engine E1 (bounded-exhaustive input enumeration). A case is one street
// network: a subset of a fixed menu of ways (and node tags) over 6 points,
// built as a real world (basic world through ingest.NewWorldFromSource, and
// the compact world through compact.BuildInMemory). Inside a case every
// weights implementation, every origin point, every limit and every
// destination is searched with the real graph package and compared with a
// Bellman-Ford reference over World.Traverse.
package main

import (
	"fmt"
	"math"
	"sort"
	"strconv"
	"strings"

	"diagonal.works/b6"
	"diagonal.works/b6/graph"
	"diagonal.works/b6/ingest"
	"diagonal.works/b6/ingest/compact"
	"verif/kit"

	"github.com/golang/geo/s1"
	"github.com/golang/geo/s2"
)

// ---------------------------------------------------------------- menu

type nodeDef struct {
	id       uint64
	lat, lng float64
}

// A 2x3 grid, roughly 70-110 m spacing, jittered so that few path sums tie.
var nodes = []nodeDef{
	{1, 51.50000, -0.10000},
	{2, 51.50003, -0.09868},
	{3, 51.49998, -0.09741},
	{4, 51.50093, -0.10004},
	{5, 51.50088, -0.09859},
	{6, 51.50097, -0.09748},
}

type tag struct{ k, v string }

type item struct {
	name string
	// way
	way     uint64
	nodes   []uint64
	tags    []tag
	nodeTag uint64 // != 0: the item tags this node instead of adding a way
}

var menu = []item{
	// --- quick tier: first 11 items
	{name: "A:1-2-3 residential", way: 101, nodes: []uint64{1, 2, 3}, tags: []tag{{"#highway", "residential"}}},
	{name: "B:4-5-6 primary oneway (not for buses)", way: 102, nodes: []uint64{4, 5, 6}, tags: []tag{{"#highway", "primary"}, {"oneway", "yes"}, {"oneway:bus", "no"}}},
	{name: "C:1-4 footway", way: 103, nodes: []uint64{1, 4}, tags: []tag{{"#highway", "footway"}}},
	{name: "D:2-5 service x0.5", way: 104, nodes: []uint64{2, 5}, tags: []tag{{"#highway", "service"}, {"diagonal:weight", "0.5"}}},
	{name: "E:3-6 tertiary x3", way: 105, nodes: []uint64{3, 6}, tags: []tag{{"#highway", "tertiary"}, {"diagonal:weight", "3"}}},
	{name: "F:6-3 secondary oneway", way: 106, nodes: []uint64{6, 3}, tags: []tag{{"#highway", "secondary"}, {"oneway", "yes"}}},
	{name: "G:1-5 untagged shortcut", way: 107, nodes: []uint64{1, 5}, tags: []tag{{"name", "shortcut"}}},
	{name: "H:1-2-5-4-1 loop residential oneway", way: 108, nodes: []uint64{1, 2, 5, 4, 1}, tags: []tag{{"#highway", "residential"}, {"oneway", "yes"}}},
	{name: "T2:node 2 tagged", nodeTag: 2},
	// M and N make a first, expensive discovery of 4 and 5 from 1 that cheaper
	// chains (1-2-5-4) must later undercut while other points wait in the queue
	{name: "M:1-4 unclassified x3", way: 113, nodes: []uint64{1, 4}, tags: []tag{{"#highway", "unclassified"}, {"diagonal:weight", "3"}}},
	{name: "N:1-5 road x3", way: 114, nodes: []uint64{1, 5}, tags: []tag{{"#highway", "road"}, {"diagonal:weight", "3.0"}}},
	// --- thorough tier adds
	{name: "I:4-5-2-3-6-5 lollipop unclassified", way: 109, nodes: []uint64{4, 5, 2, 3, 6, 5}, tags: []tag{{"#highway", "unclassified"}}},
	{name: "J:4-2 connection badweight", way: 110, nodes: []uint64{4, 2}, tags: []tag{{"diagonal", "connection"}, {"diagonal:weight", "abc"}}},
	{name: "L:6-5-4 trunk oneway access=no", way: 112, nodes: []uint64{6, 5, 4}, tags: []tag{{"#highway", "trunk"}, {"oneway", "yes"}, {"access", "no"}}},
}

const quickItems = 11

// Several networks can share one world (compact builds are expensive): copy k
// of the menu lives on its own points k*16+n and ways k*1024+id, shifted
// 0.01 degrees north per copy, so the copies are disconnected components.
func pointID(copy int, n uint64) b6.FeatureID {
	return b6.FeatureID{Type: b6.FeatureTypePoint, Namespace: b6.NamespaceOSMNode, Value: uint64(copy)*16 + n}
}

func wayID(copy int, n uint64) b6.FeatureID {
	return b6.FeatureID{Type: b6.FeatureTypePath, Namespace: b6.NamespaceOSMWay, Value: uint64(copy)*1024 + n}
}

func selected(mask int, n int) []item {
	var out []item
	for i := 0; i < n; i++ {
		if mask&(1<<i) != 0 {
			out = append(out, menu[i])
		}
	}
	return out
}

func features(copy int, items []item) []ingest.Feature {
	var fs []ingest.Feature
	for _, n := range nodes {
		f := &ingest.GenericFeature{ID: pointID(copy, n.id)}
		for _, it := range items {
			if it.nodeTag == n.id {
				f.Tags = append(f.Tags, b6.Tag{Key: "#barrier", Value: b6.NewStringExpression("gate")})
			}
		}
		f.Tags = append(f.Tags, b6.Tag{Key: b6.PointTag, Value: b6.NewPointExpressionFromLatLng(s2.LatLngFromDegrees(n.lat+0.01*float64(copy), n.lng))})
		fs = append(fs, f)
	}
	for _, it := range items {
		if it.way == 0 {
			continue
		}
		f := &ingest.GenericFeature{ID: wayID(copy, it.way)}
		for _, t := range it.tags {
			f.Tags = append(f.Tags, b6.Tag{Key: t.k, Value: b6.NewStringExpression(t.v)})
		}
		ps := make([]b6.AnyExpression, 0, len(it.nodes))
		for _, n := range it.nodes {
			ps = append(ps, b6.FeatureIDExpression(pointID(copy, n)))
		}
		f.Tags = append(f.Tags, b6.Tag{Key: b6.PathTag, Value: b6.NewExpressions(ps)})
		fs = append(fs, f)
	}
	return fs
}

const (
	worldBasic   = 0
	worldCompact = 1
)

var worldNames = []string{"basic", "compact"}

func buildWorld(kind int, networks [][]item) (b6.World, error) {
	var fs []ingest.Feature
	for k, items := range networks {
		fs = append(fs, features(k, items)...)
	}
	source := ingest.MemoryFeatureSource(fs)
	switch kind {
	case worldBasic:
		return ingest.NewWorldFromSource(source, &ingest.BuildOptions{Cores: 1})
	default:
		index, err := compact.BuildInMemory(source, &compact.Options{Goroutines: 1, PointsScratchOutputType: compact.OutputTypeMemory})
		if err != nil {
			return nil, err
		}
		return compact.NewWorldFromData(index)
	}
}

// ---------------------------------------------------------------- weights

type weightsDef struct {
	name     string
	make     func(w b6.World) graph.Weights
	physical bool // Weight() is physical length unless a way carries diagonal:weight
}

var allWeights = []weightsDef{
	{"SimpleHighwayWeights", func(b6.World) graph.Weights { return graph.SimpleHighwayWeights{} }, true},
	{"CarWeights", func(b6.World) graph.Weights { return graph.CarWeights{} }, true},
	// thorough tier adds
	{"SimpleWeights", func(b6.World) graph.Weights { return graph.SimpleWeights{} }, true},
	{"BusWeights", func(b6.World) graph.Weights { return graph.BusWeights{} }, true},
	{"WalkingTimeWeights", func(b6.World) graph.Weights {
		return graph.WalkingTimeWeights{Speed: 1.0 / graph.WalkingMetersPerSecond}
	}, false},
}

const quickWeights = 2

// ---------------------------------------------------------------- oracle

type edge struct {
	from, to b6.FeatureID
	seg      b6.Segment
	w        float64
}

type oracle struct {
	points   []b6.FeatureID
	edges    []edge                     // every useable Traverse segment of every point
	byFrom   map[b6.FeatureID][]edge    // useable edges by first point
	unusable int                        // segments rejected by IsUseable
	keys     map[b6.SegmentKey]struct{} // keys of useable edges
}

func allPoints(copy int) []b6.FeatureID {
	ps := make([]b6.FeatureID, len(nodes))
	for i, n := range nodes {
		ps[i] = pointID(copy, n.id)
	}
	return ps
}

func newOracle(w b6.World, weights graph.Weights, copy int) *oracle {
	o := &oracle{points: allPoints(copy), byFrom: map[b6.FeatureID][]edge{}, keys: map[b6.SegmentKey]struct{}{}}
	for _, p := range o.points {
		ss := w.Traverse(p)
		for ss.Next() {
			seg := ss.Segment()
			if !weights.IsUseable(seg) {
				o.unusable++
				continue
			}
			e := edge{from: p, to: seg.LastFeatureID(), seg: seg, w: weights.Weight(seg)}
			o.edges = append(o.edges, e)
			o.byFrom[p] = append(o.byFrom[p], e)
			o.keys[seg.ToKey()] = struct{}{}
		}
	}
	return o
}

// Bellman-Ford, no limit: the true weighted distance from origin to every
// point along useable Traverse segments (+Inf when there is no chain).
func (o *oracle) distances(origin b6.FeatureID) map[b6.FeatureID]float64 {
	d := map[b6.FeatureID]float64{}
	for _, p := range o.points {
		d[p] = math.Inf(1)
	}
	d[origin] = 0
	for round := 0; round <= len(nodes)+1; round++ {
		changed := false
		for _, e := range o.edges {
			if du, ok := d[e.from]; ok && du+e.w < get(d, e.to) {
				d[e.to] = du + e.w
				changed = true
			}
		}
		if !changed {
			break
		}
	}
	return d
}

func get(d map[b6.FeatureID]float64, p b6.FeatureID) float64 {
	if v, ok := d[p]; ok {
		return v
	}
	return math.Inf(1)
}

const relTol = 1e-9

func approx(a, b float64) bool {
	if a == b {
		return true
	}
	return math.Abs(a-b) <= relTol*math.Max(1.0, math.Max(math.Abs(a), math.Abs(b)))
}

// physical length in meters along way from path index first to index i.
func partialMeters(seg b6.Segment, i int) float64 {
	var a s1.Angle
	for j := 0; j < i; j++ {
		a += seg.SegmentPoint(j).Distance(seg.SegmentPoint(j + 1))
	}
	return b6.AngleToMeters(a)
}

// ---------------------------------------------------------------- checks

type ctx struct {
	r            *kit.Result
	w            b6.World
	world        string
	items        []item
	wd           weightsDef
	weights      graph.Weights
	o            *oracle
	factor       bool // some selected way carries a valid diagonal:weight tag
	selfTouching bool // some selected way visits a point twice without being a closed ring
}

func (c *ctx) desc() string {
	var names []string
	for _, it := range c.items {
		names = append(names, it.name)
	}
	return fmt.Sprintf("world=%s ways={%s} weights=%s", c.world, strings.Join(names, "; "), c.wd.name)
}

// violate records at most maxPerClass violations of one class per case (the
// messages are long and a genuine defect fires on thousands of inputs); the
// rest are only counted.
const maxPerClass = 3

func (c *ctx) violate(class, format string, a ...interface{}) {
	n := 0
	for _, v := range c.r.Violations {
		if v.Class == class {
			n++
		}
	}
	c.r.Count("violations/"+class, 1)
	if n >= maxPerClass {
		return
	}
	c.r.Violate(class, format, a...)
}

func pstr(p b6.FeatureID) string {
	if p.Type == b6.FeatureTypePoint {
		return fmt.Sprintf("n%d", p.Value%16)
	}
	if p.Type == b6.FeatureTypePath {
		return fmt.Sprintf("w%d", p.Value%1024)
	}
	return p.String()
}

func sortedIDs(m map[b6.FeatureID]float64) []b6.FeatureID {
	ids := make([]b6.FeatureID, 0, len(m))
	for id := range m {
		ids = append(ids, id)
	}
	sort.Slice(ids, func(i, j int) bool { return ids[i].Less(ids[j]) })
	return ids
}

func dstr(m map[b6.FeatureID]float64) string {
	var s []string
	for _, id := range sortedIDs(m) {
		s = append(s, fmt.Sprintf("%s:%.6f", pstr(id), m[id]))
	}
	return "{" + strings.Join(s, " ") + "}"
}

// checkRoute validates BuildRoute(v): a chain of useable Traverse segments
// from the origin to v whose accumulated cost equals dist.
func (c *ctx) checkRoute(api string, route b6.Route, origin, v b6.FeatureID, dist float64, what string) bool {
	if route.Origin != origin {
		c.violate(api+":route-origin-wrong", "%s: route to %s starts at %s, want origin %s; route=%v", what, pstr(v), pstr(route.Origin), pstr(origin), route)
		return false
	}
	prev, cost := origin, 0.0
	for i, step := range route.Steps {
		ok := false
		for _, e := range c.o.byFrom[prev] {
			if e.to == step.Destination && e.seg.Feature.FeatureID() == step.Via && approx(cost+e.w, step.Cost) {
				ok = true
				break
			}
		}
		if !ok {
			c.violate(api+":route-step-not-a-useable-segment", "%s: route to %s step %d (%s via %s cost %.9f, previous %s cost %.9f) is no useable Traverse segment with that cost; route=%v", what, pstr(v), i, pstr(step.Destination), pstr(step.Via), step.Cost, pstr(prev), cost, route)
			return false
		}
		prev, cost = step.Destination, step.Cost
	}
	if prev != v {
		c.violate(api+":route-does-not-end-at-point", "%s: route to %s ends at %s; route=%v", what, pstr(v), pstr(prev), route)
		return false
	}
	if !approx(cost, dist) {
		c.violate(api+":route-cost-differs-from-distance", "%s: route to %s costs %.9f, distance %.9f; route=%v", what, pstr(v), cost, dist, route)
		return false
	}
	return true
}

// checkPath validates BuildPath(v) the same way, on the segments themselves.
func (c *ctx) checkPath(api string, path []b6.Segment, origin, v b6.FeatureID, dist float64, what string) bool {
	prev, cost := origin, 0.0
	for i, seg := range path {
		if seg.Feature == nil {
			c.violate(api+":path-invalid-segment", "%s: path to %s segment %d is invalid", what, pstr(v), i)
			return false
		}
		if seg.FirstFeatureID() != prev {
			c.violate(api+":path-not-a-chain", "%s: path to %s segment %d starts at %s, previous ended at %s", what, pstr(v), i, pstr(seg.FirstFeatureID()), pstr(prev))
			return false
		}
		if _, ok := c.o.keys[seg.ToKey()]; !ok || !c.weights.IsUseable(seg) {
			c.violate(api+":path-segment-not-useable", "%s: path to %s segment %d %v is not a useable Traverse segment", what, pstr(v), i, seg.ToKey())
			return false
		}
		cost += c.weights.Weight(seg)
		prev = seg.LastFeatureID()
	}
	if prev != v {
		c.violate(api+":path-does-not-end-at-point", "%s: path to %s ends at %s", what, pstr(v), pstr(prev))
		return false
	}
	if !approx(cost, dist) {
		c.violate(api+":path-cost-differs-from-distance", "%s: path to %s costs %.9f, distance %.9f", what, pstr(v), cost, dist)
		return false
	}
	return true
}

// origin: one origin under one weights; all limits, all destinations.
func (c *ctx) origin(origin b6.FeatureID, limits []float64) (reachedOthers int) {
	truth := c.o.distances(origin)
	for p, d := range truth {
		if p != origin && !math.IsInf(d, 1) {
			reachedOthers++
		}
	}
	hasExit := false
	for _, e := range c.o.byFrom[origin] {
		if e.to != origin {
			hasExit = true
		}
	}

	// Adaptive limits: exactly the median finite distance (the statement
	// makes no demand about a point exactly at the limit) and just above it.
	var finite []float64
	for _, p := range sortedIDs(truth) {
		if d := truth[p]; d > 0 && !math.IsInf(d, 1) {
			finite = append(finite, d)
		}
	}
	sort.Float64s(finite)
	ls := append([]float64{}, limits...)
	if len(finite) > 0 {
		m := finite[len(finite)/2]
		ls = append(ls, m, m*(1+1e-6))
	}

	probe := graph.NewShortestPathSearchFromPoint(origin, c.weights, c.w)
	c.r.Evals++
	if probe.Len() == 0 {
		// The search considers the origin not to be on the network. That is
		// accepted when no useable segment leaves the origin (nothing but
		// the origin itself could be reported).
		if hasExit {
			c.violate("NewShortestPathSearchFromPoint:origin-with-useable-exit-not-connected/"+c.wd.name,
				"%s origin=%s: the search starts empty although useable segments leave the origin; true distances %s, reported nothing (for any limit)",
				c.desc(), pstr(origin), dstr(truth))
			c.r.AddOutcome("origin-wrongly-unconnected")
		} else {
			c.r.AddOutcome("origin-off-network:empty-search-accepted")
		}
		return
	}

	for li, limit := range ls {
		what := fmt.Sprintf("%s origin=%s limit=%v", c.desc(), pstr(origin), limit)
		must := map[b6.FeatureID]float64{}
		for p, d := range truth {
			if d < limit*(1-relTol) {
				must[p] = d
			}
		}

		// ---- ExpandSearch (Points, and PointsAndAreas on alternate limits)
		feat := graph.Points
		if li%2 == 1 {
			feat = graph.PointsAndAreas
		}
		s := graph.NewShortestPathSearchFromPoint(origin, c.weights, c.w)
		s.ExpandSearch(limit, c.weights, feat, c.w)
		c.r.Evals++
		pd := s.PointDistances()
		ok := true
		for _, p := range sortedIDs(must) {
			if got, in := pd[p]; !in || math.IsInf(got, 1) {
				c.violate("ExpandSearch:point-under-limit-not-reported", "%s: %s has true distance %.9f < limit but is not reported; reported %s true %s", what, pstr(p), must[p], dstr(pd), dstr(truth))
				ok = false
			}
		}
		routes := s.AllRoutes()
		for _, p := range sortedIDs(pd) {
			got := pd[p]
			if math.IsInf(got, 1) {
				continue // not reported as reachable
			}
			want := get(truth, p)
			if !approx(got, want) {
				cls := "ExpandSearch:reported-distance-too-large"
				if got < want {
					cls = "ExpandSearch:reported-distance-too-small"
				}
				c.violate(cls, "%s: %s reported at %.9f, true shortest distance %.9f; reported %s true %s", what, pstr(p), got, want, dstr(pd), dstr(truth))
				ok = false
				continue
			}
			if cd := s.CurrentDistance(p); cd != got {
				c.violate("ExpandSearch:CurrentDistance-differs-from-PointDistances", "%s: %s CurrentDistance %.9f PointDistances %.9f", what, pstr(p), cd, got)
				ok = false
			}
			route, in := routes[p]
			if !in {
				c.violate("ExpandSearch:AllRoutes-misses-reported-point", "%s: no route for reported point %s", what, pstr(p))
				ok = false
				continue
			}
			ok = c.checkRoute("ExpandSearch", route, origin, p, got, what) && ok
			ok = c.checkRoute("ExpandSearch.BuildRoute", s.BuildRoute(p), origin, p, got, what) && ok
			ok = c.checkPath("ExpandSearch", s.BuildPath(p), origin, p, got, what) && ok
		}
		if ok {
			c.r.AddOutcome(fmt.Sprintf("ExpandSearch:%s:reported%d", c.wd.name, len(pd)))
		} else {
			c.r.AddOutcome("ExpandSearch:violation")
		}

		// ---- ComputeAccessibility: graph nodes always; interpolated
		// interior points only when weights are physical length.
		physical := c.wd.physical && !c.factor && !c.selfTouching
		if physical {
			acc, _ := graph.ComputeAccessibility(origin, limit, c.weights, c.w)
			c.r.Evals++
			// true distance of every point of a useable segment, allowing
			// the walk to stop inside the segment
			anyTruth := map[b6.FeatureID]float64{}
			for p, d := range truth {
				anyTruth[p] = d
			}
			for _, e := range c.o.edges {
				du := get(truth, e.from)
				if math.IsInf(du, 1) {
					continue
				}
				for i := 1; i < e.seg.Len()-1; i++ {
					p := e.seg.SegmentFeatureID(i)
					if cand := du + partialMeters(e.seg, i); cand < get(anyTruth, p) {
						anyTruth[p] = cand
					}
				}
			}
			aok := true
			for _, p := range sortedIDs(must) {
				if got, in := acc[p]; !in || math.IsInf(got, 1) {
					c.violate("ComputeAccessibility:point-under-limit-not-reported", "%s: %s has true distance %.9f < limit but is not reported; reported %s", what, pstr(p), must[p], dstr(acc))
					aok = false
				}
			}
			for _, p := range sortedIDs(acc) {
				got := acc[p]
				if math.IsInf(got, 1) {
					continue
				}
				want := get(anyTruth, p)
				if !approx(got, want) {
					cls := "ComputeAccessibility:graph-node-distance-wrong"
					if _, isNode := pd[p]; !isNode {
						cls = "ComputeAccessibility:interpolated-interior-distance-wrong"
					}
					c.violate(cls, "%s: %s reported at %.9f, true %.9f; reported %s true %s", what, pstr(p), got, want, dstr(acc), dstr(anyTruth))
					aok = false
				}
			}
			if aok {
				c.r.AddOutcome(fmt.Sprintf("ComputeAccessibility:reported%d(+%d interior)", len(pd), len(acc)-len(pd)))
			}
		}

		// ---- ExpandSearchTo for every destination (tight, unlimited and
		// just-above-median limits)
		if li%2 == 1 {
			continue
		}
		for _, to := range c.o.points {
			st := graph.NewShortestPathSearchFromPoint(origin, c.weights, c.w)
			st.ExpandSearchTo(to, limit, c.weights, c.w)
			c.r.Evals++
			tpd := st.PointDistances()
			got := st.CurrentDistance(to)
			want := get(truth, to)
			whatTo := fmt.Sprintf("%s to=%s", what, pstr(to))
			tok := true
			if math.IsInf(got, 1) {
				if _, need := must[to]; need {
					cls := "ExpandSearchTo:destination-under-limit-not-reached"
					if to == origin {
						cls = "ExpandSearchTo:destination-equal-to-origin-gets-infinite-distance"
					}
					c.violate(cls, "%s: true distance %.9f < limit but the search reports +Inf; reported %s", whatTo, want, dstr(tpd))
					tok = false
				}
			} else if !approx(got, want) {
				cls := "ExpandSearchTo:destination-distance-too-large"
				if got < want {
					cls = "ExpandSearchTo:destination-distance-too-small"
				}
				c.violate(cls, "%s: reported %.9f, true %.9f; reported %s true %s", whatTo, got, want, dstr(tpd), dstr(truth))
				tok = false
			} else {
				tok = c.checkRoute("ExpandSearchTo", st.BuildRoute(to), origin, to, got, whatTo) && tok
				tok = c.checkPath("ExpandSearchTo", st.BuildPath(to), origin, to, got, whatTo) && tok
			}
			// Other points may hold tentative distances after the early
			// stop: an upper bound realised by a real chain, never less
			// than the true distance.
			for _, p := range sortedIDs(tpd) {
				g := tpd[p]
				if p == to || math.IsInf(g, 1) {
					continue
				}
				if t := get(truth, p); g < t && !approx(g, t) {
					c.violate("ExpandSearchTo:point-distance-below-true-distance", "%s: %s reported at %.9f < true %.9f", whatTo, pstr(p), g, t)
					tok = false
				} else {
					tok = c.checkRoute("ExpandSearchTo.other", st.BuildRoute(p), origin, p, g, whatTo) && tok
				}
			}
			// ComputeShortestPath is the same search behind one call.
			if tok && !math.IsInf(got, 1) {
				path := graph.ComputeShortestPath(origin, to, limit, c.weights, c.w)
				c.r.Evals++
				tok = c.checkPath("ComputeShortestPath", path, origin, to, got, whatTo) && tok
			}
			if tok {
				if math.IsInf(got, 1) {
					c.r.AddOutcome("ExpandSearchTo:unreached")
				} else {
					c.r.AddOutcome(fmt.Sprintf("ExpandSearchTo:reached:steps%d", len(st.BuildPath(to))))
				}
			} else {
				c.r.AddOutcome("ExpandSearchTo:violation")
			}
		}
	}
	return
}

// ---------------------------------------------------------------- space

type caseDef struct {
	world int
	masks []int // one network (copy) per mask, all in one world
}

// Each compact build allocates ~240 MB of scratch buffers, so compact worlds
// hold compactBlock networks side by side; basic worlds hold one.
const compactBlock = 32

// Every subset of the first nItems menu items, simplest first, in a basic
// world of its own and as one component of a compact world.
func buildCases(nItems int) []caseDef {
	masks := make([]int, 0, 1<<nItems)
	for m := 0; m < 1<<nItems; m++ {
		masks = append(masks, m)
	}
	pop := func(m int) int {
		n := 0
		for ; m != 0; m &= m - 1 {
			n++
		}
		return n
	}
	sort.SliceStable(masks, func(i, j int) bool {
		if pop(masks[i]) != pop(masks[j]) {
			return pop(masks[i]) < pop(masks[j])
		}
		return masks[i] < masks[j]
	})
	var cs []caseDef
	var block []int
	for i, m := range masks {
		cs = append(cs, caseDef{worldBasic, []int{m}})
		block = append(block, m)
		if len(block) == compactBlock || i == len(masks)-1 {
			cs = append(cs, caseDef{worldCompact, block})
			block = nil
		}
	}
	return cs
}

func runCase(cd caseDef, nItems, nWeights int, limits []float64, idx int64) kit.Result {
	var r kit.Result
	networks := make([][]item, len(cd.masks))
	for k, m := range cd.masks {
		networks[k] = selected(m, nItems)
	}
	world := worldNames[cd.world]
	w, err := buildWorld(cd.world, networks)
	if err != nil {
		r.Violate("harness:world-build-failed/"+world, "masks=%b: %v", cd.masks, err)
		return r
	}
	for k, items := range networks {
		factor, selfTouching := false, false
		for _, it := range items {
			if it.way == 0 {
				continue
			}
			seen := map[uint64]int{}
			for i, n := range it.nodes {
				if j, ok := seen[n]; ok && !(j == 0 && i == len(it.nodes)-1) {
					selfTouching = true
				}
				seen[n] = i
			}
			if w.FindFeatureByID(wayID(k, it.way)) == nil {
				r.Violate("harness:way-dropped-by-world-builder/"+world, "mask=%b: way %s is missing from the built world", cd.masks[k], it.name)
			}
			for _, t := range it.tags {
				if t.k == "diagonal:weight" {
					if _, err := strconv.ParseFloat(t.v, 64); err == nil {
						factor = true
					}
				}
			}
		}
		maxReached := 0
		for wi := 0; wi < nWeights; wi++ {
			wd := allWeights[wi]
			weights := wd.make(w)
			c := &ctx{r: &r, w: w, world: world, items: items, wd: wd, weights: weights, factor: factor, selfTouching: selfTouching}
			c.o = newOracle(w, weights, k)
			r.Count("useable-segments/"+wd.name, int64(len(c.o.edges)))
			r.Count("unusable-segments/"+wd.name, int64(c.o.unusable))
			for _, origin := range c.o.points {
				if n := c.origin(origin, limits); n > maxReached {
					maxReached = n
				}
			}
		}
		if maxReached >= 2 {
			r.Nontrivial = true
			r.Keys = append(r.Keys, fmt.Sprintf("%s/%b", world, cd.masks[k]))
		}
		if idx%97 == 5 && k == 0 {
			var names []string
			for _, it := range items {
				names = append(names, it.name)
			}
			r.Sample = map[string]interface{}{"world": world, "networks_in_world": len(networks), "first_network_items": names, "weights": nWeights, "origins": len(nodes), "fixed_limits": limits, "max_points_reached_from_one_origin": maxReached}
		}
	}
	return r
}

func main() {
	kit.Main(&kit.Check{
		ID: "C30",
		// worlds are tiny: keep the Go runtime of the 16 workers from
		// fighting over cores with GC and scheduler threads
		WorkerEnv: []string{"GOMAXPROCS=2", "GOGC=400"},
		Level:     "bounded_exhaustive",
		Rule: "Network = subset of the way/node-tag menu over 6 points. A case is one real world holding 1 (basic) or up to 32 (compact, as disconnected components on distinct ids) networks. The world is built as a real world (basic: ingest.NewWorldFromSource; compact: compact.BuildInMemory+NewWorldFromData). " +
			"For every network: every weights implementation x every one of the 6 points as origin x limits {tight 75, medium 200, 1e12, exactly the median true distance, just above it} x ExpandSearch (Points / PointsAndAreas), AllRoutes/BuildRoute/BuildPath for every reported point, " +
			"ComputeAccessibility (only when weights are physical length), and, at limits {75, 1e12, just above the median}, ExpandSearchTo + ComputeShortestPath for every one of the 6 destinations. " +
			"Oracle: Bellman-Ford over World.Traverse with the same IsUseable/Weight: every point with true distance < limit is reported, every finite reported distance equals the true distance (1e-9 relative), every route is a chain of useable Traverse segments from the origin whose cost equals the distance. " +
			"A network is non-trivial when some origin reaches >= 2 other points (distinct key = world kind + subset).",
		Assumptions: []string{
			"weight factors (diagonal:weight) are positive, so Dijkstra's precondition holds",
			"the graph is the one World.Traverse defines (Traverse itself is not checked here)",
			"a point exactly at the limit may or may not be reported (the statement only speaks of distances under the limit)",
			"an origin that no useable segment leaves may yield an empty search (the origin itself need not be reported then)",
			"after ExpandSearchTo only the destination's distance must be exact; other points may hold tentative upper bounds",
			"+Inf in PointDistances()/CurrentDistance() means 'not reported as reachable'",
			"ComputeAccessibility is compared only when weights are meters: no selected way carries a valid diagonal:weight, weights are not WalkingTimeWeights, and no way visits a point twice mid-way (a point that is both interior and end of Traverse segments has no single interpolated distance)",
		},
		Build: func(tier string) (kit.Space, string) {
			nItems, nWeights := quickItems, quickWeights
			if tier == "thorough" {
				nItems, nWeights = len(menu), len(allWeights)
			}
			limits := []float64{75, 200, 1e12}
			cases := buildCases(nItems)
			var wn []string
			for i := 0; i < nWeights; i++ {
				wn = append(wn, allWeights[i].name)
			}
			return kit.FuncSpace{N: int64(len(cases)), F: func(i int64) kit.Result {
					return runCase(cases[i], nItems, nWeights, limits, i)
				}}, fmt.Sprintf("all 2^%d subsets of the first %d menu items (ways incl. shared nodes, loops, lollipop, one-way, unusable highways, weight factors 0.5/3/invalid; node tags), each in a basic world of its own and as a component of a compact world (%d networks per compact world); each x weights %v x 6 origins x 5 limits (ExpandSearchTo: 3 limits x 6 destinations)",
					nItems, nItems, compactBlock, wn)
		},
	})
}
