// C31 — feature IDs survive every textual and wire encoding; shell aliases
// print and parse back; FeatureID.Less is a strict total order consistent with
// the compact index's order.
//
// Engine E1 (bounded-exhaustive input enumeration). Three parts:
//
//	E  encodings: every (type, namespace) of the menus x the whole 64-bit
//	   boundary alphabet: String/FeatureIDFromString, JSON, YAML, proto (struct
//	   and wire bytes), typed IDs (AreaID/RelationID/CollectionID YAML), and
//	   UnparseFeatureID(abbreviate false/true) -> ParseFeatureIDToken.
//	A  aliases: every alias (/n/ /w/ /a/ /r/ /gb/uprn/ /uk/ons/ /gb/codepoint/)
//	   x the value alphabet, plus IDs built from every postcode over a boundary
//	   character alphabet (lengths 5..7) and from every ONS code of a menu.
//	O  order: irreflexivity, asymmetry, totality on all pairs, transitivity on
//	   all triples of an ID menu, and agreement of Less with the order of the
//	   real compact.FeatureIDs (TypeAndNamespace with a sorted NamespaceTable)
//	   on all pairs, for several insertion orders of the namespace table.
//
// The oracle is the statement's own differential (decode(encode(id)) == id)
// plus, for the order, a reference lexicographic comparison written here.
// Only IDs the code itself calls valid (FeatureID.IsValid) are required to
// round trip; invalid ones are enumerated and counted as outcome "invalid-id".
package main

import (
	"encoding/json"
	"fmt"
	"sort"
	"strings"

	"diagonal.works/b6"
	"diagonal.works/b6/api"
	"diagonal.works/b6/ingest/compact"
	pb "diagonal.works/b6/proto"
	"google.golang.org/protobuf/proto"
	"gopkg.in/yaml.v2"
	"verif/kit"
)

var allTypes = []b6.FeatureType{
	b6.FeatureTypePoint, b6.FeatureTypePath, b6.FeatureTypeArea, b6.FeatureTypeRelation,
	b6.FeatureTypeInvalid, b6.FeatureTypeCollection, b6.FeatureTypeExpression,
}

// Namespace menu: the special namespaces every alias uses, ordinary dotted
// ones, ones containing '/', leading/trailing/double slashes, ones that look
// like a type name or a number, and a few that stress the text encoders.
var nsMenu = []b6.Namespace{
	"",
	"a",
	"a/b",
	"a.b",
	"a.b/c-d",
	"a//b",
	"/a",
	"a/",
	"1",
	"1/2",
	"point",
	"point/x",
	"a b",
	"a: b",
	"a#b",
	"ü.example/é",
	b6.NamespaceOSMNode,
	b6.NamespaceOSMWay,
	b6.NamespaceOSMRelation,
	b6.NamespaceUKONSBoundaries,
	b6.NamespaceGBCodePoint,
	b6.NamespaceGBUPRN,
	b6.NamespacePrivate,
	b6.NamespaceGBOSMapBuildings,
}

// 64-bit boundary alphabet: 0, all 2^k, 2^k±1, all-ones prefixes, decimal
// boundaries 10^k, 10^k-1 (digit-count changes matter to the text forms).
func valueAlphabet() []uint64 {
	seen := map[uint64]bool{}
	var out []uint64
	add := func(v uint64) {
		if !seen[v] {
			seen[v] = true
			out = append(out, v)
		}
	}
	add(0)
	for k := 0; k < 64; k++ {
		add(uint64(1) << k)
		add(uint64(1)<<k - 1)
		add(uint64(1)<<k + 1)
		add(^uint64(0) << k)
		add(^uint64(0)<<k - 1)
	}
	p := uint64(1)
	for k := 0; k < 20; k++ {
		add(p)
		add(p - 1)
		add(p + 1)
		if k < 19 {
			p *= 10
		}
	}
	add(^uint64(0))
	add(3501612811) // a real OSM node id
	sort.Slice(out, func(i, j int) bool { return out[i] < out[j] })
	return out
}

func typeName(t b6.FeatureType) string { return t.String() }

// Message throttling: at most 3 formatted violations per class and case and 9
// per class and worker process, so that the kit's per-chunk / per-run caps
// never lose a class; every occurrence is still counted (counter
// "violations:<class>"). A replay runs in a fresh process and shows the message.
var perCase = map[string]int{}
var perProcess = map[string]int{}

func violate(r *kit.Result, class, format string, a ...interface{}) {
	r.Count("violations:"+class, 1)
	perCase[class]++
	perProcess[class]++
	if perCase[class] <= 3 && perProcess[class] <= 9 {
		r.Violate(class, format, a...)
	}
}

// ---------------------------------------------------------------- part E

func checkEncodings(r *kit.Result, id b6.FeatureID) {
	// text
	s := id.String()
	if got := b6.FeatureIDFromString(s); got != id {
		violate(r, "text:FeatureIDFromString(String)", "id %#v String()=%q parses to %#v", id, s, got)
	}
	if got := b6.FeatureIDFromString("/" + s); got != id {
		violate(r, "text:FeatureIDFromString(/String)", "id %#v \"/\"+String()=%q parses to %#v", id, "/"+s, got)
	}
	// JSON (direct and as a struct field)
	if b, err := json.Marshal(id); err != nil {
		violate(r, "json:marshal-error", "id %#v: %v", id, err)
	} else {
		var got b6.FeatureID
		if err := json.Unmarshal(b, &got); err != nil || got != id {
			violate(r, "json:roundtrip", "id %#v -> %s -> %#v err=%v", id, b, got, err)
		}
	}
	type wrap struct {
		ID  b6.FeatureID
		IDs []b6.FeatureID
	}
	if b, err := json.Marshal(wrap{ID: id, IDs: []b6.FeatureID{id}}); err != nil {
		violate(r, "json:marshal-error", "wrapped id %#v: %v", id, err)
	} else {
		var got wrap
		if err := json.Unmarshal(b, &got); err != nil || got.ID != id || len(got.IDs) != 1 || got.IDs[0] != id {
			violate(r, "json:roundtrip-field", "id %#v -> %s -> %#v err=%v", id, b, got, err)
		}
	}
	// YAML
	if b, err := yaml.Marshal(id); err != nil {
		violate(r, "yaml:marshal-error", "id %#v: %v", id, err)
	} else {
		var got b6.FeatureID
		if err := yaml.Unmarshal(b, &got); err != nil || got != id {
			violate(r, "yaml:roundtrip", "id %#v -> %q -> %#v err=%v", id, b, got, err)
		}
	}
	if b, err := yaml.Marshal(wrap{ID: id, IDs: []b6.FeatureID{id}}); err != nil {
		violate(r, "yaml:marshal-error", "wrapped id %#v: %v", id, err)
	} else {
		var got wrap
		if err := yaml.Unmarshal(b, &got); err != nil || got.ID != id || len(got.IDs) != 1 || got.IDs[0] != id {
			violate(r, "yaml:roundtrip-field", "id %#v -> %q -> %#v err=%v", id, b, got, err)
		}
	}
	// typed IDs (YAML is their only own encoding)
	switch id.Type {
	case b6.FeatureTypeArea:
		a := id.ToAreaID()
		if a.FeatureID() != id {
			violate(r, "typed:AreaID", "id %#v ToAreaID().FeatureID()=%#v", id, a.FeatureID())
		}
		if b, err := yaml.Marshal(a); err == nil {
			var got b6.AreaID
			if err := yaml.Unmarshal(b, &got); err != nil || got != a {
				violate(r, "yaml:roundtrip-AreaID", "%#v -> %q -> %#v err=%v", a, b, got, err)
			}
		} else {
			violate(r, "yaml:marshal-error", "%#v: %v", a, err)
		}
	case b6.FeatureTypeRelation:
		a := id.ToRelationID()
		if a.FeatureID() != id {
			violate(r, "typed:RelationID", "id %#v ToRelationID().FeatureID()=%#v", id, a.FeatureID())
		}
		if b, err := yaml.Marshal(a); err == nil {
			var got b6.RelationID
			if err := yaml.Unmarshal(b, &got); err != nil || got != a {
				violate(r, "yaml:roundtrip-RelationID", "%#v -> %q -> %#v err=%v", a, b, got, err)
			}
		} else {
			violate(r, "yaml:marshal-error", "%#v: %v", a, err)
		}
	case b6.FeatureTypeCollection:
		a := id.ToCollectionID()
		if a.FeatureID() != id {
			violate(r, "typed:CollectionID", "id %#v ToCollectionID().FeatureID()=%#v", id, a.FeatureID())
		}
		if b, err := yaml.Marshal(a); err == nil {
			var got b6.CollectionID
			if err := yaml.Unmarshal(b, &got); err != nil || got != a {
				violate(r, "yaml:roundtrip-CollectionID", "%#v -> %q -> %#v err=%v", a, b, got, err)
			}
		} else {
			violate(r, "yaml:marshal-error", "%#v: %v", a, err)
		}
	}
	// proto: struct level and through the wire
	p := b6.NewProtoFromFeatureID(id)
	if got := b6.NewFeatureIDFromProto(p); got != id {
		violate(r, "proto:roundtrip", "id %#v -> %v -> %#v", id, p, got)
	}
	if b, err := proto.Marshal(p); err != nil {
		violate(r, "proto:marshal-error", "id %#v: %v", id, err)
	} else {
		var q pb.FeatureIDProto
		if err := proto.Unmarshal(b, &q); err != nil {
			violate(r, "proto:unmarshal-error", "id %#v: %v", id, err)
		} else if got := b6.NewFeatureIDFromProto(&q); got != id {
			violate(r, "proto:wire-roundtrip", "id %#v -> %x -> %#v", id, b, got)
		}
	}
	// shell token, both print modes
	for _, abbreviate := range []bool{false, true} {
		checkToken(r, id, abbreviate, "value-alphabet")
	}
}

// aliasOf names the alias UnparseFeatureID(id, true) is documented to use, by
// the table in the statement (independent of the code's table).
func aliasOf(id b6.FeatureID) string {
	switch {
	case id.Type == b6.FeatureTypePoint && id.Namespace == b6.NamespaceOSMNode:
		return "/n/"
	case id.Type == b6.FeatureTypePath && id.Namespace == b6.NamespaceOSMWay:
		return "/w/"
	case id.Type == b6.FeatureTypeArea && id.Namespace == b6.NamespaceOSMWay:
		return "/a/"
	case id.Type == b6.FeatureTypeRelation && id.Namespace == b6.NamespaceOSMRelation:
		return "/r/"
	case id.Type == b6.FeatureTypeArea && id.Namespace == b6.NamespaceUKONSBoundaries:
		return "/uk/ons/"
	case id.Type == b6.FeatureTypePoint && id.Namespace == b6.NamespaceGBCodePoint:
		return "/gb/codepoint/"
	case id.Type == b6.FeatureTypePoint && id.Namespace == b6.NamespaceGBUPRN:
		return "/gb/uprn/"
	}
	return "full"
}

// checkToken: print with UnparseFeatureID and parse back with ParseFeatureIDToken.
// Returns the printed token.
func checkToken(r *kit.Result, id b6.FeatureID, abbreviate bool, origin string) string {
	var tok string
	var got b6.FeatureID
	var err error
	form := "full"
	if abbreviate {
		form = aliasOf(id)
	}
	cls, msg := kit.Catch(func() {
		tok = api.UnparseFeatureID(id, abbreviate)
		got, err = api.ParseFeatureIDToken(tok)
	})
	if cls != "" {
		violate(r, "token:"+form+":"+cls, "id %#v abbreviate=%v token %q: %s", id, abbreviate, tok, msg)
		return tok
	}
	if err != nil || got != id {
		sub := "wrong-id"
		if err != nil {
			sub = "parse-error"
		} else if !got.IsValid() {
			sub = "parses-to-invalid-without-error"
		}
		violate(r, "token:"+form+":"+sub+":"+origin, "id %#v abbreviate=%v prints %q which parses to %#v err=%v", id, abbreviate, tok, got, err)
	}
	r.AddOutcome("token:" + form)
	return tok
}

// ---------------------------------------------------------------- part A

type aliasCase struct {
	prefix string
	t      b6.FeatureType
	ns     b6.Namespace
}

var aliasCases = []aliasCase{
	{"/n/", b6.FeatureTypePoint, b6.NamespaceOSMNode},
	{"/w/", b6.FeatureTypePath, b6.NamespaceOSMWay},
	{"/a/", b6.FeatureTypeArea, b6.NamespaceOSMWay},
	{"/r/", b6.FeatureTypeRelation, b6.NamespaceOSMRelation},
	{"/gb/uprn/", b6.FeatureTypePoint, b6.NamespaceGBUPRN},
	{"/uk/ons/", b6.FeatureTypeArea, b6.NamespaceUKONSBoundaries},
	{"/gb/codepoint/", b6.FeatureTypePoint, b6.NamespaceGBCodePoint},
}

var realPostcodes = []string{"SW1A1AA", "N19GU", "EC1A1BB", "M11AE", "B338TH", "CR26XH", "DN551PT", "W1A0AX", "E20AA", "AB101XG"}

func postcodeAlphabet(tier string) []byte {
	if tier == "thorough" {
		return []byte("0189ABYZ")
	}
	return []byte("09AZ")
}

// all strings of length n over alphabet, index-addressed
func nthString(alpha []byte, n int, i int64) string {
	b := make([]byte, n)
	for j := n - 1; j >= 0; j-- {
		b[j] = alpha[i%int64(len(alpha))]
		i /= int64(len(alpha))
	}
	return string(b)
}

func pow(b, e int) int64 {
	p := int64(1)
	for i := 0; i < e; i++ {
		p *= int64(b)
	}
	return p
}

var onsLetters = []byte("AEKNSWZ")
var onsNumbers = []int{0, 1, 9, 1000953, 9999999, 10000000, 12345678, 99999999}
var onsYears = []int{1900, 1901, 1999, 2000, 2011, 2021, 2027, 2028, 2155}

// ---------------------------------------------------------------- part O

// refLess is the reference order: lexicographic on (type ordinal, namespace
// bytes, value) — what a sorted namespace table plus (type<<13|ns, value)
// ordering in the compact index realises.
func refCmp(a, b b6.FeatureID) int {
	if a.Type != b.Type {
		if a.Type < b.Type {
			return -1
		}
		return 1
	}
	if c := strings.Compare(string(a.Namespace), string(b.Namespace)); c != 0 {
		return c
	}
	if a.Value != b.Value {
		if a.Value < b.Value {
			return -1
		}
		return 1
	}
	return 0
}

func orderMenu(tier string) []b6.FeatureID {
	nss := []b6.Namespace{"", "a", "a/b", "a.b", "b", b6.NamespaceOSMNode, b6.NamespaceOSMWay, b6.NamespaceGBCodePoint}
	vals := []uint64{0, 1, 2, 1 << 63, ^uint64(0)}
	if tier == "thorough" {
		nss = append(nss, "a/", "a0", "A", b6.NamespaceOSMRelation, b6.NamespacePrivate, "ü")
		vals = []uint64{0, 1, 2, 1<<31 - 1, 1 << 31, 1 << 32, 1<<63 - 1, 1 << 63, ^uint64(0)}
	}
	var ids []b6.FeatureID
	for _, t := range allTypes {
		for _, ns := range nss {
			for _, v := range vals {
				ids = append(ids, b6.FeatureID{Type: t, Namespace: ns, Value: v})
			}
		}
	}
	return ids
}

// namespace tables in several insertion orders (the table sorts itself)
func tables(ids []b6.FeatureID) []*compact.NamespaceTable {
	seen := map[b6.Namespace]bool{}
	var nss []b6.Namespace
	for _, id := range ids {
		if id.Namespace != "" && !seen[id.Namespace] {
			seen[id.Namespace] = true
			nss = append(nss, id.Namespace)
		}
	}
	sorted := append([]b6.Namespace{}, nss...)
	sort.Slice(sorted, func(i, j int) bool { return sorted[i] < sorted[j] })
	rev := make([]b6.Namespace, len(sorted))
	for i := range sorted {
		rev[len(sorted)-1-i] = sorted[i]
	}
	rot := append(append([]b6.Namespace{}, nss[len(nss)/2:]...), nss[:len(nss)/2]...)
	var out []*compact.NamespaceTable
	for _, order := range [][]b6.Namespace{nss, sorted, rev, rot} {
		nt := &compact.NamespaceTable{}
		nt.FillFromNamespaces(order)
		out = append(out, nt)
	}
	// and one restored from its serialised header, as a reader of an index sees it
	var h pb.CompactHeaderProto
	out[0].FillProto(&h)
	nt := &compact.NamespaceTable{}
	nt.FillFromProto(&h)
	out = append(out, nt)
	return out
}

func compactLess(nt *compact.NamespaceTable, a, b b6.FeatureID) (less bool, backA, backB b6.FeatureID) {
	var f compact.FeatureIDs
	f.Append(compact.EncodeFeatureID(a, nt))
	f.Append(compact.EncodeFeatureID(b, nt))
	return f.Less(0, 1), nt.DecodeID(f.At(0)), nt.DecodeID(f.At(1))
}

func main() {
	values := valueAlphabet()
	kit.Main(&kit.Check{
		ID:    "C31",
		Level: "exploration",
		Rule: "E: every (type, namespace) of the menus x every value of the 64-bit boundary alphabet, all encodings (text, JSON, YAML, proto struct+wire, typed IDs, shell token full+abbreviated); non-trivial = IsValid() id. " +
			"A: every alias x value alphabet; every postcode of length 5..7 over the boundary character alphabet + real postcodes; every ONS code letter x number x year of the menus. " +
			"O: all pairs (irreflexive, asymmetric, total, equal to the reference lexicographic order and to compact.FeatureIDs.Less under every namespace-table insertion order) and all triples (transitive) of the order menu.",
		Assumptions: []string{
			"valid feature ID = FeatureID.IsValid() (non-empty namespace, type other than invalid); invalid IDs are enumerated but only counted",
			"64-bit values are covered by a boundary alphabet (2^k, 2^k±1, all-ones prefixes, 10^k, 10^k±1), not all 2^64 values",
			"the compact index's order is compact.FeatureIDs.Less over EncodeFeatureID with a NamespaceTable filled by FillFromNamespaces (fewer than 8192 namespaces)",
			"namespaces are valid UTF-8 without control characters",
		},
		Build: func(tier string) (kit.Space, string) {
			// part E cases: (type, ns)
			type tn struct {
				t  b6.FeatureType
				ns b6.Namespace
			}
			var eCases []tn
			for _, ns := range nsMenu {
				for _, t := range allTypes {
					eCases = append(eCases, tn{t, ns})
				}
			}
			nE := int64(len(eCases))
			// part A cases
			nAliasVals := int64(len(aliasCases))
			alpha := postcodeAlphabet(tier)
			const pcBlock = 1024
			type pcCase struct {
				n      int
				lo, hi int64
			}
			var pcCases []pcCase
			for n := 5; n <= 7; n++ {
				tot := pow(len(alpha), n)
				for lo := int64(0); lo < tot; lo += pcBlock {
					hi := lo + pcBlock
					if hi > tot {
						hi = tot
					}
					pcCases = append(pcCases, pcCase{n, lo, hi})
				}
			}
			nPC := int64(len(pcCases)) + 1 // +1: real postcodes
			nONS := int64(len(onsLetters))
			// part O
			menu := orderMenu(tier)
			nts := tables(menu)
			nO := int64(len(menu)) // case = first element a; enumerates all b (pairs) and all (b,c) (triples)

			total := nE + nAliasVals + nPC + nONS + nO
			bound := fmt.Sprintf("E: %d types x %d namespaces x %d values; A: %d aliases x %d values, postcodes len 5..7 over %q (%d) + %d real, ONS %d letters x %d numbers x %d years; O: %d ids (%d pairs, %d triples) x %d namespace tables",
				len(allTypes), len(nsMenu), len(values), len(aliasCases), len(values), alpha, pow(len(alpha), 5)+pow(len(alpha), 6)+pow(len(alpha), 7), len(realPostcodes),
				len(onsLetters), len(onsNumbers), len(onsYears), len(menu), len(menu)*len(menu), len(menu)*len(menu)*len(menu), len(nts))

			return kit.FuncSpace{N: total, F: func(i int64) kit.Result {
				var r kit.Result
				for k := range perCase {
					delete(perCase, k)
				}
				switch {
				case i < nE:
					c := eCases[i]
					for _, v := range values {
						id := b6.FeatureID{Type: c.t, Namespace: c.ns, Value: v}
						r.Evals++
						if !id.IsValid() {
							r.AddOutcome("invalid-id:" + typeName(c.t))
							continue
						}
						before := len(r.Violations)
						checkEncodings(&r, id)
						r.Distinct++
						if len(r.Violations) == before {
							r.AddOutcome("roundtrip-ok:" + typeName(c.t))
						} else {
							r.AddOutcome("roundtrip-violated:" + typeName(c.t))
						}
					}
					if i == 8 || i == 23 {
						r.Sample = map[string]interface{}{"part": "E", "type": typeName(c.t), "namespace": string(c.ns), "values": len(values),
							"example": b6.FeatureID{Type: c.t, Namespace: c.ns, Value: values[len(values)/2]}.String()}
					}
					return r
				case i < nE+nAliasVals:
					ac := aliasCases[i-nE]
					for _, v := range values {
						id := b6.FeatureID{Type: ac.t, Namespace: ac.ns, Value: v}
						r.Evals++
						r.Distinct++
						tok := checkToken(&r, id, true, "value-alphabet")
						if !strings.HasPrefix(tok, ac.prefix) {
							r.AddOutcome("alias-not-used:" + ac.prefix)
						}
					}
					r.Sample = map[string]interface{}{"part": "A", "alias": ac.prefix, "values": len(values)}
					return r
				case i < nE+nAliasVals+nPC:
					j := i - nE - nAliasVals
					var pcs []string
					if j == 0 {
						pcs = realPostcodes
						for _, p := range realPostcodes { // spaced and lower-case spellings construct the same ID
							pcs = append(pcs, strings.ToLower(p), p[:len(p)-3]+" "+p[len(p)-3:])
						}
					} else {
						c := pcCases[j-1]
						for k := c.lo; k < c.hi; k++ {
							pcs = append(pcs, nthString(alpha, c.n, k))
						}
					}
					for _, pc := range pcs {
						r.Evals++
						id := b6.PointIDFromGBPostcode(pc)
						if !id.IsValid() {
							violate(&r, "postcode:constructor-rejects", "PointIDFromGBPostcode(%q) = %#v (invalid) for a well-formed %d-character alphanumeric postcode", pc, id, len(pc))
							continue
						}
						r.Distinct++
						tok := checkToken(&r, id, true, "postcode")
						if !strings.HasPrefix(tok, "/gb/codepoint/") {
							r.AddOutcome("alias-not-used:/gb/codepoint/")
						}
						r.AddOutcome(fmt.Sprintf("postcode:len%d", len(strings.ReplaceAll(pc, " ", ""))))
					}
					if j == 0 {
						r.Sample = map[string]interface{}{"part": "A", "postcodes": pcs[:6]}
					}
					return r
				case i < nE+nAliasVals+nPC+nONS:
					letter := onsLetters[i-nE-nAliasVals-nPC]
					for _, n := range onsNumbers {
						for _, y := range onsYears {
							code := fmt.Sprintf("%c%08d", letter, n)
							r.Evals++
							id := b6.FeatureIDFromUKONSCode(code, y, b6.FeatureTypeArea)
							if !id.IsValid() {
								violate(&r, "ons:constructor-rejects", "FeatureIDFromUKONSCode(%q, %d, area) = %#v (invalid)", code, y, id)
								continue
							}
							r.Distinct++
							tok := checkToken(&r, id, true, "ons-code")
							if !strings.HasPrefix(tok, "/uk/ons/") {
								r.AddOutcome("alias-not-used:/uk/ons/")
							}
							// the other types carry ONS codes too; they print in full form
							for _, t := range []b6.FeatureType{b6.FeatureTypePoint, b6.FeatureTypeRelation, b6.FeatureTypeCollection} {
								r.Evals++
								id2 := b6.FeatureIDFromUKONSCode(code, y, t)
								checkToken(&r, id2, true, "ons-code")
							}
						}
					}
					r.Sample = map[string]interface{}{"part": "A", "ons_letter": string(letter), "numbers": onsNumbers, "years": onsYears}
					return r
				default:
					ai := i - nE - nAliasVals - nPC - nONS
					a := menu[ai]
					if a.Less(a) {
						violate(&r, "Less:reflexive", "%#v.Less(itself) is true", a)
					}
					lessAB := make([]bool, len(menu))
					for bi, b := range menu {
						ab, ba := a.Less(b), b.Less(a)
						lessAB[bi] = ab
						r.Evals++
						ref := refCmp(a, b)
						switch {
						case ab && ba:
							violate(&r, "Less:not-asymmetric", "%#v and %#v are each Less than the other", a, b)
						case !ab && !ba && a != b:
							violate(&r, "Less:not-total", "distinct %#v and %#v: neither is Less", a, b)
						case ab != (ref < 0):
							violate(&r, "Less:differs-from-lexicographic(type,namespace,value)", "%#v.Less(%#v)=%v, reference compare=%d", a, b, ab, ref)
						}
						for ti, nt := range nts {
							var cl bool
							var da, db b6.FeatureID
							cls, msg := kit.Catch(func() { cl, da, db = compactLess(nt, a, b) })
							if cls != "" {
								violate(&r, "compact:"+cls, "table %d, %#v, %#v: %s", ti, a, b, msg)
								continue
							}
							if da != a || db != b {
								violate(&r, "compact:encode-decode-id", "table %d: %#v,%#v decode back as %#v,%#v", ti, a, b, da, db)
							}
							if cl != ab {
								violate(&r, "compact:order-differs-from-Less", "table %d: compact.FeatureIDs.Less=%v but %#v.Less(%#v)=%v", ti, cl, a, b, ab)
							}
						}
						if ab {
							r.AddOutcome("pair:less")
						} else if ba {
							r.AddOutcome("pair:greater")
						} else {
							r.AddOutcome("pair:equal")
						}
					}
					// triples: a<b && b<c => a<c ; also a<b => !(c<a && b<c ...) is implied by the pair checks of other cases
					var bad int
					for bi, b := range menu {
						if !lessAB[bi] {
							continue
						}
						for ci, c := range menu {
							r.Evals++
							if b.Less(c) && !lessAB[ci] {
								if bad < 3 {
									violate(&r, "Less:not-transitive", "%#v < %#v < %#v but not a < c", a, b, c)
								}
								bad++
							}
						}
					}
					r.Nontrivial = true
					r.Key = a.String()
					if ai == 7 {
						r.Sample = map[string]interface{}{"part": "O", "a": a.String(), "menu": len(menu), "tables": len(nts)}
					}
					return r
				}
			}}, bound
		},
	})
}
