// C32 — GeoJSON geometry round-trips and imports faithfully.
//
// Engine E1 (bounded-exhaustive input enumeration against the real
// geojson package and the real ingest change machinery).
//
// Part A (round trip): every geometry of each of the six kinds from a bounded
// family on a small coordinate grid (plus a menu of extreme finite floats for
// points) is
//
//	A1 marshalled with encoding/json and the text is decoded by a generic JSON
//	   decode and compared with the independently built RFC 7946 structure
//	   ({"type": kind, "coordinates": nested [lng,lat] arrays});
//	A2 unmarshalled again with encoding/json into geojson.Geometry;
//	A3 unmarshalled with geojson.Unmarshal (bare geometry);
//	A4 / A5 wrapped in a Feature / FeatureCollection, marshalled, and
//	   unmarshalled with geojson.Unmarshal;
//	A6 written as text by the harness' own serializer (other key order and
//	   whitespace) and unmarshalled both ways;
//
// and the coordinates must come back identical (float64 equality).
//
// Part B (import): every feature collection up to a length bound over a menu
// of valid geometries x property maps is imported with
// AddFeatures.FillFromGeoJSON + Apply into a BasicMutableWorld and into a
// MutableOverlayWorld, reaching the importer (i) with the Go value, (ii)
// through geojson.Unmarshal of the JSON text, (iii) through json.Unmarshal into
// a FeatureCollection (what import-geojson-file does) and (iv) through the b6
// VM: import-geojson (parse-geojson text) namespace.
// Oracle: for every GeoJSON feature i of a kind the importer supports (Point,
// LineString, Polygon, MultiPolygon — established from fillFromFeature) the
// world has exactly one feature with ID (type, namespace, i) whose geometry has
// the same vertices (rings modulo closure, start vertex and direction; shell /
// hole role preserved; coordinates within 1e-7 degrees, the precision b6
// stores points at) and whose tags are exactly the properties; nothing else is
// added. MultiPoint / MultiLineString features have no b6 feature type and no
// case in the importer: "skipped" is reported as an outcome class, and it is
// checked that the skip neither produces a feature nor disturbs the IDs and
// content of the other features.
package main

import (
	"encoding/json"
	"fmt"
	"math"
	"reflect"
	"sort"
	"strconv"
	"strings"
	"sync"

	"diagonal.works/b6"
	"diagonal.works/b6/api"
	"diagonal.works/b6/api/functions"
	"diagonal.works/b6/geojson"
	"diagonal.works/b6/ingest"
	"github.com/golang/geo/s2"
	"verif/kit"
)

// ---------- harness geometry model ----------

type pt struct{ lng, lat float64 }

type geom struct {
	kind  string
	name  string
	point pt       // Point
	line  []pt     // MultiPoint, LineString
	lines [][]pt   // MultiLineString, Polygon (rings)
	polys [][][]pt // MultiPolygon
}

func coord(p pt) geojson.Coordinate { return geojson.Coordinate{Lat: p.lat, Lng: p.lng} }

func coords(l []pt) []geojson.Coordinate {
	out := make([]geojson.Coordinate, len(l))
	for i, p := range l {
		out[i] = coord(p)
	}
	return out
}

func coords2(l [][]pt) [][]geojson.Coordinate {
	out := make([][]geojson.Coordinate, len(l))
	for i, p := range l {
		out[i] = coords(p)
	}
	return out
}

func (g *geom) toGeoJSON() geojson.Geometry {
	switch g.kind {
	case "Point":
		return geojson.GeometryFromPoint(geojson.Point(coord(g.point)))
	case "MultiPoint":
		return geojson.Geometry{Type: "MultiPoint", Coordinates: geojson.MultiPoint(coords(g.line))}
	case "LineString":
		return geojson.GeometryFromLineString(coords(g.line))
	case "MultiLineString":
		return geojson.GeometryFromMultiLineString(coords2(g.lines))
	case "Polygon":
		return geojson.GeometryFromPolygon(geojson.Polygon(coords2(g.lines)))
	case "MultiPolygon":
		mp := make(geojson.MultiPolygon, len(g.polys))
		for i, p := range g.polys {
			mp[i] = coords2(p)
		}
		return geojson.GeometryFromMultiPolygon(mp)
	}
	panic("kind " + g.kind)
}

func fromCoords(l []geojson.Coordinate) []pt {
	out := make([]pt, len(l))
	for i, c := range l {
		out[i] = pt{c.Lng, c.Lat}
	}
	return out
}

func fromCoords2(l [][]geojson.Coordinate) [][]pt {
	out := make([][]pt, len(l))
	for i, c := range l {
		out[i] = fromCoords(c)
	}
	return out
}

// fromGeoJSON converts what the package returned into the harness model.
func fromGeoJSON(g geojson.Geometry) (geom, error) {
	out := geom{kind: g.Type}
	switch c := g.Coordinates.(type) {
	case geojson.Point:
		out.point = pt{c.Lng, c.Lat}
		if g.Type != "Point" {
			return out, fmt.Errorf("type %q carries Point coordinates", g.Type)
		}
	case geojson.MultiPoint:
		out.line = fromCoords(c)
		if g.Type != "MultiPoint" {
			return out, fmt.Errorf("type %q carries MultiPoint coordinates", g.Type)
		}
	case geojson.LineString:
		out.line = fromCoords(c)
		if g.Type != "LineString" {
			return out, fmt.Errorf("type %q carries LineString coordinates", g.Type)
		}
	case geojson.MultiLineString:
		out.lines = fromCoords2(c)
		if g.Type != "MultiLineString" {
			return out, fmt.Errorf("type %q carries MultiLineString coordinates", g.Type)
		}
	case geojson.Polygon:
		out.lines = fromCoords2(c)
		if g.Type != "Polygon" {
			return out, fmt.Errorf("type %q carries Polygon coordinates", g.Type)
		}
	case geojson.MultiPolygon:
		out.polys = make([][][]pt, len(c))
		for i, p := range c {
			out.polys[i] = fromCoords2(p)
		}
		if g.Type != "MultiPolygon" {
			return out, fmt.Errorf("type %q carries MultiPolygon coordinates", g.Type)
		}
	default:
		return out, fmt.Errorf("type %q carries coordinates of Go type %T", g.Type, g.Coordinates)
	}
	return out, nil
}

func eqPt(a, b pt) bool { return a.lng == b.lng && a.lat == b.lat }

func eqLine(a, b []pt) bool {
	if len(a) != len(b) {
		return false
	}
	for i := range a {
		if !eqPt(a[i], b[i]) {
			return false
		}
	}
	return true
}

func eqLines(a, b [][]pt) bool {
	if len(a) != len(b) {
		return false
	}
	for i := range a {
		if !eqLine(a[i], b[i]) {
			return false
		}
	}
	return true
}

func sameGeom(a, b *geom) bool {
	if a.kind != b.kind {
		return false
	}
	switch a.kind {
	case "Point":
		return eqPt(a.point, b.point)
	case "MultiPoint", "LineString":
		return eqLine(a.line, b.line)
	case "MultiLineString", "Polygon":
		return eqLines(a.lines, b.lines)
	case "MultiPolygon":
		if len(a.polys) != len(b.polys) {
			return false
		}
		for i := range a.polys {
			if !eqLines(a.polys[i], b.polys[i]) {
				return false
			}
		}
		return true
	}
	return false
}

// rfc returns the generic-JSON structure RFC 7946 prescribes for "coordinates".
func rfcPt(p pt) interface{} { return []interface{}{p.lng, p.lat} }
func rfcLine(l []pt) interface{} {
	out := make([]interface{}, len(l))
	for i, p := range l {
		out[i] = rfcPt(p)
	}
	return out
}
func rfcLines(l [][]pt) interface{} {
	out := make([]interface{}, len(l))
	for i, p := range l {
		out[i] = rfcLine(p)
	}
	return out
}
func (g *geom) rfc() interface{} {
	switch g.kind {
	case "Point":
		return rfcPt(g.point)
	case "MultiPoint", "LineString":
		return rfcLine(g.line)
	case "MultiLineString", "Polygon":
		return rfcLines(g.lines)
	}
	out := make([]interface{}, len(g.polys))
	for i, p := range g.polys {
		out[i] = rfcLines(p)
	}
	return out
}

// text is the harness' own serializer: coordinates first, extra whitespace.
func num(f float64) string { return strconv.FormatFloat(f, 'g', -1, 64) }
func textPt(p pt) string    { return "[ " + num(p.lng) + " ,\n" + num(p.lat) + " ]" }
func textLine(l []pt) string {
	s := make([]string, len(l))
	for i, p := range l {
		s[i] = textPt(p)
	}
	return "[" + strings.Join(s, ", ") + "]"
}
func textLines(l [][]pt) string {
	s := make([]string, len(l))
	for i, p := range l {
		s[i] = textLine(p)
	}
	return "[" + strings.Join(s, ",\t") + "]"
}
func (g *geom) text() string {
	var c string
	switch g.kind {
	case "Point":
		c = textPt(g.point)
	case "MultiPoint", "LineString":
		c = textLine(g.line)
	case "MultiLineString", "Polygon":
		c = textLines(g.lines)
	default:
		s := make([]string, len(g.polys))
		for i, p := range g.polys {
			s[i] = textLines(p)
		}
		c = "[" + strings.Join(s, ",") + "]"
	}
	return "{ \"coordinates\" : " + c + " ,\n  \"type\": \"" + g.kind + "\" }"
}

func (g *geom) String() string {
	return strings.Join(strings.Fields(g.text()), "")
}

func (g *geom) positions() int {
	n := 0
	switch g.kind {
	case "Point":
		n = 1
	case "MultiPoint", "LineString":
		n = len(g.line)
	case "MultiLineString", "Polygon":
		for _, l := range g.lines {
			n += len(l)
		}
	default:
		for _, p := range g.polys {
			for _, l := range p {
				n += len(l)
			}
		}
	}
	return n
}

// ---------- part A ----------

func unmarshalClass(kind string, err error) string {
	return "rejects-" + kind
}

// roundTrip runs A1..A6 on one geometry.
func roundTrip(r *kit.Result, g *geom) {
	G := g.toGeoJSON()
	fail := func(class, format string, a ...interface{}) {
		r.Violate(class, "%s: %s", g.String(), fmt.Sprintf(format, a...))
	}
	compare := func(step string, got geojson.Geometry) bool {
		back, err := fromGeoJSON(got)
		if err != nil {
			fail(step+":"+g.kind+":wrong-go-type", "%v", err)
			return false
		}
		if !sameGeom(g, &back) {
			fail(step+":"+g.kind+":coordinates-differ", "came back as %s", back.String())
			return false
		}
		return true
	}
	ok := true
	// A1
	b, err := json.Marshal(G)
	r.Evals++
	if err != nil {
		fail("A1:json.Marshal:"+g.kind+":error", "%v", err)
		r.AddOutcome("A:" + g.kind + ":marshal-error")
		return
	}
	var generic map[string]interface{}
	if err := json.Unmarshal(b, &generic); err != nil {
		fail("A1:json.Marshal:"+g.kind+":invalid-json", "%s: %v", b, err)
		return
	}
	if generic["type"] != g.kind || !reflect.DeepEqual(generic["coordinates"], g.rfc()) || len(generic) != 2 {
		fail("A1:json.Marshal:"+g.kind+":not-rfc7946", "marshalled to %s", b)
		ok = false
	}
	// A2
	var G2 geojson.Geometry
	r.Evals++
	if err := json.Unmarshal(b, &G2); err != nil {
		fail("A2:json.Unmarshal:"+unmarshalClass(g.kind, err), "%s: %v", b, err)
		ok = false
	} else if !compare("A2:json.Unmarshal", G2) {
		ok = false
	}
	// A3
	r.Evals++
	if u, err := geojson.Unmarshal(b); err != nil {
		fail("A3:geojson.Unmarshal:"+unmarshalClass(g.kind, err), "%s: %v", b, err)
		ok = false
	} else if gg, isG := u.(*geojson.Geometry); !isG {
		fail("A3:geojson.Unmarshal:"+g.kind+":wrong-go-type", "returned %T", u)
		ok = false
	} else if !compare("A3:geojson.Unmarshal", *gg) {
		ok = false
	}
	// A4
	r.Evals++
	if fb, err := json.Marshal(geojson.NewFeatureWithGeometry(G)); err != nil {
		fail("A4:feature:"+g.kind+":marshal-error", "%v", err)
		ok = false
	} else if u, err := geojson.Unmarshal(fb); err != nil {
		fail("A4:feature:"+unmarshalClass(g.kind, err), "%s: %v", fb, err)
		ok = false
	} else if f, isF := u.(*geojson.Feature); !isF {
		fail("A4:feature:"+g.kind+":wrong-go-type", "returned %T", u)
		ok = false
	} else if !compare("A4:feature", f.Geometry) {
		ok = false
	}
	// A5
	r.Evals++
	fc := geojson.NewFeatureCollection()
	fc.AddFeature(geojson.NewFeatureWithGeometry(G))
	fc.AddFeature(geojson.NewFeatureWithGeometry(G))
	if cb, err := json.Marshal(fc); err != nil {
		fail("A5:collection:"+g.kind+":marshal-error", "%v", err)
		ok = false
	} else if u, err := geojson.Unmarshal(cb); err != nil {
		fail("A5:collection:"+unmarshalClass(g.kind, err), "%s: %v", cb, err)
		ok = false
	} else if c, isC := u.(*geojson.FeatureCollection); !isC || len(c.Features) != 2 {
		fail("A5:collection:"+g.kind+":wrong-shape", "returned %T", u)
		ok = false
	} else if !compare("A5:collection", c.Features[0].Geometry) || !compare("A5:collection", c.Features[1].Geometry) {
		ok = false
	}
	// A6
	t := []byte(g.text())
	r.Evals += 2
	var G6 geojson.Geometry
	if err := json.Unmarshal(t, &G6); err != nil {
		fail("A6:text:json.Unmarshal:"+unmarshalClass(g.kind, err), "%s: %v", t, err)
		ok = false
	} else if !compare("A6:text:json.Unmarshal", G6) {
		ok = false
	}
	if u, err := geojson.Unmarshal(t); err != nil {
		fail("A6:text:geojson.Unmarshal:"+unmarshalClass(g.kind, err), "%s: %v", t, err)
		ok = false
	} else if gg, isG := u.(*geojson.Geometry); !isG {
		fail("A6:text:geojson.Unmarshal:"+g.kind+":wrong-go-type", "returned %T", u)
		ok = false
	} else if !compare("A6:text:geojson.Unmarshal", *gg) {
		ok = false
	}
	if ok {
		r.AddOutcome("A:" + g.kind + ":round-trips")
	} else {
		r.AddOutcome("A:" + g.kind + ":violation")
	}
}

// ---------- grids ----------

type placement struct {
	name               string
	lng0, lat0, dx, dy float64
}

var placements = []placement{
	{"around-origin", -0.02, -0.005, 0.01, 0.005},
	{"seattle", -122.5, 47.5, 0.002, 0.001},
}

func (p placement) at(i, j int) pt {
	return pt{p.lng0 + float64(i)*p.dx, p.lat0 + float64(j)*p.dy}
}

type ij struct{ i, j int }

func (p placement) path(v ...ij) []pt {
	out := make([]pt, len(v))
	for k, x := range v {
		out[k] = p.at(x.i, x.j)
	}
	return out
}

func reversed(l []pt) []pt {
	out := make([]pt, len(l))
	for i := range l {
		out[len(l)-1-i] = l[i]
	}
	return out
}

func shift(l []pt, dlng, dlat float64) []pt {
	out := make([]pt, len(l))
	for i, p := range l {
		out[i] = pt{p.lng + dlng, p.lat + dlat}
	}
	return out
}

var extremeFloats = []float64{0, math.Copysign(0, -1), 1e-7, -1e-7, 5e-324, 1e-300, 0.1 + 0.2, 51.5354932, -179.99999999999997, 180, 123456789.12345679, 1e20, 1e21, -1.7976931348623157e308}

// sequences over a point menu up to a length.
func sequences(menu []pt, maxLen int) [][]pt {
	out := [][]pt{{}}
	last := [][]pt{{}}
	for l := 1; l <= maxLen; l++ {
		var next [][]pt
		for _, s := range last {
			for _, p := range menu {
				next = append(next, append(append([]pt{}, s...), p))
			}
		}
		out = append(out, next...)
		last = next
	}
	return out
}

func lists(menu [][]pt, maxLen int) [][][]pt {
	out := [][][]pt{{}}
	last := [][][]pt{{}}
	for l := 1; l <= maxLen; l++ {
		var next [][][]pt
		for _, s := range last {
			for _, p := range menu {
				next = append(next, append(append([][]pt{}, s...), p))
			}
		}
		out = append(out, next...)
		last = next
	}
	return out
}

// partAGeometries: the bounded family for the round trip.
func partAGeometries(tier string) []geom {
	var out []geom
	n, seqLen, listLen := 3, 3, 2
	if tier == "thorough" {
		n, seqLen, listLen = 4, 4, 3
	}
	for _, pl := range placements {
		for i := 0; i < n; i++ {
			for j := 0; j < n; j++ {
				out = append(out, geom{kind: "Point", point: pl.at(i, j)})
			}
		}
	}
	for _, a := range extremeFloats {
		for _, b := range extremeFloats {
			out = append(out, geom{kind: "Point", point: pt{a, b}})
		}
	}
	for pi, pl := range placements {
		menu := []pt{pl.at(0, 0), pl.at(1, 0), pl.at(1, 2), pl.at(0, 1)}
		if tier == "thorough" {
			menu = append(menu, pl.at(3, 3))
		}
		if pi == 1 {
			menu = menu[:3]
		}
		for _, s := range sequences(menu, seqLen) {
			out = append(out, geom{kind: "MultiPoint", line: s}, geom{kind: "LineString", line: s})
		}
		lineMenu := [][]pt{
			{},
			pl.path(ij{0, 0}, ij{1, 0}),
			pl.path(ij{0, 0}, ij{2, 0}, ij{2, 2}, ij{0, 0}),
			pl.path(ij{1, 1}, ij{1, 2}, ij{2, 1}, ij{1, 1}),
			pl.path(ij{0, 3}),
		}
		if pi == 1 {
			lineMenu = lineMenu[1:4]
		}
		ll := lists(lineMenu, listLen+1)
		for _, l := range ll {
			out = append(out, geom{kind: "MultiLineString", lines: l}, geom{kind: "Polygon", lines: l})
		}
		polyMenu := lists(lineMenu[:3], 2)
		if pi == 1 {
			polyMenu = polyMenu[:4]
		}
		// lists of polygons
		pl2 := [][][][]pt{{}}
		last := [][][][]pt{{}}
		for l := 1; l <= listLen; l++ {
			var next [][][][]pt
			for _, s := range last {
				for _, p := range polyMenu {
					next = append(next, append(append([][][]pt{}, s...), p))
				}
			}
			pl2 = append(pl2, next...)
			last = next
		}
		for _, mp := range pl2 {
			out = append(out, geom{kind: "MultiPolygon", polys: mp})
		}
	}
	return out
}

// ---------- part B: menus ----------

// validGeometries: valid GeoJSON geometries for the import.
func validGeometries(pl placement) []geom {
	sq := func(i0, j0, i1, j1 int) []pt { // counter-clockwise in (lng,lat)
		return pl.path(ij{i0, j0}, ij{i1, j0}, ij{i1, j1}, ij{i0, j1}, ij{i0, j0})
	}
	O1 := sq(0, 0, 4, 4)
	O2 := pl.path(ij{0, 0}, ij{4, 0}, ij{0, 4}, ij{0, 0})
	O3 := pl.path(ij{0, 0}, ij{4, 0}, ij{4, 2}, ij{2, 2}, ij{2, 4}, ij{0, 4}, ij{0, 0}) // L shape
	H1 := sq(1, 1, 2, 2)
	H2 := pl.path(ij{3, 2}, ij{3, 3}, ij{2, 3}, ij{3, 2})
	H3 := pl.path(ij{1, 1}, ij{2, 1}, ij{1, 3}, ij{1, 1}) // counter-clockwise, strictly inside the L shape
	far := func(l []pt) []pt { return shift(l, 10*pl.dx, 7*pl.dy) }
	cw := reversed
	gs := []geom{
		{kind: "Point", name: "pt00", point: pl.at(0, 0)},
		{kind: "Point", name: "pt31", point: pl.at(3, 1)},
		{kind: "LineString", name: "ls2", line: pl.path(ij{0, 0}, ij{1, 0})},
		{kind: "LineString", name: "ls3", line: pl.path(ij{0, 0}, ij{1, 0}, ij{1, 2})},
		{kind: "LineString", name: "ls-closed-ccw", line: O2},
		{kind: "LineString", name: "ls-closed-cw", line: cw(O2)},
		{kind: "LineString", name: "ls-out-and-back", line: pl.path(ij{0, 0}, ij{2, 1}, ij{0, 0})},
		{kind: "LineString", name: "ls-repeated-point", line: pl.path(ij{1, 1}, ij{1, 1})},
		{kind: "LineString", name: "ls-self-crossing", line: pl.path(ij{0, 0}, ij{2, 2}, ij{2, 0}, ij{0, 2}, ij{3, 3})},
		{kind: "Polygon", name: "square-ccw", lines: [][]pt{O1}},
		{kind: "Polygon", name: "square-cw", lines: [][]pt{cw(O1)}},
		{kind: "Polygon", name: "triangle", lines: [][]pt{O2}},
		{kind: "Polygon", name: "L-shape", lines: [][]pt{O3}},
		{kind: "Polygon", name: "square+hole(cw)", lines: [][]pt{O1, cw(H1)}},
		{kind: "Polygon", name: "square+hole(ccw)", lines: [][]pt{O1, H1}},
		{kind: "Polygon", name: "square(cw)+hole(ccw)", lines: [][]pt{cw(O1), H1}},
		{kind: "Polygon", name: "square+2holes", lines: [][]pt{O1, cw(H1), cw(H2)}},
		{kind: "Polygon", name: "square+2holes-other-order", lines: [][]pt{O1, H2, cw(H1)}},
		{kind: "Polygon", name: "L+hole", lines: [][]pt{O3, cw(H3)}},
		{kind: "Polygon", name: "no-rings", lines: [][]pt{}},
		{kind: "MultiPolygon", name: "mp-empty", polys: [][][]pt{}},
		{kind: "MultiPolygon", name: "mp-1", polys: [][][]pt{{O2}}},
		{kind: "MultiPolygon", name: "mp-2-disjoint", polys: [][][]pt{{O1, cw(H1)}, {far(O2)}}},
		{kind: "MultiPolygon", name: "mp-3", polys: [][][]pt{{far(cw(O3))}, {O1, cw(H2), H1}, {shift(O2, -8*pl.dx, 0)}}},
		{kind: "MultiPoint", name: "multipoint-2", line: pl.path(ij{0, 0}, ij{1, 1})},
		{kind: "MultiPoint", name: "multipoint-0", line: []pt{}},
		{kind: "MultiLineString", name: "multiline-2", lines: [][]pt{pl.path(ij{0, 0}, ij{1, 0}), pl.path(ij{1, 1}, ij{2, 2}, ij{3, 1})}},
		{kind: "MultiLineString", name: "multiline-1", lines: [][]pt{pl.path(ij{0, 0}, ij{1, 0})}},
	}
	return gs
}

type props struct {
	name string
	m    map[string]string
}

var propMenu = []props{
	{"one", map[string]string{"name": "x"}},
	{"null", nil},
	{"empty", map[string]string{}},
	{"three", map[string]string{"a": "1", "b": "", "": "v"}},
	{"odd", map[string]string{"#amenity": "café =\"q\" \\ \n", "b6:colour": "#ff0000", "Ключ": " "}},
}

// reserved: keys that collide with b6's geometry tags.
var reservedProps = []props{
	{"key-point", map[string]string{"point": "x"}},
	{"key-path", map[string]string{"path": "y", "name": "z"}},
}

type feature struct {
	g geom
	p props
}

func supported(kind string) bool {
	switch kind {
	case "Point", "LineString", "Polygon", "MultiPolygon":
		return true
	}
	return false
}

func (f *feature) String() string {
	return fmt.Sprintf("%s:%s{%s}", f.g.kind, f.g.name, f.p.name)
}

func describe(fs []feature) string {
	s := make([]string, len(fs))
	for i := range fs {
		s[i] = fs[i].String()
	}
	return "[" + strings.Join(s, " ") + "]"
}

func buildCollection(fs []feature) *geojson.FeatureCollection {
	fc := geojson.NewFeatureCollection()
	for i := range fs {
		f := geojson.NewFeatureWithGeometry(fs[i].g.toGeoJSON())
		if fs[i].p.m == nil {
			f.Properties = nil
		} else {
			f.Properties = map[string]string{}
			for k, v := range fs[i].p.m {
				f.Properties[k] = v
			}
		}
		fc.AddFeature(f)
	}
	return fc
}

// ---------- reading the world back ----------

const coordTol = 1e-7 // degrees: the precision b6 stores points at

func near(a pt, ll s2.LatLng) bool {
	return math.Abs(a.lat-ll.Lat.Degrees()) <= coordTol && math.Abs(a.lng-ll.Lng.Degrees()) <= coordTol
}

type e7 struct{ lng, lat int64 }

func toE7(p pt) e7 { return e7{int64(math.Round(p.lng * 1e7)), int64(math.Round(p.lat * 1e7))} }

// canonRing: canonical form of a cyclic vertex sequence modulo rotation and direction.
func canonRing(v []e7) string {
	n := len(v)
	if n == 0 {
		return "()"
	}
	best := ""
	for dir := 0; dir < 2; dir++ {
		for s := 0; s < n; s++ {
			var sb strings.Builder
			for k := 0; k < n; k++ {
				idx := (s + k) % n
				if dir == 1 {
					idx = ((s-k)%n + n) % n
				}
				fmt.Fprintf(&sb, "(%d,%d)", v[idx].lng, v[idx].lat)
			}
			if c := sb.String(); best == "" || c < best {
				best = c
			}
		}
	}
	return best
}

// expectedRings: the rings of a GeoJSON polygon as (canonical cycle, hole?).
func expectedRings(rings [][]pt) []string {
	var out []string
	for i, ring := range rings {
		v := make([]e7, 0, len(ring))
		for _, p := range ring {
			v = append(v, toE7(p))
		}
		if len(v) > 1 && v[0] == v[len(v)-1] {
			v = v[:len(v)-1] // ring closure
		}
		role := "shell"
		if i > 0 {
			role = "hole"
		}
		out = append(out, role+canonRing(v))
	}
	sort.Strings(out)
	return out
}

// observedRings: the loops of an s2 polygon in the same form; dup reports
// whether a loop repeats a vertex consecutively (including last == first).
func observedRings(p *s2.Polygon) (rings []string, dup bool) {
	for i := 0; i < p.NumLoops(); i++ {
		l := p.Loop(i)
		var v []e7
		for k := 0; k < l.NumVertices(); k++ {
			ll := s2.LatLngFromPoint(l.Vertex(k))
			x := toE7(pt{ll.Lng.Degrees(), ll.Lat.Degrees()})
			if len(v) > 0 && v[len(v)-1] == x {
				dup = true
				continue
			}
			v = append(v, x)
		}
		if len(v) > 1 && v[0] == v[len(v)-1] {
			dup = true
			v = v[:len(v)-1]
		}
		role := "shell"
		if l.IsHole() {
			role = "hole"
		}
		rings = append(rings, role+canonRing(v))
	}
	sort.Strings(rings)
	return rings, dup
}

// planarContains: even-odd rule over all rings, in the lng/lat plane (the
// menu's shapes span < 0.1 degrees, where geodesic edges deviate from straight
// lines by < 1e-7 degrees).
func planarContains(rings [][]pt, q pt) bool {
	in := false
	for _, ring := range rings {
		for i := 0; i+1 < len(ring); i++ {
			a, b := ring[i], ring[i+1]
			if (a.lat > q.lat) != (b.lat > q.lat) {
				x := a.lng + (q.lat-a.lat)/(b.lat-a.lat)*(b.lng-a.lng)
				if q.lng < x {
					in = !in
				}
			}
		}
	}
	return in
}

func distToSegment(q, a, b pt) float64 {
	dx, dy := b.lng-a.lng, b.lat-a.lat
	t := 0.0
	if l := dx*dx + dy*dy; l > 0 {
		t = ((q.lng-a.lng)*dx + (q.lat-a.lat)*dy) / l
		t = math.Max(0, math.Min(1, t))
	}
	return math.Hypot(q.lng-(a.lng+t*dx), q.lat-(a.lat+t*dy))
}

// interiorMismatch samples 8x8 points over the polygon's bounding box (plus a
// margin), skips those close to an edge, and compares s2's ContainsPoint with
// the even-odd rule over the GeoJSON rings.
func interiorMismatch(rings [][]pt, p *s2.Polygon) (pt, bool, bool) {
	if len(rings) == 0 || len(rings[0]) == 0 {
		return pt{}, false, false
	}
	lo, hi := rings[0][0], rings[0][0]
	for _, ring := range rings {
		for _, v := range ring {
			lo = pt{math.Min(lo.lng, v.lng), math.Min(lo.lat, v.lat)}
			hi = pt{math.Max(hi.lng, v.lng), math.Max(hi.lat, v.lat)}
		}
	}
	w, h := hi.lng-lo.lng, hi.lat-lo.lat
	if w == 0 || h == 0 {
		return pt{}, false, false
	}
	const n = 8
	for i := 0; i < n; i++ {
		for j := 0; j < n; j++ {
			q := pt{lo.lng - 0.25*w + 1.5*w*(float64(i)+0.371)/n, lo.lat - 0.25*h + 1.5*h*(float64(j)+0.293)/n}
			closeToEdge := false
			for _, ring := range rings {
				for k := 0; k+1 < len(ring); k++ {
					// compare in units of the bounding box
					a := pt{(ring[k].lng - lo.lng) / w, (ring[k].lat - lo.lat) / h}
					b := pt{(ring[k+1].lng - lo.lng) / w, (ring[k+1].lat - lo.lat) / h}
					if distToSegment(pt{(q.lng - lo.lng) / w, (q.lat - lo.lat) / h}, a, b) < 0.02 {
						closeToEdge = true
					}
				}
			}
			if closeToEdge {
				continue
			}
			want := planarContains(rings, q)
			if p.ContainsPoint(s2.PointFromLatLng(s2.LatLngFromDegrees(q.lat, q.lng))) != want {
				return q, want, true
			}
		}
	}
	return pt{}, false, false
}

const ns = b6.Namespace("diagonal.works/c32")

func expectedID(kind string, i int) b6.FeatureID {
	switch kind {
	case "Point":
		return b6.FeatureID{Type: b6.FeatureTypePoint, Namespace: ns, Value: uint64(i)}
	case "LineString":
		return b6.FeatureID{Type: b6.FeatureTypePath, Namespace: ns, Value: uint64(i)}
	}
	return b6.FeatureID{Type: b6.FeatureTypeArea, Namespace: ns, Value: uint64(i)}
}

// shadowed: the property key is the key of the feature's own geometry tag.
func shadowed(kind, key string) bool {
	return (kind == "Point" && key == b6.PointTag) || (kind == "LineString" && key == b6.PathTag)
}

// retyped: a "point" tag on a path feature makes b6 treat the feature as a
// point (Tags.GeometryType looks for the point tag first).
func retyped(f *feature) bool {
	_, has := f.p.m[b6.PointTag]
	return f.g.kind == "LineString" && has
}

func reservedSuffix(f *feature) string {
	for _, k := range []string{"point", "path"} {
		if _, ok := f.p.m[k]; ok {
			return ":property-key-" + k
		}
	}
	return ""
}

// verify checks the world against the collection.
func verify(r *kit.Result, w b6.World, fs []feature, how string) bool {
	ok := true
	where := func(i int) string { return fmt.Sprintf("%s, feature %d of %s", how, i, describe(fs)) }
	nSupported := 0
	for i := range fs {
		f := &fs[i]
		kind := f.g.kind
		if !supported(kind) {
			for _, t := range []b6.FeatureType{b6.FeatureTypePoint, b6.FeatureTypePath, b6.FeatureTypeArea, b6.FeatureTypeRelation, b6.FeatureTypeCollection} {
				id := b6.FeatureID{Type: t, Namespace: ns, Value: uint64(i)}
				if w.FindFeatureByID(id) != nil {
					r.Violate("import:unsupported-kind-produced-feature:"+kind, "%s: found %s", where(i), id)
					ok = false
				}
			}
			r.AddOutcome("B:unsupported-kind-skipped-without-error:" + kind)
			continue
		}
		nSupported++
		rs := reservedSuffix(f)
		id := expectedID(kind, i)
		found := w.FindFeatureByID(id)
		if found == nil {
			r.Violate("import:feature-missing:"+kind+rs, "%s: no feature %s in the world", where(i), id)
			ok = false
			continue
		}
		// geometry
		switch kind {
		case "Point":
			p, isP := found.(b6.PhysicalFeature)
			if !isP || p.GeometryType() != b6.GeometryTypePoint {
				r.Violate("import:wrong-geometry-type:Point"+rs, "%s: %s is %T", where(i), id, found)
				ok = false
			} else if ll := s2.LatLngFromPoint(p.Point()); !near(f.g.point, ll) {
				r.Violate("import:wrong-coordinates:Point"+rs, "%s: %s is at lat,lng %v, expected lng,lat %v", where(i), id, ll, f.g.point)
				ok = false
			}
		case "LineString":
			p, isP := found.(b6.PhysicalFeature)
			if !isP || p.GeometryType() != b6.GeometryTypePath {
				t := "?"
				if isP {
					t = fmt.Sprint(p.GeometryType())
				}
				r.Violate("import:wrong-geometry-type:LineString"+rs, "%s: %s is %T with geometry type %s", where(i), id, found, t)
				ok = false
			} else if p.GeometryLen() != len(f.g.line) {
				r.Violate("import:wrong-vertex-count:LineString"+rs, "%s: %s has %d points, expected %d", where(i), id, p.GeometryLen(), len(f.g.line))
				ok = false
			} else {
				for k := range f.g.line {
					if ll := s2.LatLngFromPoint(p.PointAt(k)); !near(f.g.line[k], ll) {
						r.Violate("import:wrong-coordinates:LineString"+rs, "%s: %s point %d is at lat,lng %v, expected lng,lat %v", where(i), id, k, ll, f.g.line[k])
						ok = false
						break
					}
				}
			}
		default:
			polys := f.g.polys
			if kind == "Polygon" {
				polys = [][][]pt{f.g.lines}
			}
			a, isA := found.(b6.AreaFeature)
			if !isA {
				r.Violate("import:wrong-geometry-type:"+kind+rs, "%s: %s is %T", where(i), id, found)
				ok = false
			} else if a.Len() != len(polys) {
				r.Violate("import:wrong-polygon-count:"+kind+rs, "%s: %s has %d polygons, expected %d", where(i), id, a.Len(), len(polys))
				ok = false
			} else {
				for k := range polys {
					want := expectedRings(polys[k])
					got, dup := observedRings(a.Polygon(k))
					if !reflect.DeepEqual(want, got) && !(len(want) == 0 && len(got) == 0) {
						r.Violate("import:wrong-rings:"+kind+rs, "%s: %s polygon %d has loops %v, expected %v", where(i), id, k, got, want)
						ok = false
					}
					if q, inside, bad := interiorMismatch(polys[k], a.Polygon(k)); bad {
						r.Violate("import:wrong-interior:"+kind+rs, "%s: %s polygon %d: lng,lat %v should be inside=%v (even-odd over the GeoJSON rings) but ContainsPoint says %v; loops %v", where(i), id, k, q, inside, !inside, got)
						ok = false
					}
					if dup {
						err := a.Polygon(k).Validate()
						r.Violate("import:ring-closing-vertex-kept-as-duplicate:"+kind, "%s: %s polygon %d: the GeoJSON ring's closing position is stored as an extra loop vertex (loop 0 has %d vertices for a ring of %d distinct positions); s2 Validate(): %v", where(i), id, k, a.Polygon(k).Loop(0).NumVertices(), len(polys[k][0])-1, err)
						ok = false
					}
				}
			}
		}
		// properties
		tags := found.AllTags()
		var rest [][2]string
		geometryTagSeen := false
		bad := false
		for _, t := range tags {
			if !geometryTagSeen && ((kind == "Point" && t.Key == b6.PointTag && t.Value.ExpressionType() == b6.ExpressionTypePoint) ||
				(kind == "LineString" && t.Key == b6.PathTag && t.Value.ExpressionType() == b6.ExpressionTypeExpressions)) {
				geometryTagSeen = true
				continue
			}
			s, isS := t.Value.AnyExpression.(b6.StringExpression)
			if !isS {
				r.Violate("import:non-string-tag:"+kind+rs, "%s: %s has tag %s of type %T", where(i), id, t.Key, t.Value.AnyExpression)
				ok, bad = false, true
				continue
			}
			rest = append(rest, [2]string{t.Key, string(s)})
		}
		var want [][2]string
		for k, v := range f.p.m {
			want = append(want, [2]string{k, v})
		}
		less := func(l [][2]string) func(a, b int) bool {
			return func(a, b int) bool { return l[a][0] < l[b][0] || (l[a][0] == l[b][0] && l[a][1] < l[b][1]) }
		}
		sort.Slice(rest, less(rest))
		sort.Slice(want, less(want))
		if !bad && !(len(rest) == 0 && len(want) == 0) && !reflect.DeepEqual(rest, want) {
			r.Violate("import:wrong-properties:"+kind+rs, "%s: %s has tags %q, expected the properties %q", where(i), id, rest, want)
			ok = false
		} else if !bad {
			for k, v := range f.p.m {
				got := found.Get(k)
				if shadowed(kind, k) {
					// b6 keeps point / path geometry in a tag of that name, which comes first
					r.AddOutcome("B:reserved-key:property-" + k + "-on-" + kind + ":present-in-AllTags-but-Get-returns-the-geometry-tag")
					continue
				}
				if got.Key != k || got.Value.AnyExpression == nil || got.Value.String() != v {
					r.Violate("import:property-not-retrievable-by-key:"+kind+rs, "%s: %s: Get(%q) = %q, expected %q (all tags: %v)", where(i), id, k, got.Value.String(), v, tags)
					ok = false
				}
			}
		}
	}
	// nothing else was added
	var mu sync.Mutex
	count := 0
	var ids []string
	w.EachFeature(func(f b6.Feature, _ int) error {
		mu.Lock()
		count++
		ids = append(ids, f.FeatureID().String())
		mu.Unlock()
		return nil
	}, &b6.EachFeatureOptions{Goroutines: 1})
	if ok && count != nSupported {
		sort.Strings(ids)
		r.Violate("import:feature-count", "%s: the world has %d features %v, expected %d", how+" "+describe(fs), count, ids, nSupported)
		ok = false
	}
	return ok
}

var routes = []string{"value", "geojson.Unmarshal", "json.Unmarshal(FeatureCollection)", "vm:import-geojson(parse-geojson)"}
var worlds = []string{"basic", "overlay"}

func newWorld(kind string) ingest.MutableWorld {
	if kind == "basic" {
		return ingest.NewBasicMutableWorld()
	}
	return ingest.NewMutableOverlayWorld(ingest.NewBasicMutableWorld())
}

// importCollection imports fs as a collection through every route into every world kind.
func importCollection(r *kit.Result, fs []feature, single bool) {
	fc := buildCollection(fs)
	var value geojson.GeoJSON = fc
	if single {
		value = fc.Features[0]
	}
	text, err := json.Marshal(value)
	if err != nil {
		r.Violate("B:json.Marshal:error", "%s: %v", describe(fs), err)
		return
	}
	allOK, tolerated := true, false
	for _, route := range routes {
		for _, wk := range worlds {
			r.Evals++
			how := route + " into " + wk
			if single {
				how += " (single Feature)"
			}
			w := newWorld(wk)
			var change ingest.Change
			switch route {
			case "value":
				a := &ingest.AddFeatures{}
				a.FillFromGeoJSON(value, ns)
				change = a
			case "geojson.Unmarshal":
				g, err := geojson.Unmarshal(text)
				if err != nil {
					r.Violate("B:geojson.Unmarshal:error", "%s: %s: %v", how, text, err)
					allOK = false
					continue
				}
				a := &ingest.AddFeatures{}
				a.FillFromGeoJSON(g, ns)
				change = a
			case "json.Unmarshal(FeatureCollection)":
				if single {
					var f geojson.Feature
					if err := json.Unmarshal(text, &f); err != nil {
						r.Violate("B:json.Unmarshal:error", "%s: %s: %v", how, text, err)
						allOK = false
						continue
					}
					a := &ingest.AddFeatures{}
					a.FillFromGeoJSON(&f, ns)
					change = a
				} else {
					var c geojson.FeatureCollection
					if err := json.Unmarshal(text, &c); err != nil {
						r.Violate("B:json.Unmarshal:error", "%s: %s: %v", how, text, err)
						allOK = false
						continue
					}
					a := &ingest.AddFeatures{}
					a.FillFromGeoJSON(&c, ns)
					change = a
				}
			default:
				e := b6.NewCallExpression(b6.NewSymbolExpression("import-geojson"), []b6.Expression{
					b6.NewCallExpression(b6.NewSymbolExpression("parse-geojson"), []b6.Expression{b6.NewStringExpression(string(text))}),
					b6.NewStringExpression(string(ns)),
				})
				v, err := api.Evaluate(e, functions.NewContext(w))
				if err != nil {
					r.Violate("B:vm:error", "%s: %s: %v", how, text, err)
					allOK = false
					continue
				}
				c, isC := v.(ingest.Change)
				if !isC {
					r.Violate("B:vm:not-a-change", "%s: evaluated to %T", how, v)
					allOK = false
					continue
				}
				change = c
			}
			applied, err := change.Apply(w)
			if len(fs) == 1 && retyped(&fs[0]) {
				if err != nil {
					r.AddOutcome("B:reserved-key:property-point-on-LineString:feature-retyped-as-point:Apply-error")
				} else {
					r.AddOutcome("B:reserved-key:property-point-on-LineString:feature-retyped-as-point:applied")
				}
				tolerated = true
				continue
			}
			if err != nil {
				cls := "import:apply-error"
				for i := range fs {
					if rs := reservedSuffix(&fs[i]); rs != "" {
						cls += ":" + fs[i].g.kind + rs
						break
					}
				}
				if cls == "import:apply-error" && len(fs) > 0 {
					cls += ":" + fs[0].g.kind
				}
				r.Violate(cls, "%s: %s: Apply failed: %v", how, describe(fs), err)
				allOK = false
				continue
			}
			if !verify(r, w, fs, how) {
				allOK = false
				continue
			}
			// the change reports exactly the added IDs
			keys, kerr := applied.AllKeys(nil)
			want := map[b6.FeatureID]bool{}
			for i := range fs {
				if supported(fs[i].g.kind) {
					want[expectedID(fs[i].g.kind, i)] = true
				}
			}
			got := map[b6.FeatureID]bool{}
			for _, k := range keys {
				got[k] = true
			}
			if kerr != nil || !reflect.DeepEqual(want, got) && len(want)+len(got) > 0 {
				r.Violate("import:apply-reported-ids", "%s: %s: Apply reported %v (err %v), expected %v", how, describe(fs), keys, kerr, want)
				allOK = false
			}
		}
	}
	if tolerated {
		return
	}
	if allOK {
		for i := range fs {
			if supported(fs[i].g.kind) {
				r.Count("B:features-imported-faithfully:"+fs[i].g.kind, 1)
			} else {
				r.Count("B:features-skipped-unsupported-kind:"+fs[i].g.kind, 1)
			}
		}
		r.AddOutcome(fmt.Sprintf("B:imported-faithfully:len%d", len(fs)))
	} else {
		r.AddOutcome("B:violation")
	}
}

// ---------- part C: documents outside the typed statement (outcomes only) ----------

type literalDoc struct{ name, text string }

// RFC 7946 documents that the Go types of the geojson package cannot hold. The
// typed statement does not cover them; what happens is recorded as an outcome
// class (a panic would still be reported by the kit as a violation).
var literalDocs = []literalDoc{
	{"property-number", `{"type":"FeatureCollection","features":[{"type":"Feature","geometry":{"type":"Point","coordinates":[0.5,1.5]},"properties":{"lanes":2}}]}`},
	{"property-bool", `{"type":"FeatureCollection","features":[{"type":"Feature","geometry":{"type":"Point","coordinates":[0.5,1.5]},"properties":{"oneway":true}}]}`},
	{"property-null", `{"type":"FeatureCollection","features":[{"type":"Feature","geometry":{"type":"Point","coordinates":[0.5,1.5]},"properties":{"name":null}}]}`},
	{"property-object", `{"type":"FeatureCollection","features":[{"type":"Feature","geometry":{"type":"Point","coordinates":[0.5,1.5]},"properties":{"a":{"b":"c"}}}]}`},
	{"position-with-altitude", `{"type":"FeatureCollection","features":[{"type":"Feature","geometry":{"type":"Point","coordinates":[0.5,1.5,10]},"properties":{}}]}`},
	{"geometry-null", `{"type":"FeatureCollection","features":[{"type":"Feature","geometry":null,"properties":{"name":"x"}}]}`},
	{"geometry-collection", `{"type":"FeatureCollection","features":[{"type":"Feature","geometry":{"type":"GeometryCollection","geometries":[]},"properties":{}}]}`},
	{"bare-geometry-passed-to-importer", `{"type":"Point","coordinates":[0.5,1.5]}`},
	{"feature-id-member", `{"type":"FeatureCollection","features":[{"type":"Feature","id":"f1","geometry":{"type":"Point","coordinates":[0.5,1.5]},"properties":{"name":"x"}}]}`},
}

func literal(r *kit.Result, d literalDoc) {
	r.Evals = 1
	g, err := geojson.Unmarshal([]byte(d.text))
	if err != nil {
		r.AddOutcome("C:" + d.name + ":geojson.Unmarshal-rejects-with-error")
		return
	}
	a := &ingest.AddFeatures{}
	a.FillFromGeoJSON(g, ns)
	w := ingest.NewBasicMutableWorld()
	if _, err := a.Apply(w); err != nil {
		r.AddOutcome("C:" + d.name + ":Apply-rejects-with-error")
		return
	}
	f := w.FindFeatureByID(b6.FeatureID{Type: b6.FeatureTypePoint, Namespace: ns, Value: 0})
	if f == nil {
		r.AddOutcome("C:" + d.name + ":accepted:no-feature-added")
		return
	}
	var tags []string
	for _, t := range f.AllTags() {
		if t.Key != b6.PointTag {
			tags = append(tags, fmt.Sprintf("%s=%q", t.Key, t.Value.String()))
		}
	}
	sort.Strings(tags)
	r.AddOutcome("C:" + d.name + ":accepted:point-added-with-tags[" + strings.Join(tags, ",") + "]")
}

// ---------- space ----------

type bcase struct {
	fs     []feature
	single bool
}

func partBCases(tier string) []bcase {
	var out []bcase
	out = append(out, bcase{fs: nil})
	var menus [][]feature // per placement: geometry x property
	var reserved [][]feature
	for _, pl := range placements {
		var m, rm []feature
		for _, g := range validGeometries(pl) {
			for _, p := range propMenu {
				m = append(m, feature{g, p})
			}
			if supported(g.kind) {
				for _, p := range reservedProps {
					rm = append(rm, feature{g, p})
				}
			}
		}
		menus = append(menus, m)
		reserved = append(reserved, rm)
	}
	// singles: collection of one, and a bare Feature
	for pi := range placements {
		for _, f := range menus[pi] {
			out = append(out, bcase{fs: []feature{f}}, bcase{fs: []feature{f}, single: true})
		}
		for _, f := range reserved[pi] {
			out = append(out, bcase{fs: []feature{f}})
		}
	}
	// pairs: every geometry pair with two property maps (placement 0), and one map (placement 1)
	nPair, nPlace := 3, 1
	if tier == "thorough" {
		nPair, nPlace = len(propMenu), 2
	}
	for _, pl := range placements[:nPlace] {
		var pm []feature
		for _, g := range validGeometries(pl) {
			for _, p := range propMenu[:nPair] {
				pm = append(pm, feature{g, p})
			}
		}
		for _, a := range pm {
			for _, b := range pm {
				out = append(out, bcase{fs: []feature{a, b}})
			}
		}
	}
	// triples over a pruned geometry menu
	names := map[string]bool{"pt00": true, "ls3": true, "ls-closed-cw": true, "square-ccw": true, "square+hole(cw)": true, "square(cw)+hole(ccw)": true, "mp-2-disjoint": true, "mp-empty": true, "multipoint-2": true, "multiline-2": true}
	if tier == "thorough" {
		for _, n := range []string{"pt31", "ls2", "square-cw", "L+hole", "square+2holes", "mp-3", "no-rings", "ls-repeated-point"} {
			names[n] = true
		}
	}
	var tm []feature
	for _, g := range validGeometries(placements[1]) {
		if names[g.name] {
			tm = append(tm, feature{g, propMenu[3]})
		}
	}
	for _, a := range tm {
		for _, b := range tm {
			for _, c := range tm {
				out = append(out, bcase{fs: []feature{a, b, c}})
			}
		}
	}
	if tier == "thorough" { // length 4 over a smaller menu
		quad := map[string]bool{"pt00": true, "ls3": true, "square+hole(cw)": true, "mp-2-disjoint": true, "multipoint-2": true, "multiline-2": true}
		var qm []feature
		for _, g := range validGeometries(placements[0]) {
			if quad[g.name] {
				qm = append(qm, feature{g, propMenu[0]})
			}
		}
		for _, a := range qm {
			for _, b := range qm {
				for _, c := range qm {
					for _, d := range qm {
						out = append(out, bcase{fs: []feature{a, b, c, d}})
					}
				}
			}
		}
	}
	return out
}

func main() {
	kit.Main(&kit.Check{
		ID:    "C32",
		Level: "exploration",
		Rule: "Part A: one case per geometry of the bounded family (all six kinds; grid points of two placements; point sequences / ring lists / polygon lists up to the bound; 14x14 extreme finite floats for points); steps A1..A6 (see file comment); non-trivial when the geometry has at least one position. " +
			"Part B: one case per feature collection (all single features and bare Features over geometry menu x property menu x 2 placements, reserved property keys point/path, all ordered pairs, all ordered triples over a pruned menu); each is imported through 4 routes x 2 world kinds; non-trivial when the collection has a feature. " +
			"Oracle: Part A float64-identical coordinates and the RFC 7946 structure; Part B one feature per supported GeoJSON feature with ID (type, namespace, index), same vertices (rings modulo closure/start/direction, shell/hole role kept, 1e-7 degree tolerance), tags == properties, nothing else added, Apply reports exactly those IDs.",
		Assumptions: []string{
			"coordinates are finite float64; part B uses valid RFC 7946 geometries (closed rings of >= 4 positions, holes inside their shell and disjoint, line strings of >= 2 positions) on small grids away from the poles and the antimeridian",
			"property maps are map[string]string (the Go type of geojson.Feature.Properties); JSON properties of other JSON types are rejected by encoding/json with an error and are outside the typed statement",
			"the importer has cases for Point, LineString, Polygon and MultiPolygon only; MultiPoint and MultiLineString features have no b6 feature type and are skipped by FillFromGeoJSON without an error — reported as outcome class B:unsupported-kind-skipped-without-error, not as a violation",
			"'same geometry' for areas: same set of rings as cyclic vertex sequences (start vertex and winding direction are normalised by the importer / s2) with the shell/hole role of each ring preserved; a ring's closing position must not become an extra vertex",
			"stored coordinates are compared with 1e-7 degrees tolerance (E7, the precision b6 serialises points at)",
		},
		Build: func(tier string) (kit.Space, string) {
			ga := partAGeometries(tier)
			{ // simplest first: by number of positions (stable)
				type keyed struct {
					g geom
					n int
				}
				ks := make([]keyed, len(ga))
				for i := range ga {
					ks[i] = keyed{ga[i], ga[i].positions()}
				}
				sort.SliceStable(ks, func(i, j int) bool { return ks[i].n < ks[j].n })
				for i := range ks {
					ga[i] = ks[i].g
				}
			}
			bc := partBCases(tier)
			nA := int64(len(ga))
			bound := fmt.Sprintf("part A: %d geometries (grid %s; sequences/lists up to the tier's length bound); part B: %d collections of length 0..3 (thorough: 0..4) over %d geometries x %d(+%d reserved-key) property maps x %d placements, each through %d routes x %d world kinds; part C: %d literal documents outside the typed statement (outcomes only)",
				len(ga), map[string]string{"quick": "3x3", "thorough": "4x4"}[tier], len(bc), len(validGeometries(placements[0])), len(propMenu), len(reservedProps), len(placements), len(routes), len(worlds), len(literalDocs))
			nB := int64(len(bc))
			return kit.FuncSpace{N: nA + nB + int64(len(literalDocs)), F: func(i int64) kit.Result {
				var r kit.Result
				if i < nA {
					g := &ga[i]
					roundTrip(&r, g)
					if g.positions() > 0 {
						r.Nontrivial = true
						r.Key = "A:" + g.String()
					}
					if i == 40 || i == nA-1 {
						r.Sample = map[string]interface{}{"part": "A", "geometry": g.String()}
					}
					return r
				}
				if i >= nA+nB {
					literal(&r, literalDocs[i-nA-nB])
					return r
				}
				c := bc[i-nA]
				importCollection(&r, c.fs, c.single)
				if len(c.fs) > 0 {
					r.Nontrivial = true
					r.Key = fmt.Sprintf("B:%v:%s:%s", c.single, describe(c.fs), c.fs[0].g.String())
				}
				if i == nA+30 || i == nA+int64(len(bc))-1 {
					t, _ := json.Marshal(buildCollection(c.fs))
					r.Sample = map[string]interface{}{"part": "B", "collection": describe(c.fs), "json": string(t)}
				}
				return r
			}}, bound
		},
	})
}
