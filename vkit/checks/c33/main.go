// C33 — vector tile geometry decodes to the projected feature.
//
// Engine E1 (bounded-exhaustive input enumeration). Every case builds
// renderer.Tile contents (points, line strings, polygons with holes, tag maps)
// whose vertices are placed on a pixel lattice inside a tile, calls the real
// renderer.EncodeTile, serialises the result with proto.Marshal, parses it back
// and decodes each feature with an INDEPENDENT Mapbox-Vector-Tile command
// decoder written here (MoveTo / LineTo / ClosePath, zigzag deltas, cursor
// starting at the tile origin). The oracle is independent of the repository:
//
//   - a vertex is generated from a chosen tile pixel (px+ox, py+oy) by the
//     standard slippy-map inverse formulas (written here), and the expected
//     decoded integer coordinate is floor((world position - tile origin) *
//     extent) computed by the forward slippy-map formula from the tile z/x/y and
//     the extent field of the encoded layer; sub-pixel offsets keep vertices
//     >= 0.1 px away from pixel borders so rounding cannot matter;
//   - points: exactly one MoveTo with that coordinate; line strings: the vertex
//     sequence in order; polygons: the decoded closed rings are, up to rotation
//     and direction, the projected rings of the feature, all outer rings have
//     one (non-zero) winding sign and all holes the opposite sign;
//   - tags: (key index, value index) pairs resolved through the layer's own
//     key / value tables give exactly the feature's tag map.
//
// Close-vertex alphabet (added after seed C33c): line strings, polygon shells
// and holes in which CONSECUTIVE vertices coincide exactly, differ by less than
// one tile unit (same integer unit, or straddling a unit border) or by exactly
// one unit, at every position of the sequence (first / middle / last pair; for
// rings every cyclic position x every start vertex, so the pair is also the
// closing edge, and holes are emitted in reversed order). The statement promises
// "the feature's projected integer coordinates", so zero-length segments may
// NOT be dropped: every vertex must be decoded, and the independent decoder
// demands a well-formed stream (declared counts == parameters present, stream
// fully consumed).
//
// Second entry point: the public renderer.Encoder API (NewEncoder, StartFeature,
// MoveTo, LineTo, XY / Point, ClosePath) is driven directly with every word of
// integer deltas over a small alphabet containing (0,0), the 7 unit steps used
// and two long steps, for multi-points, (multi-)line strings and (multi-)rings.
package main

import (
	"fmt"
	"math"
	"sort"
	"strings"

	"diagonal.works/b6"
	pb "diagonal.works/b6/proto"
	"diagonal.works/b6/renderer"
	"github.com/golang/geo/r2"
	"github.com/golang/geo/s1"
	"github.com/golang/geo/s2"
	"google.golang.org/protobuf/proto"
	"verif/kit"
)

// ---------------------------------------------------------------- projection

const px = 4096 // construction lattice: pixels per tile side

type vtx struct {
	x, y   int     // tile-local pixel
	ox, oy float64 // sub-pixel offset in (0,1)
}

// toS2 places the vertex on the sphere: standard slippy-map tile -> lat/lng.
func toS2(t b6.Tile, v vtx) s2.Point {
	n := math.Ldexp(1, int(t.Z))
	gx := (float64(t.X) + (float64(v.x)+v.ox)/px) / n
	gy := (float64(t.Y) + (float64(v.y)+v.oy)/px) / n
	lng := gx*2*math.Pi - math.Pi
	lat := math.Atan(math.Sinh(math.Pi * (1 - 2*gy)))
	return s2.PointFromLatLng(s2.LatLng{Lat: s1.Angle(lat), Lng: s1.Angle(lng)})
}

// expect returns the integer tile coordinate of the vertex for a layer of the
// given extent: lat/lng -> slippy-map world position -> tile-local -> floor.
// ok is false when the position is too close to a pixel border for a floor to
// be meaningful (never the case for the offsets used).
func expect(t b6.Tile, v vtx, extent uint32) (ix, iy int, ok bool) {
	n := math.Ldexp(1, int(t.Z))
	gx := (float64(t.X) + (float64(v.x)+v.ox)/px) / n
	gy := (float64(t.Y) + (float64(v.y)+v.oy)/px) / n
	lng := gx*2*math.Pi - math.Pi
	lat := math.Atan(math.Sinh(math.Pi * (1 - 2*gy)))
	// forward
	wx := (lng + math.Pi) / (2 * math.Pi) * n
	wy := (1 - math.Log(math.Tan(lat)+1/math.Cos(lat))/math.Pi) / 2 * n
	fx := (wx - float64(t.X)) * float64(extent)
	fy := (wy - float64(t.Y)) * float64(extent)
	ix, iy = int(math.Floor(fx)), int(math.Floor(fy))
	dx, dy := fx-math.Floor(fx), fy-math.Floor(fy)
	ok = dx > 0.02 && dx < 0.98 && dy > 0.02 && dy < 0.98
	return
}

// ---------------------------------------------------------------- MVT decoder

type ipt struct{ x, y int }

type part struct {
	pts    []ipt
	closed bool
}

type decoded struct {
	parts      []part
	lineToZero int // LineTo commands with count 0 (tolerated, counted)
}

func unzigzag(v uint32) int { return int(int32(v>>1) ^ -int32(v&1)) }

// decodeGeometry interprets a command stream per vector-tile-spec 2.1 §4.3.
func decodeGeometry(g []uint32) (d decoded, err string) {
	cx, cy := 0, 0
	cur := -1
	i := 0
	for i < len(g) {
		id, cnt := g[i]&7, int(g[i]>>3)
		i++
		switch id {
		case 1: // MoveTo
			if cnt == 0 {
				return d, "MoveTo-count-0"
			}
			for k := 0; k < cnt; k++ {
				if i+1 >= len(g) {
					return d, "truncated-parameters"
				}
				cx += unzigzag(g[i])
				cy += unzigzag(g[i+1])
				i += 2
				d.parts = append(d.parts, part{pts: []ipt{{cx, cy}}})
				cur = len(d.parts) - 1
			}
		case 2: // LineTo
			if cur < 0 || d.parts[cur].closed {
				return d, "LineTo-without-MoveTo"
			}
			if cnt == 0 {
				d.lineToZero++
			}
			for k := 0; k < cnt; k++ {
				if i+1 >= len(g) {
					return d, "truncated-parameters"
				}
				cx += unzigzag(g[i])
				cy += unzigzag(g[i+1])
				i += 2
				d.parts[cur].pts = append(d.parts[cur].pts, ipt{cx, cy})
			}
		case 7: // ClosePath
			if cnt != 1 {
				return d, "ClosePath-count-not-1"
			}
			if cur < 0 || d.parts[cur].closed {
				return d, "ClosePath-without-open-path"
			}
			d.parts[cur].closed = true
		default:
			return d, "unknown-command"
		}
	}
	return d, ""
}

// ---------------------------------------------------------------- case model

const (
	kPoint = iota
	kLine
	kPolygon
)

var kindName = []string{"point", "linestring", "polygon"}

type ring struct {
	v    []vtx
	hole bool
	// standin (non-nil only for rings with exactly repeated consecutive
	// vertices): the same ring with every repeated vertex moved 0.05 units away.
	// A loop with identical adjacent vertices is not a valid S2 loop and S2's
	// nesting computation is undefined on it (observed: a shell with a repeated
	// vertex no longer "contains" its hole), while EncodeTile reads nothing but
	// Vertex(i) and IsHole(). The polygon is therefore built and validated from
	// the stand-in, and the repeated vertices are then set in place (the loops
	// keep the vertex slices they were given).
	standin []vtx
}

type feat struct {
	kind  int
	pts   []vtx  // point / line
	rings []ring // polygon
	tags  map[string]string
	id    uint64
}

type layerSpec struct {
	name  string
	feats []feat
}

type instance struct {
	desc   string
	layers []layerSpec
	// loopsFirstHoles: pass holes before shells to s2.PolygonFromLoops
	holesFirst bool
}

func showV(vs []vtx) string {
	var s []string
	for _, v := range vs {
		if v.ox != 0.5 || v.oy != 0.5 {
			s = append(s, fmt.Sprintf("(%d+%.2f,%d+%.2f)", v.x, v.ox, v.y, v.oy))
			continue
		}
		s = append(s, fmt.Sprintf("(%d,%d)", v.x, v.y))
	}
	return "[" + strings.Join(s, " ") + "]"
}

func showI(vs []ipt) string {
	var s []string
	for _, v := range vs {
		s = append(s, fmt.Sprintf("(%d,%d)", v.x, v.y))
	}
	return "[" + strings.Join(s, " ") + "]"
}

func showTags(m map[string]string) string {
	var ks []string
	for k := range m {
		ks = append(ks, k)
	}
	sort.Strings(ks)
	var s []string
	for _, k := range ks {
		s = append(s, fmt.Sprintf("%q=%q", k, m[k]))
	}
	return "{" + strings.Join(s, " ") + "}"
}

func (f feat) String() string {
	s := kindName[f.kind]
	switch f.kind {
	case kPolygon:
		for _, r := range f.rings {
			if r.hole {
				s += " hole" + showV(r.v)
			} else {
				s += " outer" + showV(r.v)
			}
		}
	default:
		s += showV(f.pts)
	}
	return s + " tags=" + showTags(f.tags)
}

// area2 is twice the signed area by the surveyor's formula in tile
// coordinates (y down): positive = clockwise on screen.
func area2(p []ipt) int64 {
	var a int64
	for i := range p {
		j := (i + 1) % len(p)
		a += int64(p[i].x)*int64(p[j].y) - int64(p[j].x)*int64(p[i].y)
	}
	return a
}

func area2v(p []vtx) int64 {
	q := make([]ipt, len(p))
	for i, v := range p {
		q[i] = ipt{v.x, v.y}
	}
	return area2(q)
}

// geographic counter-clockwise (what S2 calls normalised) = negative
// surveyor's area in y-down pixel coordinates.
func orientCCW(p []vtx) []vtx {
	if area2v(p) > 0 {
		q := make([]vtx, len(p))
		for i := range p {
			q[i] = p[len(p)-1-i]
		}
		return q
	}
	return p
}

// canon: canonical form of a cyclic vertex list up to rotation and direction.
func canon(p []ipt) string {
	best := ""
	n := len(p)
	for dir := 0; dir < 2; dir++ {
		for s := 0; s < n; s++ {
			var b strings.Builder
			for k := 0; k < n; k++ {
				var q ipt
				if dir == 0 {
					q = p[(s+k)%n]
				} else {
					q = p[((s-k)%n+n)%n]
				}
				fmt.Fprintf(&b, "%05d,%05d;", q.x+10000, q.y+10000)
			}
			if best == "" || b.String() < best {
				best = b.String()
			}
		}
	}
	return best
}

// ---------------------------------------------------------------- building the real input

func buildGeometry(t b6.Tile, f feat, holesFirst bool) (renderer.Geometry, string) {
	switch f.kind {
	case kPoint:
		return renderer.NewPoint(toS2(t, f.pts[0])), ""
	case kLine:
		pl := make(s2.Polyline, len(f.pts))
		for i, v := range f.pts {
			pl[i] = toS2(t, v)
		}
		return renderer.NewLineString(&pl), ""
	}
	var shells, holes []*s2.Loop
	nh := 0
	var fixups []func()
	for _, r := range f.rings {
		r := r
		src := r.v
		if r.standin != nil {
			src = r.standin
		}
		ps := make([]s2.Point, len(src))
		for i, v := range src {
			ps[i] = toS2(t, v)
		}
		l := s2.LoopFromPoints(ps)
		if r.standin != nil {
			fixups = append(fixups, func() {
				for i, v := range r.v {
					ps[i] = toS2(t, v)
				}
			})
		}
		if !l.IsNormalized() {
			return nil, "generated ring is not counter-clockwise on the sphere: " + showV(r.v)
		}
		if r.hole {
			holes = append(holes, l)
			nh++
		} else {
			shells = append(shells, l)
		}
	}
	var loops []*s2.Loop
	if holesFirst {
		loops = append(append(loops, holes...), shells...)
	} else {
		loops = append(append(loops, shells...), holes...)
	}
	p := s2.PolygonFromLoops(loops)
	if err := p.Validate(); err != nil {
		return nil, "generated polygon is not a valid S2 polygon: " + err.Error()
	}
	got := 0
	for _, l := range p.Loops() {
		if l.IsHole() {
			got++
		}
	}
	if got != nh || p.NumLoops() != len(f.rings) {
		return nil, fmt.Sprintf("S2 classifies %d of %d loops as holes, generator intended %d of %d", got, p.NumLoops(), nh, len(f.rings))
	}
	for _, fix := range fixups {
		fix()
	}
	return renderer.NewPolygon(p), ""
}

// ---------------------------------------------------------------- the oracle

type tally struct {
	r        *kit.Result
	perClass map[string]int
}

func (ty *tally) violate(class, f string, a ...interface{}) {
	ty.perClass[class]++
	if ty.perClass[class] <= 3 {
		ty.r.Violate(class, f, a...)
	}
}

func checkInstance(ty *tally, t b6.Tile, in instance) {
	r := ty.r
	content := &renderer.Tile{}
	for _, ls := range in.layers {
		l := renderer.NewLayer(ls.name)
		for _, f := range ls.feats {
			g, bad := buildGeometry(t, f, in.holesFirst)
			if bad != "" {
				ty.violate("harness:precondition", "tile %v %s: %s", t, in.desc, bad)
				return
			}
			rf := renderer.NewFeature(g)
			rf.ID = f.id
			for k, v := range f.tags {
				rf.Tags[k] = v
			}
			l.AddFeature(rf)
		}
		content.Layers = append(content.Layers, l)
	}
	r.Evals++
	enc := renderer.EncodeTile(t, content)
	bytes, err := proto.Marshal(enc)
	if err != nil {
		ty.violate("marshal:error", "tile %v %s: proto.Marshal: %v", t, in.desc, err)
		return
	}
	var tp pb.TileProto
	if err := proto.Unmarshal(bytes, &tp); err != nil {
		ty.violate("marshal:error", "tile %v %s: proto.Unmarshal: %v", t, in.desc, err)
		return
	}
	// encoded layers: background, then the non-empty content layers in order
	var want []layerSpec
	for _, ls := range in.layers {
		if len(ls.feats) > 0 {
			want = append(want, ls)
		}
	}
	var gotLayers []*pb.TileProto_Layer
	for _, l := range tp.Layers {
		if l.GetName() != "background" {
			gotLayers = append(gotLayers, l)
		}
	}
	if len(gotLayers) != len(want) {
		ty.violate("layers:wrong-count", "tile %v %s: %d non-background layers encoded, want %d", t, in.desc, len(gotLayers), len(want))
		return
	}
	for li, ls := range want {
		gl := gotLayers[li]
		if gl.GetName() != ls.name {
			ty.violate("layers:wrong-name", "tile %v %s: layer %d is %q want %q", t, in.desc, li, gl.GetName(), ls.name)
			return
		}
		if len(gl.Features) != len(ls.feats) {
			ty.violate("features:wrong-count", "tile %v %s: layer %q has %d features want %d", t, in.desc, ls.name, len(gl.Features), len(ls.feats))
			return
		}
		extent := gl.GetExtent()
		for fi, f := range ls.feats {
			gf := gl.Features[fi]
			where := fmt.Sprintf("tile %v layer %q feature %d %s (%s)", t, ls.name, fi, f, in.desc)
			checkGeometry(ty, t, f, gf, extent, where)
			checkTags(ty, f, gf, gl, where)
		}
	}
}

func expectAll(ty *tally, t b6.Tile, vs []vtx, extent uint32, where string) ([]ipt, bool) {
	out := make([]ipt, len(vs))
	for i, v := range vs {
		x, y, ok := expect(t, v, extent)
		if !ok {
			ty.violate("harness:precondition", "%s: vertex %v too close to a pixel border for extent %d", where, v, extent)
			return nil, false
		}
		out[i] = ipt{x, y}
	}
	return out, true
}

func eqI(a, b []ipt) bool {
	if len(a) != len(b) {
		return false
	}
	for i := range a {
		if a[i] != b[i] {
			return false
		}
	}
	return true
}

func checkGeometry(ty *tally, t b6.Tile, f feat, gf *pb.TileProto_Feature, extent uint32, where string) {
	r := ty.r
	kn := kindName[f.kind]
	wantType := []pb.TileProto_GeomType{pb.TileProto_POINT, pb.TileProto_LINESTRING, pb.TileProto_POLYGON}[f.kind]
	if gf.GetType() != wantType {
		ty.violate(kn+":wrong-geometry-type", "%s: encoded type %v want %v", where, gf.GetType(), wantType)
		return
	}
	d, derr := decodeGeometry(gf.Geometry)
	if derr != "" {
		ty.violate(kn+":undecodable:"+derr, "%s: command stream %v: %s", where, gf.Geometry, derr)
		return
	}
	if d.lineToZero > 0 {
		r.Count("tolerated:LineTo-with-count-0(1-vertex line string)", int64(d.lineToZero))
	}
	switch f.kind {
	case kPoint, kLine:
		want, ok := expectAll(ty, t, f.pts, extent, where)
		if !ok {
			return
		}
		if len(d.parts) != 1 || d.parts[0].closed {
			ty.violate(kn+":wrong-structure", "%s: command stream %v decodes to %d parts (closed=%v), want one open part", where, gf.Geometry, len(d.parts), len(d.parts) > 0 && d.parts[0].closed)
			return
		}
		if !eqI(d.parts[0].pts, want) {
			ty.violate(kn+":wrong-coordinates", "%s: command stream %v decodes to %s, projected vertices are %s (extent %d)", where, gf.Geometry, showI(d.parts[0].pts), showI(want), extent)
			return
		}
		z := notePairs(r, d.parts[0].pts, false)
		r.AddOutcome(fmt.Sprintf("%s:n%d%s:ok", kn, len(want), zsuffix(z)))
	case kPolygon:
		if len(d.parts) != len(f.rings) {
			ty.violate("polygon:wrong-ring-count", "%s: command stream %v decodes to %d rings, want %d", where, gf.Geometry, len(d.parts), len(f.rings))
			return
		}
		type exp struct {
			hole bool
			used bool
			pts  []ipt
		}
		byCanon := map[string]*exp{}
		for _, rg := range f.rings {
			want, ok := expectAll(ty, t, rg.v, extent, where)
			if !ok {
				return
			}
			byCanon[canon(want)] = &exp{hole: rg.hole, pts: want}
		}
		if len(byCanon) != len(f.rings) {
			ty.violate("harness:precondition", "%s: two generated rings coincide", where)
			return
		}
		outerSign, holeSign := 0, 0
		nh := 0
		for pi, p := range d.parts {
			if !p.closed {
				ty.violate("polygon:ring-not-closed", "%s: command stream %v: ring %d has no ClosePath", where, gf.Geometry, pi)
				return
			}
			e := byCanon[canon(p.pts)]
			if e == nil || e.used {
				var ws []string
				for _, x := range byCanon {
					ws = append(ws, showI(x.pts))
				}
				sort.Strings(ws)
				ty.violate("polygon:wrong-ring-coordinates", "%s: command stream %v: decoded ring %d = %s is not (a rotation/reversal of) any projected ring %v (extent %d)", where, gf.Geometry, pi, showI(p.pts), ws, extent)
				return
			}
			e.used = true
			a := area2(p.pts)
			sg := 1
			if a < 0 {
				sg = -1
			} else if a == 0 {
				sg = 0
			}
			if sg == 0 {
				ty.violate("polygon:zero-area-ring", "%s: decoded ring %s has zero area", where, showI(p.pts))
				return
			}
			if e.hole {
				nh++
				if holeSign == 0 {
					holeSign = sg
				} else if holeSign != sg {
					ty.violate("polygon:holes-winding-inconsistent", "%s: command stream %v: holes have different winding signs", where, gf.Geometry)
					return
				}
			} else {
				if outerSign == 0 {
					outerSign = sg
				} else if outerSign != sg {
					ty.violate("polygon:outer-rings-winding-inconsistent", "%s: command stream %v: outer rings have different winding signs", where, gf.Geometry)
					return
				}
			}
		}
		if nh > 0 && outerSign == holeSign {
			ty.violate("polygon:hole-winding-same-as-outer", "%s: command stream %v: outer rings and holes have the same winding sign %d", where, gf.Geometry, outerSign)
			return
		}
		if outerSign > 0 {
			r.Count("info:outer-ring-surveyor-area-positive(spec-exterior)", 1)
		} else {
			r.Count("info:outer-ring-surveyor-area-negative(spec-interior)", 1)
		}
		z := 0
		for _, p := range d.parts {
			z += notePairs(r, p.pts, true)
		}
		r.AddOutcome(fmt.Sprintf("polygon:rings%d:holes%d%s:ok", len(f.rings), nh, zsuffix(z)))
	}
}

// notePairs counts, over the DECODED vertex sequence of one part, the LineTo
// segments with a (0,0) delta and with a unit (Chebyshev 1) delta, plus the
// implicit closing segment of a ring, so that evidence shows how often the
// close-vertex classes were really exercised. It returns the number of
// zero-delta LineTo segments.
func notePairs(r *kit.Result, p []ipt, closed bool) int {
	abs := func(a int) int {
		if a < 0 {
			return -a
		}
		return a
	}
	cheb := func(a, b ipt) int {
		dx, dy := abs(a.x-b.x), abs(a.y-b.y)
		if dx > dy {
			return dx
		}
		return dy
	}
	z, u := 0, 0
	for i := 1; i < len(p); i++ {
		switch cheb(p[i-1], p[i]) {
		case 0:
			z++
		case 1:
			u++
		}
	}
	if z > 0 {
		r.Count("info:decoded LineTo segments with delta (0,0) (consecutive vertices in one tile unit, all kept)", int64(z))
	}
	if u > 0 {
		r.Count("info:decoded LineTo segments with a one-unit delta", int64(u))
	}
	if closed && len(p) > 1 {
		switch cheb(p[len(p)-1], p[0]) {
		case 0:
			r.Count("info:decoded rings whose closing edge has zero length", 1)
		case 1:
			r.Count("info:decoded rings whose closing edge is one unit long", 1)
		}
	}
	return z
}

func zsuffix(z int) string {
	if z == 0 {
		return ""
	}
	if z > 3 {
		return ":zero-deltas4+"
	}
	return fmt.Sprintf(":zero-deltas%d", z)
}

func checkTags(ty *tally, f feat, gf *pb.TileProto_Feature, gl *pb.TileProto_Layer, where string) {
	if len(gf.Tags)%2 != 0 {
		ty.violate("tags:odd-length", "%s: tags %v", where, gf.Tags)
		return
	}
	got := map[string]string{}
	for i := 0; i+1 < len(gf.Tags); i += 2 {
		ki, vi := gf.Tags[i], gf.Tags[i+1]
		if int(ki) >= len(gl.Keys) || int(vi) >= len(gl.Values) {
			ty.violate("tags:index-out-of-range", "%s: tags %v with %d keys and %d values", where, gf.Tags, len(gl.Keys), len(gl.Values))
			return
		}
		v := gl.Values[vi]
		if v.StringValue == nil || v.FloatValue != nil || v.DoubleValue != nil || v.IntValue != nil || v.UintValue != nil || v.SintValue != nil || v.BoolValue != nil {
			ty.violate("tags:value-not-a-string", "%s: value %v for key %q is not a plain string value", where, v, gl.Keys[ki])
			return
		}
		if _, dup := got[gl.Keys[ki]]; dup {
			ty.violate("tags:duplicate-key", "%s: key %q encoded twice: tags %v keys %v", where, gl.Keys[ki], gf.Tags, gl.Keys)
			return
		}
		got[gl.Keys[ki]] = v.GetStringValue()
	}
	ok := len(got) == len(f.tags)
	for k, v := range f.tags {
		if g, present := got[k]; !present || g != v {
			ok = false
		}
	}
	if !ok {
		ty.violate("tags:wrong-decoded-tags", "%s: tags %v over keys %v decode to %s want %s", where, gf.Tags, gl.Keys, showTags(got), showTags(f.tags))
		return
	}
	ty.r.AddOutcome(fmt.Sprintf("tags:n%d:ok", len(f.tags)))
}

// ---------------------------------------------------------------- enumeration

// tag maps: every partial map {a,b,c} -> {x,y} (27) plus awkward strings.
func tagMaps() []map[string]string {
	var out []map[string]string
	keys := []string{"a", "b", "c"}
	vals := []string{"", "x", "y"} // "" = absent here
	for i := 0; i < 27; i++ {
		m := map[string]string{}
		v := i
		for _, k := range keys {
			if d := v % 3; d != 0 {
				m[k] = vals[d]
			}
			v /= 3
		}
		out = append(out, m)
	}
	out = append(out,
		map[string]string{"": ""},
		map[string]string{"a": "a", "x": "x"},
		map[string]string{"a": "", "": "x"},
		map[string]string{"ключ": "значение", "a": "x"},
		map[string]string{"b": strings.Repeat("long", 80), "c": "y"},
	)
	return out
}

type tileWin struct {
	t          b6.Tile
	w          int // window side in pixels
	offx, offy int
}

func tilesFor(zooms []uint) []b6.Tile {
	var out []b6.Tile
	seen := map[b6.Tile]bool{}
	for _, z := range zooms {
		n := uint(1) << z
		cands := [][2]uint{{0, 0}, {n - 1, n - 1},
			{uint(float64(n) * 0.4996), uint(float64(n) * 0.3404)}, // London
			{uint(float64(n) * 0.92), uint(float64(n) * 0.61)}}     // south-east
		for _, c := range cands {
			t := b6.Tile{X: c[0], Y: c[1], Z: z}
			if !seen[t] {
				seen[t] = true
				out = append(out, t)
			}
		}
	}
	return out
}

// polygon windows: the whole tile from zoom 5; a smaller square window at lower
// zooms so that polygon edges (geodesics) stay close to straight pixel lines and
// the generated rings stay valid (checked through s2 Validate as precondition).
func windowsFor(t b6.Tile) []tileWin {
	w := px
	if t.Z < 5 {
		w = px >> (5 - t.Z)
	}
	var out []tileWin
	seen := map[[2]int]bool{}
	for _, o := range [][2]int{{0, 0}, {px - w, px - w}, {(px - w) / 2, (px - w) / 3}} {
		if !seen[o] {
			seen[o] = true
			out = append(out, tileWin{t: t, w: w, offx: o[0], offy: o[1]})
		}
	}
	return out
}

// frac -> pixel inside the window
func (tw tileWin) at(fx, fy float64, o [2]float64) vtx {
	return vtx{x: tw.offx + int(math.Round(fx*float64(tw.w-1))), y: tw.offy + int(math.Round(fy*float64(tw.w-1))), ox: o[0], oy: o[1]}
}

type fp struct{ x, y float64 }

func (tw tileWin) ring(ps []fp, rot int, o [2]float64) []vtx {
	v := make([]vtx, len(ps))
	for i, p := range ps {
		v[i] = tw.at(p.x, p.y, o)
	}
	v = orientCCW(v)
	out := make([]vtx, len(v))
	for i := range v {
		out[i] = v[(i+rot)%len(v)]
	}
	return out
}

var lattice4 = []float64{0, 1.0 / 3, 2.0 / 3, 1}

func holeShape(shape int, a, b, c, d float64) []fp {
	switch shape {
	case 1:
		return []fp{{a, c}, {b, c}, {a, d}}
	case 2:
		return []fp{{a, c}, {b, c}, {b, d}, {a, d}}
	default:
		return []fp{{a, c}, {b, c}, {b, d}, {(a + b) / 2, (c + d) / 2}, {a, d}}
	}
}

type family struct {
	name string
	// gen enumerates the instances of the family (deterministically)
	gen func(emit func(instance))
}

func single(desc string, f feat) instance {
	return instance{desc: desc, layers: []layerSpec{{name: "l", feats: []feat{f}}}}
}

func geometryFamilies(t b6.Tile, thorough bool, maps []map[string]string) []family {
	offsets := [][2]float64{{0.5, 0.5}}
	if thorough {
		offsets = append(offsets, [2]float64{0.1, 0.9}, [2]float64{0.9, 0.1})
	}
	var fams []family
	full := tileWin{t: t, w: px}
	var grid []fp
	for _, x := range lattice4 {
		for _, y := range lattice4 {
			grid = append(grid, fp{x, y})
		}
	}
	maxLine := 3
	if thorough {
		maxLine = 4
	}
	for oi, o := range offsets {
		o := o
		fams = append(fams, family{name: fmt.Sprintf("points+lines/offset%d", oi), gen: func(emit func(instance)) {
			k := 0
			for _, g := range grid {
				k++
				emit(single("point", feat{kind: kPoint, pts: []vtx{full.at(g.x, g.y, o)}, tags: maps[k%len(maps)], id: uint64(k % 3)}))
			}
			var rec func(cur []int)
			rec = func(cur []int) {
				if len(cur) >= 1 {
					k++
					var vs []vtx
					for _, gi := range cur {
						vs = append(vs, full.at(grid[gi].x, grid[gi].y, o))
					}
					emit(single("linestring", feat{kind: kLine, pts: vs, tags: maps[k%len(maps)], id: uint64(k % 3)}))
				}
				if len(cur) == maxLine {
					return
				}
				for gi := range grid {
					if len(cur) > 0 && cur[len(cur)-1] == gi {
						continue // adjacent vertices distinct
					}
					rec(append(cur, gi))
				}
			}
			rec(nil)
		}})
		for wi, tw := range windowsFor(t) {
			tw := tw
			fams = append(fams, family{name: fmt.Sprintf("triangles/offset%d/window%d", oi, wi), gen: func(emit func(instance)) {
				k := 0
				for i := 0; i < len(grid); i++ {
					for j := i + 1; j < len(grid); j++ {
						for l := j + 1; l < len(grid); l++ {
							ps := []fp{grid[i], grid[j], grid[l]}
							base := tw.ring(ps, 0, o)
							// skip collinear triples (lattice rounding can leave an area of a few px^2: still degenerate)
							if a := area2v(base); a > -int64(tw.w/4)*int64(tw.w/4) {
								continue
							}
							for rot := 0; rot < 3; rot++ {
								k++
								emit(single("triangle", feat{kind: kPolygon, rings: []ring{{v: tw.ring(ps, rot, o)}}, tags: maps[k%len(maps)]}))
							}
						}
					}
				}
			}})
			fams = append(fams, family{name: fmt.Sprintf("holes/offset%d/window%d", oi, wi), gen: func(emit func(instance)) {
				k := 0
				outers := [][]fp{
					{{0, 0}, {1, 0}, {1, 1}, {0, 1}},
					{{0, 0}, {1, 0}, {1, .5}, {.5, .5}, {.5, 1}, {0, 1}}, // L shape: bottom-right quadrant missing
				}
				for oi2, outer := range outers {
					slots := [][2]float64{{0, 0}, {.5, 0}, {0, .5}, {.5, .5}}
					if oi2 == 1 {
						slots = slots[:3]
					}
					nrot := len(outer)
					if !thorough {
						nrot = 2
					}
					for rot := 0; rot < nrot; rot++ {
						combos := 1
						for range slots {
							combos *= 4
						}
						for c := 0; c < combos; c++ {
							for variant := 0; variant < 2; variant++ {
								rings := []ring{{v: tw.ring(outer, rot, o)}}
								v := c
								for _, s := range slots {
									shape := v % 4
									v /= 4
									if shape == 0 {
										continue
									}
									rings = append(rings, ring{hole: true, v: tw.ring(holeShape(shape, s[0]+.125, s[0]+.375, s[1]+.125, s[1]+.375), variant*2, o)})
								}
								k++
								emit(instance{desc: fmt.Sprintf("outer%d rot%d holes%d variant%d", oi2, rot, len(rings)-1, variant), holesFirst: variant == 1,
									layers: []layerSpec{{name: "l", feats: []feat{{kind: kPolygon, rings: rings, tags: maps[k%len(maps)]}}}}})
							}
						}
					}
				}
			}})
			fams = append(fams, family{name: fmt.Sprintf("multi/offset%d/window%d", oi, wi), gen: func(emit func(instance)) {
				k := 0
				box := func(a, b, c, d float64, rot int) []vtx {
					return tw.ring([]fp{{a, c}, {b, c}, {b, d}, {a, d}}, rot, o)
				}
				// two shells side by side, each with 0/1 hole; shell A optionally with island (depth 2) and island hole (depth 3)
				for m := 0; m < 16; m++ {
					for rot := 0; rot < 4; rot++ {
						for hf := 0; hf < 2; hf++ {
							rings := []ring{{v: box(0, .45, 0, 1, rot)}, {v: box(.55, 1, 0, 1, (rot+1)%4)}}
							if m&1 != 0 {
								rings = append(rings, ring{hole: true, v: box(.05, .40, .1, .9, rot)})
								if m&4 != 0 {
									rings = append(rings, ring{v: box(.10, .35, .2, .8, (rot+2)%4)})
									if m&8 != 0 {
										rings = append(rings, ring{hole: true, v: box(.15, .30, .3, .7, (rot+3)%4)})
									}
								}
							} else if m&12 != 0 {
								continue
							}
							if m&2 != 0 {
								rings = append(rings, ring{hole: true, v: tw.ring(holeShape(3, .65, .9, .2, .8), rot, o)})
							}
							k++
							emit(instance{desc: fmt.Sprintf("multi m%d rot%d hf%d", m, rot, hf), holesFirst: hf == 1,
								layers: []layerSpec{{name: "l", feats: []feat{{kind: kPolygon, rings: rings, tags: maps[k%len(maps)]}}}}})
						}
					}
				}
			}})
		}
	}
	return fams
}

// tagFamilies: layers with several features of every combination of kinds and
// EVERY tuple of tag maps, an empty layer in between (skipped by the encoder)
// and a third layer (own key/value tables).
func tagFamilies(t b6.Tile, thorough bool, maps []map[string]string) []family {
	o := [2]float64{0.5, 0.5}
	full := tileWin{t: t, w: px}
	geo := func(kind, slot int) feat {
		fx := 0.1 + 0.25*float64(slot)
		switch kind {
		case kPoint:
			return feat{kind: kPoint, pts: []vtx{full.at(fx, 0.3, o)}}
		case kLine:
			return feat{kind: kLine, pts: []vtx{full.at(fx, 0.2, o), full.at(fx+0.1, 0.6, o), full.at(fx, 0.9, o)}}
		}
		w := tileWin{t: t, w: px}
		if t.Z < 5 {
			w = windowsFor(t)[0]
		}
		return feat{kind: kPolygon, rings: []ring{
			{v: w.ring([]fp{{0, 0}, {1, 0}, {1, 1}, {0, 1}}, slot%4, o)},
			{hole: true, v: w.ring(holeShape(1+slot%3, .2, .6, .3, .7), 0, o)}}}
	}
	nf := 2
	if thorough {
		nf = 3
	}
	var fams []family
	nk := 1
	for i := 0; i < nf; i++ {
		nk *= 3
	}
	for kc := 0; kc < nk; kc++ {
		kc := kc
		fams = append(fams, family{name: fmt.Sprintf("tags/kinds%d", kc), gen: func(emit func(instance)) {
			kinds := make([]int, nf)
			v := kc
			for i := range kinds {
				kinds[i] = v % 3
				v /= 3
			}
			tot := 1
			for i := 0; i < nf; i++ {
				tot *= len(maps)
			}
			for ti := 0; ti < tot; ti++ {
				v := ti
				var fs []feat
				for i := 0; i < nf; i++ {
					f := geo(kinds[i], i)
					f.tags = maps[v%len(maps)]
					f.id = uint64((ti + i) % 2 * 7)
					v /= len(maps)
					fs = append(fs, f)
				}
				last := geo(kinds[0], 3)
				last.tags = fs[nf-1].tags
				emit(instance{desc: fmt.Sprintf("tag tuple %d", ti), layers: []layerSpec{
					{name: "first", feats: fs}, {name: "empty"}, {name: "third", feats: []feat{last}}}})
			}
		}})
	}
	return fams
}

// ---------------------------------------------------------------- close-vertex alphabet

// rel is the relation of a vertex to its predecessor, as a real step (in tile
// units) of a along the frame's u axis and b along its w axis. The base offset
// of every anchor is (.5,.5); the step values are chosen such that no sum of up
// to 4 steps puts a vertex closer than 0.06 units to a unit border (checked as
// a precondition through expect()).
type rel struct {
	name string
	a, b float64
	far  bool // jump to the next far-away anchor (lines only)
}

var closeRels = []rel{
	{name: "same"},                     // (a) exactly the same position (bitwise identical S2 point)
	{name: "sub", a: .30, b: .20},      // (b) 0.36 units away, same unit from an anchor
	{name: "subNear", a: .04, b: -.03}, // (b) 0.05 units away
	{name: "straddle", a: .67},         // (b') 0.67 units away, the next unit from an anchor
	{name: "one", a: 1},                // (c) exactly one unit along u
	{name: "oneDiag", a: 1, b: 1},      // (c) one unit in both coordinates
	{name: "oneDiagNeg", a: 1, b: -1},  // (c) one unit in both coordinates, opposite signs
	{name: "far", far: true},           // ordinary long segment
}

const nClose = 7 // closeRels[:nClose] are the close relations

type rp struct{ x, y float64 }

func vAt(p rp) vtx {
	x, y := math.Floor(p.x), math.Floor(p.y)
	return vtx{x: int(x), y: int(y), ox: p.x - x, oy: p.y - y}
}

var axisDirs = []rp{{1, 0}, {0, 1}, {-1, 0}, {0, -1}}

func step(p rp, r rel, u, w rp) rp {
	return rp{p.x + r.a*u.x + r.b*w.x, p.y + r.a*u.y + r.b*w.y}
}

// pairClass classifies a consecutive generated vertex pair.
func pairClass(a, b vtx) string {
	if a == b {
		return "identical"
	}
	dx := float64(b.x-a.x) + b.ox - a.ox
	dy := float64(b.y-a.y) + b.oy - a.oy
	d := math.Hypot(dx, dy)
	same := a.x == b.x && a.y == b.y
	adx, ady := math.Abs(float64(b.x-a.x)), math.Abs(float64(b.y-a.y))
	switch {
	case same:
		return "sub-unit,same-integer"
	case d < 0.999:
		return "sub-unit,different-integer"
	case adx <= 1 && ady <= 1 && math.Abs(math.Abs(dx)-adx) < 1e-9 && math.Abs(math.Abs(dy)-ady) < 1e-9:
		return "exactly-one-unit"
	case adx <= 1 && ady <= 1:
		return "adjacent-integer"
	}
	return "far"
}

// notePositions records which close classes were generated at which position
// of the sequence (first / middle / last pair, closing edge of a ring).
func notePositions(r *kit.Result, what string, vs []vtx, closed bool) {
	n := len(vs)
	for i := 1; i < n; i++ {
		c := pairClass(vs[i-1], vs[i])
		if c == "far" {
			continue
		}
		pos := "middle"
		if i == 1 {
			pos = "first"
		} else if i == n-1 {
			pos = "last"
		}
		r.Count("generated:"+what+":"+c+"@"+pos+"-pair", 1)
	}
	if closed && n > 1 {
		if c := pairClass(vs[n-1], vs[0]); c != "far" {
			r.Count("generated:"+what+":"+c+"@closing-edge", 1)
		}
	}
}

var lineAnchors = []rp{{1365.5, 1365.5}, {2730.5, 1400.5}, {2700.5, 2730.5}, {1300.5, 2800.5}, {700.5, 600.5}}

// closeLine builds the line string for a word of relations (one per gap) in
// the frame (u,w) = (axisDirs[frame], axisDirs[frame+1]).
func closeLine(frame int, word []int) []vtx {
	u, w := axisDirs[frame%4], axisDirs[(frame+1)%4]
	p := lineAnchors[0]
	jumps := 0
	vs := []vtx{vAt(p)}
	for _, ri := range word {
		r := closeRels[ri]
		if r.far {
			jumps++
			p = lineAnchors[jumps%len(lineAnchors)]
		} else {
			p = step(p, r, u, w)
		}
		vs = append(vs, vAt(p))
	}
	return vs
}

func wordName(word []int) string {
	var s []string
	for _, ri := range word {
		s = append(s, closeRels[ri].name)
	}
	return strings.Join(s, ",")
}

// eachWord enumerates all words of length n over [0,k) in lexicographic order.
func eachWord(n, k int, f func([]int)) {
	w := make([]int, n)
	var rec func(i int)
	rec = func(i int) {
		if i == n {
			f(w)
			return
		}
		for d := 0; d < k; d++ {
			w[i] = d
			rec(i + 1)
		}
	}
	rec(0)
}

// clusterRing: the axis-aligned square with corners at the window fractions
// lo / hi, in geographic counter-clockwise order (down, right, up, left on
// screen), with a cluster of close vertices inserted after corner `corner`
// (none if corner < 0): every cluster member is a step from its predecessor
// with a > 0 along the outgoing edge (u) and b along the direction back to the
// previous corner (w), so the ring stays simple (the chain corner -> cluster ->
// next corner is monotone along u). `same` members repeat the position.
func clusterRing(tw tileWin, lo, hi float64, corner int, pat []int, rot int) (out []vtx, standin []vtx) {
	at := func(f float64, off int) float64 { return float64(off) + math.Round(f*float64(tw.w-1)) + .5 }
	c := []rp{{at(lo, tw.offx), at(lo, tw.offy)}, {at(lo, tw.offx), at(hi, tw.offy)}, {at(hi, tw.offx), at(hi, tw.offy)}, {at(hi, tw.offx), at(lo, tw.offy)}}
	sgn := func(a, b rp) rp {
		s := func(d float64) float64 {
			if d > 0 {
				return 1
			} else if d < 0 {
				return -1
			}
			return 0
		}
		return rp{s(b.x - a.x), s(b.y - a.y)}
	}
	var vs, st []vtx
	dup := false
	for j := 0; j < 4; j++ {
		vs = append(vs, vAt(c[j]))
		st = append(st, vAt(c[j]))
		if j != corner {
			continue
		}
		u, w := sgn(c[j], c[(j+1)%4]), sgn(c[j], c[(j+3)%4])
		p, q := c[j], c[j]
		for _, ri := range pat {
			r := closeRels[ri]
			p = step(p, r, u, w)
			if r.a == 0 && r.b == 0 {
				dup = true
				r = closeRels[2] // stand-in: 0.05 units away
			}
			q = step(q, r, u, w)
			vs = append(vs, vAt(p))
			st = append(st, vAt(q))
		}
	}
	out = make([]vtx, len(vs))
	for i := range vs {
		out[i] = vs[(i+rot)%len(vs)]
	}
	if dup {
		standin = make([]vtx, len(st))
		for i := range st {
			standin[i] = st[(i+rot)%len(st)]
		}
	}
	return out, standin
}

func ringPatterns(thorough bool) [][]int {
	var pats [][]int
	for i := 0; i < nClose; i++ {
		pats = append(pats, []int{i})
	}
	second := []int{0, 1, 3, 4} // same, sub, straddle, one
	if thorough {
		second = []int{0, 1, 2, 3, 4, 5, 6}
	}
	for _, i := range second {
		for _, j := range second {
			pats = append(pats, []int{i, j})
		}
	}
	return pats
}

// closeFamilies: the close-vertex geometry families through EncodeTile.
func closeFamilies(t b6.Tile, thorough bool, maps []map[string]string) []family {
	var fams []family
	maxGaps := 3
	if thorough {
		maxGaps = 4
	}
	fams = append(fams, family{name: "close-lines", gen: func(emit func(instance)) {
		k := 0
		for gaps := 1; gaps <= maxGaps; gaps++ {
			for frame := 0; frame < 4; frame++ {
				eachWord(gaps, len(closeRels), func(word []int) {
					allFar := true
					for _, ri := range word {
						if !closeRels[ri].far {
							allFar = false
						}
					}
					if allFar {
						return // no close pair: covered by the lattice lines
					}
					k++
					emit(single(fmt.Sprintf("close line frame%d [%s]", frame, wordName(word)),
						feat{kind: kLine, pts: closeLine(frame, word), tags: maps[k%len(maps)], id: uint64(k % 3)}))
				})
			}
		}
	}})
	pats := ringPatterns(thorough)
	type role struct {
		name                   string
		shellCluster, hole     bool
		holeCluster, holesFrst bool
	}
	roles := []role{
		{name: "shell", shellCluster: true},
		{name: "hole-in-plain-shell", hole: true, holeCluster: true},
		{name: "hole-in-plain-shell/holes-first", hole: true, holeCluster: true, holesFrst: true},
		{name: "shell-with-plain-hole", shellCluster: true, hole: true},
		{name: "shell+hole/holes-first", shellCluster: true, hole: true, holeCluster: true, holesFrst: true},
	}
	if thorough {
		roles = append(roles,
			role{name: "shell-with-plain-hole/holes-first", shellCluster: true, hole: true, holesFrst: true},
			role{name: "shell+hole", shellCluster: true, hole: true, holeCluster: true})
	}
	for wi, tw := range windowsFor(t) {
		tw := tw
		fams = append(fams, family{name: fmt.Sprintf("close-rings/window%d", wi), gen: func(emit func(instance)) {
			k := 0
			for _, ro := range roles {
				for corner := 0; corner < 4; corner++ {
					for _, pat := range pats {
						n := 4 + len(pat)
						for rot := 0; rot < n; rot++ {
							var rings []ring
							if ro.shellCluster {
								v, st := clusterRing(tw, .1, .9, corner, pat, rot)
								rings = append(rings, ring{v: v, standin: st})
							} else {
								v, _ := clusterRing(tw, .05, .95, -1, nil, rot%4)
								rings = append(rings, ring{v: v})
							}
							if ro.hole {
								if ro.holeCluster {
									// the hole's cluster sits at another corner and start vertex than the shell's
									v, st := clusterRing(tw, .3, .7, (corner+1)%4, pat, (rot+2)%n)
									rings = append(rings, ring{v: v, standin: st, hole: true})
								} else {
									v, _ := clusterRing(tw, .3, .7, -1, nil, (rot+1)%4)
									rings = append(rings, ring{v: v, hole: true})
								}
							}
							k++
							emit(instance{desc: fmt.Sprintf("close ring %s corner%d [%s] start%d", ro.name, corner, wordName(pat), rot), holesFirst: ro.holesFrst,
								layers: []layerSpec{{name: "l", feats: []feat{{kind: kPolygon, rings: rings, tags: maps[k%len(maps)]}}}}})
						}
					}
				}
			}
		}})
	}
	return fams
}

// ---------------------------------------------------------------- Encoder API entry point

type ipart struct {
	pts    []ipt
	closed bool
}

var apiDeltas = []ipt{{0, 0}, {1, 0}, {0, 1}, {-1, 0}, {0, -1}, {1, 1}, {-1, -1}, {1, -1}, {100, 37}, {-50, -200}}

var apiKinds = []string{"multipoint", "linestring", "ring"}

// fractions used by the Point(r2.Point) form: consecutive vertices get
// different sub-unit positions, so a (0,0) delta is "distinct positions in one
// unit" there and "the same position" in the XY form.
var apiFracs = [][2]float64{{.25, .25}, {.75, .70}, {.5, .5}}

func apiPath(word []int, start ipt) []ipt {
	p := start
	out := []ipt{p}
	for _, d := range word {
		p = ipt{p.x + apiDeltas[d].x, p.y + apiDeltas[d].y}
		out = append(out, p)
	}
	return out
}

// checkAPI drives the Encoder directly: one feature of the given kind with the
// given parts (tile-local integer coordinates), through XY or Point, and
// demands that the independent decoder reproduces exactly the parts.
func checkAPI(ty *tally, t b6.Tile, kind int, usePoint bool, parts []ipart, desc string) {
	r := ty.r
	r.Evals++
	kn := "api-" + apiKinds[kind]
	ox, oy := int(t.X)<<renderer.TileExtent, int(t.Y)<<renderer.TileExtent
	e := renderer.NewEncoder(ox, oy, "api", 1<<renderer.TileExtent)
	f := e.StartFeature()
	f.Type = []pb.TileProto_GeomType{pb.TileProto_POINT, pb.TileProto_LINESTRING, pb.TileProto_POLYGON}[kind].Enum()
	for _, pt := range parts {
		for _, p := range pt.pts {
			if p.x < 0 || p.y < 0 || p.x >= 1<<renderer.TileExtent || p.y >= 1<<renderer.TileExtent {
				ty.violate("harness:precondition", "Encoder API %s: generated vertex %v outside the tile (%s)", apiKinds[kind], p, desc)
				return
			}
		}
	}
	nput := 0
	put := func(p ipt) {
		if usePoint {
			fr := apiFracs[nput%len(apiFracs)]
			e.Point(r2.Point{X: float64(ox+p.x) + fr[0], Y: float64(oy+p.y) + fr[1]})
		} else {
			e.XY(ox+p.x, oy+p.y)
		}
		nput++
	}
	var want []ipart
	if kind == kPoint {
		e.MoveTo(len(parts[0].pts))
		for _, p := range parts[0].pts {
			put(p)
			want = append(want, ipart{pts: []ipt{p}})
		}
	} else {
		for _, pt := range parts {
			e.MoveTo(1)
			put(pt.pts[0])
			e.LineTo(len(pt.pts) - 1)
			for _, p := range pt.pts[1:] {
				put(p)
			}
			if pt.closed {
				e.ClosePath()
			}
			want = append(want, pt)
		}
	}
	e.Tag("k", "v")
	where := func() string {
		var s []string
		for _, w := range want {
			s = append(s, fmt.Sprintf("%s closed=%v", showI(w.pts), w.closed))
		}
		form := "XY"
		if usePoint {
			form = "Point"
		}
		return fmt.Sprintf("Encoder API (%s form, origin tile %v) %s parts {%s} (%s)", form, t, apiKinds[kind], strings.Join(s, "; "), desc)
	}
	bytes, err := proto.Marshal(&pb.TileProto{Layers: []*pb.TileProto_Layer{e.Layer()}})
	if err != nil {
		ty.violate("marshal:error", "%s: proto.Marshal: %v", where(), err)
		return
	}
	var tp pb.TileProto
	if err := proto.Unmarshal(bytes, &tp); err != nil {
		ty.violate("marshal:error", "%s: proto.Unmarshal: %v", where(), err)
		return
	}
	if len(tp.Layers) != 1 || len(tp.Layers[0].Features) != 1 {
		ty.violate(kn+":features:wrong-count", "%s: layer/feature count wrong", where())
		return
	}
	g := tp.Layers[0].Features[0].Geometry
	d, derr := decodeGeometry(g)
	if derr != "" {
		ty.violate(kn+":undecodable:"+derr, "%s: command stream %v: %s", where(), g, derr)
		return
	}
	if len(d.parts) != len(want) {
		ty.violate(kn+":wrong-structure", "%s: command stream %v decodes to %d parts, want %d", where(), g, len(d.parts), len(want))
		return
	}
	z := 0
	for i, w := range want {
		if d.parts[i].closed != w.closed {
			ty.violate(kn+":wrong-structure", "%s: command stream %v: part %d closed=%v", where(), g, i, d.parts[i].closed)
			return
		}
		if !eqI(d.parts[i].pts, w.pts) {
			ty.violate(kn+":wrong-coordinates", "%s: command stream %v: part %d decodes to %s", where(), g, i, showI(d.parts[i].pts))
			return
		}
		if kind != kPoint {
			z += notePairs(r, d.parts[i].pts, w.closed)
		}
	}
	np := 0
	for _, w := range want {
		np += len(w.pts)
	}
	if np > 6 {
		np = 6
	}
	r.AddOutcome(fmt.Sprintf("%s:parts%d:n%d%s:ok", kn, map[bool]int{false: 1, true: 2}[len(want) > 1 && kind != kPoint], np, zsuffix(z)))
}

var apiTrailer = []ipt{{5, 5}, {7, 9}, {7, 9}, {6, 9}}

// apiCases: for every (origin tile, kind, XY/Point form) one case enumerating
// every delta word of 1..maxGaps gaps, alone and followed by a second part
// (which must stay in sync); thorough adds all pairs of parts of <= 2 gaps.
func apiCases(thorough bool) []caseSpec {
	maxGaps := 3
	if thorough {
		maxGaps = 4
	}
	var cs []caseSpec
	start := ipt{1000, 1000}
	for _, t := range []b6.Tile{{Z: 0}, {Z: 22, X: 2095734, Y: 1427743}} {
		for kind := range apiKinds {
			for form := 0; form < 2; form++ {
				t, kind, usePoint := t, kind, form == 1
				cs = append(cs, caseSpec{t: t, name: fmt.Sprintf("api/%s/form%d", apiKinds[kind], form), run: func(ty *tally) (n int64, first string) {
					one := func(parts []ipart, desc string) {
						n++
						if n == 1 {
							first = fmt.Sprintf("Encoder API %s %s %s", apiKinds[kind], showI(parts[0].pts), desc)
						}
						checkAPI(ty, t, kind, usePoint, parts, desc)
					}
					closed := kind == kPolygon
					for gaps := 1; gaps <= maxGaps; gaps++ {
						eachWord(gaps, len(apiDeltas), func(word []int) {
							p := ipart{pts: apiPath(word, start), closed: closed}
							one([]ipart{p}, "single part")
							if kind != kPoint {
								one([]ipart{p, {pts: apiTrailer, closed: closed}}, "followed by a second part")
							}
						})
					}
					if thorough && kind != kPoint {
						for g1 := 1; g1 <= 2; g1++ {
							for g2 := 1; g2 <= 2; g2++ {
								eachWord(g1, len(apiDeltas), func(w1 []int) {
									p1 := ipart{pts: apiPath(w1, start), closed: closed}
									eachWord(g2, len(apiDeltas), func(w2 []int) {
										one([]ipart{p1, {pts: apiPath(w2, ipt{2000, 1500}), closed: closed}}, "two enumerated parts")
									})
								})
							}
						}
					}
					return
				}})
			}
		}
	}
	return cs
}

type caseSpec struct {
	t    b6.Tile
	name string
	run  func(ty *tally) (instances int64, first string)
}

func famCase(t b6.Tile, f family, name string) caseSpec {
	return caseSpec{t: t, name: name, run: func(ty *tally) (n int64, first string) {
		f.gen(func(in instance) {
			n++
			if n == 1 {
				first = in.layers[0].feats[0].String() + " (" + in.desc + ")"
			}
			ft := in.layers[0].feats[0]
			if strings.HasPrefix(in.desc, "close ") {
				if ft.kind == kLine {
					notePositions(ty.r, "line", ft.pts, false)
				} else {
					for _, rg := range ft.rings {
						// emission order of the encoder's documented scheme: shells
						// forwards, holes v0, v[n-1], ..., v1 (evidence counters
						// only; the oracle accepts any rotation / direction)
						if !rg.hole {
							notePositions(ty.r, "shell", rg.v, true)
							continue
						}
						em := []vtx{rg.v[0]}
						for i := len(rg.v) - 1; i > 0; i-- {
							em = append(em, rg.v[i])
						}
						notePositions(ty.r, "hole(reversed emission)", em, true)
					}
				}
			}
			checkInstance(ty, t, in)
		})
		return
	}}
}

func buildCases(tier string) ([]caseSpec, string) {
	thorough := tier == "thorough"
	maps := tagMaps()
	zooms := []uint{0, 1, 2, 7, 14, 18, 22}
	if thorough {
		zooms = nil
		for z := uint(0); z <= 22; z++ {
			zooms = append(zooms, z)
		}
	}
	tiles := tilesFor(zooms)
	var cs []caseSpec
	for _, t := range tiles {
		for _, f := range geometryFamilies(t, thorough, maps) {
			cs = append(cs, famCase(t, f, "geometry/"+f.name))
		}
		for _, f := range closeFamilies(t, thorough, maps) {
			cs = append(cs, famCase(t, f, "geometry/"+f.name))
		}
	}
	cs = append(cs, apiCases(thorough)...)
	tagTiles := []b6.Tile{{Z: 0}, {Z: 14, X: 8185, Y: 5577}}
	for _, t := range tagTiles {
		for _, f := range tagFamilies(t, thorough, maps) {
			cs = append(cs, famCase(t, f, f.name))
		}
	}
	// simplest first: stable order by family class (Encoder API words, points+lines, close lines, triangles, close rings, holes, multi, tags), keeping tile order inside
	rank := func(n string) int {
		for i, p := range []string{"api/multipoint", "api/linestring", "api/ring", "geometry/points", "geometry/close-lines", "geometry/triangles", "geometry/close-rings", "geometry/holes", "geometry/multi", "tags/"} {
			if strings.HasPrefix(n, p) {
				return i
			}
		}
		return 99
	}
	sort.SliceStable(cs, func(i, j int) bool { return rank(cs[i].name) < rank(cs[j].name) })
	lineMax, nf := 3, 2
	if thorough {
		lineMax, nf = 4, 3
	}
	bound := fmt.Sprintf("%d tiles at zooms %v (corner, far-corner, London and south-east tiles per zoom); per tile: 16 points and all line strings of 1..%d vertices (adjacent distinct) on the 4x4 pixel lattice {0,1365,2730,4095}^2; per polygon window (whole tile from zoom 5, a 4096>>(5-z) px window at 3 positions below): all non-degenerate lattice triangles x 3 start vertices, square and L-shaped outers x start vertices x every assignment of {none,triangle,quad,concave pentagon} holes to the 4 (3) hole slots x loop order, two-shell polygons with holes / island in hole / hole in island; %d sub-pixel offsets; tag maps: all 27 partial maps {a,b,c}->{x,y} + 5 awkward-string maps, rotated over geometry cases and ALL %d-tuples of maps over %d-feature layers for every combination of geometry kinds (2 tiles); "+
		"CLOSE VERTICES (offset .5 anchors, every tile): line strings = every word of 1..%d gap relations over {same position, 0.36 u apart (same unit), 0.05 u apart, 0.67 u apart (next unit), exactly one unit along the axis, one unit in both coordinates (+,+) and (+,-), far jump} with at least one close relation x 4 axis frames (+x,+y,-x,-y); rings = a square (geographic counter-clockwise) with a cluster of 1 or 2 extra vertices after one corner, every corner x every cluster word (7 single + %d double relation words) x EVERY start vertex (so the close pair is the first, a middle, the last emitted pair and the closing edge), as shell alone, as hole of a plain shell, as shell with a plain hole, and as shell+hole both clustered, x loop order (%d role variants), per polygon window; "+
		"ENCODER API (NewEncoder/StartFeature/MoveTo/LineTo/XY|Point/ClosePath driven directly, origins tile 0/0/0 and a zoom-22 tile): every word of 1..%d deltas over {(0,0),(1,0),(0,1),(-1,0),(0,-1),(1,1),(-1,-1),(1,-1),(100,37),(-50,-200)} as multi-point (MoveTo n), line string and closed ring, alone and followed by a second part containing a repeated vertex%s, through XY (same position) and through Point (distinct sub-unit positions); %d cases",
		len(tiles), zooms, lineMax, map[bool]int{false: 1, true: 3}[thorough], nf, nf,
		lineMax, len(ringPatterns(thorough))-nClose, map[bool]int{false: 5, true: 7}[thorough],
		lineMax, map[bool]string{false: "", true: " plus all pairs of parts of 1..2 deltas each"}[thorough], len(cs))
	return cs, bound
}

func main() {
	kit.Main(&kit.Check{
		ID:    "C33",
		Level: "exploration",
		Rule: "a case = (tile, family); it enumerates every instance of the family (see bound), builds the renderer.Tile, calls renderer.EncodeTile (families api/*: drives the public renderer.Encoder calls MoveTo/LineTo/XY|Point/ClosePath directly with tile-local integer vertex words), proto-marshals and re-parses the tile and decodes every feature with an independent MVT command decoder written from vector-tile-spec 2.1 4.3 (command id + count, zigzag parameter pairs, cursor from the tile origin); the stream must be well-formed: every declared count has its parameter pairs present, nothing but known commands, ClosePath count 1 on an open path, stream fully consumed. " +
			"Consecutive vertices that coincide, share an integer tile unit or differ by one unit are part of the alphabet at every position (first/middle/last pair, a ring's closing edge, holes in reversed emission); the statement promises the feature's projected integer coordinates, so zero-length segments may NOT be dropped: every vertex must be decoded (for the Encoder API: exactly the parts and vertices handed in, in order). " +
			"Oracle: decoded integer coordinates == floor of the independently computed slippy-map projection of each vertex relative to the tile origin at the layer's extent (points: one MoveTo; lines: in order; polygon rings: up to rotation/direction, every ring closed), outer rings share one non-zero winding sign and holes have the opposite sign, tag index pairs resolve through the layer's key/value tables to exactly the feature's tag map. " +
			"Every instance is non-trivial (it encodes at least one feature) and instances are distinct by construction.",
		Assumptions: []string{
			"vertices lie inside the tile, at least 0.1 px away from pixel borders (the statement quantifies over geometry inside a tile; border rounding is not part of it)",
			"polygons are valid S2 polygons built with s2.PolygonFromLoops from counter-clockwise loops, as the repository does (checked as a precondition with s2 Validate)",
			"rings have fewer than 1000 vertices (above that EncodeTile intentionally simplifies rings, which by design does not reproduce every vertex)",
			"a LineTo with count 0 (emitted for a 1-vertex line string) is tolerated by the decoder and counted, since the statement only speaks about coordinates",
			"tag values are strings (renderer.Feature.Tags is map[string]string)",
			"rings with an exactly repeated vertex are not valid S2 loops and S2's nesting computation is undefined on them (a shell with a repeated vertex was observed not to contain its hole), while EncodeTile only reads Vertex(i) and IsHole(): the s2.Polygon is built and validated from a stand-in ring whose repeated vertex is 0.05 units away, then the vertex is set to the repeated position in place; line strings with repeated vertices are passed as they are",
			"Encoder API words stay inside the tile (coordinates 0..4095 relative to the origin); through Point the vertices carry fractions .25/.70/.5 and the expected integer is the floor",
		},
		Build: func(tier string) (kit.Space, string) {
			cases, bound := buildCases(tier)
			return kit.FuncSpace{N: int64(len(cases)), F: func(i int64) kit.Result {
				var r kit.Result
				c := cases[i]
				ty := &tally{r: &r, perClass: map[string]int{}}
				n, first := c.run(ty)
				r.Nontrivial = n > 0
				r.Distinct = n
				if i%53 == 0 {
					r.Sample = map[string]interface{}{"tile": c.t.String(), "family": c.name, "instances": n, "first_instance": first}
				}
				return r
			}}, bound
		},
	})
}
