// C34 — line simplification matches the recursive reference.
//
// Engine E1 (bounded-exhaustive input enumeration): EVERY point sequence of
// length 2..N over a GxG integer grid, times every tolerance of
// {0, 0.5, 1, 1.5, 3}, is passed to
//
//	renderer.Simplify                                   (iterative, under test)
//	renderer.VerifReferenceDouglasPeuckerSimplify       (the repository's recursive reference = the statement's oracle)
//
// and to an independent exact-arithmetic recursive Douglas-Peucker written
// here (integer cross products, no floating point). The statement's oracle is
// the repository reference; the independent implementation cross-checks that
// reference. Because the repository computes distances in floating point
// (normalised direction vector), mathematically equal distances (ties for the
// maximum, or a maximum exactly equal to the tolerance, including the
// "all collinear, tolerance 0" situation) may be decided either way by
// rounding noise. The independent implementation therefore is
// NON-DETERMINISTIC exactly at those exact ties: it returns the set of all
// outcomes reachable by breaking exact ties either way, and the reference must
// be a member of that set (for inputs without exact ties the set is a
// singleton, so this is plain equality).
//
// Triage note (not a violation of C34): both repository implementations split
// an interval at the farthest point m into [begin, m-1] and [m, end], i.e. the
// left part does not contain m and is measured against the chord
// begin..(m-1), whose end point m-1 is then dropped. The textbook algorithm
// splits into [begin, m] and [m, end]. The independent implementation follows
// the repository reference's convention (the statement's oracle); the number of
// inputs on which the textbook algorithm would give a different answer is
// reported in the counter "exact-ties:none:textbook-differs" for information only.
package main

import (
	"fmt"
	"math/bits"
	"runtime/debug"
	"time"

	"diagonal.works/b6/renderer"
	"github.com/golang/geo/r2"
	"verif/kit"
)

var tols = []float64{0, 0.5, 1, 1.5, 3}
var tols4 = []int64{0, 1, 4, 9, 36} // 4*eps^2, exact

type pt struct{ x, y int64 }

// d2 is the exact squared perpendicular distance of p from the line through a
// and b as a fraction num/den (den > 0). For a == b the repository normalises
// the zero vector to the zero vector, which makes its distance |a-p|.
func d2(a, b, p pt) (num, den int64) {
	dx, dy := b.x-a.x, b.y-a.y
	if dx == 0 && dy == 0 {
		ex, ey := p.x-a.x, p.y-a.y
		return ex*ex + ey*ey, 1
	}
	c := dx*(p.y-a.y) - dy*(p.x-a.x)
	return c * c, dx*dx + dy*dy
}

// set of index masks (sequence length <= 7 => masks < 128).
type set [2]uint64

func (s *set) add(m uint)     { s[m>>6] |= 1 << (m & 63) }
func (s set) has(m uint) bool { return s[m>>6]&(1<<(m&63)) != 0 }
func (s set) count() int      { return bits.OnesCount64(s[0]) + bits.OnesCount64(s[1]) }
func (s set) each(f func(uint)) {
	for w := 0; w < 2; w++ {
		v := s[w]
		for v != 0 {
			b := bits.TrailingZeros64(v)
			v &^= 1 << uint(b)
			f(uint(w*64 + b))
		}
	}
}

// solveND: all sets of "interval begin" points the repository reference's
// recursion can keep for points lo..hi (inclusive), breaking exact ties both
// ways. The final point hi of the whole line is added by the caller.
func solveND(p []pt, lo, hi int, e4 int64) set {
	var out set
	if hi-lo < 2 {
		out.add(1 << uint(lo))
		return out
	}
	var best, den int64 = -1, 1
	for i := lo + 1; i < hi; i++ {
		n, d := d2(p[lo], p[hi], p[i])
		den = d
		if n > best {
			best = n
		}
	}
	cmp := 4*best - e4*den // sign of (max distance)^2 - eps^2
	if cmp <= 0 {
		out.add(1 << uint(lo)) // max <= eps: interval collapses to its begin point
	}
	if cmp >= 0 {
		for i := lo + 1; i < hi; i++ {
			n, _ := d2(p[lo], p[hi], p[i])
			if n != best {
				continue
			}
			left := solveND(p, lo, i-1, e4)
			right := solveND(p, i, hi, e4)
			for wa := 0; wa < 2; wa++ {
				for va := left[wa]; va != 0; va &= va - 1 {
					a := uint(wa*64 + bits.TrailingZeros64(va))
					for wb := 0; wb < 2; wb++ {
						for vb := right[wb]; vb != 0; vb &= vb - 1 {
							out.add(a | uint(wb*64+bits.TrailingZeros64(vb)))
						}
					}
				}
			}
		}
	}
	return out
}

// solveDet: the reference's recursion with exact arithmetic, strict ">" and
// the first index winning ties (what the source text says when read over the
// reals). Information only: counts how often rounding decided a tie.
func solveDet(p []pt, lo, hi int, e4 int64) uint {
	if hi-lo < 2 {
		return 1 << uint(lo)
	}
	var best, den int64 = 0, 1
	bi := 0
	for i := lo + 1; i < hi; i++ {
		n, d := d2(p[lo], p[hi], p[i])
		den = d
		if n > best {
			best, bi = n, i
		}
	}
	if 4*best > e4*den {
		return solveDet(p, lo, bi-1, e4) | solveDet(p, bi, hi, e4)
	}
	return 1 << uint(lo)
}

// textbook: classical recursive Douglas-Peucker (split point shared by both
// halves), exact arithmetic, first index wins ties. Information only.
func textbook(p []pt, lo, hi int, e4 int64) uint {
	m := uint(1)<<uint(lo) | uint(1)<<uint(hi)
	if hi-lo < 2 {
		return m
	}
	var best, den int64 = -1, 1
	bi := 0
	for i := lo + 1; i < hi; i++ {
		n, d := d2(p[lo], p[hi], p[i])
		den = d
		if n > best {
			best, bi = n, i
		}
	}
	if 4*best > e4*den {
		return textbook(p, lo, bi, e4) | textbook(p, bi, hi, e4)
	}
	return m
}

func maskPoints(p []pt, m uint) []pt {
	var out []pt
	for i := range p {
		if m&(1<<uint(i)) != 0 {
			out = append(out, p[i])
		}
	}
	return out
}

// eqMask: a equals the points of p selected by mask m.
func eqMask(a []r2.Point, p []pt, m uint) bool {
	if len(a) != bits.OnesCount(m) {
		return false
	}
	j := 0
	for i := range p {
		if m&(1<<uint(i)) != 0 {
			if a[j].X != float64(p[i].x) || a[j].Y != float64(p[i].y) {
				return false
			}
			j++
		}
	}
	return true
}

func eqPts(a []r2.Point, b []pt) bool {
	if len(a) != len(b) {
		return false
	}
	for i := range a {
		if a[i].X != float64(b[i].x) || a[i].Y != float64(b[i].y) {
			return false
		}
	}
	return true
}

func eqR2(a, b []r2.Point) bool {
	if len(a) != len(b) {
		return false
	}
	for i := range a {
		if a[i] != b[i] {
			return false
		}
	}
	return true
}

// isSubsequence: out can be obtained from in by deleting elements.
func isSubsequence(out []r2.Point, in []pt) bool {
	j := 0
	for _, o := range out {
		for j < len(in) && !(float64(in[j].x) == o.X && float64(in[j].y) == o.Y) {
			j++
		}
		if j == len(in) {
			return false
		}
		j++
	}
	return true
}

func showPts(p []pt) string {
	s := "["
	for i, q := range p {
		if i > 0 {
			s += " "
		}
		s += fmt.Sprintf("(%d,%d)", q.x, q.y)
	}
	return s + "]"
}

func showR2(p []r2.Point) string {
	s := "["
	for i, q := range p {
		if i > 0 {
			s += " "
		}
		s += fmt.Sprintf("(%v,%v)", q.X, q.Y)
	}
	return s + "]"
}

type caseSpec struct {
	L      int
	prefix []int // grid point indices of the first min(L,P) points
}

func buildCases(G, N, P int) []caseSpec {
	var cs []caseSpec
	n := G * G
	for L := 2; L <= N; L++ {
		pl := P
		if L < pl {
			pl = L
		}
		tot := 1
		for i := 0; i < pl; i++ {
			tot *= n
		}
		for k := 0; k < tot; k++ {
			pre := make([]int, pl)
			v := k
			for i := pl - 1; i >= 0; i-- { // first point most significant: simplest (all at origin) first
				pre[i] = v % n
				v /= n
			}
			cs = append(cs, caseSpec{L: L, prefix: pre})
		}
	}
	return cs
}

func main() {
	kit.Main(&kit.Check{
		ID:    "C34",
		Level: "exploration",
		// many short-lived allocations inside the code under test: keep the
		// per-worker garbage collector from fighting over the cores
		WorkerEnv:        []string{"GOMAXPROCS=1", "GOGC=200"},
		ThoroughDeadline: 25 * time.Minute,
		Rule: "every sequence of L points (L = 2..N, repeats allowed) over the GxG integer grid x every tolerance of {0,0.5,1,1.5,3}; a case fixes L and the first min(L,P) points and enumerates all remaining points and all tolerances inside. " +
			"Per (sequence,tolerance): Simplify == repository recursive reference (element-wise); reference is one of the outcomes of an independent exact-arithmetic recursive Douglas-Peucker that breaks exact distance ties both ways (singleton when there is no exact tie); first/last kept; result is a subsequence of the input. " +
			"Non-trivial = L >= 3 (at least one interior point to decide); all (sequence,tolerance) pairs are distinct by construction.",
		Assumptions: []string{
			"coordinates are small integers, so exact distances are rationals whose distinct values differ by far more than floating-point rounding error; only exact ties are treated as undetermined",
			"sequences of fewer than 2 points are outside the statement's quantifier (length 2..N)",
		},
		Build: func(tier string) (kit.Space, string) {
			G, N, P := 3, 6, 2
			if tier == "thorough" {
				G, N, P = 4, 7, 3
			}
			cases := buildCases(G, N, P)
			grid := make([]pt, G*G)
			for i := range grid {
				grid[i] = pt{int64(i / G), int64(i % G)}
			}
			bound := fmt.Sprintf("all point sequences of length 2..%d over the %dx%d integer grid (%d points, repeats allowed) x tolerances {0,0.5,1,1.5,3}; %d cases", N, G, G, G*G, len(cases))
			return kit.FuncSpace{N: int64(len(cases)), F: func(ci int64) (r kit.Result) {
				c := cases[ci]
				L := c.L
				n := G * G
				idx := make([]int, L)
				copy(idx, c.prefix)
				p := make([]pt, L)
				in := make([]r2.Point, L)
				in2 := make([]r2.Point, L)
				curTol := -1.0
				defer func() {
					if e := recover(); e != nil {
						st := string(debug.Stack())
						r.Violate("panic@"+kit.PanicSite(st), "panic on points=%s epsilon=%v: %v\n%s", showPts(p), curTol, e, st)
					}
				}()
				viol := map[string]int{}
				violate := func(class, f string, a ...interface{}) {
					viol[class]++
					if viol[class] <= 3 {
						r.Violate(class, f, a...)
					}
				}
				desc := func(tol float64) string { return fmt.Sprintf("points=%s epsilon=%v", showPts(p), tol) }
				// local tallies, flushed once at the end (the loop body runs ~10^9 times)
				var keepHist [16]int64
				var removed [5]int64
				var tiesNone, tiesSome, tbEq, tbDiff, tieFirst, tieRound int64
				r.Nontrivial = L >= 3
				last := uint(1) << uint(L-1)
				for {
					for i := range idx {
						p[i] = grid[idx[i]]
					}
					for ti, tol := range tols {
						r.Evals++
						for i := range p {
							in[i] = r2.Point{X: float64(p[i].x), Y: float64(p[i].y)}
							in2[i] = in[i]
						}
						curTol = tol
						got := renderer.Simplify(in, tol)
						ref := renderer.VerifReferenceDouglasPeuckerSimplify(in2, tol)
						if !eqPts(in, p) || !eqPts(in2, p) {
							violate("input-mutated", "%s: input slice modified by Simplify/reference", desc(tol))
						}
						if !eqR2(got, ref) {
							violate("Simplify!=reference", "%s: Simplify=%s reference=%s", desc(tol), showR2(got), showR2(ref))
						}
						if len(got) == 0 || got[0].X != float64(p[0].x) || got[0].Y != float64(p[0].y) {
							violate("endpoints:first-not-kept", "%s: Simplify=%s does not start with the first input point", desc(tol), showR2(got))
						}
						if len(got) < 2 || got[len(got)-1].X != float64(p[L-1].x) || got[len(got)-1].Y != float64(p[L-1].y) {
							violate("endpoints:last-not-kept", "%s: Simplify=%s does not end with the last input point (as a separate element)", desc(tol), showR2(got))
						}
						if !isSubsequence(got, p) {
							violate("not-a-subsequence", "%s: Simplify=%s is not a subsequence of the input", desc(tol), showR2(got))
						}
						// independent cross-check of the reference
						outs := solveND(p, 0, L-1, tols4[ti])
						member := false
						for w := 0; w < 2 && !member; w++ {
							for v := outs[w]; v != 0; v &= v - 1 {
								if eqMask(ref, p, uint(w*64+bits.TrailingZeros64(v))|last) {
									member = true
									break
								}
							}
						}
						if !member {
							var alts []string
							outs.each(func(m uint) { alts = append(alts, showPts(maskPoints(p, m|last))) })
							violate("crosscheck:reference-not-an-independent-DP-outcome", "%s: reference=%s, independent exact Douglas-Peucker (reference split convention) allows only %v", desc(tol), showR2(ref), alts)
						}
						if outs.count() == 1 {
							tiesNone++
							if eqMask(ref, p, textbook(p, 0, L-1, tols4[ti])) {
								tbEq++
							} else {
								tbDiff++
							}
						} else {
							tiesSome++
							if eqMask(ref, p, solveDet(p, 0, L-1, tols4[ti])|last) {
								tieFirst++
							} else {
								tieRound++
							}
						}
						if len(got) < len(keepHist) {
							keepHist[len(got)]++
						}
						if len(got) < L {
							removed[ti]++
						}
					}
					// next sequence: increment the non-prefix digits
					k := L - 1
					for k >= len(c.prefix) {
						idx[k]++
						if idx[k] < n {
							break
						}
						idx[k] = 0
						k--
					}
					if k < len(c.prefix) {
						break
					}
				}
				if L >= 3 {
					r.Distinct = r.Evals
				}
				for k, v := range keepHist {
					if v > 0 {
						if r.Outcomes == nil {
							r.Outcomes = map[string]int64{}
						}
						r.Outcomes[fmt.Sprintf("len%d->%d", L, k)] += v
					}
				}
				for ti, v := range removed {
					r.Count(fmt.Sprintf("removed-some:eps=%v", tols[ti]), v)
				}
				r.Count("exact-ties:none", tiesNone)
				r.Count("exact-ties:some", tiesSome)
				r.Count("exact-ties:none:textbook-equal", tbEq)
				r.Count("exact-ties:none:textbook-differs", tbDiff)
				r.Count("exact-ties:some:reference-as-first-index-exact", tieFirst)
				r.Count("exact-ties:some:reference-decided-by-rounding", tieRound)
				if L == 4 && ci%97 == 0 {
					r.Sample = map[string]interface{}{"length": L, "first_points": showPts(p[:len(c.prefix)]), "enumerated_inside": "all remaining points x 5 tolerances"}
				}
				return r
			}}, bound
		},
	})
}
