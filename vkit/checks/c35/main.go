// C35 — concurrent readers and parallel builders are race-free.
//
// (a) Engine E3: 2-3 reader goroutines run query scripts concurrently on one
// world (compact: feature LRU cache lock, per-path polyline lock, per-area
// geometry lock; mutable overlay; basic) under the controlled scheduler; every
// interleaving at the lock points; each script's result must equal its
// sequential result. (b) Engine E3: parallel builds with 2 goroutines (shared
// with C36): no schedule deadlocks or panics and the world equals the 1-core
// world. (c) Auxiliary, free-running: the same reader scripts and builds run
// in a separate binary built with the race detector from the un-rewritten
// tree; a reported data race is a concrete witness of unsynchronised shared
// state and is reported (the absence of a report is sampling, not a verdict).
package main

import (
	"fmt"
	"os"
	"os/exec"
	"path/filepath"
	"regexp"
	"runtime"
	"strings"

	"diagonal.works/b6"
	"diagonal.works/b6/ingest"
	"diagonal.works/b6/ingest/compact"
	"verif/kit"
	"verif/parkit"
	"verif/sched"
	"verif/sched/vsync"
	wk "verif/worldkit"
)

type scenario struct {
	part    string // readers | build | race
	world   string
	scripts []int
	src     parkit.Source
	kind    string
}

func (s scenario) String() string {
	switch s.part {
	case "readers":
		var n []string
		for _, i := range s.scripts {
			n = append(n, scripts[i].name)
		}
		return "readers " + s.world + ": " + strings.Join(n, " || ")
	case "build":
		return "build " + s.kind + " " + s.src.Name + " cores=2"
	}
	return "race-pass"
}

var readerSpec = parkit.Sources("quick")[2].Spec // square + cw path + area + open path + relation

var compactData []byte
var basicBase b6.World

func prepare() {
	if compactData == nil {
		var err error
		if compactData, err = wk.CompactData(readerSpec, 1); err != nil {
			panic(err)
		}
		if basicBase, err = wk.Basic(readerSpec, 1); err != nil {
			panic(err)
		}
	}
}

func newWorld(kind string) b6.World {
	switch kind {
	case "compact":
		w := compact.NewWorld()
		if err := w.Merge(compactData); err != nil {
			panic(err)
		}
		return w
	case "basic":
		return basicBase
	case "overlay":
		// half of the features replaced in the overlay, so reads go through both layers
		w := ingest.NewMutableOverlayWorld(basicBase)
		w.AddTag(parkit.P(1), b6.Tag{Key: "note", Value: b6.NewStringExpression("x")})
		w.AddTag(parkit.A(1), b6.Tag{Key: "#building", Value: b6.NewStringExpression("yes")})
		return w
	}
	panic(kind)
}

var results []string
var finished bool

func (s scenario) readersBody() func() {
	return func() {
		finished = false
		results = make([]string, len(s.scripts))
		w := newWorld(s.world)
		var wg vsync.WaitGroup
		wg.Add(len(s.scripts))
		for i, si := range s.scripts {
			i, si := i, si
			sched.Go(func() {
				defer wg.Done()
				results[i] = scripts[si].run(w)
			})
		}
		wg.Wait()
		finished = true
	}
}

func explore(r *kit.Result, s scenario, body func(), check sched.Check, bound int, maxExec int64) {
	exploreOpts(r, s, body, check, sched.Options{MaxPreemptions: bound, MaxExecutions: maxExec, Horizon: 100000})
}

func exploreOpts(r *kit.Result, s scenario, body func(), check sched.Check, o sched.Options) {
	res := sched.Explore(body, check, o)
	r.Evals, r.States, r.Transitions, r.Distinct = res.Executions, res.States, res.Transitions, res.States
	r.Nontrivial = res.MaxPoints > 0
	r.Capped = res.Capped
	r.Outcomes = res.Outcomes
	r.Count("executions_pruned_by_hb_cache", res.Pruned)
	if res.Unbounded {
		r.Count("scenarios_explored_without_bound", 1)
	} else {
		what := s.part
		if s.part == "build" {
			what = "build_" + s.kind
		}
		r.Count(fmt.Sprintf("%s_scenarios_completed_to_bound_%d", what, res.BoundCompleted), 1)
	}
	for _, f := range res.Failures {
		e1 := sched.Replay(body, f.Choices, 100000)
		_, f1 := check(e1)
		e2 := sched.Replay(body, f.Choices, 100000)
		_, f2 := check(e2)
		if fmt.Sprint(f1) != fmt.Sprint(f2) || len(f1) == 0 {
			r.Violate("harness:nondeterministic-replay", "%s: schedule %v gave %v then %v", f.Class, f.Choices, f1, f2)
			continue
		}
		tr := e1.Trace
		if len(tr) > 40 {
			tr = tr[len(tr)-40:]
		}
		r.Violate(f.Class, "%s\nschedule (choices): %v\ntrace tail:\n  %s", f.Msg, f.Choices, strings.Join(tr, "\n  "))
	}
	r.Sample = map[string]interface{}{"scenario": s.String(), "executions": res.Executions, "states": res.States, "unbounded": res.Unbounded, "bound_completed": res.BoundCompleted, "outcomes": res.Outcomes}
}

var raceRe = regexp.MustCompile(`(?s)WARNING: DATA RACE.*?==================`)

func racePass(r *kit.Result, tier string) {
	root := os.Getenv("VERIF_ROOT")
	if root == "" {
		root = "/verif"
	}
	dir := os.Getenv("VERIF_RUN_DIR")      // set by bin/check: this invocation's private build directory
	ov := os.Getenv("VERIF_PLAIN_OVERLAY") // plain overlay (transforms/accessors, no rewriting)
	if dir == "" || ov == "" {
		r.Outcome = "race-pass:build-failed"
		r.Count("race_pass_build_failed", 1)
		r.Sample = "VERIF_RUN_DIR / VERIF_PLAIN_OVERLAY not set (run through bin/check)"
		return
	}
	bin := filepath.Join(dir, "c35race")
	build := exec.Command("go", "build", "-race", "-tags", "verif", "-overlay", ov, "-o", bin, "./checks/c35/race")
	build.Dir = filepath.Join(root, "vkit")
	if out, err := build.CombinedOutput(); err != nil {
		r.Outcome = "race-pass:build-failed"
		r.Count("race_pass_build_failed", 1)
		r.Sample = string(out)
		return
	}
	iters := "30"
	if tier == "thorough" {
		iters = "300"
	}
	cmd := exec.Command(bin, iters)
	cmd.Env = append(os.Environ(), "GOMAXPROCS=16", "GORACE=halt_on_error=0")
	out, _ := cmd.CombinedOutput()
	races := raceRe.FindAllString(string(out), -1)
	r.Evals = 1
	r.Nontrivial = true
	r.Key = "race-pass"
	r.Count("race_reports", int64(len(races)))
	r.Outcome = fmt.Sprintf("race-pass:%d-reports", len(races))
	seen := map[string]bool{}
	for _, rep := range races {
		site := raceSite(rep)
		if !seen[site] {
			seen[site] = true
			if len(rep) > 3000 {
				rep = rep[:3000]
			}
			r.Violate("data-race:"+site, "race detector report (free-running pass):\n%s", rep)
		}
	}
	r.Sample = map[string]interface{}{"scenario": "race-pass", "iterations": iters, "reports": len(races)}
}

// raceSite: the first two diagonal.works/b6 functions in the report.
func raceSite(rep string) string {
	var fs []string
	for _, l := range strings.Split(rep, "\n") {
		l = strings.TrimSpace(l)
		if strings.HasPrefix(l, "diagonal.works/b6") {
			l = strings.TrimSuffix(l, "()") // keep method receivers such as compact.(*World).Merge
			l = strings.TrimPrefix(l, "diagonal.works/")
			if len(fs) == 0 || fs[len(fs)-1] != l {
				fs = append(fs, l)
			}
			if len(fs) == 2 {
				break
			}
		}
	}
	return strings.Join(fs, "+")
}

func main() {
	kit.Main(&kit.Check{
		ID: "C35", Level: "model_checking", SlowIsNotHang: true,
		Rule:          "readers: (world kind, multiset of 2 (thorough: 3) query scripts) — every interleaving of the reader goroutines at the world's lock points, each result compared with the script's sequential result; build: (source, builder) with 2 goroutines — every interleaving up to the bound, no deadlock/panic, dump equal to the 1-core world; race: one free-running pass under the race detector (auxiliary). Non-trivial = at least one scheduling choice; distinct = happens-before keys.",
		Assumptions:   []string{"the controlled scheduler decides atomicity and deadlock; unsynchronised accesses are only witnessed by the auxiliary race-detector pass, which samples", "sync/atomic operations are not scheduling points"},
		QuickDeadline: 250e9, ThoroughDeadline: 1500e9, CaseTimeout: 600e9, Chunk: 1,
		Build: func(tier string) (kit.Space, string) {
			var sc []scenario
			sc = append(sc, scenario{part: "race"})
			n := len(scripts)
			for _, world := range []string{"compact", "overlay", "basic"} {
				for a := 0; a < n; a++ {
					for b := a; b < n; b++ {
						sc = append(sc, scenario{part: "readers", world: world, scripts: []int{a, b}})
					}
				}
			}
			if tier == "thorough" {
				for a := 0; a < n; a++ {
					for b := a; b < n; b++ {
						for c := b; c < n; c++ {
							sc = append(sc, scenario{part: "readers", world: "compact", scripts: []int{a, b, c}})
						}
					}
				}
			}
			srcs := parkit.Sources(tier)
			if tier != "thorough" {
				srcs = srcs[1:3]
			}
			for _, kind := range []string{"basic", "compact"} {
				for _, src := range srcs {
					sc = append(sc, scenario{part: "build", kind: kind, src: src})
				}
			}
			bound, maxExec, buildBound, buildExec := 3, int64(20000), 1, int64(300)
			if tier == "thorough" {
				bound, maxExec, buildBound, buildExec = 4, 200000, 2, 20000
			}
			return kit.FuncSpace{N: int64(len(sc)), F: func(i int64) kit.Result {
				s := sc[i]
				var r kit.Result
				switch s.part {
				case "race":
					racePass(&r, tier)
				case "readers":
					runtime.GOMAXPROCS(1)
					prepare()
					// sequential reference results, natively, on a fresh world each
					want := make([]string, len(s.scripts))
					for k, si := range s.scripts {
						want[k] = scripts[si].run(newWorld(s.world))
					}
					check := func(e *sched.Exec) (string, []sched.Failure) {
						var fails []sched.Failure
						add := func(class, msg string) {
							fails = append(fails, sched.Failure{Class: class, Msg: msg + " [" + s.String() + "]"})
						}
						for _, ev := range e.Events {
							if ev.Kind == "panic" {
								add("readers:panic:"+s.world, ev.Msg)
							}
						}
						if e.Deadlocked {
							add("readers:deadlock:"+s.world, strings.Join(e.Blocked, "; "))
							return "deadlock", fails
						}
						if !finished {
							return "unfinished", fails
						}
						for k := range want {
							if results[k] != want[k] {
								add("readers:result-differs-from-sequential:"+s.world+":"+scripts[s.scripts[k]].name, fmt.Sprintf("reader %d got\n  %s\nalone it gets\n  %s", k, results[k], want[k]))
							}
						}
						return "equal-to-sequential", fails
					}
					explore(&r, s, s.readersBody(), check, bound, maxExec)
				case "build":
					runtime.GOMAXPROCS(1)
					ref, err := parkit.Build(s.kind, s.src.Spec, 1)
					if err != nil {
						r.Violate("reference-build-error:"+s.kind, "%v", err)
						return r
					}
					want := parkit.Dump(ref)
					var built b6.World
					var buildErr error
					var done bool
					body := func() {
						built, buildErr, done = nil, nil, false
						built, buildErr = parkit.Build(s.kind, s.src.Spec, 2)
						done = true
					}
					check := func(e *sched.Exec) (string, []sched.Failure) {
						var fails []sched.Failure
						add := func(class, msg string) {
							fails = append(fails, sched.Failure{Class: class, Msg: msg + " [" + s.String() + "]"})
						}
						for _, ev := range e.Events {
							if ev.Kind == "panic" {
								add("build:panic:"+s.kind, ev.Msg)
							}
						}
						if e.Deadlocked {
							add("build:deadlock:"+s.kind, strings.Join(e.Blocked, "; "))
							return "deadlock", fails
						}
						if !done {
							return "unfinished", fails
						}
						if buildErr != nil {
							add("build:error:"+s.kind, buildErr.Error())
							return "error", fails
						}
						if cls, d := parkit.DiffString(want, parkit.Dump(built)); cls != "" {
							add("build:differs-from-1-core:"+s.kind+":"+cls, d)
							return "differs", fails
						}
						return "equal", fails
					}
					// basic: preemption bounding with deviations confined to one
					// fork/join phase; compact (30x more choice points): deviation
					// bounding (see C36, which explores builds deeper)
					o := sched.Options{MaxPreemptions: buildBound, MaxExecutions: 20 * buildExec, Horizon: 100000, SinglePhase: true}
					if s.kind == "compact" {
						o = sched.Options{MaxPreemptions: 1, AllDeviations: true, MaxExecutions: buildExec, Horizon: 100000}
					}
					exploreOpts(&r, s, body, check, o)
				}
				return r
			}}, fmt.Sprintf("%d scenarios: 1 race pass; reader pairs%s on compact/overlay/basic worlds (bound %d, cap %d); builds with 2 cores (basic: at most %d preemptions, deviations confined to one fork/join phase, cap %d executions; compact: at most 1 departure from the default schedule, cap %d executions)", len(sc), map[bool]string{true: " and triples", false: ""}[tier == "thorough"], bound, maxExec, buildBound, 20*buildExec, buildExec)
		},
	})
}
