// Free-running race-detector pass for C35 (auxiliary): concurrent readers on
// every world kind and parallel builds, built with -race from the
// un-rewritten tree. Reports go to stderr; the parent parses them.
package main

import (
	"fmt"
	"os"
	"strconv"
	"sync"

	"diagonal.works/b6"
	"diagonal.works/b6/ingest"
	"diagonal.works/b6/ingest/compact"
	"verif/parkit"
	wk "verif/worldkit"
)

func readers(w b6.World, n int) {
	var wg sync.WaitGroup
	for g := 0; g < n; g++ {
		wg.Add(1)
		go func(g int) {
			defer wg.Done()
			for k := 0; k < 3; k++ {
				_ = parkit.Dump(w)
			}
		}(g)
	}
	wg.Wait()
}

func main() {
	iters := 20
	if len(os.Args) > 1 {
		iters, _ = strconv.Atoi(os.Args[1])
	}
	srcs := parkit.Sources("thorough")
	for it := 0; it < iters; it++ {
		src := srcs[it%len(srcs)]
		for _, cores := range []int{2, 4, 8} {
			if w, err := wk.Basic(src.Spec, cores); err == nil {
				readers(w, 4)
				o := ingest.NewMutableOverlayWorld(w)
				o.AddTag(parkit.P(1), b6.Tag{Key: "note", Value: b6.NewStringExpression("x")})
				readers(o, 4)
			}
			if data, err := wk.CompactData(src.Spec, cores); err == nil {
				w := compact.NewWorld()
				if err := w.Merge(data); err == nil {
					readers(w, 4)
				}
			}
		}
		// parallel builders reading the same feature objects (one in-memory
		// source handed to three concurrent builds): each builder works on its
		// own clones, so nothing of the source may be written
		shared := ingest.MemoryFeatureSource(src.Spec.Features())
		var bwg sync.WaitGroup
		for g := 0; g < 3; g++ {
			bwg.Add(1)
			go func() {
				defer bwg.Done()
				_, _ = ingest.NewWorldFromSource(shared, &ingest.BuildOptions{Cores: 2})
			}()
		}
		bwg.Wait()
		if m, _ := wk.BasicMutable(src.Spec); m != nil {
			readers(m, 4)
		}
	}
	fmt.Println("race pass done")
}
