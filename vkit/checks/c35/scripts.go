package main

import (
	"fmt"
	"sort"
	"strings"

	"diagonal.works/b6"
	"verif/parkit"
	wk "verif/worldkit"
)

// script is one reader's sequence of queries, rendered to a string.
type script struct {
	name string
	run  func(w b6.World) string
}

func ids(fs b6.Features) string {
	var out []string
	for fs.Next() {
		out = append(out, fs.FeatureID().String())
	}
	return strings.Join(out, " ")
}

var scripts = []script{
	{"area-polygon", func(w b6.World) string {
		f := w.FindFeatureByID(parkit.A(1))
		if a, ok := f.(b6.AreaFeature); ok {
			return wk.FeatureString(a, true, false)
		}
		return "nil"
	}},
	{"path-polyline", func(w b6.World) string {
		return wk.FeatureString(w.FindFeatureByID(parkit.W(1)), true, false)
	}},
	{"area-paths+area-again", func(w b6.World) string {
		f := w.FindFeatureByID(parkit.A(1))
		a, ok := f.(b6.AreaFeature)
		if !ok {
			return "nil"
		}
		var out []string
		for _, p := range a.Feature(0) {
			out = append(out, p.FeatureID().String()+":"+fmt.Sprint(p.GeometryLen()))
		}
		return strings.Join(out, " ") + " | " + wk.FeatureString(w.FindFeatureByID(parkit.A(1)), true, false)
	}},
	{"search", func(w b6.World) string {
		return ids(w.FindFeatures(b6.Keyed{Key: "#highway"})) + " | " + ids(w.FindFeatures(b6.Tagged{Key: "#building", Value: b6.NewStringExpression("yes")})) + " | " + ids(w.FindFeatures(b6.All{}))
	}},
	{"areas-by-point+traverse", func(w b6.World) string {
		var out []string
		as := w.FindAreasByPoint(parkit.P(1))
		for as.Next() {
			out = append(out, as.FeatureID().String())
		}
		ss := w.Traverse(parkit.P(2))
		var segs []string
		for ss.Next() {
			s := ss.Segment()
			segs = append(segs, fmt.Sprintf("%s[%d-%d]", s.Feature.FeatureID(), s.First, s.Last))
		}
		sort.Strings(segs)
		sort.Strings(out)
		return strings.Join(out, " ") + " | " + strings.Join(segs, " ")
	}},
	{"each-feature", func(w b6.World) string {
		var out []string
		err := w.EachFeature(func(f b6.Feature, g int) error {
			out = append(out, f.FeatureID().String()+wk.TagsString(f.AllTags()))
			return nil
		}, &b6.EachFeatureOptions{Goroutines: 1})
		sort.Strings(out)
		return fmt.Sprint(err) + " " + strings.Join(out, " ")
	}},
}
