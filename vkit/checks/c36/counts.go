package main

// Part 5 (engine E3, narrow seam): the compact builder's shared per-namespace
// counters (NamespacedCounts), which its first pass fills from every emitting
// goroutine and which decide which feature blocks exist. 2 (thorough: 3)
// goroutines count a fixed partition of "features" (namespace, kind) — every
// interleaving at the counters' lock operations, no bound; afterwards the
// counters must hold, per namespace and kind, exactly the number of features
// counted, whatever the schedule.

import (
	"fmt"
	"sort"
	"strings"
	"sync/atomic"

	"diagonal.works/b6"
	"diagonal.works/b6/ingest/compact"
	"verif/kit"
	"verif/sched"
	"verif/sched/vsync"
)

type countCall struct {
	ns   int // namespace index
	kind int // 0 point, 1 path
}

type countScenario struct {
	lists [][]countCall
}

func (s countScenario) String() string {
	var gs []string
	for g, l := range s.lists {
		var cs []string
		for _, c := range l {
			cs = append(cs, fmt.Sprintf("ns%d/%s", c.ns, []string{"point", "path"}[c.kind]))
		}
		gs = append(gs, fmt.Sprintf("g%d[%s]", g, strings.Join(cs, " ")))
	}
	return "counts " + strings.Join(gs, " ")
}

var countNamespaces = []b6.Namespace{"diagonal.works/test/a", "diagonal.works/test/b"}

// countScenarios: every assignment of c calls (c = G..maxCalls), each over
// (2 namespaces x 2 kinds), to G goroutines with every goroutine non-empty,
// goroutine numbers in order of first use.
func countScenarios(G, maxCalls int) []countScenario {
	var out []countScenario
	for c := G; c <= maxCalls; c++ {
		total := 1
		for i := 0; i < c; i++ {
			total *= 4 * G
		}
		for code := 0; code < total; code++ {
			lists := make([][]countCall, G)
			x, ok, prevG := code, true, 0
			for k := 0; k < c; k++ {
				d := x % (4 * G)
				x /= 4 * G
				g, call := d/4, countCall{ns: (d % 4) / 2, kind: d % 2}
				if g > prevG+1 || (k == 0 && g != 0) {
					ok = false
				}
				if g > prevG {
					prevG = g
				}
				lists[g] = append(lists[g], call)
			}
			for _, l := range lists {
				if len(l) == 0 {
					ok = false
				}
			}
			if ok {
				out = append(out, countScenario{lists})
			}
		}
	}
	return out
}

var countGot string
var countDone bool

func (s countScenario) want() string {
	m := map[string]int{}
	for _, l := range s.lists {
		for _, c := range l {
			m[fmt.Sprintf("ns%d/%d", c.ns, c.kind)]++
		}
	}
	return renderCounts(m)
}

func renderCounts(m map[string]int) string {
	var ks []string
	for k, v := range m {
		if v != 0 {
			ks = append(ks, fmt.Sprintf("%s=%d", k, v))
		}
	}
	sort.Strings(ks)
	return strings.Join(ks, " ")
}

func (s countScenario) body() func() {
	return func() {
		countGot, countDone = "", false
		n := compact.NewNamespacedCounts()
		var wg vsync.WaitGroup
		wg.Add(len(s.lists))
		for g := range s.lists {
			g := g
			sched.Go(func() {
				defer wg.Done()
				for _, c := range s.lists[g] {
					cs := n.Namespace(countNamespaces[c.ns])
					if c.kind == 0 {
						atomic.AddUint64(&cs.Points, 1)
					} else {
						atomic.AddUint64(&cs.Paths, 1)
					}
				}
			})
		}
		wg.Wait()
		m := map[string]int{}
		for i, ns := range countNamespaces {
			if cs, ok := n.ByNamespace[ns]; ok {
				m[fmt.Sprintf("ns%d/0", i)] = int(cs.Points)
				m[fmt.Sprintf("ns%d/1", i)] = int(cs.Paths)
			}
		}
		countGot = renderCounts(m)
		countDone = true
	}
}

func runCounts(sc countScenario, r *kit.Result) {
	want := sc.want()
	check := func(e *sched.Exec) (string, []sched.Failure) {
		var fails []sched.Failure
		add := func(class, msg string) {
			fails = append(fails, sched.Failure{Class: class, Msg: msg + " [" + sc.String() + "]"})
		}
		for _, ev := range e.Events {
			if ev.Kind == "panic" {
				add("counts:panic", ev.Msg)
			}
		}
		if e.Deadlocked {
			add("counts:deadlock", strings.Join(e.Blocked, "; "))
			return "deadlock", fails
		}
		if !countDone {
			return "unfinished", fails
		}
		if countGot != want {
			add("counts:count-lost-or-doubled", fmt.Sprintf("the counters hold {%s}, the goroutines counted {%s}", countGot, want))
			return "differs", fails
		}
		return "counts-equal", fails
	}
	body := sc.body()
	res := sched.Explore(body, check, sched.Options{MaxPreemptions: -1, Horizon: 10000})
	r.Evals, r.States, r.Transitions, r.Distinct = res.Executions, res.States, res.Transitions, res.States
	r.Outcomes = res.Outcomes
	r.Count("counts_scenarios_explored_without_bound", 1)
	for _, f := range res.Failures {
		e1 := sched.Replay(body, f.Choices, 10000)
		_, f1 := check(e1)
		e2 := sched.Replay(body, f.Choices, 10000)
		_, f2 := check(e2)
		if fmt.Sprint(f1) != fmt.Sprint(f2) || len(f1) == 0 {
			r.Violate("harness:nondeterministic-replay", "%s: schedule %v gave %v then %v", f.Class, f.Choices, f1, f2)
			continue
		}
		tr := e1.Trace
		if len(tr) > 40 {
			tr = tr[len(tr)-40:]
		}
		r.Violate(f.Class, "%s\nschedule (choices): %v\ntrace tail:\n  %s", f.Msg, f.Choices, strings.Join(tr, "\n  "))
	}
}
