// C36 — builds give the same world for any degree of parallelism.
//
// Part 1 (configurations, native execution): every core count 1..16 on every
// source, basic and compact, dump compared with the 1-core world.
// Part 2 (engine E3): the real parallel builds (BasicWorldBuilder.Finish via
// NewWorldFromSource, compact.BuildInMemory) with 2 goroutines under the
// controlled scheduler: every interleaving up to the preemption bound; the
// built world's dump must equal the 1-core world's and no schedule deadlocks
// or panics.
package main

import (
	"fmt"
	"runtime"
	"strings"

	"diagonal.works/b6"
	"verif/kit"
	"verif/parkit"
	"verif/sched"
)

type scenario struct {
	part   string // "configs" | "sched"
	kind   string
	src    parkit.Source
	cores  int
	assign []int // part "partition": feature i of the source is delivered by goroutine assign[i]
	// part "partition", compact builder: departures from the default schedule allowed
	deviations int
}

func (s scenario) String() string {
	if s.part == "partition" {
		if s.deviations > 0 {
			return fmt.Sprintf("%s %s %s delivered-by=%v deviations<=%d", s.part, s.kind, s.src.Name, s.assign, s.deviations)
		}
		return fmt.Sprintf("%s %s %s delivered-by=%v", s.part, s.kind, s.src.Name, s.assign)
	}
	return fmt.Sprintf("%s %s %s cores=%d", s.part, s.kind, s.src.Name, s.cores)
}

var built b6.World
var buildErr error
var done bool

func main() {
	kit.Main(&kit.Check{
		ID: "C36", Level: "model_checking", SlowIsNotHang: true,
		Rule:          "part configs: (source, builder, cores 1..16) run natively, dump vs the 1-core dump. part sched: (source, builder) with 2 cores under the controlled scheduler, every interleaving up to the bound, dump vs the 1-core dump. part partition: the builders fed by a source that delivers a fixed order-preserving partition of the feature list from 2 goroutines (the nondeterminism of MemoryFeatureSource reduced to which goroutine gets which feature), dump vs the 1-core dump. part counts: the compact builder's shared per-namespace counters driven directly by 2-3 goroutines, every interleaving, the counters must equal the number of features counted. part validator: the compact builder's shared Validator driven directly by 2-3 goroutines delivering a partition of a feature list, every interleaving, the features handed back for emission vs the schedule-free rule and vs one goroutine alone (delivered area objects are overwritten after each call, as reusing sources do); non-trivial = execution with at least one scheduling choice; distinct = happens-before keys.",
		Assumptions:   []string{"code between two synchronisation operations runs atomically; sync/atomic counters are not scheduling points", "map ranges in rewritten packages use one fixed order", "compact scratch buffers reduced to 1 MB by a build-time transform"},
		QuickDeadline: 250e9, ThoroughDeadline: 1500e9, CaseTimeout: 500e9, Chunk: 1,
		Build: func(tier string) (kit.Space, string) {
			var sc []scenario
			srcs := parkit.Sources(tier)
			for _, kind := range []string{"basic", "compact"} {
				for _, src := range srcs {
					for cores := 2; cores <= 16; cores++ {
						sc = append(sc, scenario{part: "configs", kind: kind, src: src, cores: cores})
					}
				}
			}
			for _, kind := range []string{"basic", "compact"} {
				for _, src := range srcs {
					sc = append(sc, scenario{part: "sched", kind: kind, src: src, cores: 2})
				}
			}
			// basic builds: iterative preemption bounding; compact builds (30x more
			// choice points): deviation bounding, capped
			basicBound, compactBound, maxExec := 2, 1, int64(1500)
			vals := append(valScenarios(5, 2), valScenarios(4, 3)...)
			if tier == "thorough" {
				basicBound, compactBound, maxExec = 3, 1, 40000
				vals = append(valScenarios(5, 2), valScenarios(5, 3)...)
			}
			const valGroup = 500
			nVal := (len(vals) + valGroup - 1) / valGroup
			// part partition: every order-preserving split of a source's features over 2 goroutines
			var parts []scenario
			for _, kind := range []string{"basic", "compact"} {
				for _, src := range srcs {
					n := len(src.Spec)
					for code := 1; code < 1<<(n-1); code++ { // feature 0 on goroutine 0; code 0 = one goroutine
						assign := make([]int, n)
						for k := 1; k < n; k++ {
							assign[k] = (code >> (k - 1)) & 1
						}
						parts = append(parts, scenario{part: "partition", kind: kind, src: src, cores: 2, assign: assign})
					}
				}
			}
			// thorough: the partitions of the small sources again for the compact
			// builder with one departure from the default schedule allowed (≈5000
			// executions of ≈15 ms each per partition); last in the space, so that
			// a deadline cuts these first
			if tier == "thorough" {
				for _, src := range srcs {
					n := len(src.Spec)
					if n > 6 || n < 2 {
						continue
					}
					for code := 1; code < 1<<(n-1); code++ {
						assign := make([]int, n)
						for k := 1; k < n; k++ {
							assign[k] = (code >> (k - 1)) & 1
						}
						parts = append(parts, scenario{part: "partition", kind: "compact", src: src, cores: 2, assign: assign, deviations: 1})
					}
				}
			}
			// basic: phase-confined preemption bounding; compact: deviation bounding
			// (bound 0 = each partition with goroutine 0's list first, then goroutine 1's)
			partBasicBound, partCompactBound, partExec := 1, 0, int64(3000)
			if tier == "thorough" {
				partBasicBound, partCompactBound, partExec = 2, 1, 8000
			}
			// part counts: the builder's shared per-namespace counters
			cnts := countScenarios(2, 3)
			if tier == "thorough" {
				cnts = append(countScenarios(2, 4), countScenarios(3, 3)...)
			}
			const cntGroup = 100
			nCnt := (len(cnts) + cntGroup - 1) / cntGroup
			// order of the space: cheap parts first (configurations, counters,
			// validator, partitions), the capped whole-build searches last, so that
			// a deadline on a loaded machine cuts the least decisive part
			total := len(sc) + nVal + len(parts) + nCnt
			nSched := 2 * len(srcs)
			perm := make([]int64, 0, total)
			for k := 0; k < len(sc)-nSched; k++ {
				perm = append(perm, int64(k))
			}
			for k := len(sc) + nVal + len(parts); k < total; k++ {
				perm = append(perm, int64(k))
			}
			for k := len(sc); k < len(sc)+nVal+len(parts); k++ {
				perm = append(perm, int64(k))
			}
			for k := len(sc) - nSched; k < len(sc); k++ {
				perm = append(perm, int64(k))
			}
			return kit.FuncSpace{N: int64(total), F: func(i int64) kit.Result {
				i = perm[i]
				if i >= int64(len(sc)+nVal+len(parts)) {
					runtime.GOMAXPROCS(1)
					var r kit.Result
					lo := int(i-int64(len(sc)+nVal+len(parts))) * cntGroup
					for j := lo; j < lo+cntGroup && j < len(cnts); j++ {
						var r1 kit.Result
						runCounts(cnts[j], &r1)
						r.Evals += r1.Evals
						r.States += r1.States
						r.Transitions += r1.Transitions
						r.Distinct += r1.Distinct
						r.Violations = append(r.Violations, r1.Violations...)
						if r.Outcomes == nil {
							r.Outcomes = map[string]int64{}
						}
						for k, v := range r1.Outcomes {
							r.Outcomes["counts:"+k] += v
						}
						for k, v := range r1.Counters {
							r.Count(k, v)
						}
					}
					r.Nontrivial = true
					r.Key = fmt.Sprintf("counts scenarios %d..", lo)
					return r
				}
				if i >= int64(len(sc)+nVal) {
					ps := parts[i-int64(len(sc)+nVal)]
					if ps.kind == "compact" {
						return runBuild(ps, tier, sched.Options{MaxPreemptions: ps.deviations, AllDeviations: true, MaxExecutions: partExec, Horizon: 100000})
					}
					return runBuild(ps, tier, sched.Options{MaxPreemptions: partBasicBound, MaxExecutions: 10 * partExec, Horizon: 100000, SinglePhase: true})
				}
				if i >= int64(len(sc)) {
					runtime.GOMAXPROCS(1)
					var r kit.Result
					lo := int(i-int64(len(sc))) * valGroup
					for j := lo; j < lo+valGroup && j < len(vals); j++ {
						var r1 kit.Result
						runValidator(vals[j], &r1)
						r.Evals += r1.Evals
						r.States += r1.States
						r.Transitions += r1.Transitions
						r.Distinct += r1.Distinct
						r.Capped = r.Capped || r1.Capped
						r.Violations = append(r.Violations, r1.Violations...)
						if r.Outcomes == nil {
							r.Outcomes = map[string]int64{}
						}
						for k, v := range r1.Outcomes {
							r.Outcomes["validator:"+k] += v
						}
						for k, v := range r1.Counters {
							r.Count(k, v)
						}
					}
					r.Nontrivial = true
					r.Key = fmt.Sprintf("validator scenarios %d..", lo)
					if lo == 0 {
						r.Sample = map[string]interface{}{"first": vals[0].String(), "last": vals[len(vals)-1].String(), "scenarios": len(vals)}
					}
					return r
				}
				s := sc[i]
				opts := sched.Options{MaxPreemptions: basicBound, MaxExecutions: 20 * maxExec, Horizon: 100000, SinglePhase: true}
				if s.kind == "compact" {
					opts = sched.Options{MaxPreemptions: compactBound, AllDeviations: true, MaxExecutions: maxExec, Horizon: 100000}
				}
				return runBuild(s, tier, opts)
			}}, fmt.Sprintf("%d build scenarios (%d sources x 2 builders: configs with cores 2..16 run natively; sched with 2 cores under the controlled scheduler: basic builds every interleaving with at most %d preemptions, deviations confined to one phase between quiescent points, cap %d executions; compact builds every schedule with at most %d departures from the default schedule, cap %d executions) + %d partition scenarios (every order-preserving split of each source's features over 2 delivering goroutines x 2 builders under the controlled scheduler: basic at most %d preemptions confined to one phase, compact: the default schedule of every partition (one goroutine's list after the other's) and, in the thorough tier, every schedule with at most %d departure from it for sources of up to 6 features, cap %d executions) + %d counter scenarios (2-3 goroutines counting every partition of 2-3 (thorough 4) features over 2 namespaces x 2 kinds into the builder's shared NamespacedCounts, every interleaving, no bound) + %d validator scenarios (every ordered delivery of 2..k of 10 menu features (4 paths: closed ccw, open, missing point, closed cw; 6 areas over them, one over a path never delivered) to 2 goroutines (k<=%d) and 3 goroutines (k<=%d), every interleaving, no bound)", len(sc), len(srcs), basicBound, 20*maxExec, compactBound, maxExec, len(parts), partBasicBound, partCompactBound, partExec, len(cnts), len(vals), 5, map[bool]int{false: 4, true: 5}[tier == "thorough"])
		},
	})
}

// runBuild judges one build scenario: configs natively, sched and partition under the controlled scheduler.
func runBuild(s scenario, tier string, opts sched.Options) kit.Result {
	var r kit.Result
	ref, err := parkit.Build(s.kind, s.src.Spec, 1)
	if err != nil {
		r.Violate("reference-build-error:"+s.kind, "%v [%s]", err, s)
		return r
	}
	want := parkit.Dump(ref)
	if s.part == "configs" {
		runtime.GOMAXPROCS(16)
		// repeat: real goroutines are free-running here, so give the
		// schedule some chance to vary (auxiliary to part sched)
		reps := 2
		if tier == "thorough" {
			reps = 10
		}
		for k := 0; k < reps; k++ {
			w, err := parkit.Build(s.kind, s.src.Spec, s.cores)
			if err != nil {
				r.Violate("build-error:"+s.kind, "%v [%s]", err, s)
				return r
			}
			if cls, d := parkit.DiffString(want, parkit.Dump(w)); cls != "" {
				r.Violate(fmt.Sprintf("configs:differs-from-1-core:%s:%s", s.kind, cls), "[%s]\n%s", s, d)
				break
			}
		}
		r.Evals = int64(reps)
		r.Nontrivial = true
		r.Key = s.String()
		r.Outcome = "configs:equal"
		return r
	}
	runtime.GOMAXPROCS(1) // goroutine hand-offs under the controlled scheduler are cheapest on one P
	body := func() {
		built, buildErr, done = nil, nil, false
		if s.part == "partition" {
			built, buildErr = parkit.BuildFrom(s.kind, parkit.Partition(s.src.Spec, s.assign, 2), s.cores)
		} else {
			built, buildErr = parkit.Build(s.kind, s.src.Spec, s.cores)
		}
		done = true
	}
	check := func(e *sched.Exec) (string, []sched.Failure) {
		var fails []sched.Failure
		add := func(class, msg string) {
			fails = append(fails, sched.Failure{Class: class, Msg: msg + " [" + s.String() + "]"})
		}
		for _, ev := range e.Events {
			if ev.Kind == "panic" {
				add("panic:"+s.kind, ev.Msg)
			} else if ev.Kind == "horizon" {
				add("livelock:"+s.kind, ev.Msg)
			}
		}
		if e.Deadlocked {
			add("deadlock:"+s.kind, strings.Join(e.Blocked, "; "))
			return "deadlock", fails
		}
		if !done {
			return "unfinished", fails
		}
		if buildErr != nil {
			add("build-error:"+s.kind, buildErr.Error())
			return "build-error", fails
		}
		// dump natively (the execution is over)
		if cls, d := parkit.DiffString(want, parkit.Dump(built)); cls != "" {
			add(fmt.Sprintf("%s:differs-from-1-core:%s:%s", s.part, s.kind, cls), d)
			return "differs", fails
		}
		return "equal", fails
	}
	res := sched.Explore(body, check, opts)
	if opts.AllDeviations {
		r.Count("compact_build_scenarios_by_deviation_bound", 1)
	}
	r.Count("alternatives_cut_by_single_phase_rule", res.PhaseCuts)
	r.Count("max_phases_in_one_execution", int64(res.Phases))
	r.Evals, r.States, r.Transitions, r.Distinct = res.Executions, res.States, res.Transitions, res.States
	r.Nontrivial = res.MaxPoints > 0
	r.Capped = res.Capped
	r.Outcomes = res.Outcomes
	r.Count("executions_pruned_by_hb_cache", res.Pruned)
	r.Count("max_choice_points_in_one_execution", int64(res.MaxPoints))
	if res.Unbounded {
		r.Count(fmt.Sprintf("%s_%s_scenarios_explored_without_bound", s.part, s.kind), 1)
	} else {
		r.Count(fmt.Sprintf("%s_%s_scenarios_completed_to_bound_%d", s.part, s.kind, res.BoundCompleted), 1)
	}
	for _, f := range res.Failures {
		e1 := sched.Replay(body, f.Choices, 100000)
		_, f1 := check(e1)
		e2 := sched.Replay(body, f.Choices, 100000)
		_, f2 := check(e2)
		if fmt.Sprint(f1) != fmt.Sprint(f2) || len(f1) == 0 {
			r.Violate("harness:nondeterministic-replay", "%s: schedule %v gave %v then %v", f.Class, f.Choices, f1, f2)
			continue
		}
		tr := e1.Trace
		if len(tr) > 40 {
			tr = tr[len(tr)-40:]
		}
		r.Violate(f.Class, "%s\nschedule (choices): %v\ntrace tail:\n  %s", f.Msg, f.Choices, strings.Join(tr, "\n  "))
	}
	r.Sample = map[string]interface{}{"scenario": s.String(), "executions": res.Executions, "states": res.States, "bound_completed": res.BoundCompleted, "capped": res.Capped, "outcomes": res.Outcomes}
	return r
}
