package main

// Part 3 (engine E3, narrow seam): the compact builder's shared Validator,
// the one object through which the emitting goroutines of a compact build
// exchange state (which paths are valid, which areas wait for which paths).
// Every interleaving — no preemption bound — of 2 (thorough: also 3)
// goroutines that validate a partition of a short feature list: what the
// goroutines get back to emit must be the same set of features, each exactly
// once and with the same content, for every schedule and every partition;
// that set is given by a schedule-free rule (a valid path is emitted; an area
// is emitted iff every path it names is delivered, valid and closed).

import (
	"fmt"
	"sort"
	"strings"

	"diagonal.works/b6"
	"diagonal.works/b6/ingest"
	"diagonal.works/b6/ingest/compact"
	"github.com/golang/geo/s2"
	"verif/kit"
	"verif/parkit"
	"verif/sched"
	"verif/sched/vsync"
	wk "verif/worldkit"
)

type locMap map[b6.FeatureID]s2.LatLng

func (l locMap) FindLocationByID(id b6.FeatureID) (s2.LatLng, error) {
	if ll, ok := l[id]; ok {
		return ll, nil
	}
	return s2.LatLng{}, fmt.Errorf("no location for %s", id)
}

func valLocations() locMap {
	return locMap{
		parkit.P(1): wk.G(0, 0).LatLng(), parkit.P(2): wk.G(0, 2).LatLng(),
		parkit.P(3): wk.G(2, 2).LatLng(), parkit.P(4): wk.G(2, 0).LatLng(),
	}
}

type valItem struct {
	name         string
	spec         wk.FSpec
	validPath    bool // paths: expected to pass ingest.ValidatePath
	validForArea bool // paths: closed with at least 3 points
}

// valMenu: paths first, then areas.
func valMenu() []valItem {
	P, W, A := parkit.P, parkit.W, parkit.A
	path := func(id b6.FeatureID, pts ...b6.FeatureID) wk.FSpec {
		return wk.FSpec{ID: id, Kind: wk.KPath, Path: wk.Refs(pts...)}
	}
	area := func(id b6.FeatureID, polys ...[]b6.FeatureID) wk.FSpec {
		f := wk.FSpec{ID: id, Kind: wk.KArea}
		for _, p := range polys {
			f.Polys = append(f.Polys, wk.PolySpec{Paths: p})
		}
		return f
	}
	return []valItem{
		{"W1:closed-ccw", path(W(1), P(1), P(2), P(3), P(4), P(1)), true, true},
		{"W2:open", path(W(2), P(2), P(4)), true, false},
		{"W3:missing-point", path(W(3), P(1), P(9)), false, false},
		{"W4:closed-cw", path(W(4), P(1), P(4), P(3), P(2), P(1)), true, true},
		{"A1{W1}", area(A(1), []b6.FeatureID{W(1)}), false, false},
		{"A2{W1}{W4}", area(A(2), []b6.FeatureID{W(1)}, []b6.FeatureID{W(4)}), false, false},
		{"A3{W2}", area(A(3), []b6.FeatureID{W(2)}), false, false},
		{"A4{W3}", area(A(4), []b6.FeatureID{W(3)}), false, false},
		{"A5{W1,W4}", area(A(5), []b6.FeatureID{W(1), W(4)}), false, false},
		{"A6{W7-never-delivered}", area(A(6), []b6.FeatureID{W(7)}), false, false},
	}
}

type valScenario struct {
	lists [][]int // per goroutine: menu indices in delivery order
}

func (v valScenario) String() string {
	m := valMenu()
	var gs []string
	for g, l := range v.lists {
		var ns []string
		for _, i := range l {
			ns = append(ns, m[i].name)
		}
		gs = append(gs, fmt.Sprintf("g%d:[%s]", g, strings.Join(ns, " ")))
	}
	return "validator " + strings.Join(gs, " ")
}

// valScenarios: every way of delivering k distinct menu features (at least one
// path and one area that names a delivered path... or any area) over G
// goroutines, as ordered per-goroutine lists, goroutine 0 non-empty and
// holding the lowest-numbered feature among first elements (goroutines are
// interchangeable).
func valScenarios(maxK, G int) []valScenario {
	m := valMenu()
	n := len(m)
	var out []valScenario
	seen := map[string]bool{}
	var seq []int
	used := make([]bool, n)
	emit := func() {
		hasArea, hasPath := false, false
		for _, i := range seq {
			if m[i].spec.Kind == wk.KArea {
				hasArea = true
			} else {
				hasPath = true
			}
		}
		if !hasArea || !hasPath {
			return
		}
		k := len(seq)
		total := 1
		for i := 0; i < k; i++ {
			total *= G
		}
		for code := 0; code < total; code++ {
			lists := make([][]int, G)
			c := code
			for i := 0; i < k; i++ {
				g := c % G
				c /= G
				lists[g] = append(lists[g], seq[i])
			}
			nonEmpty := 0
			for _, l := range lists {
				if len(l) > 0 {
					nonEmpty++
				}
			}
			if nonEmpty < G {
				continue // fewer goroutines: covered by the smaller G (one goroutine has one schedule)
			}
			// canonical: sort goroutine lists (interchangeable goroutines)
			keys := make([]string, G)
			for g := range lists {
				keys[g] = fmt.Sprint(lists[g])
			}
			sort.Slice(lists, func(a, b int) bool { return fmt.Sprint(lists[a]) < fmt.Sprint(lists[b]) })
			sort.Strings(keys)
			key := strings.Join(keys, "|")
			if seen[key] {
				continue
			}
			seen[key] = true
			out = append(out, valScenario{lists})
		}
	}
	// simplest first: by number of features
	for k := 2; k <= maxK; k++ {
		var rk func()
		rk = func() {
			if len(seq) == k {
				emit()
				return
			}
			for i := 0; i < n; i++ {
				if !used[i] {
					used[i] = true
					seq = append(seq, i)
					rk()
					seq = seq[:len(seq)-1]
					used[i] = false
				}
			}
		}
		rk()
	}
	return out
}

// render is the observable content of a feature handed back for emission.
func render(f ingest.Feature) string {
	switch f := f.(type) {
	case *ingest.AreaFeature:
		var ps []string
		for i := 0; i < f.Len(); i++ {
			if ids, ok := f.PathIDs(i); ok {
				var s []string
				for _, id := range ids {
					s = append(s, id.String())
				}
				ps = append(ps, "{"+strings.Join(s, ",")+"}")
			} else {
				ps = append(ps, "{polygon}")
			}
		}
		return f.FeatureID().String() + " polys=" + strings.Join(ps, "")
	case *ingest.GenericFeature:
		var rs []string
		for i := 0; i < f.GeometryLen(); i++ {
			rs = append(rs, f.Reference(i).Source().String())
		}
		return f.FeatureID().String() + " refs=" + strings.Join(rs, ",")
	}
	return fmt.Sprintf("%T %s", f, f.FeatureID())
}

// clobber overwrites a delivered feature after the validator returned, as a
// source that reuses its feature objects between callbacks does.
func clobber(f ingest.Feature) {
	if a, ok := f.(*ingest.AreaFeature); ok {
		for i := 0; i < a.Len(); i++ {
			a.SetPathIDs(i, []b6.FeatureID{parkit.W(99)})
		}
	}
}

var valEmitted [][]string // per goroutine, reset by the body

func runValidator(sc valScenario, r *kit.Result) {
	m := valMenu()
	// expected set, by the schedule-free rule
	delivered := map[b6.FeatureID]valItem{}
	for _, l := range sc.lists {
		for _, i := range l {
			delivered[m[i].spec.ID] = m[i]
		}
	}
	// content of each feature as one goroutine alone gets it back
	alone := map[b6.FeatureID]string{}
	{
		v := compact.NewValidator(valLocations())
		var order []int
		for _, l := range sc.lists {
			order = append(order, l...)
		}
		sort.Ints(order) // menu order: paths first
		for _, i := range order {
			f := m[i].spec.Feature()
			var fs []ingest.Feature
			if m[i].spec.Kind == wk.KPath {
				fs = v.ValidatePath(f.(*ingest.GenericFeature), nil)
			} else {
				fs = v.ValidateArea(f.(*ingest.AreaFeature), nil)
			}
			for _, x := range fs {
				alone[x.FeatureID()] = render(x)
			}
		}
	}
	var want []string
	for id, it := range delivered {
		emit := false
		if it.spec.Kind == wk.KPath {
			emit = it.validPath
		} else {
			emit = true
			for _, p := range it.spec.Polys {
				for _, pid := range p.Paths {
					if d, ok := delivered[pid]; !ok || !d.validPath || !d.validForArea {
						emit = false
					}
				}
			}
		}
		if emit {
			s, ok := alone[id]
			if !ok {
				r.Violate("harness:validator-menu-disagrees-with-sequential-run", "%s should be emitted by the rule but a single goroutine (paths first) does not get it back [%s]", id, sc)
				return
			}
			want = append(want, s)
		}
	}
	if len(want) != len(alone) {
		r.Violate("harness:validator-menu-disagrees-with-sequential-run", "rule expects %d features, a single goroutine gets %d back [%s]", len(want), len(alone), sc)
		return
	}
	sort.Strings(want)
	wantS := strings.Join(want, "\n")

	G := len(sc.lists)
	body := func() {
		valEmitted = make([][]string, G)
		v := compact.NewValidator(valLocations())
		var wg vsync.WaitGroup
		wg.Add(G)
		for g := 0; g < G; g++ {
			g := g
			sched.Go(func() {
				defer wg.Done()
				fs := make([]ingest.Feature, 0, 2)
				for _, i := range sc.lists[g] {
					f := m[i].spec.Feature()
					var out []ingest.Feature
					if m[i].spec.Kind == wk.KPath {
						out = v.ValidatePath(f.(*ingest.GenericFeature), fs[0:0])
					} else {
						out = v.ValidateArea(f.(*ingest.AreaFeature), fs[0:0])
					}
					for _, x := range out {
						valEmitted[g] = append(valEmitted[g], render(x))
					}
					clobber(f)
				}
			})
		}
		wg.Wait()
	}
	check := func(e *sched.Exec) (string, []sched.Failure) {
		var fails []sched.Failure
		add := func(class, msg string) {
			fails = append(fails, sched.Failure{Class: class, Msg: msg + " [" + sc.String() + "]"})
		}
		for _, ev := range e.Events {
			if ev.Kind == "panic" {
				add("validator:panic", ev.Msg)
			} else if ev.Kind == "horizon" {
				add("validator:livelock", ev.Msg)
			}
		}
		if e.Deadlocked {
			add("validator:deadlock", strings.Join(e.Blocked, "; "))
			return "deadlock", fails
		}
		var got []string
		for _, l := range valEmitted {
			got = append(got, l...)
		}
		sort.Strings(got)
		gotS := strings.Join(got, "\n")
		if gotS != wantS {
			cls := "validator:emitted-set-depends-on-schedule"
			switch {
			case len(got) < len(want):
				cls += ":feature-lost"
			case len(got) > len(want):
				cls += ":feature-emitted-twice-or-unexpectedly"
			default:
				cls += ":content-differs"
			}
			add(cls, fmt.Sprintf("the goroutines were handed\n%s\nbut a single goroutine is handed\n%s", indent(gotS), indent(wantS)))
			return "differs", fails
		}
		return fmt.Sprintf("equal:%d-emitted", len(want)), fails
	}
	res := sched.Explore(body, check, sched.Options{MaxPreemptions: -1, Horizon: 10000})
	r.Evals, r.States, r.Transitions, r.Distinct = res.Executions, res.States, res.Transitions, res.States
	r.Nontrivial = res.MaxPoints > 0
	r.Capped = res.Capped
	r.Outcomes = res.Outcomes
	r.Count("executions_pruned_by_hb_cache", res.Pruned)
	r.Count("validator_scenarios_explored_without_bound", 1)
	for _, f := range res.Failures {
		e1 := sched.Replay(body, f.Choices, 10000)
		_, f1 := check(e1)
		e2 := sched.Replay(body, f.Choices, 10000)
		_, f2 := check(e2)
		if fmt.Sprint(f1) != fmt.Sprint(f2) || len(f1) == 0 {
			r.Violate("harness:nondeterministic-replay", "%s: schedule %v gave %v then %v", f.Class, f.Choices, f1, f2)
			continue
		}
		tr := e1.Trace
		if len(tr) > 40 {
			tr = tr[len(tr)-40:]
		}
		r.Violate(f.Class, "%s\nschedule (choices): %v\ntrace tail:\n  %s", f.Msg, f.Choices, strings.Join(tr, "\n  "))
	}
	r.Key = sc.String()
}

func indent(s string) string { return "    " + strings.ReplaceAll(s, "\n", "\n    ") }
