// C37 — every feature in a world is valid.
//
// Part A (engine E1): the full product of the worldkit feature menu extended
// with invalid variants (paths with one or no point, with a missing point,
// self-intersecting, clockwise — by reference, literal and mixed —, closed over
// two vertices; areas over open, short, missing, clockwise and second paths) x
// source orders (dependency order, areas before paths, reversed) is built in
// every build mode: ingest.NewWorldFromSource dropping invalid features, the
// same with FailInvalidFeatures (with and without FailClockwisePaths),
// ingest.NewMutableWorldFromSource and compact.BuildInMemory + World.Merge.
// Whenever a mode returns a world, an independent validator (coded from the
// statement, checks/c13/hist/model.go + validate.go; planar exact integer
// arithmetic on the E7 grid) is run over EachFeature.
//
// Part B (engine E2): the C13 search (checks/c13/hist): every state reachable
// by <= depth accepted AddFeature calls on BasicMutableWorld and
// MutableOverlayWorld (over an empty base and over a basic base holding the
// seed), and the world after every further attempt (accepted or rejected
// AddFeature, applied or failing MergedChange), validated the same way.
//
// Part C (engine E1, multipoly.go): areas of several polygons, every polygon
// independently an explicit s2 polygon or defined by path IDs whose paths are
// valid / open / missing / too short / invalid themselves, in every order,
// through every build mode, AddFeature(area) on both mutable worlds and the
// replacement of a path under an accepted area; validated the same way.
//
// Part D (engine E1, tags.go): features with a path-typed ID whose tags are
// degenerate (no path tag, path tag that is not a list or an empty list, path
// tag shadowed by a point tag, duplicated path tag), through every build mode
// and AddFeature as a new feature and as the replacement of a valid path (alone
// and under an area) on both mutable worlds; validated the same way.
package main

import (
	"fmt"
	"strings"

	"diagonal.works/b6"
	"diagonal.works/b6/ingest"
	"diagonal.works/b6/ingest/compact"
	"verif/checks/c13/hist"
	"verif/kit"
	wk "verif/worldkit"
)

// ---- part A: the extended menu -------------------------------------------------------

func v(name string, f func(s wk.IDScheme) *wk.FSpec) wk.Variant { return wk.Variant{Name: name, F: f} }

var sq = []wk.LL{wk.G(0, 0), wk.G(0, 2), wk.G(2, 2), wk.G(2, 0)} // the menu's corner points (counter-clockwise)

func extendedMenu(tier string) []wk.Slot {
	slots := wk.FeatureMenu()
	hw := []wk.TagSpec{{Key: "#highway", Value: "path"}}
	for i := range slots {
		sl := &slots[i]
		sl.Quick = 0
		switch sl.Name {
		case "point1", "point2":
			// plain, absent first (quick uses two variants: a missing point matters more than a tag)
			sl.Variants = []wk.Variant{sl.Variants[0], sl.Variants[2], sl.Variants[1]}
			sl.Quick = 2
			if sl.Name == "point2" {
				sl.Quick = 1
				sl.Variants = sl.Variants[:2] // thorough: plain, absent
			}
		case "points3+4":
			sl.Quick = 1
		case "pathA":
			sl.Variants = append(sl.Variants,
				v("INV-one-point", func(s wk.IDScheme) *wk.FSpec {
					return &wk.FSpec{ID: s.W(0), Kind: wk.KPath, Path: wk.Refs(s.P(0)), Tags: hw}
				}),
				v("INV-no-points", func(s wk.IDScheme) *wk.FSpec {
					return &wk.FSpec{ID: s.W(0), Kind: wk.KPath, Path: []wk.PathPt{}, Tags: hw}
				}),
				v("INV-missing-point", func(s wk.IDScheme) *wk.FSpec {
					return &wk.FSpec{ID: s.W(0), Kind: wk.KPath, Path: wk.Refs(s.P(0), wk.PointID(s.PointNS, 5000), s.P(1)), Tags: hw}
				}),
				v("INV-closed-self-intersecting", func(s wk.IDScheme) *wk.FSpec {
					return &wk.FSpec{ID: s.W(0), Kind: wk.KPath, Path: wk.Refs(s.P(0), s.P(2), s.P(1), s.P(3), s.P(0)), Tags: hw}
				}),
				v("INV-closed-2-vertices", func(s wk.IDScheme) *wk.FSpec {
					return &wk.FSpec{ID: s.W(0), Kind: wk.KPath, Path: wk.Refs(s.P(0), s.P(1), s.P(0)), Tags: hw}
				}),
				v("latlng-closed-cw", func(s wk.IDScheme) *wk.FSpec {
					return &wk.FSpec{ID: s.W(0), Kind: wk.KPath, Path: wk.LLs(sq[0], sq[3], sq[2], sq[1], sq[0]), Tags: hw}
				}),
				v("INV-mixed-closed-cw", func(s wk.IDScheme) *wk.FSpec {
					return &wk.FSpec{ID: s.W(0), Kind: wk.KPath, Path: []wk.PathPt{{Ref: s.P(0)}, {LL: sq[3]}, {Ref: s.P(2)}, {Ref: s.P(1)}, {Ref: s.P(0)}}, Tags: hw}
				}),
				v("mixed-closed-ccw", func(s wk.IDScheme) *wk.FSpec {
					return &wk.FSpec{ID: s.W(0), Kind: wk.KPath, Path: []wk.PathPt{{Ref: s.P(0)}, {LL: sq[1]}, {Ref: s.P(2)}, {Ref: s.P(3)}, {Ref: s.P(0)}}, Tags: hw}
				}),
			)
		case "pathB":
			sl.Variants = append(sl.Variants,
				v("closed-ccw-refs", func(s wk.IDScheme) *wk.FSpec {
					return &wk.FSpec{ID: s.W(1), Kind: wk.KPath, Path: wk.Refs(s.P(1), s.P(2), s.P(3), s.P(1))}
				}),
				v("INV-one-point-latlng", func(s wk.IDScheme) *wk.FSpec {
					return &wk.FSpec{ID: s.W(1), Kind: wk.KPath, Path: wk.LLs(wk.G(10, 10))}
				}),
				v("INV-closed-cw-refs", func(s wk.IDScheme) *wk.FSpec {
					return &wk.FSpec{ID: s.W(1), Kind: wk.KPath, Path: wk.Refs(s.P(1), s.P(3), s.P(2), s.P(1))}
				}),
			)
		case "area1":
			sl.Variants = append(sl.Variants,
				v("by-pathB", func(s wk.IDScheme) *wk.FSpec {
					return &wk.FSpec{ID: s.A(0), Kind: wk.KArea, Polys: []wk.PolySpec{{Paths: []b6.FeatureID{s.W(1)}}}}
				}),
				v("INV-by-missing-path", func(s wk.IDScheme) *wk.FSpec {
					return &wk.FSpec{ID: s.A(0), Kind: wk.KArea, Polys: []wk.PolySpec{{Paths: []b6.FeatureID{wk.PathID(s.PathNS, 5001)}}}}
				}),
				v("by-pathA+pathB", func(s wk.IDScheme) *wk.FSpec {
					return &wk.FSpec{ID: s.A(0), Kind: wk.KArea, Polys: []wk.PolySpec{{Paths: []b6.FeatureID{s.W(0)}}, {Paths: []b6.FeatureID{s.W(1)}}}, Tags: []wk.TagSpec{{Key: "#building", Value: "yes"}}}
				}),
			)
		case "rel1":
			// absent, area+missing first
			sl.Variants = []wk.Variant{sl.Variants[0], sl.Variants[2], sl.Variants[1]}
			sl.Quick = 2
		case "rel2":
			sl.Variants = sl.Variants[:1] // relations carry no validity rule; one nesting level is enough here
		}
	}
	return slots
}

var orders = []string{"dependency-order", "areas-before-paths", "reversed"}

func ordered(spec wk.Spec, order int) wk.Spec {
	out := append(wk.Spec{}, spec...)
	switch order {
	case 1:
		var pts, paths, areas, rest wk.Spec
		for _, f := range spec {
			switch f.Kind {
			case wk.KPoint:
				pts = append(pts, f)
			case wk.KPath:
				paths = append(paths, f)
			case wk.KArea:
				areas = append(areas, f)
			default:
				rest = append(rest, f)
			}
		}
		out = append(append(append(append(wk.Spec{}, pts...), areas...), paths...), rest...)
	case 2:
		for i, j := 0, len(out)-1; i < j; i, j = i+1, j-1 {
			out[i], out[j] = out[j], out[i]
		}
	}
	return out
}

type mode struct {
	name      string
	orderFree bool // result cannot depend on the source order (features are collected into a map first)
	build     func(s wk.Spec) (b6.World, error)
}

func modes() []mode {
	return []mode{
		{"NewWorldFromSource(drop-invalid)", true, func(s wk.Spec) (b6.World, error) { return wk.Basic(s, 1) }},
		{"NewWorldFromSource(FailInvalidFeatures)", true, func(s wk.Spec) (b6.World, error) {
			return ingest.NewWorldFromSource(ingest.MemoryFeatureSource(s.Features()), &ingest.BuildOptions{Cores: 1, FailInvalidFeatures: true})
		}},
		{"NewWorldFromSource(FailInvalidFeatures+FailClockwisePaths)", true, func(s wk.Spec) (b6.World, error) { return wk.BasicStrict(s, 1) }},
		{"NewMutableWorldFromSource", false, func(s wk.Spec) (b6.World, error) {
			return ingest.NewMutableWorldFromSource(&ingest.BuildOptions{Cores: 1}, ingest.MemoryFeatureSource(s.Features()))
		}},
		{"compact.BuildInMemory", false, func(s wk.Spec) (b6.World, error) {
			data, err := compact.BuildInMemory(ingest.MemoryFeatureSource(s.Features()), &compact.Options{Goroutines: 1, PointsScratchOutputType: compact.OutputTypeMemory})
			if err != nil {
				return nil, err
			}
			w := compact.NewWorld()
			if err := w.Merge(data); err != nil {
				return nil, fmt.Errorf("merge: %w", err)
			}
			return w, nil
		}},
	}
}

func specModel(spec wk.Spec) hist.Model {
	m := hist.Model{}
	for _, f := range spec {
		m[f.ID] = hist.Feat{FSpec: f}
	}
	return m
}

func runBuilds(slots []wk.Slot, choice []int, order int, r *kit.Result) {
	sch := wk.Schemes[0]
	spec := ordered(wk.Expand(slots, choice, sch), order)
	if len(spec) == 0 {
		r.Outcome = "skipped:empty"
		return
	}
	specProblems := specModel(spec).Problems()
	label := "source-all-valid"
	if len(specProblems) > 0 {
		label = "source-with-invalid"
		r.Nontrivial = true
		r.Key = fmt.Sprint(choice)
	}
	if order == 0 && choice[3] == 6 && choice[5] == 1 && choice[0] == 0 && choice[4] == 0 {
		r.Sample = map[string]interface{}{"menu": strings.Join(wk.ChoiceNames(slots, choice), " "), "order": orders[order], "source": spec.String(), "invalid_as_given": hist.ProblemsString(specProblems)}
	}
	for _, md := range modes() {
		if md.orderFree && order != 0 {
			continue
		}
		var w b6.World
		var err error
		cls, msg := kit.Catch(func() { w, err = md.build(spec) })
		r.Evals++
		what := fmt.Sprintf("%s\nmenu: %s\nsource order: %s\nsource: %s\ninvalid as given: %s", md.name, strings.Join(wk.ChoiceNames(slots, choice), " "), orders[order], spec, hist.ProblemsString(specProblems))
		switch {
		case cls != "":
			r.Violate(md.name+":"+cls, "%s\n%s", what, msg)
			r.AddOutcome(md.name + ":panic")
		case err != nil:
			r.AddOutcome(md.name + ":" + label + ":error")
			if len(specProblems) == 0 && !strings.Contains(md.name, "FailClockwisePaths") {
				r.Count("build-error-on-valid-source:"+md.name, 1)
			}
		default:
			ps := hist.ValidateWorld(w)
			if len(ps) > 0 {
				r.Violate(hist.RootClass(md.name, "build", "built", ps), "build: %s\nreturned a world holding: %s", what, hist.ProblemsString(ps))
				r.AddOutcome(md.name + ":" + label + ":world-with-invalid-feature")
			} else {
				n := 0
				w.EachFeature(func(f b6.Feature, g int) error { n++; return nil }, &b6.EachFeatureOptions{Goroutines: 1})
				kept := "kept-all"
				if n < len(spec) {
					kept = "dropped-some"
				}
				r.AddOutcome(md.name + ":" + label + ":valid-world:" + kept)
			}
		}
	}
}

func main() {
	ops := hist.FeatureOps()
	kit.Main(&kit.Check{
		ID: "C37", Level: "exploration",
		Rule: "Part A: every choice of one variant per slot of the worldkit menu extended with invalid variants x source order, built in five build modes (order-independent modes once); non-trivial = the source holds a feature that is invalid as given; distinct by menu choice. Part B: the C13 search (world kind x seed x first op; breadth-first over accepted AddFeature ops, deduplicated by private state), the validator run at every state and after every attempt (AddFeature accepted or rejected, MergedChange applied or failing). Part C: every sequence of 1..n polygon kinds (explicit s2 polygon | one path ID x path state | outer + hole path IDs x path states; every slot owns its IDs and grid patch) as one area, (a) built in the five build modes x source orders, (b) added with AddFeature to a BasicMutableWorld, a MutableOverlayWorld over an empty base and one over a basic base holding the points and paths, (c) for sequences naming only valid paths: each named path replaced with AddFeature by every other path state, on the same worlds and on an overlay whose base also holds the area; the validator is run on every world returned by a build and after every AddFeature (accepted or rejected); non-trivial = some polygon of the area is invalid as given (replacements: always); distinct by entry x sequence. Part D: every tag list of the alphabet of degenerate tag lists for a feature with a path-typed ID (reserved tags path / point absent, of the wrong value type, empty, shadowing each other, duplicated) x ID scheme, (a) as a source feature alone, under an area and next to another path and a relation, built in the five build modes x source orders, (b) given to AddFeature as a new feature, as the replacement of a valid closed path and as the replacement of a valid closed path under an area, on a BasicMutableWorld, a MutableOverlayWorld over an empty base and MutableOverlayWorlds whose base holds the points / the replaced path / the area; validator run as in part C; non-trivial = the tag list does not read as a path of >= 2 points; distinct by entry x scheme x tag list. Oracle: independent validator over EachFeature: paths >= 2 points, every point resolves to a location, paths closed by reference form valid counter-clockwise loops, areas name only existing closed paths of >= 3 points (a boundary closed only by coordinates must be a valid counter-clockwise loop too).",
		Assumptions: []string{
			"loop validity and orientation are decided in the plane on the E7 grid with exact integer arithmetic (features span < 1e-3 degrees, so planar and spherical answers agree)",
			"a path is closed when its first and last entries are the same point feature; equal literal coordinates make a path a closed loop only where an area uses it as boundary",
			"polygons given by explicit loops are not part of the statement and are not validated",
		},
		QuickDeadline: 240e9, ThoroughDeadline: 1800e9, CaseTimeout: 900e9, Chunk: 8,
		WorkerEnv: []string{"GOMAXPROCS=2", "GOGC=200"},
		Build: func(tier string) (kit.Space, string) {
			combos := hist.Combos(tier)
			slots := extendedMenu(tier)
			rad := wk.TierRadices(slots, tier)
			norders := 2
			opt := hist.Options{Depth: 2, Validate: true, MergedPairs: 1}
			if tier == "thorough" {
				norders = 3
				opt = hist.Options{Depth: 3, Validate: true, MergedPairs: 2}
			}
			nA := kit.Product(rad) * int64(norders)
			nB := int64(len(combos)) * int64(1+len(ops))
			pc := newPartC(tier)
			pd := newPartD(tier)
			nC := pc.Len()
			return kit.FuncSpace{N: nA + nB + nC + pd.Len(), F: func(i int64) kit.Result {
					var r kit.Result
					if i >= nA+nB+nC {
						return pd.Run(i - nA - nB - nC)
					}
					if i >= nA+nB {
						return pc.Run(i - nA - nB)
					}
					if i >= nA {
						j := i - nA
						var c hist.Combo
						first := -1
						if j < int64(len(combos)) {
							c = combos[j]
						} else {
							j -= int64(len(combos))
							c = combos[j%int64(len(combos))]
							first = int(j / int64(len(combos)))
						}
						hist.Explore(c, first, opt, &r)
						name := "seed"
						if first >= 0 {
							name = ops[first].Name
						}
						r.Key = "search/" + c.String() + "/" + name
						if r.Outcome == "" {
							r.Outcome = "search:" + c.Kind.String()
						}
						return r
					}
					order := int(i % int64(norders))
					choice := kit.Digits(i/int64(norders), rad)
					runBuilds(slots, choice, order, &r)
					return r
				}}, fmt.Sprintf("part A: %d menu worlds x %d source orders x 5 build modes; part B: %d world kinds x seeds, histories of <= %d accepted ops over %d ops, %d AddFeature + %d MergedChange attempts at every state; %s; %s",
					kit.Product(rad), norders, len(combos), opt.Depth, len(ops), len(ops), len(hist.MergedMenu(opt.MergedPairs)), pc.describe(), pd.describe())
		},
	})
}
