// Part C (engine E1): multi-polygon areas mixing representations.
//
// An area is a sequence of 1..n polygons; every polygon is, independently,
//
//	X          given explicitly (an s2.Polygon; no path IDs), or
//	P(s)       given by one path ID, the path being in state s, or
//	H(s, t)    given by two path IDs (outer ring in state s, hole in state t).
//
// Path states: closed counter-clockwise by references (valid), open, missing
// (the ID names no feature), two points, one point and — thorough — closed over
// two vertices, closed clockwise, closed counter-clockwise by literal
// coordinates, closed with a point that does not exist. Every polygon slot owns
// its path IDs, point IDs and a patch of the grid, so polygons never touch.
//
// Every sequence (all kinds in all orders) is driven through every entry point
// that decides whether an area may be in a world:
//
//	build    the five build modes of part A x source orders;
//	add      AddFeature(area) on a BasicMutableWorld, a MutableOverlayWorld over
//	         an empty base (points and paths added first, rejected ones are
//	         simply not there) and a MutableOverlayWorld over a basic base built
//	         from the points and paths;
//	replace  starting from an accepted area whose path-defined polygons are all
//	         valid: AddFeature of every other state of every path it names, on
//	         the same worlds and on an overlay whose base holds the area too.
//
// Oracle: hist.ValidateWorld over the resulting world (returned by the build;
// after the AddFeature call, accepted or rejected) reports nothing. Nothing is
// demanded about which error is returned, nor that valid input is accepted.
package main

import (
	"fmt"
	"strings"

	"diagonal.works/b6"
	"diagonal.works/b6/ingest"
	"verif/checks/c13/hist"
	"verif/kit"
	wk "verif/worldkit"
)

// ---- path states -------------------------------------------------------------------

type pathState struct {
	name string
	// entries of the path over the four corner points of its ring (counter-clockwise); nil = no such feature
	make func(p []b6.FeatureID, ll []wk.LL, absent b6.FeatureID) []wk.PathPt
}

const (
	sValid = iota
	sOpen
	sMissing
	sTwoPoints
	sOnePoint
	nQuickStates // states used by the quick tier
)

const (
	sClosed2Vertices = nQuickStates + iota
	sClockwise
	sLatLngClosedCCW
	sMissingPoint
	nStates
	sTriangle = nStates // replacement only: another valid ring
)

var pathStates = []pathState{
	sValid: {"closed-ccw", func(p []b6.FeatureID, _ []wk.LL, _ b6.FeatureID) []wk.PathPt {
		return wk.Refs(p[0], p[1], p[2], p[3], p[0])
	}},
	sOpen:            {"open", func(p []b6.FeatureID, _ []wk.LL, _ b6.FeatureID) []wk.PathPt { return wk.Refs(p[0], p[1], p[2], p[3]) }},
	sMissing:         {"missing", nil},
	sTwoPoints:       {"two-points", func(p []b6.FeatureID, _ []wk.LL, _ b6.FeatureID) []wk.PathPt { return wk.Refs(p[0], p[1]) }},
	sOnePoint:        {"one-point", func(p []b6.FeatureID, _ []wk.LL, _ b6.FeatureID) []wk.PathPt { return wk.Refs(p[0]) }},
	sClosed2Vertices: {"closed-2-vertices", func(p []b6.FeatureID, _ []wk.LL, _ b6.FeatureID) []wk.PathPt { return wk.Refs(p[0], p[1], p[0]) }},
	sClockwise: {"closed-cw", func(p []b6.FeatureID, _ []wk.LL, _ b6.FeatureID) []wk.PathPt {
		return wk.Refs(p[0], p[3], p[2], p[1], p[0])
	}},
	sLatLngClosedCCW: {"latlng-closed-ccw", func(_ []b6.FeatureID, ll []wk.LL, _ b6.FeatureID) []wk.PathPt {
		return wk.LLs(ll[0], ll[1], ll[2], ll[3], ll[0])
	}},
	sMissingPoint: {"closed-with-missing-point", func(p []b6.FeatureID, _ []wk.LL, absent b6.FeatureID) []wk.PathPt {
		return wk.Refs(p[0], absent, p[2], p[3], p[0])
	}},
	sTriangle: {"closed-ccw-triangle", func(p []b6.FeatureID, _ []wk.LL, _ b6.FeatureID) []wk.PathPt { return wk.Refs(p[0], p[1], p[2], p[0]) }},
}

// ---- polygon kinds -----------------------------------------------------------------

// polyKind: explicit (no states) or path-defined by len(states) paths (outer [, hole]).
type polyKind struct {
	name   string
	states []int // nil = explicit polygon
}

func (k polyKind) explicit() bool { return k.states == nil }

func polyKinds(tier string) []polyKind {
	ks := []polyKind{{name: "X"}}
	n := nQuickStates
	if tier == "thorough" {
		n = nStates
	}
	for s := 0; s < n; s++ {
		ks = append(ks, polyKind{"P(" + pathStates[s].name + ")", []int{s}})
	}
	holes := [][2]int{{sValid, sOpen}}
	if tier == "thorough" {
		holes = [][2]int{{sValid, sValid}, {sValid, sOpen}, {sValid, sMissing}, {sOpen, sValid}}
	}
	for _, h := range holes {
		ks = append(ks, polyKind{"H(" + pathStates[h[0]].name + "," + pathStates[h[1]].name + ")", []int{h[0], h[1]}})
	}
	return ks
}

// shape = one polygon kind per polygon.
type shape []polyKind

func (sh shape) String() string {
	var s []string
	for _, k := range sh {
		s = append(s, k.name)
	}
	return "[" + strings.Join(s, " | ") + "]"
}

// shapes lists every sequence of 1..maxN kinds: shorter first, then in
// mixed-radix order with the first polygon as the most significant digit.
func shapes(kinds []polyKind, maxN int) []shape {
	var out []shape
	for n := 1; n <= maxN; n++ {
		rad := make([]int, n)
		for i := range rad {
			rad[i] = len(kinds)
		}
		total := kit.Product(rad)
		for i := int64(0); i < total; i++ {
			d := kit.Digits(i, rad)
			sh := make(shape, n)
			for j := range sh {
				sh[j] = kinds[d[n-1-j]]
			}
			out = append(out, sh)
		}
	}
	return out
}

// ---- features of a shape -------------------------------------------------------------

var mpBuilding = []wk.TagSpec{{Key: "#building", Value: "yes"}}
var mpHighway = []wk.TagSpec{{Key: "#highway", Value: "path"}}

// ring q (0 = outer, 1 = hole) of polygon slot k: its path ID, point IDs and corners.
func ringIDs(sch wk.IDScheme, k, q int) (path b6.FeatureID, pts []b6.FeatureID, lls []wk.LL) {
	path = sch.W(2*k + q)
	i0, j0, size := 10*k, 0, 6
	if q == 1 {
		i0, j0, size = 10*k+2, 2, 2
	}
	lls = []wk.LL{wk.G(i0, j0), wk.G(i0, j0+size), wk.G(i0+size, j0+size), wk.G(i0+size, j0)}
	for i := 0; i < 4; i++ {
		pts = append(pts, sch.P(8*k+4*q+i))
	}
	return
}

func absentPointID(sch wk.IDScheme) b6.FeatureID { return wk.PointID(sch.PointNS, 5000) }

func pathSpec(sch wk.IDScheme, k, q, state int) *wk.FSpec {
	st := pathStates[state]
	if st.make == nil {
		return nil
	}
	id, pts, lls := ringIDs(sch, k, q)
	return &wk.FSpec{ID: id, Kind: wk.KPath, Path: st.make(pts, lls, absentPointID(sch)), Tags: mpHighway}
}

func explicitLoop(k int) []wk.LL {
	i0, j0 := 10*k, 10
	return []wk.LL{wk.G(i0, j0), wk.G(i0, j0+4), wk.G(i0+4, j0+4), wk.G(i0+4, j0)}
}

func areaID(sch wk.IDScheme) b6.FeatureID { return sch.A(0) }

// shapeSpec: points (of every path-defined ring, also of missing paths), the
// paths that exist and the area, in dependency order.
func shapeSpec(sch wk.IDScheme, sh shape) (points, paths wk.Spec, area wk.FSpec) {
	area = wk.FSpec{ID: areaID(sch), Kind: wk.KArea, Tags: mpBuilding}
	for k, kind := range sh {
		if kind.explicit() {
			area.Polys = append(area.Polys, wk.PolySpec{Loops: [][]wk.LL{explicitLoop(k)}})
			continue
		}
		poly := wk.PolySpec{Paths: []b6.FeatureID{}}
		for q, st := range kind.states {
			id, pts, lls := ringIDs(sch, k, q)
			for i := range pts {
				points = append(points, wk.FSpec{ID: pts[i], Kind: wk.KPoint, LL: lls[i]})
			}
			poly.Paths = append(poly.Paths, id)
			if p := pathSpec(sch, k, q, st); p != nil {
				paths = append(paths, *p)
			}
		}
		area.Polys = append(area.Polys, poly)
	}
	return
}

func join(parts ...wk.Spec) wk.Spec {
	var out wk.Spec
	for _, p := range parts {
		out = append(out, p...)
	}
	return out
}

// ---- source-level judgement (labels and violation classes only) ---------------------

// polyBad: by the rules of the statement applied to the features as given, does
// polygon k of the area refer to something that is not an existing, valid,
// closed path of at least three points?
func polyBad(given wk.Spec, area wk.FSpec, k int) bool {
	if area.Polys[k].Paths == nil {
		return false
	}
	m := hist.Model{}
	for _, f := range given {
		if f.Kind != wk.KArea {
			m[f.ID] = hist.Feat{FSpec: f}
		}
	}
	one := wk.FSpec{ID: area.ID, Kind: wk.KArea, Polys: []wk.PolySpec{area.Polys[k]}}
	m[one.ID] = hist.Feat{FSpec: one}
	mine := map[b6.FeatureID]bool{one.ID: true}
	for _, id := range area.Polys[k].Paths {
		mine[id] = true
	}
	for _, p := range m.Problems() {
		if mine[p.ID] {
			return true
		}
	}
	return false
}

// position names where the first bad polygon of the area (as given) stands.
func position(given wk.Spec, area wk.FSpec) string {
	explicitBefore, pathBefore := false, false
	for k := range area.Polys {
		if polyBad(given, area, k) {
			switch {
			case explicitBefore && pathBefore:
				return "bad-path-polygon-after-explicit-and-path-polygons"
			case explicitBefore:
				return "bad-path-polygon-after-explicit-polygon"
			case pathBefore:
				return "bad-path-polygon-after-valid-path-polygon"
			case len(area.Polys) == 1:
				return "bad-path-polygon-alone"
			}
			return "bad-path-polygon-first"
		}
		if area.Polys[k].Paths == nil {
			explicitBefore = true
		} else {
			pathBefore = true
		}
	}
	return "no-bad-polygon-as-given"
}

func givenLabel(given wk.Spec, area wk.FSpec) string {
	if position(given, area) == "no-bad-polygon-as-given" {
		return "area-valid-as-given"
	}
	return "area-invalid-as-given"
}

func hasArea(w b6.World, id b6.FeatureID) (has bool) {
	kit.Catch(func() { has = w.FindFeatureByID(id) != nil })
	return
}

// ---- entry: build -----------------------------------------------------------------------

func runShapeBuilds(sh shape, norders int, r *kit.Result) {
	sch := wk.Schemes[0]
	points, paths, area := shapeSpec(sch, sh)
	given := join(points, paths, wk.Spec{area})
	pos := position(given, area)
	label := givenLabel(given, area)
	r.Key = "C/build/" + sh.String()
	r.Nontrivial = label == "area-invalid-as-given"
	for order := 0; order < norders; order++ {
		spec := ordered(given, order)
		for _, md := range modes() {
			if md.orderFree && order != 0 {
				continue
			}
			var w b6.World
			var err error
			cls, msg := kit.Catch(func() { w, err = md.build(spec) })
			r.Evals++
			what := fmt.Sprintf("%s\narea shape: %s (%s)\nsource order: %s\nsource: %s", md.name, sh, pos, orders[order], spec)
			switch {
			case cls != "":
				r.Violate(md.name+":"+cls+":"+pos, "%s\n%s", what, msg)
				r.AddOutcome("C:" + md.name + ":panic")
			case err != nil:
				r.AddOutcome("C:" + md.name + ":" + label + ":error")
			default:
				if ps := hist.ValidateWorld(w); len(ps) > 0 {
					r.Violate(md.name+":built:"+hist.ProblemClasses(ps)+":"+pos, "build: %s\nreturned a world holding: %s", what, hist.ProblemsString(ps))
					r.AddOutcome("C:" + md.name + ":" + label + ":world-with-invalid-feature")
				} else if hasArea(w, area.ID) {
					r.AddOutcome("C:" + md.name + ":" + label + ":valid-world:area-kept")
				} else {
					r.AddOutcome("C:" + md.name + ":" + label + ":valid-world:area-dropped")
				}
			}
		}
	}
}

// ---- entries: add and replace ---------------------------------------------------------

type editKind struct {
	name      string
	world     string
	areaFirst bool // replace only: the area is part of the base
	make      func(setup wk.Spec, inBase wk.Spec) (ingest.MutableWorld, error)
}

func addTo(w ingest.MutableWorld, s wk.Spec, strict bool) error {
	for _, f := range s {
		if err := w.AddFeature(f.Feature()); err != nil && strict {
			return fmt.Errorf("setup: %s rejected: %w", f, err)
		}
	}
	return nil
}

// editKinds: where the features the attempt builds on live. strict = the setup
// features are all valid, so none may be rejected or dropped.
func editKinds(strict bool) []editKind {
	return []editKind{
		{"basic-mutable", "BasicMutableWorld", false, func(setup, _ wk.Spec) (ingest.MutableWorld, error) {
			w := ingest.NewBasicMutableWorld()
			return w, addTo(w, setup, strict)
		}},
		{"overlay-over-empty", "MutableOverlayWorld", false, func(setup, _ wk.Spec) (ingest.MutableWorld, error) {
			w := ingest.NewMutableOverlayWorld(b6.EmptyWorld{})
			return w, addTo(w, setup, strict)
		}},
		{"overlay-over-base(points+paths)", "MutableOverlayWorld", false, func(setup, inBase wk.Spec) (ingest.MutableWorld, error) {
			var base b6.World
			var err error
			if strict {
				base, err = wk.BasicStrict(inBase, 1)
			} else {
				base, err = wk.Basic(inBase, 1)
			}
			if err != nil {
				return nil, fmt.Errorf("setup: base build: %w", err)
			}
			w := ingest.NewMutableOverlayWorld(base)
			var rest wk.Spec
			for _, f := range setup {
				if inBase.Find(f.ID) == nil {
					rest = append(rest, f)
				}
			}
			return w, addTo(w, rest, strict)
		}},
	}
}

func runShapeAdds(sh shape, r *kit.Result) {
	sch := hist.S
	points, paths, area := shapeSpec(sch, sh)
	given := join(points, paths, wk.Spec{area})
	pos := position(given, area)
	label := givenLabel(given, area)
	r.Key = "C/add/" + sh.String()
	r.Nontrivial = label == "area-invalid-as-given"
	setup := join(points, paths)
	for _, ek := range editKinds(false) {
		site := ek.world + ".AddFeature(area)[" + ek.name + "]"
		what := fmt.Sprintf("%s\narea shape: %s (%s)\nworld: %s holding (where accepted) %s\ncall: AddFeature(%s)", site, sh, pos, ek.name, setup, area)
		var w ingest.MutableWorld
		var err error
		cls, msg := kit.Catch(func() { w, err = ek.make(setup, setup) })
		if cls != "" || err != nil {
			r.Violate("harness:add-setup:"+ek.name, "%s\n%s %v", what, msg, err)
			continue
		}
		if ps := hist.ValidateWorld(w); len(ps) > 0 {
			r.Violate(ek.world+"["+ek.name+"]:invalid-before-the-area-is-added:"+hist.ProblemClasses(ps), "%s\nbefore the call the world holds: %s", what, hist.ProblemsString(ps))
			continue
		}
		cls, msg = kit.Catch(func() { err = w.AddFeature(area.Feature()) })
		r.Evals++
		if cls != "" {
			r.Violate(site+":"+cls+":"+pos, "%s\n%s", what, msg)
			r.AddOutcome("C:add:" + ek.name + ":panic")
			continue
		}
		verdict := "accepted"
		if err != nil {
			verdict = "rejected"
		}
		if ps := hist.ValidateWorld(w); len(ps) > 0 {
			r.Violate(site+":"+verdict+":"+hist.ProblemClasses(ps)+":"+pos, "%s\nreturned: %v\nexpected: a world that still holds only valid features\nafterwards the world holds: %s", what, err, hist.ProblemsString(ps))
			r.AddOutcome("C:add:" + ek.name + ":" + label + ":" + verdict + ":world-with-invalid-feature")
		} else {
			r.AddOutcome("C:add:" + ek.name + ":" + label + ":" + verdict + ":valid-world")
		}
	}
}

// replaceShapes: the shapes whose path-defined polygons are all valid as given
// (so the area is accepted) and that name at least one path.
func replaceShapes(all []shape) []shape {
	var out []shape
	for _, sh := range all {
		paths, ok := 0, true
		for _, k := range sh {
			for _, st := range k.states {
				paths++
				if st != sValid && st != sLatLngClosedCCW {
					ok = false
				}
			}
		}
		if ok && paths > 0 {
			out = append(out, sh)
		}
	}
	return out
}

func replacementStates(tier string) []int {
	if tier == "thorough" {
		return []int{sTriangle, sValid, sOpen, sTwoPoints, sOnePoint, sClosed2Vertices, sClockwise, sLatLngClosedCCW, sMissingPoint}
	}
	return []int{sTriangle, sOpen, sTwoPoints, sOnePoint}
}

func runShapeReplacements(sh shape, tier string, r *kit.Result) {
	sch := hist.S
	points, paths, area := shapeSpec(sch, sh)
	all := join(points, paths, wk.Spec{area})
	r.Key = "C/replace/" + sh.String()
	r.Nontrivial = true
	kinds := editKinds(true)
	// the area lives in the base as well (the replaced path and its referrer are base-only)
	kinds = append(kinds, editKind{"overlay-over-base(points+paths+area)", "MutableOverlayWorld", true, nil})
	for k, kind := range sh {
		for q, cur := range kind.states {
			for _, st := range replacementStates(tier) {
				if st == cur {
					continue
				}
				repl := pathSpec(sch, k, q, st)
				var given wk.Spec
				for _, f := range all {
					if f.ID == repl.ID {
						f = *repl
					}
					given = append(given, f)
				}
				pos := position(given, area)
				label := givenLabel(given, area)
				for _, ek := range kinds {
					site := ek.world + ".AddFeature(path-under-area)[" + ek.name + "]"
					what := fmt.Sprintf("%s\narea shape: %s; path %d of polygon %d becomes %s (%s)\nworld: %s holding %s\ncall: AddFeature(%s)", site, sh, q, k, pathStates[st].name, pos, ek.name, all, repl)
					var w ingest.MutableWorld
					var err error
					cls, msg := kit.Catch(func() {
						if ek.areaFirst {
							w, err = kinds[2].make(all, all)
						} else {
							w, err = ek.make(all, join(points, paths))
						}
					})
					if cls != "" || err != nil {
						r.Violate("harness:replace-setup:"+ek.name, "%s\n%s %v", what, msg, err)
						continue
					}
					if ps := hist.ValidateWorld(w); len(ps) > 0 || !hasArea(w, area.ID) {
						r.Violate("harness:replace-setup-invalid:"+ek.name, "%s\nbefore the call the world holds (area present: %v): %s", what, hasArea(w, area.ID), hist.ProblemsString(ps))
						continue
					}
					cls, msg = kit.Catch(func() { err = w.AddFeature(repl.Feature()) })
					r.Evals++
					if cls != "" {
						r.Violate(site+":"+cls+":"+pos, "%s\n%s", what, msg)
						r.AddOutcome("C:replace:" + ek.name + ":panic")
						continue
					}
					verdict := "accepted"
					if err != nil {
						verdict = "rejected"
					}
					if ps := hist.ValidateWorld(w); len(ps) > 0 {
						r.Violate(site+":"+verdict+":"+hist.ProblemClasses(ps)+":"+pos, "%s\nreturned: %v\nexpected: a world that still holds only valid features\nafterwards the world holds: %s", what, err, hist.ProblemsString(ps))
						r.AddOutcome("C:replace:" + ek.name + ":" + label + ":" + verdict + ":world-with-invalid-feature")
					} else {
						r.AddOutcome("C:replace:" + ek.name + ":" + label + ":" + verdict + ":valid-world")
					}
				}
			}
		}
	}
}

// ---- the space of part C -------------------------------------------------------------

type partC struct {
	tier     string
	kinds    []polyKind
	maxN     int
	norders  int
	shapes   []shape
	replaces []shape
}

func newPartC(tier string) *partC {
	c := &partC{tier: tier, kinds: polyKinds(tier), maxN: 2, norders: 2}
	if tier == "thorough" {
		c.maxN, c.norders = 3, 3
	}
	c.shapes = shapes(c.kinds, c.maxN)
	c.replaces = replaceShapes(c.shapes)
	return c
}

func (c *partC) Len() int64 { return int64(2*len(c.shapes) + len(c.replaces)) }

// Run: shapes are interleaved (build, add of the same shape are neighbours) so
// that the simplest shapes of every entry come first.
func (c *partC) Run(i int64) kit.Result {
	var r kit.Result
	n := int64(len(c.shapes))
	switch {
	case i < 2*n:
		sh := c.shapes[i/2]
		if i%2 == 0 {
			runShapeBuilds(sh, c.norders, &r)
		} else {
			runShapeAdds(sh, &r)
		}
		if len(sh) == 2 && sh[0].explicit() && len(sh[1].states) == 1 && sh[1].states[0] == sOpen {
			points, paths, area := shapeSpec(hist.S, sh)
			r.Sample = map[string]interface{}{"part": "C", "case": r.Key, "shape": sh.String(), "features": join(points, paths, wk.Spec{area}).String()}
		}
	default:
		runShapeReplacements(c.replaces[i-2*n], c.tier, &r)
	}
	return r
}

func (c *partC) describe() string {
	var names []string
	for _, k := range c.kinds {
		names = append(names, k.name)
	}
	var repl []string
	for _, s := range replacementStates(c.tier) {
		repl = append(repl, pathStates[s].name)
	}
	return fmt.Sprintf("part C: areas of 1..%d polygons, each polygon one of %d kinds {%s} (X = explicit s2 polygon, P = one path ID, H = outer + hole path IDs) in every order = %d area shapes, each x (5 build modes x %d source orders (order-independent modes once)) and x AddFeature(area) on 3 world kinds; %d shapes with only valid paths x every path they name x %d replacement states {%s} x 4 world kinds",
		c.maxN, len(c.kinds), strings.Join(names, ", "), len(c.shapes), c.norders, len(c.replaces), len(repl), strings.Join(repl, ", "))
}
