// Part D (engine E1): features with a path-typed ID whose TAGS are degenerate.
//
// A path's geometry is carried by the reserved tag "path" (a list of point
// references / lat-lngs); the reserved tag "point" carries a point's location,
// and the tag accessors look for "point" first. The alphabet is every way the
// tag model lets a path-ID feature fail to read as a path of >= 2 points: no
// path tag (with and without other tags), a path tag whose value is not a list
// (string, feature ID, lat-lng), an empty list, a path tag shadowed by a point
// tag (before / after it; over a closed and over an open list), a point tag
// only, the path tag given twice (junk first / junk last; the latter reads as a
// valid path and is the control). Areas and relations carry their geometry in
// AreaMembers / Members, not in tags, so they have no analogous variants.
//
// Every variant goes through every entry point that decides whether a path may
// be in a world: the five build modes x source orders (alone, and with an area
// over it), AddFeature of the variant as a new feature, and AddFeature of the
// variant replacing a valid closed path (with no referrer, and under an area),
// on a BasicMutableWorld, a MutableOverlayWorld over an empty base and
// MutableOverlayWorlds whose base holds the replaced path (and the area).
//
// Oracle: hist.ValidateWorld reports nothing on every world returned by a build
// and after every AddFeature call (accepted or rejected).
package main

import (
	"fmt"
	"strings"

	"diagonal.works/b6"
	"diagonal.works/b6/ingest"
	"diagonal.works/b6/ingest/compact"
	"verif/checks/c13/hist"
	"verif/kit"
	wk "verif/worldkit"
)

// tagVariant: the whole tag list of path W(0) over the corner points P(0..3).
type tagVariant struct {
	name    string
	readsAs string // what the statement makes of it: "invalid" | "valid"
	tags    func(sch wk.IDScheme) b6.Tags
}

func tvRefs(sch wk.IDScheme, idx ...int) b6.Expression {
	es := make([]b6.AnyExpression, 0, len(idx))
	for _, i := range idx {
		es = append(es, b6.FeatureIDExpression(sch.P(i)))
	}
	return b6.NewExpressions(es)
}

func tagVariants() []tagVariant {
	hw := b6.Tag{Key: "#highway", Value: b6.NewStringExpression("path")}
	pointTag := b6.Tag{Key: b6.PointTag, Value: b6.NewPointExpressionFromLatLng(wk.G(1, 1).LatLng())}
	closed := func(s wk.IDScheme) b6.Tag { return b6.Tag{Key: b6.PathTag, Value: tvRefs(s, 0, 1, 2, 3, 0)} }
	open2 := func(s wk.IDScheme) b6.Tag { return b6.Tag{Key: b6.PathTag, Value: tvRefs(s, 0, 1)} }
	junk := b6.Tag{Key: b6.PathTag, Value: b6.NewStringExpression("1,2,3")}
	return []tagVariant{
		{name: "no-path-tag", readsAs: "invalid", tags: func(s wk.IDScheme) b6.Tags { return b6.Tags{hw} }},
		{name: "no-tags", readsAs: "invalid", tags: func(s wk.IDScheme) b6.Tags { return b6.Tags{} }},
		{name: "closed-list+point-tag-after", readsAs: "invalid", tags: func(s wk.IDScheme) b6.Tags { return b6.Tags{hw, closed(s), pointTag} }},
		{name: "point-tag-before+closed-list", readsAs: "invalid", tags: func(s wk.IDScheme) b6.Tags { return b6.Tags{pointTag, closed(s), hw} }},
		{name: "path-tag-is-a-string", readsAs: "invalid", tags: func(s wk.IDScheme) b6.Tags { return b6.Tags{hw, junk} }},
		{name: "path-tag-is-an-empty-list", readsAs: "invalid", tags: func(s wk.IDScheme) b6.Tags {
			return b6.Tags{hw, {Key: b6.PathTag, Value: b6.NewExpressions([]b6.AnyExpression{})}}
		}},
		{name: "point-tag-only", readsAs: "invalid", tags: func(s wk.IDScheme) b6.Tags { return b6.Tags{pointTag} }},
		{name: "open-list+point-tag-after", readsAs: "invalid", tags: func(s wk.IDScheme) b6.Tags { return b6.Tags{open2(s), pointTag} }},
		{name: "path-tag-is-a-feature-id", readsAs: "invalid", tags: func(s wk.IDScheme) b6.Tags {
			return b6.Tags{hw, {Key: b6.PathTag, Value: b6.NewFeatureIDExpression(s.P(0))}}
		}},
		{name: "path-tag-is-a-latlng", readsAs: "invalid", tags: func(s wk.IDScheme) b6.Tags {
			return b6.Tags{hw, {Key: b6.PathTag, Value: b6.NewPointExpressionFromLatLng(wk.G(0, 0).LatLng())}}
		}},
		{name: "two-path-tags(string,closed-list)", readsAs: "invalid", tags: func(s wk.IDScheme) b6.Tags { return b6.Tags{hw, junk, closed(s)} }},
		{name: "two-path-tags(closed-list,string)", readsAs: "valid", tags: func(s wk.IDScheme) b6.Tags { return b6.Tags{hw, closed(s), junk} }},
	}
}

// item: one feature of a source or setup, either declarative or raw.
type item struct {
	kind wk.Kind
	desc string
	make func() ingest.Feature
}

func specItem(f wk.FSpec) item {
	return item{kind: f.Kind, desc: f.String(), make: func() ingest.Feature { return f.Feature() }}
}

func specItems(s wk.Spec) []item {
	var out []item
	for _, f := range s {
		out = append(out, specItem(f))
	}
	return out
}

func variantItem(sch wk.IDScheme, v tagVariant) item {
	id := sch.W(0)
	return item{kind: wk.KPath, desc: fmt.Sprintf("%s tags[%s]", id, wk.TagsString(v.tags(sch))), make: func() ingest.Feature {
		return &ingest.GenericFeature{ID: id, Tags: v.tags(sch)}
	}}
}

func itemsString(items []item) string {
	var s []string
	for _, it := range items {
		s = append(s, it.desc)
	}
	return strings.Join(s, " ; ")
}

func makeAll(items []item) []ingest.Feature {
	out := make([]ingest.Feature, 0, len(items))
	for _, it := range items {
		out = append(out, it.make())
	}
	return out
}

func orderedItems(items []item, order int) []item {
	out := append([]item{}, items...)
	switch order {
	case 1:
		var pts, paths, areas, rest []item
		for _, it := range items {
			switch it.kind {
			case wk.KPoint:
				pts = append(pts, it)
			case wk.KPath:
				paths = append(paths, it)
			case wk.KArea:
				areas = append(areas, it)
			default:
				rest = append(rest, it)
			}
		}
		out = append(append(append(append([]item{}, pts...), areas...), paths...), rest...)
	case 2:
		for i, j := 0, len(out)-1; i < j; i, j = i+1, j-1 {
			out[i], out[j] = out[j], out[i]
		}
	}
	return out
}

type featureMode struct {
	name      string
	orderFree bool
	build     func(fs []ingest.Feature) (b6.World, error)
}

// featureModes: the build modes of part A over raw features.
func featureModes() []featureMode {
	basic := func(o ingest.BuildOptions) func(fs []ingest.Feature) (b6.World, error) {
		return func(fs []ingest.Feature) (b6.World, error) {
			return ingest.NewWorldFromSource(ingest.MemoryFeatureSource(fs), &o)
		}
	}
	return []featureMode{
		{"NewWorldFromSource(drop-invalid)", true, basic(ingest.BuildOptions{Cores: 1})},
		{"NewWorldFromSource(FailInvalidFeatures)", true, basic(ingest.BuildOptions{Cores: 1, FailInvalidFeatures: true})},
		{"NewWorldFromSource(FailInvalidFeatures+FailClockwisePaths)", true, basic(ingest.BuildOptions{Cores: 1, FailInvalidFeatures: true, FailClockwisePaths: true})},
		{"NewMutableWorldFromSource", false, func(fs []ingest.Feature) (b6.World, error) {
			return ingest.NewMutableWorldFromSource(&ingest.BuildOptions{Cores: 1}, ingest.MemoryFeatureSource(fs))
		}},
		{"compact.BuildInMemory", false, func(fs []ingest.Feature) (b6.World, error) {
			data, err := compact.BuildInMemory(ingest.MemoryFeatureSource(fs), &compact.Options{Goroutines: 1, PointsScratchOutputType: compact.OutputTypeMemory})
			if err != nil {
				return nil, err
			}
			w := compact.NewWorld()
			if err := w.Merge(data); err != nil {
				return nil, fmt.Errorf("merge: %w", err)
			}
			return w, nil
		}},
	}
}

func cornerPoints(sch wk.IDScheme) wk.Spec {
	var out wk.Spec
	for i := 0; i < 4; i++ {
		out = append(out, wk.FSpec{ID: sch.P(i), Kind: wk.KPoint, LL: sq[i]})
	}
	return out
}

func validW0(sch wk.IDScheme) wk.FSpec {
	return wk.FSpec{ID: sch.W(0), Kind: wk.KPath, Path: wk.Refs(sch.P(0), sch.P(1), sch.P(2), sch.P(3), sch.P(0)), Tags: mpHighway}
}

func validW1(sch wk.IDScheme) wk.FSpec {
	return wk.FSpec{ID: sch.W(1), Kind: wk.KPath, Path: wk.Refs(sch.P(1), sch.P(3)), Tags: mpHighway}
}

func areaOverW0(sch wk.IDScheme) wk.FSpec {
	return wk.FSpec{ID: sch.A(0), Kind: wk.KArea, Polys: []wk.PolySpec{{Paths: []b6.FeatureID{sch.W(0)}}}, Tags: mpBuilding}
}

// ---- entry: build ---------------------------------------------------------------------

var buildContexts = []string{"path-alone", "path-under-area", "path+another-path+relation"}

func runVariantBuilds(sch wk.IDScheme, v tagVariant, ctx int, norders int, r *kit.Result) {
	items := specItems(cornerPoints(sch))
	items = append(items, variantItem(sch, v))
	switch ctx {
	case 1:
		items = append(items, specItem(areaOverW0(sch)))
	case 2:
		items = append(items, specItem(validW1(sch)), specItem(wk.FSpec{ID: sch.R(0), Kind: wk.KRelation, Members: []wk.MemberSpec{{ID: sch.W(0), Role: "a"}, {ID: sch.W(1)}}, Tags: []wk.TagSpec{{Key: "#route", Value: "bus"}}}))
	}
	r.Key = "D/build/" + sch.Name + "/" + v.name + "/" + buildContexts[ctx]
	r.Nontrivial = v.readsAs == "invalid"
	for order := 0; order < norders; order++ {
		src := orderedItems(items, order)
		for _, md := range featureModes() {
			if md.orderFree && order != 0 {
				continue
			}
			var w b6.World
			var err error
			cls, msg := kit.Catch(func() { w, err = md.build(makeAll(src)) })
			r.Evals++
			what := fmt.Sprintf("%s\npath tags: %s (%s; reads as %s)\nsource order: %s\nsource: %s", md.name, v.name, buildContexts[ctx], v.readsAs, orders[order], itemsString(src))
			label := "path-tags:" + v.readsAs
			switch {
			case cls != "":
				r.Violate(md.name+":"+cls+":path-tags("+v.name+")", "%s\n%s", what, msg)
				r.AddOutcome("D:" + md.name + ":panic")
			case err != nil:
				r.AddOutcome("D:" + md.name + ":" + label + ":error")
			default:
				if ps := hist.ValidateWorld(w); len(ps) > 0 {
					r.Violate(md.name+":built:"+hist.ProblemClasses(ps)+":path-tags("+v.name+")", "build: %s\nreturned a world holding: %s", what, hist.ProblemsString(ps))
					r.AddOutcome("D:" + md.name + ":" + label + ":world-with-invalid-feature")
				} else if hasArea(w, sch.W(0)) {
					r.AddOutcome("D:" + md.name + ":" + label + ":valid-world:path-kept")
				} else {
					r.AddOutcome("D:" + md.name + ":" + label + ":valid-world:path-dropped")
				}
			}
		}
	}
}

// ---- entry: edits ------------------------------------------------------------------------

// editContext: what the world holds before AddFeature(variant of W(0)).
type editContext struct {
	name    string
	world   string
	inBase  func(sch wk.IDScheme) wk.Spec // nil = no base (BasicMutableWorld); empty = empty base
	added   func(sch wk.IDScheme) wk.Spec // added with AddFeature afterwards
	overlay bool
}

func editContexts() []editContext {
	none := func(wk.IDScheme) wk.Spec { return nil }
	pts := cornerPoints
	ptsW0 := func(s wk.IDScheme) wk.Spec { return join(cornerPoints(s), wk.Spec{validW0(s)}) }
	ptsW0A0 := func(s wk.IDScheme) wk.Spec { return join(cornerPoints(s), wk.Spec{validW0(s), areaOverW0(s)}) }
	onlyA0 := func(s wk.IDScheme) wk.Spec { return wk.Spec{areaOverW0(s)} }
	return []editContext{
		// the variant is a new feature
		{"new-path/basic-mutable", "BasicMutableWorld", nil, pts, false},
		{"new-path/overlay-over-empty", "MutableOverlayWorld", none, pts, true},
		{"new-path/overlay-over-base(points)", "MutableOverlayWorld", pts, none, true},
		// the variant replaces a valid closed path nothing refers to
		{"replaces-valid-path/basic-mutable", "BasicMutableWorld", nil, ptsW0, false},
		{"replaces-valid-path/overlay-over-empty", "MutableOverlayWorld", none, ptsW0, true},
		{"replaces-valid-path/overlay-over-base(points+path)", "MutableOverlayWorld", ptsW0, none, true},
		// the variant replaces a valid closed path under an area
		{"replaces-valid-path-under-area/basic-mutable", "BasicMutableWorld", nil, ptsW0A0, false},
		{"replaces-valid-path-under-area/overlay-over-empty", "MutableOverlayWorld", none, ptsW0A0, true},
		{"replaces-valid-path-under-area/overlay-over-base(points+path)", "MutableOverlayWorld", ptsW0, onlyA0, true},
		{"replaces-valid-path-under-area/overlay-over-base(points+path+area)", "MutableOverlayWorld", ptsW0A0, none, true},
	}
}

func (c editContext) setup(sch wk.IDScheme) (ingest.MutableWorld, error) {
	var w ingest.MutableWorld
	if !c.overlay {
		w = ingest.NewBasicMutableWorld()
	} else if base := c.inBase(sch); len(base) == 0 {
		w = ingest.NewMutableOverlayWorld(b6.EmptyWorld{})
	} else {
		bw, err := wk.BasicStrict(base, 1)
		if err != nil {
			return nil, fmt.Errorf("setup: base build: %w", err)
		}
		w = ingest.NewMutableOverlayWorld(bw)
	}
	return w, addTo(w, c.added(sch), true)
}

func runVariantEdits(sch wk.IDScheme, v tagVariant, r *kit.Result) {
	r.Key = "D/edit/" + sch.Name + "/" + v.name
	r.Nontrivial = v.readsAs == "invalid"
	vi := variantItem(sch, v)
	for _, c := range editContexts() {
		site := c.world + ".AddFeature(path)[" + c.name + "]"
		var held wk.Spec
		if c.inBase != nil {
			held = c.inBase(sch)
		}
		what := fmt.Sprintf("%s\npath tags: %s (reads as %s)\nworld: base %s ; then added %s\ncall: AddFeature(%s)", site, v.name, v.readsAs, held, c.added(sch), vi.desc)
		var w ingest.MutableWorld
		var err error
		cls, msg := kit.Catch(func() { w, err = c.setup(sch) })
		if cls != "" || err != nil {
			r.Violate("harness:tags-setup:"+c.name, "%s\n%s %v", what, msg, err)
			continue
		}
		if ps := hist.ValidateWorld(w); len(ps) > 0 {
			r.Violate("harness:tags-setup-invalid:"+c.name, "%s\nbefore the call the world holds: %s", what, hist.ProblemsString(ps))
			continue
		}
		cls, msg = kit.Catch(func() { err = w.AddFeature(vi.make()) })
		r.Evals++
		if cls != "" {
			r.Violate(site+":"+cls+":path-tags("+v.name+")", "%s\n%s", what, msg)
			r.AddOutcome("D:edit:" + c.name + ":panic")
			continue
		}
		verdict := "accepted"
		if err != nil {
			verdict = "rejected"
		}
		label := "path-tags:" + v.readsAs
		if ps := hist.ValidateWorld(w); len(ps) > 0 {
			r.Violate(site+":"+verdict+":"+hist.ProblemClasses(ps)+":path-tags("+v.name+")", "%s\nreturned: %v\nexpected: a world that still holds only valid features\nafterwards the world holds: %s", what, err, hist.ProblemsString(ps))
			r.AddOutcome("D:edit:" + c.name + ":" + label + ":" + verdict + ":world-with-invalid-feature")
		} else {
			r.AddOutcome("D:edit:" + c.name + ":" + label + ":" + verdict + ":valid-world")
		}
	}
}

// ---- the space of part D ---------------------------------------------------------------

type partD struct {
	schemes  []wk.IDScheme
	variants []tagVariant
	norders  int
}

func newPartD(tier string) *partD {
	d := &partD{schemes: []wk.IDScheme{wk.Schemes[0]}, variants: tagVariants(), norders: 2}
	if tier == "thorough" {
		d.schemes = []wk.IDScheme{wk.Schemes[0], wk.Schemes[1], wk.Schemes[2]}
		d.norders = 3
	}
	return d
}

func (d *partD) perVariant() int64 { return int64(len(buildContexts) + 1) }

func (d *partD) Len() int64 {
	return int64(len(d.schemes)) * int64(len(d.variants)) * d.perVariant()
}

// Run: scheme-major, then variant (simplest first), then build contexts and edits.
func (d *partD) Run(i int64) kit.Result {
	var r kit.Result
	pv := d.perVariant()
	e := int(i % pv)
	vi := int((i / pv) % int64(len(d.variants)))
	sch := d.schemes[i/pv/int64(len(d.variants))]
	v := d.variants[vi]
	if e < len(buildContexts) {
		runVariantBuilds(sch, v, e, d.norders, &r)
	} else {
		runVariantEdits(sch, v, &r)
	}
	if vi == 2 && e == 0 {
		r.Sample = map[string]interface{}{"part": "D", "case": r.Key, "path": variantItem(sch, v).desc}
	}
	return r
}

func (d *partD) describe() string {
	var names, schemes, ctx []string
	for _, v := range d.variants {
		names = append(names, v.name)
	}
	for _, s := range d.schemes {
		schemes = append(schemes, s.Name)
	}
	for _, c := range editContexts() {
		ctx = append(ctx, c.name)
	}
	return fmt.Sprintf("part D: %d tag lists of a path-ID feature {%s} x %d ID schemes {%s}, each x (%d build contexts {%s} x 5 build modes x %d source orders (order-independent modes once)) and x AddFeature in %d edit contexts {%s}",
		len(d.variants), strings.Join(names, ", "), len(d.schemes), strings.Join(schemes, ", "), len(buildContexts), strings.Join(buildContexts, ", "), d.norders, len(ctx), strings.Join(ctx, ", "))
}
