// C38 — callers' feature values are isolated from the world.
//
// Engine E1: the full product
//
//	feature variant (generic point, generic path, area by path IDs, area by
//	polygons, mixed area, relation, collection; several sizes, including values
//	with NO tags, no points, no path IDs, no polygons, no members, no items)
//	x backing-array LAYOUT of every slice the value owns (tag list, path point
//	list, per-polygon path-ID lists, the area's polygon lists, relation members,
//	collection keys and values): exact capacity | spare capacity from
//	make(len, len+3) | spare capacity left by growing and cutting back (tags:
//	AddTag x2 then RemoveTags; the spare slots hold stale entries). An EMPTY list
//	in a spare layout is "empty with spare capacity".
//	x mutator reachable through the feature API, at every target index
//	x scenario
//
// One-side scenarios on a world (BasicMutableWorld and MutableOverlayWorld; the
// feature is new, replaces a feature already added to the world, or shadows a
// feature of the overlay's base):
//
//	a   AddFeature(f); mutate f                      -> world dump unchanged
//	b1  c := f.Clone(); AddFeature(f); mutate c      -> world dump unchanged
//	b2  AddFeature(f); c := f.Clone(); mutate c      -> world dump unchanged
//	b3  c := f.Clone(); AddFeature(c); mutate f      -> world dump unchanged
//
// One-side scenarios without a world (clone independence):
//
//	c1  c := f.Clone(); mutate c -> f renders as before
//	c2  c := f.Clone(); mutate f -> c renders as before (and c rendered like f to begin with)
//
// BOTH-SIDES scenarios: two values that must be independent are each changed,
// one after the other, in both orders, and then BOTH are observed.
//
//	a/b1/b2/b3 x world operation on the feature's ID (AddTag of a new searchable
//	  key, of a new plain key, of every existing key; RemoveTag of every key
//	  [quick tier: of the first existing key]; AddFeature of other content;
//	  AddFeature of grown content) x caller-side mutator x {world first, caller first}
//	d   c := f.Clone(); every mutator on f x every mutator on c x {f first, c first}
//	e   c1, c2 := f.Clone(), f.Clone(); every mutator on c1 x every mutator on c2 x
//	  {c1 first, c2 first}; f must stay as it was
//
// The two sides write different content (different keys, values, IDs), so a
// write landing in the other side's slot is visible.
//
// Oracles. One-side: the statement's own differential — the worldkit dump of
// the world (resp. a rendering of the untouched value through its public fields
// and methods) before and after the caller-side mutation. Both-sides: each side
// is compared with what THAT SIDE ALONE holds: a replica of the side (a fresh
// value of the same layout that is never cloned or added, resp. a fresh world
// of the same mode that got a fresh value and whose caller never touches it
// again) to which only that side's operation is applied. Values that neither
// operation addresses (the bystander original/clone) must render as before.
package main

import (
	"fmt"
	"runtime"
	"sort"
	"strings"

	"diagonal.works/b6"
	"diagonal.works/b6/ingest"
	"github.com/golang/geo/s2"
	"verif/kit"
	wk "verif/worldkit"
)

const ns = "diagonal.works/test"

func pid(i uint64) b6.FeatureID { return wk.PointID(ns, i) }
func wid(i uint64) b6.FeatureID { return wk.PathID(ns, i) }
func aid(i uint64) b6.FeatureID { return wk.AreaID(ns, i) }
func rid(i uint64) b6.FeatureID { return wk.RelationID(ns, i) }
func cid(i uint64) b6.FeatureID { return wk.CollectionID(ns, i) }

func tags(kv ...string) []wk.TagSpec {
	var out []wk.TagSpec
	for i := 0; i+1 < len(kv); i += 2 {
		out = append(out, wk.TagSpec{Key: kv[i], Value: kv[i+1]})
	}
	return out
}

func square(i, j, n int) []wk.LL { // counter-clockwise
	return []wk.LL{wk.G(i, j), wk.G(i, j+n), wk.G(i+n, j+n), wk.G(i+n, j)}
}

// support: what the features under test refer to.
func support() wk.Spec {
	var s wk.Spec
	for k, ll := range append(square(0, 0, 2), square(10, 10, 2)...) {
		s = append(s, wk.FSpec{ID: pid(uint64(k)), Kind: wk.KPoint, LL: ll, Tags: tags("t", "p")})
	}
	s = append(s,
		wk.FSpec{ID: wid(0), Kind: wk.KPath, Path: wk.Refs(pid(0), pid(1), pid(2), pid(3), pid(0))},
		wk.FSpec{ID: wid(1), Kind: wk.KPath, Path: wk.Refs(pid(4), pid(5), pid(6), pid(7), pid(4))},
		wk.FSpec{ID: wid(2), Kind: wk.KPath, Path: wk.Refs(pid(0), pid(1), pid(2), pid(0))},
		wk.FSpec{ID: wid(3), Kind: wk.KPath, Path: wk.Refs(pid(4), pid(5), pid(6), pid(4))},
	)
	return s
}

// ---- feature variants ---------------------------------------------------------

type variant struct {
	name      string
	kind      string                // classifier: point, path, area-by-paths, area-by-polygons, area-mixed, relation, collection, generic
	spec      wk.FSpec              // the feature under test
	other     wk.FSpec              // same ID, different content of a different size: the earlier version (replace / shadow modes), the world's AddFeature(other content) and the MergeFrom argument
	mk        func() ingest.Feature // overrides spec.Feature() (values the spec language cannot express)
	cloneOnly bool                  // not a valid member of a world: clone scenarios only
	quick     bool
}

func variants() []variant {
	tg := tags("#amenity", "cafe", "name", "x", "@flag", "yes")
	tg2 := tags("name", "old", "#amenity", "bar", "note", "n", "extra", "e")
	loopsA := [][]wk.LL{square(20, 20, 4)}
	loopsB := [][]wk.LL{square(30, 30, 2)}
	loopsC := [][]wk.LL{{wk.G(40, 40), wk.G(40, 43), wk.G(43, 43)}}
	var vs []variant
	add := func(v variant) { vs = append(vs, v) }
	// points
	add(variant{name: "point/3tags", kind: "point", quick: true,
		spec:  wk.FSpec{ID: pid(20), Kind: wk.KPoint, LL: wk.G(5, 5), Tags: tg},
		other: wk.FSpec{ID: pid(20), Kind: wk.KPoint, LL: wk.G(6, 6), Tags: tg2}})
	add(variant{name: "point/no-tags", kind: "point",
		spec:  wk.FSpec{ID: pid(20), Kind: wk.KPoint, LL: wk.G(5, 5)},
		other: wk.FSpec{ID: pid(20), Kind: wk.KPoint, LL: wk.G(6, 6), Tags: tg}})
	add(variant{name: "generic/no-tags-at-all", kind: "generic", quick: true, cloneOnly: true,
		spec:  wk.FSpec{ID: pid(20), Kind: wk.KPoint},
		mk:    func() ingest.Feature { return &ingest.GenericFeature{ID: pid(20)} },
		other: wk.FSpec{ID: pid(20), Kind: wk.KPoint, LL: wk.G(6, 6), Tags: tags("name", "old")}})
	// paths
	mixed := []wk.PathPt{{Ref: pid(0)}, {LL: wk.G(1, 1)}, {Ref: pid(1)}, {Ref: pid(2)}}
	add(variant{name: "path/mixed-4", kind: "path", quick: true,
		spec:  wk.FSpec{ID: wid(20), Kind: wk.KPath, Path: mixed, Tags: tags("#highway", "path", "name", "x")},
		other: wk.FSpec{ID: wid(20), Kind: wk.KPath, Path: wk.Refs(pid(4), pid(5), pid(6), pid(7), pid(1), pid(2)), Tags: tg2}})
	add(variant{name: "path/refs-2", kind: "path",
		spec:  wk.FSpec{ID: wid(20), Kind: wk.KPath, Path: wk.Refs(pid(0), pid(1)), Tags: tags("#highway", "path")},
		other: wk.FSpec{ID: wid(20), Kind: wk.KPath, Path: wk.LLs(wk.G(7, 7), wk.G(8, 8), wk.G(9, 7))}})
	add(variant{name: "path/empty-point-list", kind: "path", quick: true, cloneOnly: true,
		spec: wk.FSpec{ID: wid(20), Kind: wk.KPath},
		mk: func() ingest.Feature {
			return &ingest.GenericFeature{ID: wid(20), Tags: b6.Tags{{Key: b6.PathTag, Value: b6.NewExpressions([]b6.AnyExpression{})}}}
		},
		other: wk.FSpec{ID: wid(20), Kind: wk.KPath, Path: wk.Refs(pid(0), pid(1), pid(2)), Tags: tags("name", "old")}})
	// areas
	add(variant{name: "area/2-polygons-by-path", kind: "area-by-paths", quick: true,
		spec:  wk.FSpec{ID: aid(20), Kind: wk.KArea, Polys: []wk.PolySpec{{Paths: []b6.FeatureID{wid(0)}}, {Paths: []b6.FeatureID{wid(1)}}}, Tags: tags("#building", "yes", "name", "x")},
		other: wk.FSpec{ID: aid(20), Kind: wk.KArea, Polys: []wk.PolySpec{{Paths: []b6.FeatureID{wid(2), wid(1)}}}, Tags: tg2}})
	add(variant{name: "area/1-polygon-of-2-paths", kind: "area-by-paths",
		spec:  wk.FSpec{ID: aid(20), Kind: wk.KArea, Polys: []wk.PolySpec{{Paths: []b6.FeatureID{wid(0), wid(1)}}}, Tags: tags("#building", "yes")},
		other: wk.FSpec{ID: aid(20), Kind: wk.KArea, Polys: []wk.PolySpec{{Paths: []b6.FeatureID{wid(2)}}, {Loops: loopsA}, {Paths: []b6.FeatureID{wid(1)}}}}})
	add(variant{name: "area/no-tags,1-polygon-by-path", kind: "area-by-paths", quick: true,
		spec:  wk.FSpec{ID: aid(20), Kind: wk.KArea, Polys: []wk.PolySpec{{Paths: []b6.FeatureID{wid(0)}}}},
		other: wk.FSpec{ID: aid(20), Kind: wk.KArea, Polys: []wk.PolySpec{{Paths: []b6.FeatureID{wid(2)}}, {Paths: []b6.FeatureID{wid(1)}}}, Tags: tags("name", "old")}})
	add(variant{name: "area/no-tags,no-polygons", kind: "area-by-paths", quick: true,
		spec:  wk.FSpec{ID: aid(20), Kind: wk.KArea},
		other: wk.FSpec{ID: aid(20), Kind: wk.KArea, Polys: []wk.PolySpec{{Paths: []b6.FeatureID{wid(2)}}, {Loops: loopsB}}, Tags: tags("name", "old")}})
	add(variant{name: "area/polygon-with-empty-path-list", kind: "area-by-paths", quick: true, cloneOnly: true,
		spec:  wk.FSpec{ID: aid(20), Kind: wk.KArea, Polys: []wk.PolySpec{{Paths: []b6.FeatureID{}}}},
		other: wk.FSpec{ID: aid(20), Kind: wk.KArea, Polys: []wk.PolySpec{{Paths: []b6.FeatureID{wid(2)}}, {Paths: []b6.FeatureID{wid(1)}}}, Tags: tags("name", "old")}})
	add(variant{name: "area/2-polygons", kind: "area-by-polygons", quick: true,
		spec:  wk.FSpec{ID: aid(20), Kind: wk.KArea, Polys: []wk.PolySpec{{Loops: loopsA}, {Loops: loopsB}}, Tags: tags("#building", "yes", "name", "x")},
		other: wk.FSpec{ID: aid(20), Kind: wk.KArea, Polys: []wk.PolySpec{{Loops: loopsC}}, Tags: tg2}})
	add(variant{name: "area/no-tags,1-polygon", kind: "area-by-polygons",
		spec:  wk.FSpec{ID: aid(20), Kind: wk.KArea, Polys: []wk.PolySpec{{Loops: loopsA}}},
		other: wk.FSpec{ID: aid(20), Kind: wk.KArea, Polys: []wk.PolySpec{{Loops: loopsC}, {Loops: loopsB}}, Tags: tags("name", "old")}})
	add(variant{name: "area/path+polygon", kind: "area-mixed",
		spec:  wk.FSpec{ID: aid(20), Kind: wk.KArea, Polys: []wk.PolySpec{{Paths: []b6.FeatureID{wid(0)}}, {Loops: loopsB}}, Tags: tags("#landuse", "park")},
		other: wk.FSpec{ID: aid(20), Kind: wk.KArea, Polys: []wk.PolySpec{{Loops: loopsA}, {Paths: []b6.FeatureID{wid(1)}}, {Loops: loopsC}}, Tags: tg2}})
	// relations
	add(variant{name: "relation/3-members", kind: "relation", quick: true,
		spec:  wk.FSpec{ID: rid(20), Kind: wk.KRelation, Members: []wk.MemberSpec{{ID: pid(0), Role: "stop"}, {ID: wid(0), Role: ""}, {ID: pid(1), Role: "x"}}, Tags: tags("#route", "bus", "name", "x")},
		other: wk.FSpec{ID: rid(20), Kind: wk.KRelation, Members: []wk.MemberSpec{{ID: pid(2), Role: "a"}, {ID: pid(3), Role: "b"}, {ID: wid(1), Role: "c"}, {ID: pid(4), Role: "d"}}, Tags: tg2}})
	add(variant{name: "relation/no-tags,1-member", kind: "relation",
		spec:  wk.FSpec{ID: rid(20), Kind: wk.KRelation, Members: []wk.MemberSpec{{ID: wid(0), Role: "outer"}}},
		other: wk.FSpec{ID: rid(20), Kind: wk.KRelation, Tags: tags("type", "site")}})
	add(variant{name: "relation/no-tags,no-members", kind: "relation", quick: true,
		spec:  wk.FSpec{ID: rid(20), Kind: wk.KRelation},
		other: wk.FSpec{ID: rid(20), Kind: wk.KRelation, Members: []wk.MemberSpec{{ID: pid(2), Role: "a"}, {ID: wid(1), Role: "c"}}, Tags: tags("type", "site")}})
	// collections
	add(variant{name: "collection/3-items", kind: "collection", quick: true,
		spec:  wk.FSpec{ID: cid(20), Kind: wk.KCollection, Items: []wk.KV{{K: "id:" + pid(1).String(), V: "s:a"}, {K: "id:" + pid(0).String(), V: "i:1"}, {K: "id:" + wid(0).String(), V: "id:" + pid(1).String()}}, Tags: tags("#kind", "set", "name", "x")},
		other: wk.FSpec{ID: cid(20), Kind: wk.KCollection, Items: []wk.KV{{K: "s:k", V: "s:old"}}, Tags: tg2}})
	add(variant{name: "collection/no-tags,string-keys", kind: "collection",
		spec:  wk.FSpec{ID: cid(20), Kind: wk.KCollection, Items: []wk.KV{{K: "s:b", V: "i:2"}, {K: "s:a", V: "i:1"}}},
		other: wk.FSpec{ID: cid(20), Kind: wk.KCollection, Items: []wk.KV{{K: "id:" + pid(2).String(), V: "s:p"}, {K: "id:" + pid(3).String(), V: "s:q"}, {K: "s:z", V: "s:r"}}, Tags: tags("name", "old")}})
	add(variant{name: "collection/no-tags,no-items", kind: "collection", quick: true,
		spec:  wk.FSpec{ID: cid(20), Kind: wk.KCollection},
		other: wk.FSpec{ID: cid(20), Kind: wk.KCollection, Items: []wk.KV{{K: "id:" + pid(2).String(), V: "s:p"}, {K: "s:z", V: "s:r"}}, Tags: tags("name", "old")}})
	return vs
}

// ---- backing-array layouts ------------------------------------------------------

type layout int

const (
	layExact layout = iota
	laySpareMake
	laySpareCut
)

var layouts = []layout{layExact, laySpareMake, laySpareCut}

func (l layout) String() string {
	return [...]string{"exact-capacity", "spare-capacity:make(len,len+3)", "spare-capacity:grown-then-cut-back"}[l]
}

// relay copies s into a fresh backing array of the layout. A nil list stays nil
// in the exact layout and becomes an empty list with spare capacity otherwise.
func relay[T any](s []T, lay layout, junk T) []T {
	n := len(s)
	switch lay {
	case laySpareMake:
		out := make([]T, n, n+3)
		copy(out, s)
		return out
	case laySpareCut:
		out := make([]T, n)
		copy(out, s)
		out = append(out, junk)
		out = append(out, junk)
		return out[:n]
	}
	if s == nil {
		return nil
	}
	out := make([]T, n)
	copy(out, s)
	return out
}

func tagsPtr(f ingest.Feature) *b6.Tags {
	switch v := f.(type) {
	case *ingest.GenericFeature:
		return &v.Tags
	case *ingest.AreaFeature:
		return &v.Tags
	case *ingest.RelationFeature:
		return &v.Tags
	case *ingest.CollectionFeature:
		return &v.Tags
	}
	panic("unknown feature type")
}

// buildSpec makes a fresh ingest value whose every slice has the given layout.
// Only the public API of the feature types is used to get there.
func buildSpec(s wk.FSpec, mk func() ingest.Feature, lay layout) ingest.Feature {
	var f ingest.Feature
	if mk != nil {
		f = mk()
	} else {
		f = s.Feature()
	}
	if a, ok := f.(*ingest.AreaFeature); ok && lay != layExact {
		// the area's own lists of polygons: a longer area cut back by MergeFrom
		n := a.Len()
		big := ingest.NewAreaFeature(n + 2)
		for i := 0; i < n+2; i++ {
			big.SetPathIDs(i, []b6.FeatureID{wid(2), wid(1)})
		}
		big.MergeFrom(a)
		f = big
	}
	// tag list; the lists of expressions inside tag values (path points) first
	tp := tagsPtr(f)
	cur := relay([]b6.Tag(*tp), layExact, b6.Tag{})
	for i := range cur {
		if es, ok := cur[i].Value.AnyExpression.(b6.Expressions); ok {
			cur[i].Value = b6.Expression{AnyExpression: b6.Expressions(relay([]b6.AnyExpression(es), lay, b6.AnyExpression(b6.FeatureIDExpression(pid(3)))))}
		}
	}
	switch lay {
	case layExact:
		*tp = cur
	case laySpareMake:
		*tp = relay(cur, laySpareMake, b6.Tag{})
	case laySpareCut:
		*tp = cur
		f.AddTag(b6.Tag{Key: "~junk0", Value: str("stale")})
		f.AddTag(b6.Tag{Key: "#~junk1", Value: str("stale")})
		f.RemoveTags([]string{"~junk0", "#~junk1"})
	}
	switch v := f.(type) {
	case *ingest.AreaFeature:
		for i := 0; i < v.Len(); i++ {
			if ids, ok := v.PathIDs(i); ok {
				v.SetPathIDs(i, relay(ids, lay, wid(1)))
			}
		}
	case *ingest.RelationFeature:
		v.Members = relay(v.Members, lay, b6.RelationMember{ID: pid(3), Role: "stale"})
	case *ingest.CollectionFeature:
		v.Keys = relay(v.Keys, lay, interface{}("stale"))
		v.Values = relay(v.Values, lay, interface{}("stale"))
	}
	return f
}

func build(v variant, lay layout) ingest.Feature { return buildSpec(v.spec, v.mk, lay) }

func sliceClass(n, c int, isNil bool) string {
	switch {
	case isNil:
		return "nil"
	case n == 0 && c == 0:
		return "empty,no-capacity"
	case n == 0:
		return "EMPTY+spare-capacity"
	case n == c:
		return "exact"
	}
	return "spare-capacity"
}

// layoutOf lists the layout class of every slice the value owns: name -> class.
func layoutOf(f ingest.Feature) [][2]string {
	var out [][2]string
	t := *tagsPtr(f)
	out = append(out, [2]string{"tags", sliceClass(len(t), cap(t), t == nil)})
	for _, tag := range t {
		if es, ok := tag.Value.AnyExpression.(b6.Expressions); ok {
			out = append(out, [2]string{"path-points", sliceClass(len(es), cap(es), es == nil)})
		}
	}
	switch v := f.(type) {
	case *ingest.AreaFeature:
		li, ci, lp, cp := v.VerifC38Layout()
		out = append(out, [2]string{"area-polygon-lists", sliceClass(li, ci, false) + "/" + sliceClass(lp, cp, false)})
		for i := 0; i < v.Len(); i++ {
			if ids, ok := v.PathIDs(i); ok {
				out = append(out, [2]string{"area-path-ids", sliceClass(len(ids), cap(ids), false)})
			}
		}
	case *ingest.RelationFeature:
		out = append(out, [2]string{"members", sliceClass(len(v.Members), cap(v.Members), v.Members == nil)})
	case *ingest.CollectionFeature:
		out = append(out, [2]string{"keys", sliceClass(len(v.Keys), cap(v.Keys), v.Keys == nil)})
		out = append(out, [2]string{"values", sliceClass(len(v.Values), cap(v.Values), v.Values == nil)})
	}
	return out
}

func layoutText(f ingest.Feature) string {
	var parts []string
	for _, kv := range layoutOf(f) {
		parts = append(parts, kv[0]+":"+kv[1])
	}
	return strings.Join(parts, " ")
}

// ---- mutators -----------------------------------------------------------------------

type mutator struct {
	name  string // with target index
	class string // without
	fam   string // which part of the value it edits (violation classes of the both-sides scenarios)
	do    func(f ingest.Feature)
}

func family(class, target string) string {
	switch {
	case strings.HasPrefix(class, "path-expressions"), class == "ModifyOrAddTagAt" && strings.HasPrefix(target, "(path"):
		return "path-points"
	case strings.HasPrefix(class, "SetPath"), class == "SetPolygon":
		return "area-members"
	case strings.HasPrefix(class, "Members"):
		return "members"
	case strings.HasPrefix(class, "Keys"), strings.HasPrefix(class, "Values"), class == "Sort":
		return "items"
	case class == "SetFeatureID":
		return "id"
	case class == "MergeFrom":
		return "MergeFrom"
	}
	return "tags"
}

func str(s string) b6.Expression { return b6.NewStringExpression(s) }

// flavour: what a side writes. The two sides of a both-sides scenario write
// different keys, values and IDs.
type flavour struct {
	sfx    string
	pt     b6.FeatureID // written into point lists, members, keys
	pt2    b6.FeatureID
	path   b6.FeatureID // written into path-ID lists
	grid   int          // where the polygon written lies
	altArg bool         // MergeFrom argument: alt(other) instead of other
}

var flavours = [2]flavour{
	{sfx: "", pt: pid(5), pt2: pid(4), path: wid(2), grid: 60},
	{sfx: "-B", pt: pid(6), pt2: pid(7), path: wid(3), grid: 70, altArg: true},
}

// alt derives different content of the same shape class from a spec (MergeFrom
// argument of the second side; never added to a world).
func alt(s wk.FSpec) wk.FSpec {
	o := s
	o.Tags = nil
	for _, t := range s.Tags {
		o.Tags = append(o.Tags, wk.TagSpec{Key: t.Key, Value: t.Value + "-B"})
	}
	o.Tags = append(o.Tags, wk.TagSpec{Key: "alt", Value: "B"})
	o.LL = wk.LL{Lat: s.LL.Lat + 1000, Lng: s.LL.Lng}
	o.Path = nil
	for i := len(s.Path) - 1; i >= 0; i-- {
		o.Path = append(o.Path, s.Path[i])
	}
	o.Polys = nil
	for i := len(s.Polys) - 1; i >= 0; i-- {
		p := s.Polys[i]
		if p.Paths != nil {
			p.Paths = append([]b6.FeatureID{wid(3)}, p.Paths...)
		}
		o.Polys = append(o.Polys, p)
	}
	o.Members = nil
	for i := len(s.Members) - 1; i >= 0; i-- {
		o.Members = append(o.Members, wk.MemberSpec{ID: s.Members[i].ID, Role: s.Members[i].Role + "-B"})
	}
	o.Items = nil
	for i := len(s.Items) - 1; i >= 0; i-- {
		o.Items = append(o.Items, wk.KV{K: s.Items[i].K, V: "s:alt-B"})
	}
	return o
}

// mutatorsFor enumerates every mutator at every target index of the value's shape.
func mutatorsFor(v variant, fl flavour) []mutator {
	var ms []mutator
	add := func(class, target string, do func(f ingest.Feature)) {
		ms = append(ms, mutator{name: class + target + fl.sfx, class: class, fam: family(class, target), do: do})
	}
	probe := build(v, layExact)
	all := probe.AllTags()
	var keys []string
	for _, t := range all {
		keys = append(keys, t.Key)
	}
	x := fl.sfx
	// --- tag methods of the Feature interface
	add("AddTag", "(new key)", func(f ingest.Feature) { f.AddTag(b6.Tag{Key: "#added" + x, Value: str("v" + x)}) })
	add("ModifyOrAddTag", "(new key)", func(f ingest.Feature) { f.ModifyOrAddTag(b6.Tag{Key: "#added" + x, Value: str("v" + x)}) })
	add("ModifyOrAddTagAt", "(new key, 1)", func(f ingest.Feature) { f.ModifyOrAddTagAt(b6.Tag{Key: "#at" + x, Value: str("v" + x)}, 1) })
	for i, k := range keys {
		i, k := i, k
		if k == b6.PointTag || k == b6.PathTag {
			// replacing the geometry tag as a whole through the tag API
			add("ModifyOrAddTag", fmt.Sprintf("(geometry tag #%d %s)", i, k), func(f ingest.Feature) {
				if k == b6.PointTag {
					f.ModifyOrAddTag(b6.Tag{Key: k, Value: b6.NewPointExpressionFromLatLng(wk.G(fl.grid-10, fl.grid-10).LatLng())})
				} else {
					f.ModifyOrAddTag(b6.Tag{Key: k, Value: b6.NewExpressions([]b6.AnyExpression{b6.FeatureIDExpression(fl.pt2), b6.FeatureIDExpression(fl.pt)})})
				}
			})
		} else {
			add("ModifyOrAddTag", fmt.Sprintf("(tag #%d %s)", i, k), func(f ingest.Feature) { f.ModifyOrAddTag(b6.Tag{Key: k, Value: str("changed" + x)}) })
		}
		add("RemoveTag", fmt.Sprintf("(tag #%d %s)", i, k), func(f ingest.Feature) { f.RemoveTag(k) })
		add("RemoveTags", fmt.Sprintf("([tag #%d %s])", i, k), func(f ingest.Feature) { f.RemoveTags([]string{k}) })
		add("Tags[i].Value=", fmt.Sprintf("(tag #%d %s)", i, k), func(f ingest.Feature) { (*tagsPtr(f))[i].Value = str("written" + x) })
		add("Tags[i].Key=", fmt.Sprintf("(tag #%d %s)", i, k), func(f ingest.Feature) { (*tagsPtr(f))[i].Key = "#renamed" + x })
	}
	if len(keys) >= 2 {
		add("RemoveTags", "(first two tags)", func(f ingest.Feature) { f.RemoveTags([]string{keys[1], keys[0]}) })
		add("RemoveTags", "(all tags)", func(f ingest.Feature) { f.RemoveTags(append([]string{}, keys...)) })
	}
	add("SetTags", "(new list)", func(f ingest.Feature) {
		f.SetTags([]b6.Tag{{Key: "#set" + x, Value: str("1" + x)}, {Key: "other", Value: str("2" + x)}})
	})
	add("SetTags", "(nil)", func(f ingest.Feature) { f.SetTags(nil) })
	add("RemoveAllTags", "()", func(f ingest.Feature) { f.RemoveAllTags() })
	add("SetFeatureID", "()", func(f ingest.Feature) {
		id := f.FeatureID()
		id.Value += 100
		if fl.altArg {
			id.Value += 100
		}
		f.SetFeatureID(id)
	})
	// --- path point list
	if v.spec.Kind == wk.KPath {
		n := len(v.spec.Path)
		for j := 0; j <= n; j++ {
			j := j
			add("ModifyOrAddTagAt", fmt.Sprintf("(path, %d of %d)", j, n), func(f ingest.Feature) {
				f.ModifyOrAddTagAt(b6.Tag{Key: b6.PathTag, Value: b6.NewFeatureIDExpression(fl.pt)}, j)
			})
		}
		for j := 0; j < n; j++ {
			j := j
			add("path-expressions[j]=", fmt.Sprintf("(%d of %d)", j, n), func(f ingest.Feature) {
				es := f.Get(b6.PathTag).Value.AnyExpression.(b6.Expressions)
				es[j] = b6.FeatureIDExpression(fl.pt)
			})
		}
		add("path-expressions:reverse-in-place", "()", func(f ingest.Feature) {
			es := f.Get(b6.PathTag).Value.AnyExpression.(b6.Expressions)
			for i, j := 0, len(es)-1; i < j; i, j = i+1, j-1 {
				es[i], es[j] = es[j], es[i]
			}
		})
		add("path-expressions=append", "()", func(f ingest.Feature) {
			es := f.Get(b6.PathTag).Value.AnyExpression.(b6.Expressions)
			es = append(es, b6.FeatureIDExpression(fl.pt))
			f.ModifyOrAddTag(b6.Tag{Key: b6.PathTag, Value: b6.Expression{AnyExpression: es}})
		})
	}
	// --- area members
	if v.spec.Kind == wk.KArea {
		for i, p := range v.spec.Polys {
			i := i
			np := len(p.Paths)
			for j := 0; j <= np; j++ {
				j := j
				if p.Paths == nil && j > 0 {
					break
				}
				add("SetPathID", fmt.Sprintf("(polygon %d, path %d of %d)", i, j, np), func(f ingest.Feature) { f.(*ingest.AreaFeature).SetPathID(i, j, fl.path) })
			}
			add("SetPathIDs", fmt.Sprintf("(polygon %d)", i), func(f ingest.Feature) { f.(*ingest.AreaFeature).SetPathIDs(i, []b6.FeatureID{fl.path}) })
			if p.Paths != nil {
				add("SetPathIDs(append(PathIDs))", fmt.Sprintf("(polygon %d)", i), func(f ingest.Feature) {
					a := f.(*ingest.AreaFeature)
					ids, _ := a.PathIDs(i)
					a.SetPathIDs(i, append(ids, fl.path))
				})
			}
			add("SetPolygon", fmt.Sprintf("(polygon %d)", i), func(f ingest.Feature) {
				f.(*ingest.AreaFeature).SetPolygon(i, wk.PolygonFromLoops([][]wk.LL{square(fl.grid, fl.grid, 1)}))
			})
		}
	}
	// --- relation members
	if v.spec.Kind == wk.KRelation {
		for i := range v.spec.Members {
			i := i
			add("Members[i]=", fmt.Sprintf("(%d of %d)", i, len(v.spec.Members)), func(f ingest.Feature) {
				f.(*ingest.RelationFeature).Members[i] = b6.RelationMember{ID: fl.pt2, Role: "written" + x}
			})
			add("Members[i].Role=", fmt.Sprintf("(%d of %d)", i, len(v.spec.Members)), func(f ingest.Feature) {
				f.(*ingest.RelationFeature).Members[i].Role = "written" + x
			})
		}
		add("Members=append", "()", func(f ingest.Feature) {
			r := f.(*ingest.RelationFeature)
			r.Members = append(r.Members, b6.RelationMember{ID: fl.pt2, Role: "appended" + x})
		})
	}
	// --- collection keys and values
	if v.spec.Kind == wk.KCollection {
		for i := range v.spec.Items {
			i := i
			add("Keys[i]=", fmt.Sprintf("(%d of %d)", i, len(v.spec.Items)), func(f ingest.Feature) { f.(*ingest.CollectionFeature).Keys[i] = fl.pt2 })
			add("Values[i]=", fmt.Sprintf("(%d of %d)", i, len(v.spec.Items)), func(f ingest.Feature) { f.(*ingest.CollectionFeature).Values[i] = "written" + x })
		}
		add("Keys,Values=append", "()", func(f ingest.Feature) {
			c := f.(*ingest.CollectionFeature)
			c.Keys = append(c.Keys, fl.pt2)
			c.Values = append(c.Values, "appended"+x)
		})
		add("Sort", "()", func(f ingest.Feature) { f.(*ingest.CollectionFeature).Sort() })
	}
	// --- MergeFrom another value of the same type (longer, shorter, other geometry kind)
	add("MergeFrom", "(other content)", func(f ingest.Feature) {
		o := v.other
		if fl.altArg {
			o = alt(o)
		}
		f.MergeFrom(buildSpec(o, nil, layExact))
	})
	return ms
}

// ---- what the world side does to the feature ----------------------------------------

type worldOp struct {
	name  string
	class string
	fam   string // "tags" | "AddFeature"
	do    func(w ingest.MutableWorld) error
}

// grown: the feature's own content with one more tag and one more element in
// every list (valid in the worlds built here).
func grown(s wk.FSpec) wk.FSpec {
	o := s
	o.Tags = append(append([]wk.TagSpec{}, s.Tags...), wk.TagSpec{Key: "#w-re", Value: "added"})
	switch s.Kind {
	case wk.KPath:
		o.Path = append(append([]wk.PathPt{}, s.Path...), wk.PathPt{Ref: pid(3)})
	case wk.KArea:
		o.Polys = append(append([]wk.PolySpec{}, s.Polys...), wk.PolySpec{Paths: []b6.FeatureID{wid(3)}})
		if len(s.Polys) > 0 && s.Polys[0].Paths != nil {
			o.Polys[0].Paths = append(append([]b6.FeatureID{}, o.Polys[0].Paths...), wid(3))
		}
	case wk.KRelation:
		o.Members = append(append([]wk.MemberSpec{}, s.Members...), wk.MemberSpec{ID: pid(3), Role: "w"})
	case wk.KCollection:
		o.Items = append(append([]wk.KV{}, s.Items...), wk.KV{K: "s:w-key", V: "s:w"})
	}
	return o
}

// allWorldOps: thorough tier — every existing tag is a target of AddTag and
// RemoveTag; quick tier — the first tag only.
var allWorldOps = false

func worldOpsFor(v variant) []worldOp {
	id := v.spec.ID
	var ops []worldOp
	add := func(class, target string, do func(w ingest.MutableWorld) error) {
		fam := "tags"
		if class == "AddFeature" {
			fam = class
		}
		ops = append(ops, worldOp{name: "world." + class + target, class: class, fam: fam, do: do})
	}
	add("AddTag", "(new searchable key)", func(w ingest.MutableWorld) error { return w.AddTag(id, b6.Tag{Key: "#w-added", Value: str("w")}) })
	add("AddTag", "(new plain key)", func(w ingest.MutableWorld) error { return w.AddTag(id, b6.Tag{Key: "w-plain", Value: str("w")}) })
	for i, t := range v.spec.Tags {
		if i > 0 && !allWorldOps {
			break
		}
		k := t.Key
		add("AddTag", fmt.Sprintf("(existing tag #%d %s)", i, k), func(w ingest.MutableWorld) error { return w.AddTag(id, b6.Tag{Key: k, Value: str("w-changed")}) })
		add("RemoveTag", fmt.Sprintf("(tag #%d %s)", i, k), func(w ingest.MutableWorld) error { return w.RemoveTag(id, k) })
	}
	add("AddFeature", "(same ID, other content)", func(w ingest.MutableWorld) error { return w.AddFeature(buildSpec(v.other, nil, layExact)) })
	add("AddFeature", "(same ID, grown content)", func(w ingest.MutableWorld) error { return w.AddFeature(buildSpec(grown(v.spec), nil, layExact)) })
	return ops
}

// ---- rendering a standalone value through its public fields and methods -------------

func polygonText(p *s2.Polygon) string {
	if p == nil {
		return "nil"
	}
	var loops []string
	for i := 0; i < p.NumLoops(); i++ {
		var ps []string
		for _, v := range p.Loop(i).Vertices() {
			ps = append(ps, wk.LLFromPoint(v).String())
		}
		loops = append(loops, "("+strings.Join(ps, " ")+")")
	}
	return "{" + strings.Join(loops, " ") + "}"
}

func render(f ingest.Feature) string {
	var b strings.Builder
	fmt.Fprintf(&b, "%T id=%s tags=%s", f, f.FeatureID(), wk.TagsString(f.AllTags()))
	var refs []string
	for _, r := range f.References() {
		refs = append(refs, r.Source().String())
	}
	fmt.Fprintf(&b, " refs=%v", refs)
	switch v := f.(type) {
	case *ingest.AreaFeature:
		for i := 0; i < v.Len(); i++ {
			if ids, ok := v.PathIDs(i); ok {
				fmt.Fprintf(&b, " [%d]paths=%v", i, ids)
			}
			if p, ok := v.Polygon(i); ok {
				fmt.Fprintf(&b, " [%d]polygon=%s", i, polygonText(p))
			}
		}
		fmt.Fprintf(&b, " len=%d", v.Len())
	case *ingest.RelationFeature:
		fmt.Fprintf(&b, " members=%v", v.Members)
	case *ingest.CollectionFeature:
		fmt.Fprintf(&b, " keys=%v values=%v sorted=%v", v.Keys, v.Values, v.IsSortedByKey())
	}
	return b.String()
}

// safeRender: a value damaged by the other side may make its own accessors panic.
func safeRender(f ingest.Feature) (out string) {
	if cls, msg := kit.Catch(func() { out = render(f) }); cls != "" {
		if i := strings.IndexByte(msg, '\n'); i > 0 {
			msg = msg[:i]
		}
		return "PANIC(" + cls + ": " + msg + ")"
	}
	return out
}

// ---- worlds -----------------------------------------------------------------------

type worldMode struct {
	name string
	// make returns a world already holding the support features (and the
	// earlier version of the feature, if the mode has one).
	make func(v variant) (ingest.MutableWorld, error)
}

func addAll(w ingest.MutableWorld, s wk.Spec) error {
	for id, err := range wk.AddAll(w, s) {
		return fmt.Errorf("%s: %v", id, err)
	}
	return nil
}

// The base world of an overlay is read-only by design, so one base per (mode,
// variant) serves every sub-case of a case; checkBases verifies at the end of
// the case that no base changed.
type baseEntry struct {
	w    b6.World
	dump wk.Dump
}

var bases = map[string]*baseEntry{}

func cachedBase(key string, s wk.Spec) (b6.World, error) {
	if e, ok := bases[key]; ok {
		return e.w, nil
	}
	base, err := wk.BasicStrict(s, 1)
	if err != nil {
		return nil, err
	}
	bases[key] = &baseEntry{w: base, dump: wk.DumpWorld(base, dumpOpts)}
	return base, nil
}

func checkBases(r *kit.Result) {
	var keys []string
	for k := range bases {
		keys = append(keys, k)
	}
	sort.Strings(keys)
	for _, k := range keys {
		if diffs := wk.Diff(bases[k].dump, wk.DumpWorld(bases[k].w, dumpOpts), true); len(diffs) > 0 {
			r.Violate("overlay-changed-its-base-world:"+k, "the base world under the overlays of this case changed (A: when built, B: after the case):\n%s", strings.Join(diffs, "\n"))
		}
	}
}

func worldModes() []worldMode {
	return []worldMode{
		{"BasicMutableWorld/new", func(v variant) (ingest.MutableWorld, error) {
			w := ingest.NewBasicMutableWorld()
			return w, addAll(w, support())
		}},
		{"BasicMutableWorld/replacing", func(v variant) (ingest.MutableWorld, error) {
			w := ingest.NewBasicMutableWorld()
			return w, addAll(w, append(support(), v.other))
		}},
		{"MutableOverlayWorld/new", func(v variant) (ingest.MutableWorld, error) {
			base, err := cachedBase("support", support())
			if err != nil {
				return nil, err
			}
			return ingest.NewMutableOverlayWorld(base), nil
		}},
		{"MutableOverlayWorld/replacing-overlay-feature", func(v variant) (ingest.MutableWorld, error) {
			base, err := cachedBase("support", support())
			if err != nil {
				return nil, err
			}
			w := ingest.NewMutableOverlayWorld(base)
			return w, addAll(w, wk.Spec{v.other})
		}},
		{"MutableOverlayWorld/shadowing-base-feature", func(v variant) (ingest.MutableWorld, error) {
			base, err := cachedBase("support+earlier-version-of:"+v.name, append(support(), v.other))
			if err != nil {
				return nil, err
			}
			if !base.HasFeatureWithID(v.other.ID) {
				return nil, fmt.Errorf("base world does not hold %s", v.other.ID)
			}
			return ingest.NewMutableOverlayWorld(base), nil
		}},
	}
}

var universe = []b6.FeatureID{pid(0), pid(1), pid(2), pid(3), pid(4), pid(5), pid(6), pid(7), wid(0), wid(1), wid(2), wid(3),
	pid(20), wid(20), aid(20), rid(20), cid(20), pid(120), wid(120), aid(120), rid(120), cid(120)}

var queries = []wk.RQ{
	{Op: "all"},
	{Op: "keyed", Key: "#amenity"}, {Op: "keyed", Key: "#highway"}, {Op: "keyed", Key: "#building"}, {Op: "keyed", Key: "#landuse"},
	{Op: "keyed", Key: "#route"}, {Op: "keyed", Key: "#kind"}, {Op: "keyed", Key: "@flag"},
	{Op: "keyed", Key: "#added"}, {Op: "keyed", Key: "#renamed"}, {Op: "keyed", Key: "#set"}, {Op: "keyed", Key: "#at"},
	{Op: "keyed", Key: "#w-added"}, {Op: "keyed", Key: "#w-re"}, {Op: "keyed", Key: "#~junk1"},
	{Op: "tagged", Key: "#amenity", Val: "changed"}, {Op: "tagged", Key: "#amenity", Val: "written"}, {Op: "tagged", Key: "#amenity", Val: "w-changed"},
}

var dumpOpts = &wk.DumpOptions{IDs: universe, Queries: wk.NamedQueries(queries)}

// both-sides sub-cases: the same dump without the per-type referrer lists (they
// are filters of the untyped list, which stays).
var dumpOptsBoth = &wk.DumpOptions{IDs: universe, Queries: wk.NamedQueries(queries), Skip: []string{"refs-"}}

// ---- the space ----------------------------------------------------------------------

var worldScenarios = []string{"a:mutate-value-passed-in", "b1:mutate-clone-taken-before-adding", "b2:mutate-clone-taken-after-adding", "b3:add-clone,mutate-original"}
var cloneScenarios = []string{"c1:mutate-clone,original-must-not-change", "c2:mutate-original,clone-must-not-change"}

type caseSpec struct {
	v    variant
	lay  layout
	mode int // index into worldModes; -1 = no world (clone scenarios)
	part int // 0 = one-side scenarios; world: 1+si = both-sides on world scenario si; no world: 1 = both-sides d and e
}

func sectionKinds(diffs []string) string {
	seen := map[string]bool{}
	var out []string
	for _, d := range diffs {
		k := wk.SectionClass(d)
		if strings.HasPrefix(k, "refs") || k == "rels" || k == "colls" || k == "areas" {
			k = "referrers"
		}
		if !seen[k] {
			seen[k] = true
			out = append(out, k)
		}
	}
	sort.Strings(out)
	return strings.Join(out, "+")
}

func howStored(mode worldMode) string {
	// the world keeps a Clone() of a new feature and MergeFrom()s into an existing one
	if strings.Contains(mode.name, "/replacing") {
		return "stored-by-MergeFrom"
	}
	return "stored-by-Clone"
}

// noteLayout records (once per case) which slice layouts the case really ran on,
// and checks that the layout builder did not change the value's content.
func noteLayout(r *kit.Result, c caseSpec) bool {
	f := build(c.v, c.lay)
	for _, kv := range layoutOf(f) {
		r.Count("layout-built:"+kv[0]+":"+kv[1], 1)
	}
	if want, got := render(build(c.v, layExact)), render(f); want != got {
		r.Violate("harness:layout-changes-content:"+c.v.kind, "variant %s layout %s\nexact:  %s\nlayout: %s", c.v.name, c.lay, want, got)
		return false
	}
	return true
}

// place adds f to the world by the scenario's route; victim is the value the
// caller goes on to change, bystander the other caller-side value (if any).
func place(w ingest.MutableWorld, f ingest.Feature, si int) (victim, bystander ingest.Feature, err error) {
	switch si {
	case 0:
		err = w.AddFeature(f)
		victim = f
	case 1:
		victim = f.Clone()
		err = w.AddFeature(f)
		bystander = f
	case 2:
		err = w.AddFeature(f)
		victim = f.Clone()
		bystander = f
	case 3:
		cl := f.Clone()
		err = w.AddFeature(cl)
		victim = f
		bystander = cl
	}
	return
}

func runWorldCase(r *kit.Result, c caseSpec, modes []worldMode) {
	mode := modes[c.mode]
	ms := mutatorsFor(c.v, flavours[0])
	reported := map[string]bool{}
	for si, scenario := range worldScenarios {
		for _, m := range ms {
			r.Evals++
			w, err := mode.make(c.v)
			if err != nil {
				r.AddOutcome("skipped:world-not-buildable:" + c.v.kind)
				r.Count("skipped:"+mode.name+":"+err.Error(), 1)
				continue
			}
			victim, _, err := place(w, build(c.v, c.lay), si)
			if err != nil || !w.HasFeatureWithID(c.v.spec.ID) {
				r.Violate("harness:add-rejected:"+c.v.kind, "%s: AddFeature(%s) = %v", mode.name, c.v.spec, err)
				continue
			}
			before := wk.DumpWorld(w, dumpOpts)
			if cls, msg := kit.Catch(func() { m.do(victim) }); cls != "" {
				r.AddOutcome("mutator-panicked:" + m.class)
				r.Count("mutator-panicked:"+c.v.kind+":"+m.class+":"+cls, 1)
				_ = msg // a panicking mutator is not this property's business; whatever it did, the world must not change
			}
			after := wk.DumpWorld(w, dumpOpts)
			diffs := wk.Diff(before, after, true)
			if len(diffs) == 0 {
				r.AddOutcome("world-unchanged:" + scenario[:2] + ":" + c.v.kind)
				r.Distinct++
				continue
			}
			r.AddOutcome("world-changed:" + scenario[:2] + ":" + c.v.kind)
			class := fmt.Sprintf("world-changed:%s:%s:%s", c.v.kind, howStored(mode), m.class)
			r.Count("violations:"+class+":"+strings.SplitN(scenario, ":", 2)[0], 1)
			if reported[class] {
				continue
			}
			reported[class] = true
			r.Violate(class, "%s, scenario %s\nfeature: %s (variant %s, layout %s: %s)\ncaller-side mutation: %s\nthe world's answers changed (%s) (A: before the mutation, B: after):\n%s",
				mode.name, scenario, c.v.spec, c.v.name, c.lay, layoutText(build(c.v, c.lay)), m.name, sectionKinds(diffs), strings.Join(diffs, "\n"))
		}
	}
}

func runCloneCase(r *kit.Result, c caseSpec) {
	ms := mutatorsFor(c.v, flavours[0])
	reported := map[string]bool{}
	for si, scenario := range cloneScenarios {
		for _, m := range ms {
			r.Evals++
			f := build(c.v, c.lay)
			cl := f.Clone()
			if rf, rc := render(f), render(cl); rf != rc {
				class := "clone-differs-from-original:" + c.v.kind
				if !reported[class] {
					reported[class] = true
					r.Violate(class, "variant %s: Clone() renders differently from the original\noriginal: %s\nclone:    %s", c.v.name, rf, rc)
				}
				continue
			}
			victim, witness, wname := cl, f, "original"
			if si == 1 {
				victim, witness, wname = f, cl, "clone"
			}
			before := render(witness)
			kit.Catch(func() { m.do(victim) })
			after := safeRender(witness)
			if before == after {
				r.AddOutcome("independent:" + scenario[:2] + ":" + c.v.kind)
				r.Distinct++
				continue
			}
			r.AddOutcome("not-independent:" + scenario[:2] + ":" + c.v.kind)
			class := fmt.Sprintf("clone-not-independent:%s:%s", c.v.kind, m.class)
			r.Count("violations:"+class+":"+strings.SplitN(scenario, ":", 2)[0], 1)
			if reported[class] {
				continue
			}
			reported[class] = true
			r.Violate(class, "scenario %s, variant %s, layout %s: %s\nmutation: %s\nthe %s changed:\n  before: %s\n  after:  %s", scenario, c.v.name, c.lay, layoutText(build(c.v, c.lay)), m.name, wname, before, after)
		}
	}
}

// alone applies one mutator to a replica that nothing else shares: a fresh value
// of the layout (cloned first if the side under test is a clone).
func alone(c caseSpec, viaClone bool, m mutator) string {
	rep := build(c.v, c.lay)
	if viaClone {
		rep = rep.Clone()
	}
	kit.Catch(func() { m.do(rep) })
	return safeRender(rep)
}

// runWorldBoth: both-sides sequences on world scenario si.
func runWorldBoth(r *kit.Result, c caseSpec, modes []worldMode, si int) {
	mode := modes[c.mode]
	scenario := worldScenarios[si]
	sc := strings.SplitN(scenario, ":", 2)[0]
	ms := mutatorsFor(c.v, flavours[0])
	wos := worldOpsFor(c.v)
	viaClone := si == 1 || si == 2
	pristine := render(build(c.v, c.lay))
	// what each side alone holds
	expVictim := make([]string, len(ms))
	for i, m := range ms {
		expVictim[i] = alone(c, viaClone, m)
	}
	replica := func(wo *worldOp) (wk.Dump, error) {
		w, err := mode.make(c.v)
		if err != nil {
			return nil, err
		}
		if err := w.AddFeature(build(c.v, c.lay)); err != nil {
			return nil, fmt.Errorf("AddFeature: %v", err)
		}
		if wo != nil {
			if err := wo.do(w); err != nil {
				return nil, fmt.Errorf("%s: %v", wo.name, err)
			}
		}
		return wk.DumpWorld(w, dumpOptsBoth), nil
	}
	pristineDump, err := replica(nil)
	if err != nil {
		r.Violate("harness:replica-world-not-buildable:"+c.v.kind, "%s variant %s: %v", mode.name, c.v.name, err)
		return
	}
	expDump := make([]wk.Dump, len(wos))
	worldChanges := make([]bool, len(wos))
	for i := range wos {
		d, err := replica(&wos[i])
		if err != nil {
			r.Violate("harness:world-operation-rejected:"+c.v.kind+":"+wos[i].class, "%s variant %s: %v", mode.name, c.v.name, err)
			return
		}
		expDump[i] = d
		worldChanges[i] = len(wk.Diff(pristineDump, d, true)) > 0
	}
	reported := map[string]bool{}
	orders := []string{"world-first", "caller-first"}
	for oi, order := range orders {
		for wi := range wos {
			wo := &wos[wi]
			for mi, m := range ms {
				r.Evals++
				w, err := mode.make(c.v)
				if err != nil {
					r.AddOutcome("skipped:world-not-buildable:" + c.v.kind)
					continue
				}
				victim, bystander, err := place(w, build(c.v, c.lay), si)
				if err != nil {
					r.Violate("harness:add-rejected:"+c.v.kind, "%s: AddFeature(%s) = %v", mode.name, c.v.spec, err)
					continue
				}
				var werr error
				doWorld := func() {
					if cls, msg := kit.Catch(func() { werr = wo.do(w) }); cls != "" {
						werr = fmt.Errorf("panic %s: %s", cls, strings.SplitN(msg, "\n", 2)[0])
					}
				}
				doCaller := func() { kit.Catch(func() { m.do(victim) }) }
				if oi == 0 {
					doWorld()
					doCaller()
				} else {
					doCaller()
					doWorld()
				}
				got := wk.DumpWorld(w, dumpOptsBoth)
				gotVictim := safeRender(victim)
				diffs := wk.Diff(expDump[wi], got, true)
				// one class per sub-case: feature kind, how the world stored the value, and
				// which part of the value each side edited; which side came out wrong, and
				// the exact operations, are in the message and the counters
				var problems []string
				if werr != nil {
					problems = append(problems, fmt.Sprintf("the world-side operation, which succeeds when the caller leaves its value alone, failed: %v", werr))
				}
				if len(diffs) > 0 {
					problems = append(problems, fmt.Sprintf("WORLD: the world does not return what it returns when the caller leaves its value alone (%s) (A: world alone, B: observed):\n%s",
						sectionKinds(diffs), strings.Join(diffs, "\n")))
				}
				if gotVictim != expVictim[mi] {
					problems = append(problems, fmt.Sprintf("CALLER: the caller's value is not what the same mutation gives on a value nothing else shares:\n  alone:    %s\n  observed: %s", expVictim[mi], gotVictim))
				}
				if bystander != nil {
					if gb := safeRender(bystander); gb != pristine {
						problems = append(problems, fmt.Sprintf("BYSTANDER: the caller's other value (which neither side addressed) changed:\n  before: %s\n  after:  %s", pristine, gb))
					}
				}
				if len(problems) > 0 {
					r.AddOutcome("both-sides-interfere:" + sc + ":" + c.v.kind)
					class := fmt.Sprintf("both-sides:world-and-caller-interfere:%s:%s:world.%s/caller.%s", c.v.kind, howStored(mode), wo.fam, m.fam)
					r.Count(fmt.Sprintf("violations:%s:%s:%s:world.%s/caller.%s", class, sc, order, wo.class, m.class), 1)
					if !reported[class] {
						reported[class] = true
						r.Violate(class, "%s, scenario %s, both sides changed (%s)\nfeature: %s (variant %s, layout %s: %s)\nworld-side operation: %s\ncaller-side mutation: %s\n%s",
							mode.name, scenario, order, c.v.spec, c.v.name, c.lay, layoutText(build(c.v, c.lay)), wo.name, m.name, strings.Join(problems, "\n"))
					}
					continue
				}
				if worldChanges[wi] && expVictim[mi] != pristine {
					r.AddOutcome("both-sides-independent:" + sc + ":" + c.v.kind)
					r.Distinct++
				} else {
					r.AddOutcome("both-sides-independent(one-side-no-op):" + sc + ":" + c.v.kind)
				}
			}
		}
	}
}

// runCloneBoth: both-sides sequences on clones without a world (scenarios d, e).
func runCloneBoth(r *kit.Result, c caseSpec) {
	msA := mutatorsFor(c.v, flavours[0])
	msB := mutatorsFor(c.v, flavours[1])
	pristine := render(build(c.v, c.lay))
	origA := make([]string, len(msA))  // original changed alone, flavour A
	cloneA := make([]string, len(msA)) // a clone changed alone, flavour A
	cloneB := make([]string, len(msB)) // a clone changed alone, flavour B
	for i := range msA {
		origA[i] = alone(c, false, msA[i])
		cloneA[i] = alone(c, true, msA[i])
	}
	for i := range msB {
		cloneB[i] = alone(c, true, msB[i])
	}
	reported := map[string]bool{}
	type scen struct{ name, first string }
	scens := []scen{
		{"d:original-and-clone-both-mutated", "original-first"}, {"d:original-and-clone-both-mutated", "clone-first"},
		{"e:two-clones-both-mutated", "first-clone-first"}, {"e:two-clones-both-mutated", "second-clone-first"},
	}
	for sci, s := range scens {
		sc := s.name[:1]
		for ai, ma := range msA {
			for bi, mb := range msB {
				r.Evals++
				f := build(c.v, c.lay)
				var sideA, sideB, third ingest.Feature
				var expA, expB string
				if sc == "d" {
					sideA, sideB = f, f.Clone()
					expA, expB = origA[ai], cloneB[bi]
				} else {
					sideA, sideB, third = f.Clone(), f.Clone(), f
					expA, expB = cloneA[ai], cloneB[bi]
				}
				if sci%2 == 0 {
					kit.Catch(func() { ma.do(sideA) })
					kit.Catch(func() { mb.do(sideB) })
				} else {
					kit.Catch(func() { mb.do(sideB) })
					kit.Catch(func() { ma.do(sideA) })
				}
				gotA, gotB := safeRender(sideA), safeRender(sideB)
				names := [2]string{"original", "clone"}
				if sc == "e" {
					names = [2]string{"first-clone", "second-clone"}
				}
				var problems []string
				if gotA != expA {
					problems = append(problems, fmt.Sprintf("the %s is not what the same mutation gives on a value nothing else shares:\n  alone:    %s\n  observed: %s", names[0], expA, gotA))
				}
				if gotB != expB {
					problems = append(problems, fmt.Sprintf("the %s is not what the same mutation gives on a value nothing else shares:\n  alone:    %s\n  observed: %s", names[1], expB, gotB))
				}
				if third != nil {
					if g := safeRender(third); g != pristine {
						problems = append(problems, fmt.Sprintf("the original, which nobody touched, changed:\n  before: %s\n  after:  %s", pristine, g))
					}
				}
				if len(problems) > 0 {
					r.AddOutcome("both-sides-interfere:" + sc + ":" + c.v.kind)
					class := fmt.Sprintf("both-sides:%s-and-%s-interfere:%s:%s/%s", names[0], names[1], c.v.kind, ma.fam, mb.fam)
					r.Count(fmt.Sprintf("violations:%s:%s:%s.%s/%s.%s", class, s.first, names[0], ma.class, names[1], mb.class), 1)
					if !reported[class] {
						reported[class] = true
						r.Violate(class, "scenario %s (%s), variant %s, layout %s: %s\nmutation of the %s: %s\nmutation of the %s: %s\n%s",
							s.name, s.first, c.v.name, c.lay, layoutText(build(c.v, c.lay)), names[0], ma.name, names[1], mb.name, strings.Join(problems, "\n"))
					}
					continue
				}
				if expA != pristine && expB != pristine {
					r.AddOutcome("both-sides-independent:" + sc + ":" + c.v.kind)
					r.Distinct++
				} else {
					r.AddOutcome("both-sides-independent(one-side-no-op):" + sc + ":" + c.v.kind)
				}
			}
		}
	}
}

func main() {
	// The worlds start goroutines for most queries; with many worker processes on
	// a shared machine, waking threads for them costs more than the queries.
	runtime.GOMAXPROCS(1)
	modes := worldModes()
	kit.Main(&kit.Check{
		ID:    "C38",
		Level: "exploration",
		Rule: "case = feature variant x slice layout (every slice the value owns — tags, path points, per-polygon path IDs, the area's polygon lists, members, keys, values — rebuilt with exact capacity | make(len,len+3) | grown then cut back through the API; empty lists in the spare layouts are empty-with-spare-capacity; the layouts really built are counted in the counters layout-built:*) x (no world | world mode) x part. " +
			"Part one-side: every mutator of the value's shape at every target index (tag methods incl. ModifyOrAddTagAt, direct writes to Tags[i], in-place writes and appends to the path expression list, SetPathID/SetPathIDs/SetPolygon, appends to PathIDs, Members[i], Keys[i]/Values[i], appends, Sort, SetFeatureID, MergeFrom) x scenario (a, b1, b2, b3 on worlds; c1, c2 for clones); oracle: worldkit dump of the world (IDs, tags, geometry, members, referrers, tag searches, enumeration) identical before and after the caller-side mutation; rendering of the untouched original/clone identical before and after. " +
			"Part both-sides (one case per world scenario a/b1/b2/b3): every world-side operation on the feature's ID (AddTag new searchable key / new plain key / each existing key, RemoveTag each key — quick tier: the first existing key only —, AddFeature other content, AddFeature grown content = one more tag and one more element in every list) x every caller-side mutator x {world first, caller first}; without a world: d = original and clone, e = two clones of one original, every mutator on one x every mutator on the other (writing different content) x both orders. Oracle: each side equals its replica that nothing shares and to which only that side's operation was applied (fresh value of the same layout, resp. fresh world of the same mode given a fresh value); bystander values render as before. " +
			"A sub-case is distinct and non-trivial when the operations were applied, each side's own operation changes that side, and the oracle held.",
		Assumptions: []string{
			"s2.Polygon values are treated as immutable (no mutator of the feature API edits a polygon in place)",
			"a mutator that panics on its own value (counted in counters) still must not change the world",
			"values that are not valid members of a world (a generic feature without any tag, a path without points, a polygon with an empty path list) take part in the clone scenarios only",
		},
		QuickDeadline: 300e9, ThoroughDeadline: 40 * 60e9, Chunk: 1,
		Build: func(tier string) (kit.Space, string) {
			allWorldOps = tier == "thorough"
			var cases []caseSpec
			nv := 0
			var vs []variant
			for _, v := range variants() {
				if tier != "thorough" && !v.quick {
					continue
				}
				nv++
				vs = append(vs, v)
			}
			// simplest first: one-side parts (layout-major), then both-sides parts
			for _, lay := range layouts {
				for _, v := range vs {
					cases = append(cases, caseSpec{v: v, lay: lay, mode: -1, part: 0})
					if v.cloneOnly {
						continue
					}
					for mi := range modes {
						cases = append(cases, caseSpec{v: v, lay: lay, mode: mi, part: 0})
					}
				}
			}
			for _, lay := range layouts {
				for _, v := range vs {
					cases = append(cases, caseSpec{v: v, lay: lay, mode: -1, part: 1})
					if v.cloneOnly {
						continue
					}
					for mi := range modes {
						for si := range worldScenarios {
							cases = append(cases, caseSpec{v: v, lay: lay, mode: mi, part: 1 + si})
						}
					}
				}
			}
			return kit.FuncSpace{N: int64(len(cases)), F: func(i int64) kit.Result {
					var r kit.Result
					c := cases[i]
					if noteLayout(&r, c) {
						switch {
						case c.mode < 0 && c.part == 0:
							runCloneCase(&r, c)
						case c.mode < 0:
							runCloneBoth(&r, c)
						case c.part == 0:
							runWorldCase(&r, c, modes)
						default:
							runWorldBoth(&r, c, modes, c.part-1)
						}
						checkBases(&r)
					}
					r.Nontrivial = r.Distinct > 0
					where := "no world"
					if c.mode >= 0 {
						where = modes[c.mode].name
					}
					part := "one-side"
					if c.part > 0 {
						part = "both-sides"
						if c.mode >= 0 {
							part += ":" + worldScenarios[c.part-1]
						}
					}
					if i%11 == 0 {
						var names []string
						for _, m := range mutatorsFor(c.v, flavours[0]) {
							names = append(names, m.name)
						}
						s := map[string]interface{}{"variant": c.v.name, "feature": c.v.spec.String(), "layout": c.lay.String() + ": " + layoutText(build(c.v, c.lay)), "where": where, "part": part, "mutators": names}
						if c.part > 0 && c.mode >= 0 {
							var wn []string
							for _, wo := range worldOpsFor(c.v) {
								wn = append(wn, wo.name)
							}
							s["world_operations"] = wn
						}
						r.Sample = s
					}
					if r.Evals == 0 {
						r.Evals = 1
					}
					return r
				}}, fmt.Sprintf("%d feature variants (%d kinds, up to 4 sizes each incl. values with no tags / points / path IDs / polygons / members / items; %d of them valid in a world) x 3 slice layouts of every slice the value owns (exact capacity | spare by make(len,len+3) | spare by grow-and-cut-back; empty lists then are empty-with-spare-capacity) x {no world, 5 world modes}; one-side: all mutators at all indices x {a,b1,b2,b3 | c1,c2}; both-sides: {a,b1,b2,b3} x world operations (AddTag new searchable/new plain key, AddTag and RemoveTag of %s, AddFeature other content, AddFeature grown content) x all mutators x {world first, caller first} | {d: original+clone, e: two clones} x all mutators x all mutators x 2 orders",
					nv, countKinds(vs), countWorld(vs), map[bool]string{true: "every existing tag", false: "the first existing tag"}[tier == "thorough"])
		},
	})
}

func countKinds(vs []variant) int {
	seen := map[string]bool{}
	for _, v := range vs {
		seen[v.kind] = true
	}
	return len(seen)
}

func countWorld(vs []variant) int {
	n := 0
	for _, v := range vs {
		if !v.cloneOnly {
			n++
		}
	}
	return n
}
