// C38 — callers' feature values are isolated from the world.
//
// Engine E1: the full product
//
//	feature variant (generic point, generic path, area by path IDs, area by
//	polygons, mixed area, relation, collection; several sizes, with and without
//	spare slice capacity in the thorough tier)
//	x mutator reachable through the feature API, at every target index
//	x scenario
//
// Scenarios on a world (BasicMutableWorld and MutableOverlayWorld; the feature
// is new, replaces a feature already added to the world, or shadows a feature
// of the overlay's base):
//
//	a   AddFeature(f); mutate f                      -> world dump unchanged
//	b1  c := f.Clone(); AddFeature(f); mutate c      -> world dump unchanged
//	b2  AddFeature(f); c := f.Clone(); mutate c      -> world dump unchanged
//	b3  c := f.Clone(); AddFeature(c); mutate f      -> world dump unchanged
//
// Scenarios without a world (clone independence):
//
//	c1  c := f.Clone(); mutate c -> f renders as before
//	c2  c := f.Clone(); mutate f -> c renders as before (and c rendered like f to begin with)
//
// The oracle is the statement's own differential: the worldkit dump of the
// world (resp. a rendering of the untouched value through its public fields
// and methods) before and after the caller-side mutation.
package main

import (
	"fmt"
	"sort"
	"strings"

	"diagonal.works/b6"
	"diagonal.works/b6/ingest"
	"github.com/golang/geo/s2"
	"verif/kit"
	wk "verif/worldkit"
)

const ns = "diagonal.works/test"

func pid(i uint64) b6.FeatureID { return wk.PointID(ns, i) }
func wid(i uint64) b6.FeatureID { return wk.PathID(ns, i) }
func aid(i uint64) b6.FeatureID { return wk.AreaID(ns, i) }
func rid(i uint64) b6.FeatureID { return wk.RelationID(ns, i) }
func cid(i uint64) b6.FeatureID { return wk.CollectionID(ns, i) }

func tags(kv ...string) []wk.TagSpec {
	var out []wk.TagSpec
	for i := 0; i+1 < len(kv); i += 2 {
		out = append(out, wk.TagSpec{Key: kv[i], Value: kv[i+1]})
	}
	return out
}

func square(i, j, n int) []wk.LL { // counter-clockwise
	return []wk.LL{wk.G(i, j), wk.G(i, j+n), wk.G(i+n, j+n), wk.G(i+n, j)}
}

// support: what the features under test refer to.
func support() wk.Spec {
	var s wk.Spec
	for k, ll := range append(square(0, 0, 2), square(10, 10, 2)...) {
		s = append(s, wk.FSpec{ID: pid(uint64(k)), Kind: wk.KPoint, LL: ll, Tags: tags("t", "p")})
	}
	s = append(s,
		wk.FSpec{ID: wid(0), Kind: wk.KPath, Path: wk.Refs(pid(0), pid(1), pid(2), pid(3), pid(0))},
		wk.FSpec{ID: wid(1), Kind: wk.KPath, Path: wk.Refs(pid(4), pid(5), pid(6), pid(7), pid(4))},
		wk.FSpec{ID: wid(2), Kind: wk.KPath, Path: wk.Refs(pid(0), pid(1), pid(2), pid(0))},
	)
	return s
}

// ---- feature variants ---------------------------------------------------------

type variant struct {
	name  string
	kind  string   // classifier: point, path, area-by-paths, area-by-polygons, area-mixed, relation, collection
	spec  wk.FSpec // the feature under test
	other wk.FSpec // same ID, different content of a different size: the earlier version (replace / shadow modes) and the MergeFrom argument
	spare bool     // build with spare capacity in every slice
	quick bool
}

func variants() []variant {
	tg := tags("#amenity", "cafe", "name", "x", "@flag", "yes")
	tg2 := tags("name", "old", "#amenity", "bar", "note", "n", "extra", "e")
	loopsA := [][]wk.LL{square(20, 20, 4)}
	loopsB := [][]wk.LL{square(30, 30, 2)}
	loopsC := [][]wk.LL{{wk.G(40, 40), wk.G(40, 43), wk.G(43, 43)}}
	var vs []variant
	add := func(v variant) {
		vs = append(vs, v)
		sp := v
		sp.name += "+spare-capacity"
		sp.spare = true
		sp.quick = false
		vs = append(vs, sp)
	}
	// points
	add(variant{name: "point/3tags", kind: "point", quick: true,
		spec:  wk.FSpec{ID: pid(20), Kind: wk.KPoint, LL: wk.G(5, 5), Tags: tg},
		other: wk.FSpec{ID: pid(20), Kind: wk.KPoint, LL: wk.G(6, 6), Tags: tg2}})
	add(variant{name: "point/no-tags", kind: "point",
		spec:  wk.FSpec{ID: pid(20), Kind: wk.KPoint, LL: wk.G(5, 5)},
		other: wk.FSpec{ID: pid(20), Kind: wk.KPoint, LL: wk.G(6, 6), Tags: tg}})
	// paths
	mixed := []wk.PathPt{{Ref: pid(0)}, {LL: wk.G(1, 1)}, {Ref: pid(1)}, {Ref: pid(2)}}
	add(variant{name: "path/mixed-4", kind: "path", quick: true,
		spec:  wk.FSpec{ID: wid(20), Kind: wk.KPath, Path: mixed, Tags: tags("#highway", "path", "name", "x")},
		other: wk.FSpec{ID: wid(20), Kind: wk.KPath, Path: wk.Refs(pid(4), pid(5), pid(6), pid(7), pid(1), pid(2)), Tags: tg2}})
	add(variant{name: "path/refs-2", kind: "path",
		spec:  wk.FSpec{ID: wid(20), Kind: wk.KPath, Path: wk.Refs(pid(0), pid(1)), Tags: tags("#highway", "path")},
		other: wk.FSpec{ID: wid(20), Kind: wk.KPath, Path: wk.LLs(wk.G(7, 7), wk.G(8, 8), wk.G(9, 7))}})
	// areas
	add(variant{name: "area/2-polygons-by-path", kind: "area-by-paths", quick: true,
		spec:  wk.FSpec{ID: aid(20), Kind: wk.KArea, Polys: []wk.PolySpec{{Paths: []b6.FeatureID{wid(0)}}, {Paths: []b6.FeatureID{wid(1)}}}, Tags: tags("#building", "yes", "name", "x")},
		other: wk.FSpec{ID: aid(20), Kind: wk.KArea, Polys: []wk.PolySpec{{Paths: []b6.FeatureID{wid(2), wid(1)}}}, Tags: tg2}})
	add(variant{name: "area/1-polygon-of-2-paths", kind: "area-by-paths",
		spec:  wk.FSpec{ID: aid(20), Kind: wk.KArea, Polys: []wk.PolySpec{{Paths: []b6.FeatureID{wid(0), wid(1)}}}, Tags: tags("#building", "yes")},
		other: wk.FSpec{ID: aid(20), Kind: wk.KArea, Polys: []wk.PolySpec{{Paths: []b6.FeatureID{wid(2)}}, {Loops: loopsA}, {Paths: []b6.FeatureID{wid(1)}}}}})
	add(variant{name: "area/2-polygons", kind: "area-by-polygons", quick: true,
		spec:  wk.FSpec{ID: aid(20), Kind: wk.KArea, Polys: []wk.PolySpec{{Loops: loopsA}, {Loops: loopsB}}, Tags: tags("#building", "yes", "name", "x")},
		other: wk.FSpec{ID: aid(20), Kind: wk.KArea, Polys: []wk.PolySpec{{Loops: loopsC}}, Tags: tg2}})
	add(variant{name: "area/path+polygon", kind: "area-mixed",
		spec:  wk.FSpec{ID: aid(20), Kind: wk.KArea, Polys: []wk.PolySpec{{Paths: []b6.FeatureID{wid(0)}}, {Loops: loopsB}}, Tags: tags("#landuse", "park")},
		other: wk.FSpec{ID: aid(20), Kind: wk.KArea, Polys: []wk.PolySpec{{Loops: loopsA}, {Paths: []b6.FeatureID{wid(1)}}, {Loops: loopsC}}, Tags: tg2}})
	// relations
	add(variant{name: "relation/3-members", kind: "relation", quick: true,
		spec:  wk.FSpec{ID: rid(20), Kind: wk.KRelation, Members: []wk.MemberSpec{{ID: pid(0), Role: "stop"}, {ID: wid(0), Role: ""}, {ID: pid(1), Role: "x"}}, Tags: tags("#route", "bus", "name", "x")},
		other: wk.FSpec{ID: rid(20), Kind: wk.KRelation, Members: []wk.MemberSpec{{ID: pid(2), Role: "a"}, {ID: pid(3), Role: "b"}, {ID: wid(1), Role: "c"}, {ID: pid(4), Role: "d"}}, Tags: tg2}})
	add(variant{name: "relation/1-member", kind: "relation",
		spec:  wk.FSpec{ID: rid(20), Kind: wk.KRelation, Members: []wk.MemberSpec{{ID: wid(0), Role: "outer"}}},
		other: wk.FSpec{ID: rid(20), Kind: wk.KRelation, Tags: tags("type", "site")}})
	// collections
	add(variant{name: "collection/3-items", kind: "collection", quick: true,
		spec:  wk.FSpec{ID: cid(20), Kind: wk.KCollection, Items: []wk.KV{{K: "id:" + pid(1).String(), V: "s:a"}, {K: "id:" + pid(0).String(), V: "i:1"}, {K: "id:" + wid(0).String(), V: "id:" + pid(1).String()}}, Tags: tags("#kind", "set", "name", "x")},
		other: wk.FSpec{ID: cid(20), Kind: wk.KCollection, Items: []wk.KV{{K: "s:k", V: "s:old"}}, Tags: tg2}})
	add(variant{name: "collection/string-keys", kind: "collection",
		spec:  wk.FSpec{ID: cid(20), Kind: wk.KCollection, Items: []wk.KV{{K: "s:b", V: "i:2"}, {K: "s:a", V: "i:1"}}},
		other: wk.FSpec{ID: cid(20), Kind: wk.KCollection, Items: []wk.KV{{K: "id:" + pid(2).String(), V: "s:p"}, {K: "id:" + pid(3).String(), V: "s:q"}, {K: "s:z", V: "s:r"}}, Tags: tags("name", "old")}})
	return vs
}

// build makes a fresh ingest value; with spare capacity in every slice if asked.
func build(s wk.FSpec, spare bool) ingest.Feature {
	f := s.Feature()
	if !spare {
		return f
	}
	grow := func(t b6.Tags) b6.Tags {
		out := make(b6.Tags, len(t), len(t)+4)
		copy(out, t)
		for i := range out {
			if es, ok := out[i].Value.AnyExpression.(b6.Expressions); ok {
				ne := make(b6.Expressions, len(es), len(es)+4)
				copy(ne, es)
				out[i].Value = b6.Expression{AnyExpression: ne}
			}
		}
		return out
	}
	switch v := f.(type) {
	case *ingest.GenericFeature:
		v.Tags = grow(v.Tags)
	case *ingest.AreaFeature:
		v.Tags = grow(v.Tags)
		for i := 0; i < v.Len(); i++ {
			if ids, ok := v.PathIDs(i); ok {
				ni := make([]b6.FeatureID, len(ids), len(ids)+4)
				copy(ni, ids)
				v.SetPathIDs(i, ni)
			}
		}
	case *ingest.RelationFeature:
		v.Tags = grow(v.Tags)
		nm := make([]b6.RelationMember, len(v.Members), len(v.Members)+4)
		copy(nm, v.Members)
		v.Members = nm
	case *ingest.CollectionFeature:
		v.Tags = grow(v.Tags)
		nk := make([]interface{}, len(v.Keys), len(v.Keys)+4)
		copy(nk, v.Keys)
		v.Keys = nk
		nv := make([]interface{}, len(v.Values), len(v.Values)+4)
		copy(nv, v.Values)
		v.Values = nv
	}
	return f
}

// ---- mutators -----------------------------------------------------------------------

type mutator struct {
	name  string // with target index
	class string // without
	do    func(f ingest.Feature)
}

func str(s string) b6.Expression { return b6.NewStringExpression(s) }

func tagsPtr(f ingest.Feature) *b6.Tags {
	switch v := f.(type) {
	case *ingest.GenericFeature:
		return &v.Tags
	case *ingest.AreaFeature:
		return &v.Tags
	case *ingest.RelationFeature:
		return &v.Tags
	case *ingest.CollectionFeature:
		return &v.Tags
	}
	panic("unknown feature type")
}

// mutatorsFor enumerates every mutator at every target index of the value's shape.
func mutatorsFor(v variant) []mutator {
	var ms []mutator
	add := func(class, target string, do func(f ingest.Feature)) {
		ms = append(ms, mutator{name: class + target, class: class, do: do})
	}
	probe := build(v.spec, false)
	all := probe.AllTags()
	var keys []string
	for _, t := range all {
		keys = append(keys, t.Key)
	}
	// --- tag methods of the Feature interface
	add("AddTag", "(new key)", func(f ingest.Feature) { f.AddTag(b6.Tag{Key: "#added", Value: str("v")}) })
	add("ModifyOrAddTag", "(new key)", func(f ingest.Feature) { f.ModifyOrAddTag(b6.Tag{Key: "#added", Value: str("v")}) })
	for i, k := range keys {
		i, k := i, k
		if k == b6.PointTag || k == b6.PathTag {
			// replacing the geometry tag as a whole through the tag API
			add("ModifyOrAddTag", fmt.Sprintf("(geometry tag #%d %s)", i, k), func(f ingest.Feature) {
				if k == b6.PointTag {
					f.ModifyOrAddTag(b6.Tag{Key: k, Value: b6.NewPointExpressionFromLatLng(wk.G(50, 50).LatLng())})
				} else {
					f.ModifyOrAddTag(b6.Tag{Key: k, Value: b6.NewExpressions([]b6.AnyExpression{b6.FeatureIDExpression(pid(4)), b6.FeatureIDExpression(pid(5))})})
				}
			})
		} else {
			add("ModifyOrAddTag", fmt.Sprintf("(tag #%d %s)", i, k), func(f ingest.Feature) { f.ModifyOrAddTag(b6.Tag{Key: k, Value: str("changed")}) })
		}
		add("RemoveTag", fmt.Sprintf("(tag #%d %s)", i, k), func(f ingest.Feature) { f.RemoveTag(k) })
		add("RemoveTags", fmt.Sprintf("([tag #%d %s])", i, k), func(f ingest.Feature) { f.RemoveTags([]string{k}) })
		add("Tags[i].Value=", fmt.Sprintf("(tag #%d %s)", i, k), func(f ingest.Feature) { (*tagsPtr(f))[i].Value = str("written") })
		add("Tags[i].Key=", fmt.Sprintf("(tag #%d %s)", i, k), func(f ingest.Feature) { (*tagsPtr(f))[i].Key = "#renamed" })
	}
	if len(keys) >= 2 {
		add("RemoveTags", "(first two tags)", func(f ingest.Feature) { f.RemoveTags([]string{keys[1], keys[0]}) })
		add("RemoveTags", "(all tags)", func(f ingest.Feature) { f.RemoveTags(append([]string{}, keys...)) })
	}
	add("SetTags", "(new list)", func(f ingest.Feature) {
		f.SetTags([]b6.Tag{{Key: "#set", Value: str("1")}, {Key: "other", Value: str("2")}})
	})
	add("SetTags", "(nil)", func(f ingest.Feature) { f.SetTags(nil) })
	add("RemoveAllTags", "()", func(f ingest.Feature) { f.RemoveAllTags() })
	add("SetFeatureID", "()", func(f ingest.Feature) {
		id := f.FeatureID()
		id.Value += 100
		f.SetFeatureID(id)
	})
	// --- path point list
	if v.spec.Kind == wk.KPath {
		n := len(v.spec.Path)
		for j := 0; j <= n; j++ {
			j := j
			add("ModifyOrAddTagAt", fmt.Sprintf("(path, %d of %d)", j, n), func(f ingest.Feature) {
				f.ModifyOrAddTagAt(b6.Tag{Key: b6.PathTag, Value: b6.NewFeatureIDExpression(pid(5))}, j)
			})
		}
		for j := 0; j < n; j++ {
			j := j
			add("path-expressions[j]=", fmt.Sprintf("(%d of %d)", j, n), func(f ingest.Feature) {
				es := f.Get(b6.PathTag).Value.AnyExpression.(b6.Expressions)
				es[j] = b6.FeatureIDExpression(pid(5))
			})
		}
		add("path-expressions:reverse-in-place", "()", func(f ingest.Feature) {
			es := f.Get(b6.PathTag).Value.AnyExpression.(b6.Expressions)
			for i, j := 0, len(es)-1; i < j; i, j = i+1, j-1 {
				es[i], es[j] = es[j], es[i]
			}
		})
	}
	// --- area members
	if v.spec.Kind == wk.KArea {
		for i, p := range v.spec.Polys {
			i := i
			np := len(p.Paths)
			for j := 0; j <= np; j++ {
				j := j
				if p.Paths == nil && j > 0 {
					break
				}
				add("SetPathID", fmt.Sprintf("(polygon %d, path %d of %d)", i, j, np), func(f ingest.Feature) { f.(*ingest.AreaFeature).SetPathID(i, j, wid(2)) })
			}
			add("SetPathIDs", fmt.Sprintf("(polygon %d)", i), func(f ingest.Feature) { f.(*ingest.AreaFeature).SetPathIDs(i, []b6.FeatureID{wid(2)}) })
			add("SetPolygon", fmt.Sprintf("(polygon %d)", i), func(f ingest.Feature) {
				f.(*ingest.AreaFeature).SetPolygon(i, wk.PolygonFromLoops([][]wk.LL{square(60, 60, 1)}))
			})
		}
	}
	// --- relation members
	if v.spec.Kind == wk.KRelation {
		for i := range v.spec.Members {
			i := i
			add("Members[i]=", fmt.Sprintf("(%d of %d)", i, len(v.spec.Members)), func(f ingest.Feature) {
				f.(*ingest.RelationFeature).Members[i] = b6.RelationMember{ID: pid(7), Role: "written"}
			})
			add("Members[i].Role=", fmt.Sprintf("(%d of %d)", i, len(v.spec.Members)), func(f ingest.Feature) {
				f.(*ingest.RelationFeature).Members[i].Role = "written"
			})
		}
		add("Members=append", "()", func(f ingest.Feature) {
			r := f.(*ingest.RelationFeature)
			r.Members = append(r.Members, b6.RelationMember{ID: pid(7), Role: "appended"})
		})
	}
	// --- collection keys and values
	if v.spec.Kind == wk.KCollection {
		for i := range v.spec.Items {
			i := i
			add("Keys[i]=", fmt.Sprintf("(%d of %d)", i, len(v.spec.Items)), func(f ingest.Feature) { f.(*ingest.CollectionFeature).Keys[i] = pid(7) })
			add("Values[i]=", fmt.Sprintf("(%d of %d)", i, len(v.spec.Items)), func(f ingest.Feature) { f.(*ingest.CollectionFeature).Values[i] = "written" })
		}
		add("Keys,Values=append", "()", func(f ingest.Feature) {
			c := f.(*ingest.CollectionFeature)
			c.Keys = append(c.Keys, pid(7))
			c.Values = append(c.Values, "appended")
		})
		add("Sort", "()", func(f ingest.Feature) { f.(*ingest.CollectionFeature).Sort() })
	}
	// --- MergeFrom another value of the same type (longer, shorter, other geometry kind)
	add("MergeFrom", "(other content)", func(f ingest.Feature) { f.MergeFrom(build(v.other, false)) })
	return ms
}

// ---- rendering a standalone value through its public fields and methods -------------

func polygonText(p *s2.Polygon) string {
	if p == nil {
		return "nil"
	}
	var loops []string
	for i := 0; i < p.NumLoops(); i++ {
		var ps []string
		for _, v := range p.Loop(i).Vertices() {
			ps = append(ps, wk.LLFromPoint(v).String())
		}
		loops = append(loops, "("+strings.Join(ps, " ")+")")
	}
	return "{" + strings.Join(loops, " ") + "}"
}

func render(f ingest.Feature) string {
	var b strings.Builder
	fmt.Fprintf(&b, "%T id=%s tags=%s", f, f.FeatureID(), wk.TagsString(f.AllTags()))
	var refs []string
	for _, r := range f.References() {
		refs = append(refs, r.Source().String())
	}
	fmt.Fprintf(&b, " refs=%v", refs)
	switch v := f.(type) {
	case *ingest.AreaFeature:
		for i := 0; i < v.Len(); i++ {
			if ids, ok := v.PathIDs(i); ok {
				fmt.Fprintf(&b, " [%d]paths=%v", i, ids)
			}
			if p, ok := v.Polygon(i); ok {
				fmt.Fprintf(&b, " [%d]polygon=%s", i, polygonText(p))
			}
		}
		fmt.Fprintf(&b, " len=%d", v.Len())
	case *ingest.RelationFeature:
		fmt.Fprintf(&b, " members=%v", v.Members)
	case *ingest.CollectionFeature:
		fmt.Fprintf(&b, " keys=%v values=%v sorted=%v", v.Keys, v.Values, v.IsSortedByKey())
	}
	return b.String()
}

// ---- worlds -----------------------------------------------------------------------

type worldMode struct {
	name string
	// make returns a world already holding the support features (and the
	// earlier version of the feature, if the mode has one).
	make func(v variant) (ingest.MutableWorld, error)
}

func addAll(w ingest.MutableWorld, s wk.Spec) error {
	for id, err := range wk.AddAll(w, s) {
		return fmt.Errorf("%s: %v", id, err)
	}
	return nil
}

func worldModes() []worldMode {
	return []worldMode{
		{"BasicMutableWorld/new", func(v variant) (ingest.MutableWorld, error) {
			w := ingest.NewBasicMutableWorld()
			return w, addAll(w, support())
		}},
		{"BasicMutableWorld/replacing", func(v variant) (ingest.MutableWorld, error) {
			w := ingest.NewBasicMutableWorld()
			return w, addAll(w, append(support(), v.other))
		}},
		{"MutableOverlayWorld/new", func(v variant) (ingest.MutableWorld, error) {
			base, err := wk.BasicStrict(support(), 1)
			if err != nil {
				return nil, err
			}
			return ingest.NewMutableOverlayWorld(base), nil
		}},
		{"MutableOverlayWorld/replacing-overlay-feature", func(v variant) (ingest.MutableWorld, error) {
			base, err := wk.BasicStrict(support(), 1)
			if err != nil {
				return nil, err
			}
			w := ingest.NewMutableOverlayWorld(base)
			return w, addAll(w, wk.Spec{v.other})
		}},
		{"MutableOverlayWorld/shadowing-base-feature", func(v variant) (ingest.MutableWorld, error) {
			base, err := wk.BasicStrict(append(support(), v.other), 1)
			if err != nil {
				return nil, err
			}
			if !base.HasFeatureWithID(v.other.ID) {
				return nil, fmt.Errorf("base world does not hold %s", v.other.ID)
			}
			return ingest.NewMutableOverlayWorld(base), nil
		}},
	}
}

var universe = []b6.FeatureID{pid(0), pid(1), pid(2), pid(4), pid(5), pid(7), wid(0), wid(1), wid(2),
	pid(20), wid(20), aid(20), rid(20), cid(20), pid(120), wid(120), aid(120), rid(120), cid(120)}

var queries = []wk.RQ{
	{Op: "all"},
	{Op: "keyed", Key: "#amenity"}, {Op: "keyed", Key: "#highway"}, {Op: "keyed", Key: "#building"}, {Op: "keyed", Key: "#landuse"},
	{Op: "keyed", Key: "#route"}, {Op: "keyed", Key: "#kind"}, {Op: "keyed", Key: "@flag"},
	{Op: "keyed", Key: "#added"}, {Op: "keyed", Key: "#renamed"}, {Op: "keyed", Key: "#set"},
	{Op: "tagged", Key: "#amenity", Val: "changed"}, {Op: "tagged", Key: "#amenity", Val: "written"},
}

var dumpOpts = &wk.DumpOptions{IDs: universe, Queries: wk.NamedQueries(queries)}

// ---- the space ----------------------------------------------------------------------

var worldScenarios = []string{"a:mutate-value-passed-in", "b1:mutate-clone-taken-before-adding", "b2:mutate-clone-taken-after-adding", "b3:add-clone,mutate-original"}
var cloneScenarios = []string{"c1:mutate-clone,original-must-not-change", "c2:mutate-original,clone-must-not-change"}

type caseSpec struct {
	v    variant
	mode int // index into worldModes; -1 = clone scenarios
}

func sectionKinds(diffs []string) string {
	seen := map[string]bool{}
	var out []string
	for _, d := range diffs {
		k := wk.SectionClass(d)
		if strings.HasPrefix(k, "refs") || k == "rels" || k == "colls" || k == "areas" {
			k = "referrers"
		}
		if !seen[k] {
			seen[k] = true
			out = append(out, k)
		}
	}
	sort.Strings(out)
	return strings.Join(out, "+")
}

func runWorldCase(r *kit.Result, c caseSpec, modes []worldMode) {
	mode := modes[c.mode]
	ms := mutatorsFor(c.v)
	reported := map[string]bool{}
	for si, scenario := range worldScenarios {
		for _, m := range ms {
			r.Evals++
			w, err := mode.make(c.v)
			if err != nil {
				r.AddOutcome("skipped:world-not-buildable:" + c.v.kind)
				r.Count("skipped:"+mode.name+":"+err.Error(), 1)
				continue
			}
			f := build(c.v.spec, c.v.spare)
			var victim ingest.Feature // what the caller mutates afterwards
			switch si {
			case 0:
				err = w.AddFeature(f)
				victim = f
			case 1:
				victim = f.Clone()
				err = w.AddFeature(f)
			case 2:
				err = w.AddFeature(f)
				victim = f.Clone()
			case 3:
				cl := f.Clone()
				err = w.AddFeature(cl)
				victim = f
			}
			if err != nil || !w.HasFeatureWithID(c.v.spec.ID) {
				r.Violate("harness:add-rejected:"+c.v.kind, "%s: AddFeature(%s) = %v", mode.name, c.v.spec, err)
				continue
			}
			before := wk.DumpWorld(w, dumpOpts)
			if cls, msg := kit.Catch(func() { m.do(victim) }); cls != "" {
				r.AddOutcome("mutator-panicked:" + m.class)
				r.Count("mutator-panicked:"+c.v.kind+":"+m.class+":"+cls, 1)
				_ = msg // a panicking mutator is not this property's business; whatever it did, the world must not change
			}
			after := wk.DumpWorld(w, dumpOpts)
			diffs := wk.Diff(before, after, true)
			if len(diffs) == 0 {
				r.AddOutcome("world-unchanged:" + scenario[:2] + ":" + c.v.kind)
				r.Distinct++
				continue
			}
			r.AddOutcome("world-changed:" + scenario[:2] + ":" + c.v.kind)
			// the world keeps a Clone() of a new feature and MergeFrom()s into an existing one
			how := "stored-by-Clone"
			if strings.Contains(mode.name, "/replacing") {
				how = "stored-by-MergeFrom"
			}
			class := fmt.Sprintf("world-changed:%s:%s:%s", c.v.kind, how, m.class)
			r.Count("violations:"+class+":"+strings.SplitN(scenario, ":", 2)[0], 1)
			if reported[class] {
				continue
			}
			reported[class] = true
			r.Violate(class, "%s, scenario %s\nfeature: %s (variant %s)\ncaller-side mutation: %s\nthe world's answers changed (%s) (A: before the mutation, B: after):\n%s",
				mode.name, scenario, c.v.spec, c.v.name, m.name, sectionKinds(diffs), strings.Join(diffs, "\n"))
		}
	}
}

func runCloneCase(r *kit.Result, c caseSpec) {
	ms := mutatorsFor(c.v)
	reported := map[string]bool{}
	for si, scenario := range cloneScenarios {
		for _, m := range ms {
			r.Evals++
			f := build(c.v.spec, c.v.spare)
			cl := f.Clone()
			if rf, rc := render(f), render(cl); rf != rc {
				class := "clone-differs-from-original:" + c.v.kind
				if !reported[class] {
					reported[class] = true
					r.Violate(class, "variant %s: Clone() renders differently from the original\noriginal: %s\nclone:    %s", c.v.name, rf, rc)
				}
				continue
			}
			victim, witness, wname := cl, f, "original"
			if si == 1 {
				victim, witness, wname = f, cl, "clone"
			}
			before := render(witness)
			kit.Catch(func() { m.do(victim) })
			after := render(witness)
			if before == after {
				r.AddOutcome("independent:" + scenario[:2] + ":" + c.v.kind)
				r.Distinct++
				continue
			}
			r.AddOutcome("not-independent:" + scenario[:2] + ":" + c.v.kind)
			class := fmt.Sprintf("clone-not-independent:%s:%s", c.v.kind, m.class)
			r.Count("violations:"+class+":"+strings.SplitN(scenario, ":", 2)[0], 1)
			if reported[class] {
				continue
			}
			reported[class] = true
			r.Violate(class, "scenario %s, variant %s\nmutation: %s\nthe %s changed:\n  before: %s\n  after:  %s", scenario, c.v.name, m.name, wname, before, after)
		}
	}
}

func main() {
	modes := worldModes()
	kit.Main(&kit.Check{
		ID:    "C38",
		Level: "exploration",
		Rule: "every feature variant x (world and mode | clone-only) is a case; inside, every mutator of the value's shape at every target index (tag methods incl. ModifyOrAddTagAt, direct writes to Tags[i], in-place writes to the path expression list, SetPathID/SetPathIDs/SetPolygon, Members[i], Keys[i]/Values[i], appends, Sort, SetFeatureID, MergeFrom) x scenario (a, b1, b2, b3 on worlds; c1, c2 for clones). " +
			"Every (variant, mode, scenario, mutator) is distinct and non-trivial when the mutation was applied and the oracle held. Oracle: worldkit dump of the world (IDs, tags, geometry, members, referrers, tag searches, enumeration) identical before and after the caller-side mutation; rendering of the untouched original/clone identical before and after.",
		Assumptions: []string{
			"s2.Polygon values are treated as immutable (no mutator of the feature API edits a polygon in place)",
			"a mutator that panics on its own value (counted in counters) still must not change the world",
		},
		QuickDeadline: 300e9, ThoroughDeadline: 30 * 60e9, Chunk: 1,
		Build: func(tier string) (kit.Space, string) {
			var cases []caseSpec
			nv := 0
			for _, v := range variants() {
				if tier != "thorough" && !v.quick {
					continue
				}
				nv++
				cases = append(cases, caseSpec{v: v, mode: -1})
				for mi := range modes {
					cases = append(cases, caseSpec{v: v, mode: mi})
				}
			}
			return kit.FuncSpace{N: int64(len(cases)), F: func(i int64) kit.Result {
				var r kit.Result
				c := cases[i]
				if c.mode < 0 {
					runCloneCase(&r, c)
				} else {
					runWorldCase(&r, c, modes)
				}
				r.Nontrivial = r.Distinct > 0
				where := "clone-only"
				if c.mode >= 0 {
					where = modes[c.mode].name
				}
				if i%7 == 0 {
					var names []string
					for _, m := range mutatorsFor(c.v) {
						names = append(names, m.name)
					}
					r.Sample = map[string]interface{}{"variant": c.v.name, "feature": c.v.spec.String(), "where": where, "mutators": names}
				}
				if r.Evals == 0 {
					r.Evals = 1
				}
				return r
			}}, fmt.Sprintf("%d feature variants (7 kinds%s) x {clone-only, 5 world modes} ; all mutators at all indices x {a,b1,b2,b3 | c1,c2}", nv, map[bool]string{true: ", 2 sizes each, with and without spare slice capacity", false: ""}[tier == "thorough"])
		},
	})
}
