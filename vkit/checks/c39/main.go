// C39 — tag lists behave as ordered maps.
//
// Engine E2 (explicit-state, fixpoint): the state space of b6.Tags with
// distinct keys from {a,b,c,d} and values from {x,y} is finite (633 lists).
// Part A applies every operation of the alphabet to every state (= every
// transition of the complete state graph, hence histories of every length by
// induction; the only hidden state, spare slice capacity, is exercised by part
// B). Part B runs every operation sequence from the empty list up to a depth
// on one live value without deduplication, so slices carry the capacity and
// stale backing-array contents real histories produce.
package main

import (
	"fmt"
	"strings"

	"diagonal.works/b6"
	"verif/kit"
)

var keys = []string{"a", "b", "c", "d"}
var allKeys = []string{"a", "b", "c", "d", "e"} // e is never present
// values: two strings and, because path and member tags hold lists, three list
// values of which each shorter one is a prefix of the longer ones ("L:" marks a
// list of string items; "L:" alone is the empty list)
var vals = []string{"x", "y", "L:", "L:p,q", "L:p,q,r"}

// valExpr builds the tag value a reference value stands for.
func valExpr(v string) b6.Expression {
	if !strings.HasPrefix(v, "L:") {
		return b6.NewStringExpression(v)
	}
	var es []b6.AnyExpression
	if len(v) > 2 {
		for _, item := range strings.Split(v[2:], ",") {
			es = append(es, b6.StringExpression(item))
		}
	}
	return b6.NewExpressions(es)
}

// valString renders a real tag value in the reference's notation.
func valString(e b6.Expression) string {
	if l, ok := e.AnyExpression.(*b6.Expressions); ok {
		var items []string
		for _, x := range *l {
			items = append(items, x.String())
		}
		return "L:" + strings.Join(items, ",")
	}
	if l, ok := e.AnyExpression.(b6.Expressions); ok {
		var items []string
		for _, x := range l {
			items = append(items, x.String())
		}
		return "L:" + strings.Join(items, ",")
	}
	return e.String()
}

type kv struct{ k, v string }

type op struct {
	name string
	// apply to real and to reference
	real func(t *b6.Tags) string
	ref  func(l []kv) ([]kv, string)
}

func refGet(l []kv, k string) (string, bool) {
	for _, e := range l {
		if e.k == k {
			return e.v, true
		}
	}
	return "", false
}

func toTags(l []kv) b6.Tags {
	t := make(b6.Tags, 0, len(l))
	for _, e := range l {
		t = append(t, b6.Tag{Key: e.k, Value: valExpr(e.v)})
	}
	return t
}

func show(t b6.Tags) string {
	var s []string
	for _, e := range t {
		s = append(s, e.Key+"="+valString(e.Value))
	}
	return "[" + strings.Join(s, " ") + "]"
}

func showRef(l []kv) string {
	var s []string
	for _, e := range l {
		s = append(s, e.k+"="+e.v)
	}
	return "[" + strings.Join(s, " ") + "]"
}

func allLists(maxLen int, vs []string) [][]kv {
	var out [][]kv
	var rec func(cur []kv, used int)
	rec = func(cur []kv, used int) {
		out = append(out, append([]kv{}, cur...))
		if len(cur) == maxLen {
			return
		}
		for i, k := range keys {
			if used&(1<<i) != 0 {
				continue
			}
			for _, v := range vs {
				rec(append(cur, kv{k, v}), used|1<<i)
			}
		}
	}
	rec(nil, 0)
	return out
}

func buildOps() []op {
	var ops []op
	for _, k := range allKeys {
		for _, v := range vals {
			k, v := k, v
			ops = append(ops, op{
				name: fmt.Sprintf("ModifyOrAddTag(%s=%s)", k, v),
				real: func(t *b6.Tags) string {
					mod, old := t.ModifyOrAddTag(b6.Tag{Key: k, Value: valExpr(v)})
					if mod {
						return "modified old=" + valString(old)
					}
					return "added"
				},
				ref: func(l []kv) ([]kv, string) {
					for i := range l {
						if l[i].k == k {
							old := l[i].v
							l[i].v = v
							return l, "modified old=" + old
						}
					}
					return append(l, kv{k, v}), "added"
				},
			})
		}
	}
	for _, k := range allKeys {
		k := k
		ops = append(ops, op{
			name: fmt.Sprintf("RemoveTag(%s)", k),
			real: func(t *b6.Tags) string { t.RemoveTag(k); return "" },
			ref: func(l []kv) ([]kv, string) {
				var out []kv
				for _, e := range l {
					if e.k != k {
						out = append(out, e)
					}
				}
				return out, ""
			},
		})
	}
	for m := 0; m < 1<<len(allKeys); m++ {
		var ks []string
		for i, k := range allKeys {
			if m&(1<<i) != 0 {
				ks = append(ks, k)
			}
		}
		// both orders of the key set, since the implementation loops over it
		for rev := 0; rev < 2; rev++ {
			if rev == 1 && len(ks) < 2 {
				continue
			}
			kk := append([]string{}, ks...)
			if rev == 1 {
				for i, j := 0, len(kk)-1; i < j; i, j = i+1, j-1 {
					kk[i], kk[j] = kk[j], kk[i]
				}
			}
			ops = append(ops, op{
				name: fmt.Sprintf("RemoveTags(%v)", kk),
				real: func(t *b6.Tags) string { t.RemoveTags(kk); return "" },
				ref: func(l []kv) ([]kv, string) {
					var out []kv
					for _, e := range l {
						drop := false
						for _, k := range kk {
							if e.k == k {
								drop = true
							}
						}
						if !drop {
							out = append(out, e)
						}
					}
					return out, ""
				},
			})
		}
	}
	for _, other := range allLists(4, []string{"x"}) {
		other := other
		ops = append(ops, op{
			name: "MergeFrom(" + showRef(other) + ")",
			real: func(t *b6.Tags) string { t.MergeFrom(toTags(other)); return "" },
			ref:  func(l []kv) ([]kv, string) { return append([]kv{}, other...), "" },
		})
	}
	return ops
}

func opClass(name string) string {
	if i := strings.IndexByte(name, '('); i > 0 {
		return name[:i]
	}
	return name
}

// compare real list with reference; also every Get.
func compare(r *kit.Result, t b6.Tags, l []kv, what string, cls string) bool {
	ok := len(t) == len(l)
	if ok {
		for i := range l {
			if t[i].Key != l[i].k || valString(t[i].Value) != l[i].v {
				ok = false
			}
		}
	}
	if !ok {
		r.Violate(cls+":wrong-list", "%s: got %s want %s", what, show(t), showRef(l))
		return false
	}
	for _, k := range allKeys {
		g := t.Get(k)
		v, present := refGet(l, k)
		if present != g.IsValid() || (present && (g.Key != k || valString(g.Value) != v)) {
			r.Violate("Get:wrong", "%s: Get(%s) on %s = %v valid=%v, want %q present=%v", what, k, show(t), g, g.IsValid(), v, present)
			return false
		}
	}
	return true
}

func step(r *kit.Result, t *b6.Tags, l []kv, o op, hist string) ([]kv, bool) {
	before := show(*t)
	var got string
	cls, msg := kit.Catch(func() { got = o.real(t) })
	nl, want := o.ref(append([]kv{}, l...))
	what := fmt.Sprintf("%s; %s on %s", hist, o.name, before)
	if cls != "" {
		r.Violate(opClass(o.name)+":panic", "%s: %s", what, msg)
		return nl, false
	}
	if got != want {
		r.Violate(opClass(o.name)+":wrong-return", "%s returned %q want %q", what, got, want)
		return nl, false
	}
	return nl, compare(r, *t, nl, what, opClass(o.name))
}

func main() {
	ops := buildOps()
	states := allLists(4, vals)
	kit.Main(&kit.Check{
		ID:    "C39",
		Level: "model_checking",
		Rule: "Part A: every (state, operation) pair of the complete state graph of b6.Tags over keys {a,b,c,d} (+ never-present e) and values {x, y, empty list, list [p q], list [p q r]} (list values as in path tags; each shorter list is a prefix of the longer); each state in three layouts of its backing array (exact capacity, 1 and 2 spare slots holding stale tags); a pair is non-trivial when the operation changes the reference list. " +
			"Part B: every operation sequence from the empty list up to the depth bound on one live value, no deduplication. Oracle: ordered association list; every Get after every step.",
		Assumptions: []string{"tag values are immutable string expressions", "keys within a list are distinct (the statement's precondition; preserved by every operation of the alphabet)"},
		Build: func(tier string) (kit.Space, string) {
			depth := 2
			if tier == "thorough" {
				depth = 3
			}
			nA := int64(len(states))
			nOps := int64(len(ops))
			// part B: first op index is the case; remaining depth-1 enumerated inside
			return kit.FuncSpace{N: nA + nOps, F: func(i int64) kit.Result {
				var r kit.Result
				if i < nA {
					st := states[i]
					// every state in three layouts of its backing array: exact
					// capacity, and 1 or 2 spare slots holding stale tags (what
					// removals and append's growth leave behind on a live list)
					for spare := 0; spare <= 2; spare++ {
						for _, o := range ops {
							exact := toTags(st)
							t := make(b6.Tags, len(exact), len(exact)+spare)
							copy(t, exact)
							for k := 0; k < spare; k++ {
								t[:cap(t)][len(exact)+k] = b6.Tag{Key: "stale", Value: b6.NewStringExpression("z")}
							}
							hist := "state " + showRef(st)
							if spare > 0 {
								hist += fmt.Sprintf(" (+%d spare capacity)", spare)
							}
							nl, ok := step(&r, &t, st, o, hist)
							r.Transitions++
							if ok && showRef(nl) != showRef(st) {
								r.Distinct++
							}
							r.AddOutcome(opClass(o.name) + "->len" + fmt.Sprint(len(nl)))
						}
					}
					r.States = 3
					r.Evals = int64(3 * len(ops))
					if i == 37 {
						r.Sample = map[string]interface{}{"state": showRef(st), "ops": len(ops), "first_ops": []string{ops[0].name, ops[10].name, ops[20].name}}
					}
					return r
				}
				first := ops[i-nA]
				var rec func(t b6.Tags, l []kv, d int, hist string)
				rec = func(t b6.Tags, l []kv, d int, hist string) {
					if d == 0 {
						return
					}
					for _, o := range ops {
						// copy the live slice *including* spare capacity layout
						t2 := make(b6.Tags, len(t), cap(t))
						copy(t2[:cap(t)], t[:cap(t)])
						nl, ok := step(&r, &t2, l, o, hist)
						r.Transitions++
						r.Evals++
						if ok {
							rec(t2, nl, d-1, hist+" · "+o.name)
						}
					}
				}
				var t b6.Tags
				nl, ok := step(&r, &t, nil, first, "empty")
				r.Evals++
				r.Transitions++
				if ok {
					rec(t, nl, depth-1, first.name)
				}
				r.Nontrivial = true
				r.Key = first.name
				if i == nA+3 {
					r.Sample = map[string]interface{}{"sequence_prefix": first.name, "depth": depth}
				}
				return r
			}}, fmt.Sprintf("part A: %d states x 3 capacity layouts x %d ops (complete graph, fixpoint); part B: all sequences of depth <= %d over %d ops", len(states), len(ops), depth, len(ops))
		},
	})
}
