//go:build !racepass

package main

import "verif/sched/vsync"

// the service's lock, as the rewritten grpc package expects it
func newLock() *vsync.RWMutex { return &vsync.RWMutex{} }
