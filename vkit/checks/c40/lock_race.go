//go:build racepass

package main

import "sync"

// race pass: the un-rewritten grpc package takes the real lock type
func newLock() *sync.RWMutex { return &sync.RWMutex{} }
