// C40 — concurrent client requests behave like some serial order.
//
// Engine E3: the real gRPC service (Evaluate / ListWorlds / DeleteWorld over
// ingest.MutableWorlds) is called from 2-3 client goroutines under the
// controlled scheduler; every interleaving at the service's lock points is
// explored and the responses plus the final worlds are compared with the
// outcomes of every serial order of the same requests on a fresh service.
package main

import (
	"context"
	"fmt"
	"os"
	"sort"
	"strings"

	"diagonal.works/b6"
	"diagonal.works/b6/api"
	"diagonal.works/b6/api/functions"
	b6grpc "diagonal.works/b6/grpc"
	"diagonal.works/b6/ingest"
	pb "diagonal.works/b6/proto"
	"verif/kit"
	"verif/racekit"
	"verif/sched"
	"verif/sched/vsync"
	wk "verif/worldkit"
)

const ns = "diagonal.works/test"

var (
	p1 = wk.PointID(ns, 1)
	p2 = wk.PointID(ns, 2)
	w1 = b6.FeatureID{Type: b6.FeatureTypeCollection, Namespace: "diagonal.works/world", Value: 7}
)

func baseSpec() wk.Spec {
	return wk.Spec{
		{ID: p1, Kind: wk.KPoint, LL: wk.G(0, 0), Tags: []wk.TagSpec{{Key: "y", Value: "a"}}},
		{ID: p2, Kind: wk.KPoint, LL: wk.G(1, 1), Tags: []wk.TagSpec{{Key: "z", Value: "b"}}},
	}
}

type request struct {
	name string
	kind string // evaluate | list | delete
	expr string
	root b6.FeatureID
}

var menu = []request{
	{name: "read-y", kind: "evaluate", expr: `get-string /point/diagonal.works/test/1 "y"`},
	{name: "set-y=B", kind: "evaluate", expr: `add-tag /point/diagonal.works/test/1 (tag "y" "B")`},
	{name: "y:=z", kind: "evaluate", expr: `add-tag /point/diagonal.works/test/1 (tag "y" (get-string /point/diagonal.works/test/2 "z"))`},
	{name: "z:=y", kind: "evaluate", expr: `add-tag /point/diagonal.works/test/2 (tag "z" (get-string /point/diagonal.works/test/1 "y"))`},
	{name: "set-y=C@w1", kind: "evaluate", expr: `add-tag /point/diagonal.works/test/1 (tag "y" "C")`, root: w1},
	{name: "add-world-w1", kind: "evaluate", expr: `add-world-with-change /collection/diagonal.works/world/7 (add-tag /point/diagonal.works/test/1 (tag "y" "D"))`},
	{name: "delete-w1", kind: "delete", root: w1},
	{name: "list", kind: "list"},
	{name: "bad-request", kind: "evaluate", expr: `add-tag /point/diagonal.works/test/99 (tag "y" "E")`},
}

type svc struct {
	s      pb.B6Server
	worlds *ingest.MutableWorlds
}

// the immutable base world is built once, natively, outside any controlled
// execution (it is read-only and shared)
var sharedBase b6.World

func newService() *svc {
	if sharedBase == nil {
		if sched.Active() != nil {
			panic("base world must be built before exploration starts")
		}
		var err error
		if sharedBase, err = wk.Basic(baseSpec(), 1); err != nil {
			panic(err)
		}
	}
	base := sharedBase
	worlds := &ingest.MutableWorlds{Base: base}
	return &svc{s: b6grpc.NewB6Service(worlds, api.Options{Cores: 1}, newLock()), worlds: worlds}
}

var parsed = map[string]*pb.NodeProto{}

func (r request) proto() *pb.NodeProto {
	if p, ok := parsed[r.expr]; ok {
		return p
	}
	e, err := api.ParseExpression(r.expr)
	if err != nil {
		panic(fmt.Sprintf("%s: %v", r.expr, err))
	}
	p, err := e.ToProto()
	if err != nil {
		panic(err)
	}
	parsed[r.expr] = p
	return p
}

func (s *svc) do(r request) string {
	switch r.kind {
	case "evaluate":
		req := &pb.EvaluateRequestProto{Request: r.proto(), Version: b6.ApiVersion}
		if r.root.IsValid() {
			req.Root = b6.NewProtoFromFeatureID(r.root)
		}
		resp, err := s.s.Evaluate(context.Background(), req)
		if err != nil {
			return "error: " + err.Error()
		}
		e, err := b6.ExpressionFromProto(resp.Result)
		if err != nil {
			return "undecodable: " + err.Error()
		}
		return "ok: " + e.String()
	case "list":
		resp, err := s.s.ListWorlds(context.Background(), &pb.ListWorldsRequestProto{})
		if err != nil {
			return "error: " + err.Error()
		}
		var ids []string
		for _, id := range resp.Ids {
			ids = append(ids, b6.NewFeatureIDFromProto(id).String())
		}
		sort.Strings(ids)
		return "ok: " + strings.Join(ids, " ")
	case "delete":
		_, err := s.s.DeleteWorld(context.Background(), &pb.DeleteWorldRequestProto{Id: b6.NewProtoFromFeatureID(r.root)})
		if err != nil {
			return "error: " + err.Error()
		}
		return "ok"
	}
	panic("bad kind")
}

// final state: every world the service holds (by ID) with the tags of p1, p2.
func (s *svc) final() string {
	var parts []string
	ids := make([]b6.FeatureID, 0)
	for id := range s.worlds.Mutable {
		ids = append(ids, id)
	}
	wk.SortIDs(ids)
	for _, id := range ids {
		w := s.worlds.Mutable[id]
		desc := id.String() + "{"
		for _, p := range []b6.FeatureID{p1, p2} {
			if f := w.FindFeatureByID(p); f != nil {
				desc += fmt.Sprintf(" %d:y=%s,z=%s", p.Value, f.Get("y").Value.String(), f.Get("z").Value.String())
			} else {
				desc += fmt.Sprintf(" %d:absent", p.Value)
			}
		}
		parts = append(parts, desc+" }")
	}
	return strings.Join(parts, " ")
}

type obsT struct {
	responses []string
	final     string
	finished  bool
}

var obs obsT

// pre: requests run one after the other on the fresh service before the
// clients start (a non-initial state, e.g. world w1 already exists).
type scenario struct {
	reqs []request
	pre  []request
}

func (s scenario) String() string {
	var n []string
	for _, r := range s.reqs {
		n = append(n, r.name)
	}
	out := strings.Join(n, " || ")
	if len(s.pre) > 0 {
		var p []string
		for _, r := range s.pre {
			p = append(p, r.name)
		}
		out = "after " + strings.Join(p, "; ") + ": " + out
	}
	return out
}

func (s scenario) fresh() *svc {
	sv := newService()
	for _, r := range s.pre {
		sv.do(r)
	}
	return sv
}

func (s scenario) body() func() {
	return func() {
		obs = obsT{responses: make([]string, len(s.reqs))}
		sv := s.fresh()
		var wg vsync.WaitGroup
		wg.Add(len(s.reqs))
		for i, r := range s.reqs {
			i, r := i, r
			sched.Go(func() {
				defer wg.Done()
				obs.responses[i] = sv.do(r)
			})
		}
		wg.Wait()
		obs.final = sv.final()
		obs.finished = true
	}
}

func outcomeString(responses []string, final string) string {
	return strings.Join(responses, " | ") + " => " + final
}

// serial: outcomes of every permutation on a fresh service, run natively.
func (s scenario) serial() map[string]string {
	out := map[string]string{}
	n := len(s.reqs)
	perm := make([]int, n)
	for i := range perm {
		perm[i] = i
	}
	var rec func(k int)
	rec = func(k int) {
		if k == n {
			sv := s.fresh()
			responses := make([]string, n)
			for _, i := range perm {
				responses[i] = sv.do(s.reqs[i])
			}
			out[outcomeString(responses, sv.final())] = fmt.Sprint(perm)
			return
		}
		for i := k; i < n; i++ {
			perm[k], perm[i] = perm[i], perm[k]
			rec(k + 1)
			perm[k], perm[i] = perm[i], perm[k]
		}
	}
	rec(0)
	return out
}

// splitOutcomes: the outcomes a protocol can produce in which a request's
// expression is evaluated atomically at some point and the change it computed
// is applied atomically at a LATER point, with other requests' applies in
// between (evaluate and apply as two separate critical sections). Computed
// natively by simulating every apply order and every earlier evaluation point
// with the same evaluator the service uses. Used only to CLASSIFY a
// non-serialisable outcome (write skew), never to accept one.
func (s scenario) splitOutcomes() map[string]bool {
	out := map[string]bool{}
	n := len(s.reqs)
	perm := make([]int, n)
	for i := range perm {
		perm[i] = i
	}
	var perms [][]int
	var rec func(k int)
	rec = func(k int) {
		if k == n {
			perms = append(perms, append([]int{}, perm...))
			return
		}
		for i := k; i < n; i++ {
			perm[k], perm[i] = perm[i], perm[k]
			rec(k + 1)
			perm[k], perm[i] = perm[i], perm[k]
		}
	}
	rec(0)
	for _, order := range perms {
		pos := make([]int, n)
		for p, i := range order {
			pos[i] = p
		}
		// evalAt[i] in 0..pos[i]
		evalAt := make([]int, n)
		var choose func(i int)
		choose = func(i int) {
			if i == n {
				sv := s.fresh()
				responses := make([]string, n)
				changes := make([]ingest.Change, n)
				worlds := make([]ingest.MutableWorld, n)
				readOnly := true
				for step := 0; step < n; step++ {
					for j := 0; j < n; j++ {
						if s.reqs[j].kind == "evaluate" && evalAt[j] == step {
							// write skew is about evaluations that only READ: one
							// that changes the service's worlds is not explained
							// by it (its own world is created on first use)
							sv.worlds.FindOrCreateWorld(s.reqs[j].root)
							before := sv.final()
							responses[j], changes[j], worlds[j] = sv.evaluateOnly(s.reqs[j])
							if sv.final() != before {
								readOnly = false
							}
						}
					}
					j := order[step]
					if s.reqs[j].kind != "evaluate" {
						responses[j] = sv.do(s.reqs[j])
					} else if changes[j] != nil {
						responses[j] = applyOnly(changes[j], worlds[j])
					}
				}
				if readOnly {
					out[outcomeString(responses, sv.final())] = true
				}
				return
			}
			for t := 0; t <= pos[i]; t++ {
				evalAt[i] = t
				choose(i + 1)
			}
		}
		choose(0)
	}
	return out
}

func literalString(v interface{}) string {
	ve, err := b6.FromLiteral(v)
	if err != nil {
		return "error: " + err.Error()
	}
	pe, err := ve.ToProto()
	if err != nil {
		return "error: " + err.Error()
	}
	e, err := b6.ExpressionFromProto(pe)
	if err != nil {
		return "undecodable: " + err.Error()
	}
	return "ok: " + e.String()
}

// evaluateOnly mirrors the evaluation half of service.Evaluate.
func (s *svc) evaluateOnly(r request) (string, ingest.Change, ingest.MutableWorld) {
	root := r.root
	w := s.worlds.FindOrCreateWorld(root)
	c := api.Context{World: w, Worlds: s.worlds, FunctionSymbols: functions.Functions(), Adaptors: functions.Adaptors(), Context: context.Background()}
	o := api.Options{Cores: 1}
	c.FillFromOptions(&o)
	expression, err := b6.ExpressionFromProto(r.proto())
	if err != nil {
		return "error: " + err.Error(), nil, nil
	}
	v, err := api.Evaluate(api.Simplify(expression, c.FunctionSymbols), &c)
	if err != nil {
		return "error: " + err.Error(), nil, nil
	}
	if change, ok := v.(ingest.Change); ok {
		return "", change, w
	}
	return literalString(v), nil, nil
}

func applyOnly(change ingest.Change, w ingest.MutableWorld) string {
	v, err := change.Apply(w)
	if err != nil {
		return "error: " + err.Error()
	}
	return literalString(v)
}

func (s scenario) check(serial map[string]string) sched.Check {
	return func(e *sched.Exec) (string, []sched.Failure) {
		var fails []sched.Failure
		add := func(class, msg string) {
			fails = append(fails, sched.Failure{Class: class, Msg: msg + " [" + s.String() + "]"})
		}
		for _, ev := range e.Events {
			if ev.Kind == "panic" {
				add("panic", ev.Msg)
			} else if ev.Kind == "horizon" {
				add("livelock", ev.Msg)
			}
		}
		if e.Deadlocked {
			add("deadlock", strings.Join(e.Blocked, "; "))
			return "deadlock", fails
		}
		if !obs.finished {
			return "unfinished", fails
		}
		o := outcomeString(obs.responses, obs.final)
		if _, ok := serial[o]; !ok {
			class := "not-serializable:" + s.String()
			if s.splitOutcomes()[o] {
				// explained by evaluation and application being two critical sections
				class = "write-skew:evaluate-under-read-lock-then-apply-under-write-lock"
			}
			var want []string
			for k, v := range serial {
				want = append(want, v+": "+k)
			}
			sort.Strings(want)
			add(class, "observed outcome equals no serial order:\n  observed: "+o+"\n  serial outcomes:\n    "+strings.Join(want, "\n    "))
			return "not-serializable", fails
		}
		return "serial-order " + serial[o], fails
	}
}

func scenarios(tier string) []scenario {
	var out []scenario
	for i := range menu {
		for j := i; j < len(menu); j++ {
			out = append(out, scenario{reqs: []request{menu[i], menu[j]}})
		}
	}
	// from the state in which world w1 already exists: the requests that
	// replace, change, delete and list worlds (and a read), in pairs
	withW1 := []int{0, 4, 5, 6, 7}
	for a := 0; a < len(withW1); a++ {
		for b := a; b < len(withW1); b++ {
			out = append(out, scenario{reqs: []request{menu[withW1[a]], menu[withW1[b]]}, pre: []request{menu[4]}})
		}
	}
	if tier == "thorough" {
		core := []int{1, 2, 3, 4, 5, 6, 7}
		for a := 0; a < len(core); a++ {
			for b := a; b < len(core); b++ {
				for c := b; c < len(core); c++ {
					out = append(out, scenario{reqs: []request{menu[core[a]], menu[core[b]], menu[core[c]]}})
				}
			}
		}
	}
	return out
}

func main() {
	if os.Getenv("VERIF_RACE_BODY") != "" {
		raceBodies()
		return
	}
	kit.Main(&kit.Check{
		ID: "C40", Level: "model_checking", SlowIsNotHang: true,
		Rule:          "scenario = multiset of 2 (thorough: also 3) client requests (from a fresh service, and pairs of the world-level requests from the state in which world w1 already exists) from a menu of read-only evaluate, unconditional change, changes computed from a read, change in another world, add-world-with-change, DeleteWorld, ListWorlds and a failing change; per scenario every interleaving of the client goroutines at the service's lock points; oracle: (responses, final worlds) equals the outcome of some serial order, computed by running every permutation on a fresh service. Non-trivial = at least one scheduling choice; distinct = happens-before keys.",
		Assumptions:   []string{"code between two lock operations runs atomically (the separate race pass covers unsynchronised accesses)", "one request per client"},
		QuickDeadline: 200e9, ThoroughDeadline: 1500e9, CaseTimeout: 400e9, Chunk: 1, WorkerEnv: []string{"GOMAXPROCS=1"},
		Build: func(tier string) (kit.Space, string) {
			sc := scenarios(tier)
			bound, maxExec := 3, int64(30000)
			if tier == "thorough" {
				bound, maxExec = 3, 300000
			}
			return kit.FuncSpace{N: int64(len(sc)) + 1, F: func(i int64) kit.Result {
				var r kit.Result
				if i == int64(len(sc)) {
					// auxiliary: the same bodies free-running under the race detector
					iters := "10"
					if tier == "thorough" {
						iters = "200"
					}
					racekit.Pass(&r, "c40", "./checks/c40", "racepass", nil, []string{"VERIF_RACE_BODY=" + iters})
					return r
				}
				s := sc[i]
				newService() // builds the shared base natively
				serial := s.serial()
				res := sched.Explore(s.body(), s.check(serial), sched.Options{MaxPreemptions: bound, MaxExecutions: maxExec})
				r.Evals, r.States, r.Transitions, r.Distinct = res.Executions, res.States, res.Transitions, res.States
				r.Nontrivial = res.MaxPoints > 0
				r.Capped = res.Capped
				r.Count("executions_pruned_by_hb_cache", res.Pruned)
				r.Count("serial_outcomes", int64(len(serial)))
				if res.Unbounded {
					r.Count("scenarios_explored_without_bound", 1)
				} else {
					r.Count(fmt.Sprintf("scenarios_completed_to_bound_%d", res.BoundCompleted), 1)
				}
				distinctOutcomes := 0
				for o, n := range res.Outcomes {
					distinctOutcomes++
					if strings.HasPrefix(o, "serial-order") {
						r.AddOutcome("serializable")
						r.Outcomes["serializable"] += n - 1
					} else {
						r.AddOutcome(o)
						r.Outcomes[o] += n - 1
					}
				}
				r.Count("scenarios_with_more_than_one_serial_order_observed", b2i(distinctOutcomes > 1))
				for _, f := range res.Failures {
					e1 := sched.Replay(s.body(), f.Choices, 0)
					_, f1 := s.check(serial)(e1)
					e2 := sched.Replay(s.body(), f.Choices, 0)
					_, f2 := s.check(serial)(e2)
					if fmt.Sprint(f1) != fmt.Sprint(f2) || len(f1) == 0 {
						r.Violate("harness:nondeterministic-replay", "%s: schedule %v gave %v then %v", f.Class, f.Choices, f1, f2)
						continue
					}
					tr := e1.Trace
					if len(tr) > 40 {
						tr = tr[len(tr)-40:]
					}
					r.Violate(f.Class, "%s\nschedule (choices): %v\ntrace tail:\n  %s", f.Msg, f.Choices, strings.Join(tr, "\n  "))
				}
				if i%6 == 0 {
					r.Sample = map[string]interface{}{"scenario": s.String(), "executions": res.Executions, "states": res.States, "unbounded": res.Unbounded, "serial_outcomes": len(serial), "outcomes": res.Outcomes}
				}
				return r
			}}, fmt.Sprintf("%d scenarios; preemption bound %d (unbounded where no alternative was cut); execution cap %d per scenario; + 1 auxiliary free-running race-detector pass over the same scenario bodies (un-rewritten tree)", len(sc), bound, maxExec)
		},
	})
}

func b2i(b bool) int64 {
	if b {
		return 1
	}
	return 0
}
