package main

import (
	"fmt"
	"os"
	"runtime"
	"strconv"
)

// raceBodies runs every scenario's body free-running (no controlled
// execution is active, so sched.Go is a plain go statement and the vsync
// shims are the real sync types); built with -race from the un-rewritten tree
// by the race-pass case. Reports go to stderr; the parent parses them.
func raceBodies() {
	iters, _ := strconv.Atoi(os.Getenv("VERIF_RACE_BODY"))
	if iters < 1 {
		iters = 1
	}
	runtime.GOMAXPROCS(16)
	newService()
	for _, r := range menu {
		if r.kind == "evaluate" {
			r.proto() // fill the parse cache before any goroutine reads it
		}
	}
	sc := scenarios("thorough")
	for it := 0; it < iters; it++ {
		for _, s := range sc {
			s.body()()
			if !obs.finished {
				fmt.Println("unfinished:", s.String())
			}
		}
	}
	fmt.Println("race pass done")
}
