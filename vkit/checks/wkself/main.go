// wkself validates worldkit's reference world against the basic in-memory
// world on the whole feature menu (not a property check; a harness self-test).
package main

import (
	"fmt"
	"strings"

	"verif/kit"
	wk "verif/worldkit"
)

func main() {
	slots := wk.FeatureMenu()
	rad := wk.Radices(slots)
	kit.Main(&kit.Check{
		ID: "WKSELF", Level: "exploration", Rule: "menu worlds: basic world dump vs reference dump",
		Build: func(tier string) (kit.Space, string) {
			ns := 2
			if tier == "thorough" {
				ns = len(wk.Schemes)
			}
			n := kit.Product(rad)
			return kit.FuncSpace{N: n * int64(ns), F: func(i int64) kit.Result {
				var r kit.Result
				sch := wk.Schemes[i/n]
				choice := kit.Digits(i%n, rad)
				spec := wk.Expand(slots, choice, sch)
				valid, dropped := wk.ValidSubset(spec)
				w, err := wk.Basic(spec, 1)
				if err != nil {
					r.Violate("build-error", "%v for %s", err, spec)
					return r
				}
				ref := wk.NewRef(valid)
				atoms := []wk.RQ{{Op: "all"}, {Op: "tagged", Key: "#highway", Val: "path"}, {Op: "keyed", Key: "#amenity"}, {Op: "keyed", Key: "@flag"}, {Op: "tagged", Key: "#building", Val: "yes"}}
				ids := wk.Universe(sch)
				got := wk.DumpWorld(w, &wk.DumpOptions{IDs: ids, Queries: wk.NamedQueries(atoms)})
				want := ref.ExpectedDump(ids, atoms, true, true)
				diffs := wk.Diff(want, got, false)
				r.Nontrivial = len(valid) > 0
				r.Key = spec.String()
				r.Outcome = fmt.Sprintf("features=%d dropped=%d", len(valid), len(dropped))
				if len(diffs) > 0 {
					r.Violate("diff:"+wk.SectionClass(diffs[0]), "%s\nspec: %s\ndropped: %v\n%s", strings.Join(wk.ChoiceNames(slots, choice), " "), spec, dropped, strings.Join(diffs, "\n"))
				}
				return r
			}}, "menu product x schemes"
		},
	})
}
