// Package kit is the shared driver of every check: it enumerates a finite,
// index-addressable space of cases across crash-isolating worker processes,
// aggregates coverage, matches violations against known_findings.json and
// writes evidence/<id>.json.
package kit

import (
	"bufio"
	"bytes"
	"crypto/sha256"
	"encoding/hex"
	"encoding/json"
	"flag"
	"fmt"
	"hash/fnv"
	"io"
	"log"
	"os"
	"os/exec"
	"path/filepath"
	"runtime"
	"runtime/debug"
	"sort"
	"strconv"
	"strings"
	"sync"
	"time"
)

// Violation is one failed oracle evaluation.
type Violation struct {
	// Class is the named classifier evaluated on the concrete counterexample;
	// known_findings.json matches on it, so it must identify the failing
	// input class / call site, never just the property.
	Class string `json:"class"`
	Msg   string `json:"msg"`
	Case  string `json:"case,omitempty"`
	Idx   int64  `json:"idx"`
}

// Result is what running one case reports.
type Result struct {
	Key         string           `json:"key,omitempty"` // canonical form for distinctness ("" = not counted)
	Nontrivial  bool             `json:"nt,omitempty"`
	Outcome     string           `json:"out,omitempty"` // observed outcome class
	Evals       int64            `json:"ev,omitempty"`  // executions in this case (0 => 1)
	States      int64            `json:"st,omitempty"`
	Transitions int64            `json:"tr,omitempty"`
	Distinct    int64            `json:"dn,omitempty"` // distinct non-trivial sub-cases counted inside the case
	Capped      bool             `json:"cap,omitempty"`
	Violations  []Violation      `json:"v,omitempty"`
	Sample      interface{}      `json:"s,omitempty"`
	Counters    map[string]int64 `json:"c,omitempty"`
	Outcomes    map[string]int64 `json:"o,omitempty"` // several outcomes from one case
	Keys        []string         `json:"k,omitempty"` // several distinct keys from one case
}

func (r *Result) Violate(class, format string, a ...interface{}) {
	r.Violations = append(r.Violations, Violation{Class: class, Msg: fmt.Sprintf(format, a...)})
}

func (r *Result) Count(name string, n int64) {
	if r.Counters == nil {
		r.Counters = map[string]int64{}
	}
	r.Counters[name] += n
}

func (r *Result) AddOutcome(o string) {
	if r.Outcomes == nil {
		r.Outcomes = map[string]int64{}
	}
	r.Outcomes[o]++
}

// Space is a finite, deterministic, index-addressable set of cases.
type Space interface {
	Len() int64
	Run(i int64) Result
}

type FuncSpace struct {
	N int64
	F func(i int64) Result
}

func (f FuncSpace) Len() int64         { return f.N }
func (f FuncSpace) Run(i int64) Result { return f.F(i) }

type Check struct {
	ID          string
	Level       string // evidence level
	Rule        string
	Assumptions []string
	// Build returns the space for a tier together with a description of the bound.
	Build func(tier string) (Space, string)
	// Deadline for the whole run, per tier (defaults 100s / 15min).
	QuickDeadline, ThoroughDeadline time.Duration
	// CaseTimeout: a case still running after this is re-run alone; a second
	// timeout (at 3x) is a hang violation. 0 = 120 s.
	CaseTimeout time.Duration
	// SlowIsNotHang: a case that exceeds CaseTimeout (also alone, at 3x) is
	// counted as not covered instead of being reported as a hang. For checks
	// whose cases are schedule searches: their hang oracle is the scheduler's
	// deadlock detection, never the wall clock.
	SlowIsNotHang bool
	Chunk         int64 // cases per chunk (0 = auto)
	Workers     int   // 0 = NumCPU
	WorkerEnv   []string
	// MaxSamples literal samples kept in evidence.
	MaxSamples int
	// JournalEvery > 1 journals only every k-th case start (for very cheap
	// cases); a crash is then attributed by re-running the group case by case.
	JournalEvery int
}

type agg struct {
	Cases, Evals, States, Transitions, Distinct int64
	Nontrivial                                  int64
	Capped                                      int64
	Keys                                        map[uint64]struct{}
	Outcomes                                    map[string]int64
	Counters                                    map[string]int64
	Violations                                  []Violation
	Samples                                     []interface{}
	perClass                                    map[string]int
}

func newAgg() *agg {
	return &agg{Keys: map[uint64]struct{}{}, Outcomes: map[string]int64{}, Counters: map[string]int64{}}
}

func h64(s string) uint64 {
	h := fnv.New64a()
	h.Write([]byte(s))
	return h.Sum64()
}

type chunkOut struct {
	Start       int64            `json:"start"`
	Cases       int64            `json:"cases"`
	Evals       int64            `json:"evals"`
	States      int64            `json:"states"`
	Transitions int64            `json:"transitions"`
	Distinct    int64            `json:"distinct"`
	Nontrivial  int64            `json:"nontrivial"`
	Capped      int64            `json:"capped"`
	Keys        []uint64         `json:"keys"`
	Outcomes    map[string]int64 `json:"outcomes"`
	Counters    map[string]int64 `json:"counters"`
	Violations  []Violation      `json:"violations"`
	Samples     []interface{}    `json:"samples"`
}

func (a *agg) merge(c *chunkOut) {
	a.Cases += c.Cases
	a.Evals += c.Evals
	a.States += c.States
	a.Transitions += c.Transitions
	a.Distinct += c.Distinct
	a.Nontrivial += c.Nontrivial
	a.Capped += c.Capped
	for _, k := range c.Keys {
		a.Keys[k] = struct{}{}
	}
	for k, v := range c.Outcomes {
		if len(a.Outcomes) < 5000 || a.Outcomes[k] > 0 {
			a.Outcomes[k] += v
		}
	}
	for k, v := range c.Counters {
		a.Counters[k] += v
	}
	for _, v := range c.Violations {
		if a.perClass == nil {
			a.perClass = map[string]int{}
		}
		a.perClass[v.Class]++
		if a.perClass[v.Class] <= 40 && len(a.Violations) < 20000 {
			a.Violations = append(a.Violations, v)
		}
	}
	for _, s := range c.Samples {
		if len(a.Samples) < 6 {
			a.Samples = append(a.Samples, s)
		}
	}
}

// RunCase runs one case with panic capture.
func RunCase(sp Space, i int64) (r Result) {
	defer func() {
		if e := recover(); e != nil {
			st := string(debug.Stack())
			r.Violations = append(r.Violations, Violation{Class: "panic@" + PanicSite(st), Msg: fmt.Sprintf("panic: %v\n%s", e, trimStack(st))})
		}
		for j := range r.Violations {
			r.Violations[j].Idx = i
		}
	}()
	return sp.Run(i)
}

// Catch runs f and converts a panic into (class, message).
func Catch(f func()) (class string, msg string) {
	defer func() {
		if e := recover(); e != nil {
			st := string(debug.Stack())
			class = "panic@" + PanicSite(st)
			msg = fmt.Sprintf("panic: %v\n%s", e, trimStack(st))
		}
	}()
	f()
	return "", ""
}

func trimStack(st string) string {
	lines := strings.Split(st, "\n")
	if len(lines) > 40 {
		lines = lines[:40]
	}
	return strings.Join(lines, "\n")
}

// PanicSite returns the first diagonal.works/b6 function on the stack below
// the panic, e.g. "b6.(*Tags).RemoveTags".
func PanicSite(st string) string {
	lines := strings.Split(st, "\n")
	seenPanic := false
	for _, l := range lines {
		if strings.HasPrefix(l, "panic(") {
			seenPanic = true
			continue
		}
		if !seenPanic {
			continue
		}
		if strings.HasPrefix(l, "diagonal.works/b6") {
			f := l
			if j := strings.LastIndex(f, "("); j > 0 {
				f = f[:j]
			}
			f = strings.TrimPrefix(f, "diagonal.works/")
			// strip closure suffixes like .func1
			return f
		}
	}
	if !seenPanic {
		return "unknown"
	}
	return "outside-b6"
}

type finding struct {
	Property string `json:"property"`
	Class    string `json:"class"`
	Status   string `json:"status"` // known | fixed
	Commit   string `json:"commit,omitempty"`
	What     string `json:"what"`
}

func root() string {
	if r := os.Getenv("VERIF_ROOT"); r != "" {
		return r
	}
	return "/verif"
}

// matchFinding: exact class match, or a pattern in which '*' stands for any
// run of characters (used where one defect mechanism shows under a family of
// classifier values, e.g. per feature type).
func matchFinding(known map[string]finding, cl string) (finding, bool) {
	if kf, ok := known[cl]; ok {
		return kf, true
	}
	for pat, kf := range known {
		if strings.Contains(pat, "*") && globMatch(pat, cl) {
			return kf, true
		}
	}
	return finding{}, false
}

func globMatch(pat, s string) bool {
	parts := strings.Split(pat, "*")
	if !strings.HasPrefix(s, parts[0]) {
		return false
	}
	s = s[len(parts[0]):]
	for i := 1; i < len(parts); i++ {
		p := parts[i]
		if i == len(parts)-1 {
			return strings.HasSuffix(s, p)
		}
		j := strings.Index(s, p)
		if j < 0 {
			return false
		}
		s = s[j+len(p):]
	}
	return true
}

func loadFindings(id string) map[string]finding {
	m := map[string]finding{}
	b, err := os.ReadFile(filepath.Join(root(), "known_findings.json"))
	if err != nil {
		return m
	}
	var f struct {
		Findings []finding `json:"findings"`
	}
	if err := json.Unmarshal(b, &f); err != nil {
		fmt.Fprintf(os.Stderr, "known_findings.json: %v\n", err)
		os.Exit(2)
	}
	for _, x := range f.Findings {
		if x.Property == id && x.Status == "known" {
			m[x.Class] = x
		}
	}
	return m
}

func Main(c *Check) {
	tier := flag.String("tier", os.Getenv("VERIF_TIER"), "quick|thorough")
	replay := flag.String("replay", "", "replay file")
	worker := flag.String("worker", "", "internal: k/n")
	single := flag.Int64("case", -1, "internal: run one case, print result")
	from := flag.Int64("from", 0, "internal")
	to := flag.Int64("to", -1, "internal")
	skipList := flag.String("skip", "", "internal: comma-separated case indices to skip")
	flag.Parse()
	if *tier == "" {
		*tier = "quick"
	}
	log.SetOutput(io.Discard)
	if *replay != "" {
		b, err := os.ReadFile(*replay)
		if err != nil {
			fmt.Fprintln(os.Stderr, err)
			os.Exit(2)
		}
		var rp struct {
			Tier string `json:"tier"`
			Idx  int64  `json:"idx"`
		}
		json.Unmarshal(b, &rp)
		sp, _ := c.Build(rp.Tier)
		r := RunCase(sp, rp.Idx)
		out, _ := json.MarshalIndent(r, "", " ")
		fmt.Println(string(out))
		if len(r.Violations) > 0 {
			fmt.Printf("VIOLATION property=%s replay=%s\n", c.ID, *replay)
			os.Exit(1)
		}
		os.Exit(0)
	}
	if *single >= 0 {
		sp, _ := c.Build(*tier)
		r := RunCase(sp, *single)
		out, _ := json.Marshal(r)
		fmt.Println("R " + string(out))
		return
	}
	if *worker != "" {
		runWorker(c, *tier, *worker, *from, *to, *skipList)
		return
	}
	os.Exit(parent(c, *tier))
}

func chunkSize(c *Check, n int64, workers int) int64 {
	if c.Chunk > 0 {
		return c.Chunk
	}
	ch := n / int64(workers*8)
	if ch < 1 {
		ch = 1
	}
	if ch > 2000 {
		ch = 2000
	}
	return ch
}

func journalEvery(c *Check) int64 {
	if c.JournalEvery > 1 {
		return int64(c.JournalEvery)
	}
	return 1
}

func workers(c *Check) int {
	if s := os.Getenv("VERIF_WORKERS"); s != "" {
		if v, err := strconv.Atoi(s); err == nil && v > 0 {
			return v
		}
	}
	w := c.Workers
	if w <= 0 {
		w = runtime.NumCPU()
	}
	return w
}

// worker: handles chunks j (of size ch) with j%n==k, within [from,to).
// Journal: "B lo" at chunk start, "S idx" (flushed) before every case, "E lo json"
// with the chunk aggregate, "D" when done. Cases in skip are not run.
func runWorker(c *Check, tier, spec string, from, to int64, skipList string) {
	var k, n int
	fmt.Sscanf(spec, "%d/%d", &k, &n)
	skip := map[int64]bool{}
	for _, x := range strings.Split(skipList, ",") {
		if v, err := strconv.ParseInt(x, 10, 64); err == nil {
			skip[v] = true
		}
	}
	sp, _ := c.Build(tier)
	total := sp.Len()
	if to < 0 || to > total {
		to = total
	}
	ch := chunkSize(c, total, workers(c))
	w := bufio.NewWriter(os.Stdout)
	stop := make(chan struct{})
	go func() { // parent closes stdin to ask us to stop
		io.Copy(io.Discard, os.Stdin)
		close(stop)
	}()
	for j := int64(0); j*ch < to; j++ {
		if int(j%int64(n)) != k {
			continue
		}
		lo, hi := j*ch, (j+1)*ch
		if hi > to {
			hi = to
		}
		if hi <= from {
			continue
		}
		select {
		case <-stop:
			w.Flush()
			return
		default:
		}
		fmt.Fprintf(w, "B %d\n", lo)
		co := chunkOut{Start: lo, Outcomes: map[string]int64{}, Counters: map[string]int64{}}
		keys := map[uint64]struct{}{}
		for i := lo; i < hi; i++ {
			if skip[i] {
				continue
			}
			if je := journalEvery(c); (i-lo)%je == 0 {
				fmt.Fprintf(w, "S %d\n", i)
				w.Flush()
			}
			r := RunCase(sp, i)
			co.add(&r, keys, lo < 4*ch*int64(n))
		}
		for kk := range keys {
			co.Keys = append(co.Keys, kk)
		}
		b, _ := json.Marshal(&co)
		fmt.Fprintf(w, "E %d %s\n", lo, b)
		w.Flush()
	}
	fmt.Fprintf(w, "D\n")
	w.Flush()
}

func (co *chunkOut) add(r *Result, keys map[uint64]struct{}, sample bool) {
	co.Cases++
	if r.Evals == 0 {
		r.Evals = 1
	}
	co.Evals += r.Evals
	co.States += r.States
	co.Transitions += r.Transitions
	co.Distinct += r.Distinct
	if r.Capped {
		co.Capped++
	}
	if r.Nontrivial {
		co.Nontrivial++
		if r.Key != "" {
			keys[h64(r.Key)] = struct{}{}
		}
	}
	for _, kk := range r.Keys {
		keys[h64(kk)] = struct{}{}
	}
	if r.Outcome != "" {
		co.Outcomes[r.Outcome]++
	}
	for o, v := range r.Outcomes {
		co.Outcomes[o] += v
	}
	for cn, v := range r.Counters {
		co.Counters[cn] += v
	}
	// keep a few violations of every class (a flood of one class must not hide others)
	for _, v := range r.Violations {
		n := 0
		for _, x := range co.Violations {
			if x.Class == v.Class {
				n++
			}
		}
		if n < 3 && len(co.Violations) < 300 {
			co.Violations = append(co.Violations, v)
		} else {
			if co.Counters == nil {
				co.Counters = map[string]int64{}
			}
			co.Counters["violations_not_listed"]++
		}
	}
	if r.Sample != nil && len(co.Samples) < 2 && sample {
		co.Samples = append(co.Samples, r.Sample)
	}
}

type workerRun struct {
	cmd     *exec.Cmd
	stdin   io.WriteCloser
	stderr  *tailBuf
	current int64 // chunk start in progress (-1 none)
	started time.Time
}

type tailBuf struct {
	mu sync.Mutex
	b  []byte
}

func (t *tailBuf) Write(p []byte) (int, error) {
	t.mu.Lock()
	defer t.mu.Unlock()
	t.b = append(t.b, p...)
	if len(t.b) > 1<<16 {
		t.b = t.b[len(t.b)-(1<<15):]
	}
	return len(p), nil
}

func (t *tailBuf) String() string {
	t.mu.Lock()
	defer t.mu.Unlock()
	return string(t.b)
}

func selfCmd(c *Check, args ...string) *exec.Cmd {
	cmd := exec.Command(os.Args[0], args...)
	cmd.Env = append(os.Environ(), c.WorkerEnv...)
	return cmd
}

// runSingle runs one case in a fresh process with a timeout.
// returns result, crashed(stderr), timedOut
func runSingle(c *Check, tier string, idx int64, timeout time.Duration) (*Result, string, bool) {
	cmd := selfCmd(c, "--tier", tier, "--case", strconv.FormatInt(idx, 10))
	var out bytes.Buffer
	errb := &tailBuf{}
	cmd.Stdout = &out
	cmd.Stderr = errb
	if err := cmd.Start(); err != nil {
		return nil, err.Error(), false
	}
	done := make(chan error, 1)
	go func() { done <- cmd.Wait() }()
	select {
	case <-done:
	case <-time.After(timeout):
		cmd.Process.Kill()
		<-done
		return nil, errb.String(), true
	}
	for _, l := range strings.Split(out.String(), "\n") {
		if strings.HasPrefix(l, "R ") {
			var r Result
			if json.Unmarshal([]byte(l[2:]), &r) == nil {
				return &r, "", false
			}
		}
	}
	return nil, errb.String(), false
}

func crashClass(stderr string) string {
	if strings.Contains(stderr, "stack overflow") || strings.Contains(stderr, "goroutine stack exceeds") {
		return "crash:stack-overflow@" + crashSite(stderr)
	}
	if strings.Contains(stderr, "out of memory") || strings.Contains(stderr, "cannot allocate memory") {
		return "crash:oom@" + crashSite(stderr)
	}
	if strings.Contains(stderr, "all goroutines are asleep") {
		return "crash:deadlock@" + crashSite(stderr)
	}
	return "crash@" + crashSite(stderr)
}

func crashSite(stderr string) string {
	// first b6 frame in the goroutine that crashed
	idx := strings.Index(stderr, "goroutine ")
	if idx < 0 {
		return "unknown"
	}
	for _, l := range strings.Split(stderr[idx:], "\n") {
		if strings.HasPrefix(l, "diagonal.works/b6") {
			if j := strings.LastIndex(l, "("); j > 0 {
				l = l[:j]
			}
			return strings.TrimPrefix(l, "diagonal.works/")
		}
	}
	return "unknown"
}

func parent(c *Check, tier string) int {
	start := time.Now()
	sp, bound := c.Build(tier)
	total := sp.Len()
	nw := workers(c)
	if int64(nw) > total {
		nw = int(total)
		if nw < 1 {
			nw = 1
		}
	}
	deadline := c.QuickDeadline
	if deadline == 0 {
		deadline = 100 * time.Second
	}
	if tier == "thorough" {
		deadline = c.ThoroughDeadline
		if deadline == 0 {
			deadline = 15 * time.Minute
		}
	}
	if s := os.Getenv("VERIF_DEADLINE_S"); s != "" {
		if v, err := strconv.Atoi(s); err == nil {
			deadline = time.Duration(v) * time.Second
		}
	}
	caseTimeout := c.CaseTimeout
	if caseTimeout == 0 {
		caseTimeout = 120 * time.Second
	}
	a := newAgg()
	var mu sync.Mutex
	exhaustive := true
	var firstIncomplete int64 = total
	noteIncomplete := func(at int64) {
		exhaustive = false
		if at < firstIncomplete {
			firstIncomplete = at
		}
	}
	ch := chunkSize(c, total, workers(c))
	stopAt := start.Add(deadline)

	var wg sync.WaitGroup
	for k := 0; k < nw; k++ {
		wg.Add(1)
		go func(k int) {
			defer wg.Done()
			from := int64(0)
			var skip []string
			for {
				if time.Now().After(stopAt) {
					mu.Lock()
					noteIncomplete(from)
					mu.Unlock()
					return
				}
				cmd := selfCmd(c, "--tier", tier, "--worker", fmt.Sprintf("%d/%d", k, nw), "--from", strconv.FormatInt(from, 10), "--skip", strings.Join(skip, ","))
				stdin, _ := cmd.StdinPipe()
				stdout, _ := cmd.StdoutPipe()
				errb := &tailBuf{}
				cmd.Stderr = errb
				if err := cmd.Start(); err != nil {
					fmt.Fprintf(os.Stderr, "worker start: %v\n", err)
					mu.Lock()
					noteIncomplete(from)
					mu.Unlock()
					return
				}
				lines := make(chan string, 64)
				go func() {
					sc := bufio.NewScanner(stdout)
					sc.Buffer(make([]byte, 1<<20), 1<<30)
					for sc.Scan() {
						lines <- sc.Text()
					}
					close(lines)
				}()
				curChunk := int64(-1) // chunk in progress
				curCase := int64(-1)  // case in progress
				caseStart := time.Now()
				done, killed, stopped, hung := false, false, false, false
				timer := time.NewTicker(500 * time.Millisecond)
			loop:
				for {
					select {
					case l, ok := <-lines:
						if !ok {
							break loop
						}
						switch {
						case strings.HasPrefix(l, "B "):
							curChunk, _ = strconv.ParseInt(l[2:], 10, 64)
							curCase = -1
						case strings.HasPrefix(l, "S "):
							curCase, _ = strconv.ParseInt(l[2:], 10, 64)
							caseStart = time.Now()
						case strings.HasPrefix(l, "E "):
							rest := l[2:]
							sp := strings.IndexByte(rest, ' ')
							var co chunkOut
							if err := json.Unmarshal([]byte(rest[sp+1:]), &co); err == nil {
								mu.Lock()
								a.merge(&co)
								mu.Unlock()
								from = (co.Start/ch + int64(nw)) * ch
							}
							curChunk, curCase = -1, -1
						case l == "D":
							done = true
						}
					case <-timer.C:
						if !stopped && time.Now().After(stopAt) {
							stopped = true
							stdin.Close()
						}
						if curCase >= 0 && time.Since(caseStart) > caseTimeout && !killed {
							killed, hung = true, true
							cmd.Process.Kill()
						}
						if stopped && time.Now().After(stopAt.Add(caseTimeout)) && !killed {
							killed = true
							cmd.Process.Kill()
						}
					}
				}
				timer.Stop()
				cmd.Wait()
				if done {
					return
				}
				if stopped && !hung {
					mu.Lock()
					if curChunk >= 0 {
						noteIncomplete(curChunk)
					} else {
						noteIncomplete(from)
					}
					mu.Unlock()
					return
				}
				if curCase < 0 {
					// died outside a case (startup or between cases)
					mu.Lock()
					a.Violations = append(a.Violations, Violation{Class: "harness:worker-died", Msg: "worker died outside a case: " + tail(errb.String(), 2000), Idx: from})
					noteIncomplete(from)
					mu.Unlock()
					return
				}
				// crashed or hung inside case curCase (or, with coarse journalling,
				// inside the group of cases starting there): find the culprit
				if je := journalEvery(c); je > 1 {
					culprit := int64(-1)
					hi := curCase + je
					if hi > total {
						hi = total
					}
					for i := curCase; i < hi && culprit < 0; i++ {
						already := false
						for _, sk := range skip {
							if sk == strconv.FormatInt(i, 10) {
								already = true
							}
						}
						if already {
							continue
						}
						r1, _, to1 := runSingle(c, tier, i, caseTimeout)
						if r1 == nil || to1 {
							culprit = i
						}
					}
					if culprit < 0 {
						mu.Lock()
						a.Violations = append(a.Violations, Violation{Class: "harness:worker-died", Msg: "worker died in a case group but no single case reproduces it: " + tail(errb.String(), 2000), Idx: curCase})
						noteIncomplete(curCase)
						mu.Unlock()
						return
					}
					curCase = culprit
				}
				co := chunkOut{Start: curCase, Cases: 1, Evals: 1, Outcomes: map[string]int64{}, Counters: map[string]int64{}}
				if hung {
					// confirm alone with 3x the timeout before believing it
					r2, stderr2, to2 := runSingle(c, tier, curCase, 3*caseTimeout)
					switch {
					case to2 && c.SlowIsNotHang:
						// a search that is merely slow (the controlled scheduler
						// detects real hangs itself, as deadlocks): inconclusive
						co.Cases = 0
						co.Capped = 1
						co.Counters["cases_cut_by_the_case_timeout_(inconclusive)"]++
						fmt.Printf("CASE-TIMEOUT (case %d did not finish within %v, nor within %v alone; counted as not covered, not reported)\n", curCase, caseTimeout, 3*caseTimeout)
					case to2:
						co.Violations = append(co.Violations, Violation{Class: "hang", Msg: fmt.Sprintf("case did not finish within %v (and %v alone)", caseTimeout, 3*caseTimeout), Idx: curCase})
						co.Outcomes["hang"]++
					case r2 == nil:
						co.Violations = append(co.Violations, Violation{Class: crashClass(stderr2), Msg: "process crashed: " + tail(stderr2, 3000), Idx: curCase})
						co.Outcomes["crash"]++
					default:
						keys := map[uint64]struct{}{}
						co.Cases, co.Evals = 0, 0
						co.add(r2, keys, false)
						for kk := range keys {
							co.Keys = append(co.Keys, kk)
						}
					}
				} else {
					// A crash is believed only if the case crashes again when run
					// alone in a fresh process (up to 3 tries): a failure that the
					// same input does not reproduce is not a decided violation.
					stderr := errb.String()
					var okRes *Result
					reproduced := false
					for try := 0; try < 3 && !reproduced; try++ {
						r2, stderr2, to2 := runSingle(c, tier, curCase, 3*caseTimeout)
						if r2 == nil || to2 {
							reproduced = true
							if r2 == nil && stderr2 != "" {
								stderr = stderr2
							}
						} else {
							okRes = r2
						}
					}
					if reproduced {
						co.Violations = append(co.Violations, Violation{Class: crashClass(stderr), Msg: "process crashed: " + tail(stderr, 3000), Idx: curCase})
						co.Outcomes["crash"]++
					} else {
						fmt.Printf("UNREPRODUCED-CRASH (worker died in case %d, 3 isolated re-runs of the case completed; not reported): %s\n", curCase, crashClass(stderr))
						keys := map[uint64]struct{}{}
						co.Cases, co.Evals = 0, 0
						co.add(okRes, keys, false)
						for kk := range keys {
							co.Keys = append(co.Keys, kk)
						}
						co.Counters["worker_crashes_not_reproduced_by_the_case_alone"]++
					}
				}
				mu.Lock()
				a.merge(&co)
				mu.Unlock()
				skip = append(skip, strconv.FormatInt(curCase, 10))
				from = curChunk // redo the chunk, skipping the cases known to crash
			}
		}(k)
	}
	wg.Wait()

	// Confirm violations by re-running each distinct (class) once more in a fresh process.
	known := loadFindings(c.ID)
	byClass := map[string][]Violation{}
	var classes []string
	for _, v := range a.Violations {
		if _, ok := byClass[v.Class]; !ok {
			classes = append(classes, v.Class)
		}
		byClass[v.Class] = append(byClass[v.Class], v)
	}
	sort.Strings(classes)
	exit := 0
	unconfirmed := 0
	nviol := 0
	var knownLines []string
	os.MkdirAll(filepath.Join(root(), "replays"), 0o755)
	for _, cl := range classes {
		vs := byClass[cl]
		sort.Slice(vs, func(i, j int) bool { return vs[i].Idx < vs[j].Idx })
		v := vs[0]
		if kf, ok := matchFinding(known, cl); ok {
			knownLines = append(knownLines, fmt.Sprintf("KNOWN-FINDING: property=%s %s — %s (%d cases)", c.ID, cl, kf.What, len(vs)))
			continue
		}
		confirmed := strings.HasPrefix(cl, "crash") || strings.HasPrefix(cl, "hang") || strings.HasPrefix(cl, "harness:")
		if !confirmed {
			// up to 3 re-runs of the first case; if that one does not reproduce
			// (a free-running case), the next distinct cases of the class get a try
			cands := []int64{v.Idx, v.Idx, v.Idx}
			for _, o := range vs[1:] {
				if len(cands) >= 8 {
					break
				}
				if o.Idx != cands[len(cands)-1] {
					cands = append(cands, o.Idx)
				}
			}
			for try := 0; try < len(cands) && !confirmed; try++ {
				r, _, _ := runSingle(c, tier, cands[try], 3*caseTimeout)
				if confirmedBy(r, cl) {
					confirmed = true
					for _, o := range vs {
						if o.Idx == cands[try] {
							v = o
							break
						}
					}
				}
			}
		}
		if !confirmed {
			unconfirmed++
			fmt.Printf("UNCONFIRMED (did not reproduce on replay, not reported): %s idx=%d %s\n", cl, v.Idx, firstLine(v.Msg))
			continue
		}
		nviol += a.perClass[cl]
		sum := sha256.Sum256([]byte(c.ID + cl + tier))
		path := filepath.Join(root(), "replays", fmt.Sprintf("%s-%s.json", c.ID, hex.EncodeToString(sum[:6])))
		rp := map[string]interface{}{"property": c.ID, "tier": tier, "idx": v.Idx, "class": cl, "msg": v.Msg, "case": v.Case, "occurrences": len(vs),
			"replay": fmt.Sprintf("bin/check %s --replay %s", c.ID, path)}
		b, _ := json.MarshalIndent(rp, "", " ")
		os.WriteFile(path, b, 0o644)
		fmt.Printf("VIOLATION property=%s replay=%s\n", c.ID, path)
		fmt.Printf("  class=%s cases=%d first idx=%d\n  %s\n", cl, len(vs), v.Idx, indent(tail(v.Msg, 1500)))
		if v.Case != "" {
			fmt.Printf("  case: %s\n", tail(v.Case, 1500))
		}
		exit = 1
	}
	for _, l := range knownLines {
		fmt.Println(l)
	}

	wall := time.Since(start).Seconds()
	if a.Capped > 0 {
		exhaustive = false
	}
	seed, _ := strconv.Atoi(os.Getenv("VERIF_SEED"))
	level := c.Level
	if level == "" {
		level = "exploration"
	}
	switch level {
	case "exploration", "fault_enumeration", "model_checking", "proof", "translation_validation", "other":
	default:
		level = "exploration"
	}
	distinct := int64(len(a.Keys)) + a.Distinct
	outs := map[string]int64{}
	{
		type kv struct {
			k string
			v int64
		}
		var l []kv
		for k, v := range a.Outcomes {
			l = append(l, kv{k, v})
		}
		sort.Slice(l, func(i, j int) bool { return l[i].v > l[j].v || (l[i].v == l[j].v && l[i].k < l[j].k) })
		for i, e := range l {
			if i >= 120 {
				break
			}
			outs[e.k] = e.v
		}
	}
	cov := map[string]interface{}{
		"evaluations":         a.Evals,
		"cases":               a.Cases,
		"cases_in_space":      total,
		"distinct_nontrivial": distinct,
		"nontrivial_cases":    a.Nontrivial,
		"rule":                c.Rule,
		"samples":             a.Samples,
		"bound":               bound,
		"exhaustive":          exhaustive,
		"distinct_outcomes":   len(a.Outcomes),
		"outcomes_top":        outs,
		"counters":            a.Counters,
		"workers":             nw,
	}
	if !exhaustive {
		cov["fully_covered_case_prefix"] = firstIncomplete
		cov["capped_cases"] = a.Capped
		cov["cap"] = fmt.Sprintf("deadline %v", deadline)
	}
	if a.States > 0 && a.Transitions > 0 {
		cov["states"] = a.States
		cov["transitions"] = a.Transitions
		cov["traces_validated_against_impl"] = a.Evals
		cov["explanation"] = "every explored transition/schedule is an execution of the real implementation (no separate model), so every trace is an implementation trace"
	}
	if len(a.Samples) == 0 {
		cov["samples"] = []interface{}{fmt.Sprintf("case indices 0..%d of the space described in rule/bound", total-1)}
	}
	ev := map[string]interface{}{
		"property_id": c.ID, "tier": tier, "seed": seed, "level": level,
		"coverage": cov, "assumptions": c.Assumptions, "wall_s": wall,
		"violations": nviol, "known_findings_reported": len(knownLines), "unconfirmed": unconfirmed,
	}
	if c.Assumptions == nil {
		ev["assumptions"] = []string{}
	}
	os.MkdirAll(filepath.Join(root(), "evidence"), 0o755)
	b, _ := json.MarshalIndent(ev, "", " ")
	if err := os.WriteFile(filepath.Join(root(), "evidence", c.ID+".json"), append(b, '\n'), 0o644); err != nil {
		fmt.Fprintln(os.Stderr, err)
		return 2
	}
	fmt.Printf("%s tier=%s cases=%d/%d evals=%d states=%d transitions=%d distinct_nontrivial=%d outcomes=%d exhaustive=%v violations=%d known=%d wall=%.1fs\n",
		c.ID, tier, a.Cases, total, a.Evals, a.States, a.Transitions, distinct, len(a.Outcomes), exhaustive, nviol, len(knownLines), wall)
	return exit
}

func tail(s string, n int) string {
	if len(s) <= n {
		return s
	}
	return s[:n/2] + "\n...\n" + s[len(s)-n/2:]
}

func firstLine(s string) string {
	if i := strings.IndexByte(s, '\n'); i >= 0 {
		return s[:i]
	}
	return s
}

func indent(s string) string { return strings.ReplaceAll(s, "\n", "\n  ") }

func maxI64(a, b int64) int64 {
	if a > b {
		return a
	}
	return b
}
func minI64(a, b int64) int64 {
	if a < b {
		return a
	}
	return b
}

// Mixed-radix decode helper: Digits(i, radices) -> digits (least significant first).
func Digits(i int64, radices []int) []int {
	d := make([]int, len(radices))
	for j, r := range radices {
		d[j] = int(i % int64(r))
		i /= int64(r)
	}
	return d
}

func Product(radices []int) int64 {
	p := int64(1)
	for _, r := range radices {
		p *= int64(r)
	}
	return p
}

// confirmedBy: does the isolated re-run r of a case show a violation of class
// cl (a crash of the re-run counts as confirmation).
func confirmedBy(r *Result, cl string) bool {
	if r == nil {
		return true
	}
	for _, rv := range r.Violations {
		if rv.Class == cl {
			return true
		}
	}
	return false
}
