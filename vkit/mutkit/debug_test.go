package mutkit

import (
	"fmt"
	"os"
	"strconv"
	"testing"
)

// go test -tags verif -overlay ... -run TestDebugDiscover ./mutkit  (development aid)
func TestDebugDiscover(t *testing.T) {
	tier := os.Getenv("MK_TIER")
	if tier == "" {
		tier = "quick"
	}
	if v, err := strconv.Atoi(os.Getenv("MK_MAX")); err == nil {
		MaxStates = v
	}
	li, _ := strconv.Atoi(os.Getenv("MK_LAYER"))
	l := Layers(tier)[li]
	lp := discover(l)
	fmt.Printf("%s: states=%d pruned=%d obs=%d hidden=%d capped=%v secs=%.1f herr=%v\n", l.Describe(), len(lp.States), lp.Pruned, lp.ObsClasses, lp.HiddenGroups, lp.Capped, lp.Secs, lp.HarnessErrs)
	depthCount := map[int16]int{}
	for _, s := range lp.States {
		depthCount[s.Depth]++
	}
	fmt.Println("by depth:", depthCount)
	if os.Getenv("MK_DUMP") != "" {
		last := int32(len(lp.States) - 1)
		h := History(lp.States, last)
		fmt.Println("deepest:", HistString(l, h))
		r := Step(l, h, -1, true)
		fmt.Println(r.KeyText)
		fmt.Println("ref:", r.Sys.Ref.String())
	}
}
