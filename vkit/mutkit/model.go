// Package mutkit is shared by the C12 and C03 harnesses: the alphabet of edit
// operations on an ingest.MutableOverlayWorld, the trivial reference model
// (plain Go maps), the canonical private-state key, the observable dump, the
// oracle comparing every read with the reference, and the explicit-state
// search (BFS over operation histories, a state being the shortest history
// that reaches it, replayed on a fresh overlay over a fresh base).
package mutkit

import (
	"fmt"
	"sort"
	"strings"

	"diagonal.works/b6"
	wk "verif/worldkit"
)

// Sch is the ID scheme of every feature of the search (one custom namespace).
var Sch = wk.Schemes[1]

var (
	P0     = Sch.P(0) // base: tagged point
	P1     = Sch.P(1) // base: untagged point
	P2     = Sch.P(2) // overlay only: new point
	W0     = Sch.W(0) // base: path over P0, P1
	W1     = Sch.W(1) // overlay only: new path over P1, P2
	Absent = wk.PointID(Sch.PointNS, 50)
)

// Universe is every ID a layer can touch or look up.
var Universe = []b6.FeatureID{P0, P1, P2, W0, W1, Absent}

func IDName(id b6.FeatureID) string {
	switch id {
	case P0:
		return "P0"
	case P1:
		return "P1"
	case P2:
		return "P2"
	case W0:
		return "W0"
	case W1:
		return "W1"
	case Absent:
		return "ABSENT"
	}
	return id.String()
}

// Keys of the alphabet: "#s" is searchable by key and value, "@t" by key, "p" is plain.
var Keys = []string{"#s", "@t", "p"}
var Vals = []string{"x", "y"}

func KeyClass(k string) string {
	switch {
	case k == b6.PointTag || k == b6.PathTag:
		return "geometry"
	case strings.HasPrefix(k, "#"):
		return "#"
	case strings.HasPrefix(k, "@"):
		return "@"
	}
	return "plain"
}

type OpKind int

const (
	OpAddFeature OpKind = iota
	OpAddTag
	OpRemoveTag
)

type Op struct {
	Kind OpKind
	ID   b6.FeatureID
	Key  string
	Val  string
	F    *wk.FSpec // AddFeature
	Name string
	Tag  string // short label of an AddFeature variant
}

func (o Op) KindName() string {
	switch o.Kind {
	case OpAddFeature:
		return "AddFeature"
	case OpAddTag:
		return "AddTag"
	}
	return "RemoveTag"
}

// Class is the operation with values abstracted: AddTag[#], RemoveTag[plain], AddFeature[P0:untagged].
func (o Op) Class() string {
	if o.Kind == OpAddFeature {
		return "AddFeature[" + o.Tag + "]"
	}
	return o.KindName() + "[" + KeyClass(o.Key) + "]"
}

func addTagOp(id b6.FeatureID, k, v string) Op {
	return Op{Kind: OpAddTag, ID: id, Key: k, Val: v, Name: fmt.Sprintf("AddTag(%s,%s=%s)", IDName(id), k, v)}
}
func removeTagOp(id b6.FeatureID, k string) Op {
	return Op{Kind: OpRemoveTag, ID: id, Key: k, Name: fmt.Sprintf("RemoveTag(%s,%s)", IDName(id), k)}
}
func addFeatureOp(tag string, f wk.FSpec) Op {
	return Op{Kind: OpAddFeature, ID: f.ID, F: &f, Tag: tag, Name: fmt.Sprintf("AddFeature(%s)", f.String())}
}

// TagOps is every AddTag/RemoveTag on the ids over keys x vals.
func TagOps(ids []b6.FeatureID, keys, vals []string) []Op {
	var ops []Op
	for _, id := range ids {
		for _, k := range keys {
			for _, v := range vals {
				ops = append(ops, addTagOp(id, k, v))
			}
		}
		for _, k := range keys {
			ops = append(ops, removeTagOp(id, k))
		}
	}
	return ops
}

func ts(kv ...string) []wk.TagSpec {
	var out []wk.TagSpec
	for i := 0; i+1 < len(kv); i += 2 {
		out = append(out, wk.TagSpec{Key: kv[i], Value: kv[i+1]})
	}
	return out
}

// AddFeature variants: new features and replacements of base / overlay features.
var (
	AFP2Untagged = addFeatureOp("P2:new-untagged", wk.FSpec{ID: P2, Kind: wk.KPoint, LL: wk.G(2, 2)})
	AFP2S        = addFeatureOp("P2:new-#", wk.FSpec{ID: P2, Kind: wk.KPoint, LL: wk.G(2, 2), Tags: ts("#s", "x")})
	AFP2Plain    = addFeatureOp("P2:new-plain", wk.FSpec{ID: P2, Kind: wk.KPoint, LL: wk.G(2, 2), Tags: ts("p", "y")})
	AFP0Untagged = addFeatureOp("P0:untagged", wk.FSpec{ID: P0, Kind: wk.KPoint, LL: wk.G(0, 0)})
	AFP0Moved    = addFeatureOp("P0:moved-#+plain", wk.FSpec{ID: P0, Kind: wk.KPoint, LL: wk.G(1, 0), Tags: ts("#s", "y", "p", "y")})
	AFP1T        = addFeatureOp("P1:@", wk.FSpec{ID: P1, Kind: wk.KPoint, LL: wk.G(0, 2), Tags: ts("@t", "x")})
	AFW0S        = addFeatureOp("W0:#", wk.FSpec{ID: W0, Kind: wk.KPath, Path: wk.Refs(P0, P1), Tags: ts("#s", "x")})
	AFW0Rev      = addFeatureOp("W0:reversed-untagged", wk.FSpec{ID: W0, Kind: wk.KPath, Path: wk.Refs(P1, P0)})
	AFW1         = addFeatureOp("W1:new-over-P1,P2", wk.FSpec{ID: W1, Kind: wk.KPath, Path: wk.Refs(P1, P2), Tags: ts("p", "x")})
)

// Bases. A: a point with a searchable and a plain tag, an untagged point, a
// path with an '@' tag. B: a point with only a plain tag, an untagged point, an
// untagged path.
func BaseSpec(name string) wk.Spec {
	switch name {
	case "A":
		return wk.Spec{
			{ID: P0, Kind: wk.KPoint, LL: wk.G(0, 0), Tags: ts("#s", "x", "p", "x")},
			{ID: P1, Kind: wk.KPoint, LL: wk.G(0, 2)},
			{ID: W0, Kind: wk.KPath, Path: wk.Refs(P0, P1), Tags: ts("@t", "x")},
		}
	case "B":
		return wk.Spec{
			{ID: P0, Kind: wk.KPoint, LL: wk.G(0, 0), Tags: ts("p", "x")},
			{ID: P1, Kind: wk.KPoint, LL: wk.G(0, 2)},
			{ID: W0, Kind: wk.KPath, Path: wk.Refs(P0, P1)},
		}
	case "C": // two points only (the 2-feature base)
		return wk.Spec{
			{ID: P0, Kind: wk.KPoint, LL: wk.G(0, 0), Tags: ts("@t", "y", "p", "y")},
			{ID: P1, Kind: wk.KPoint, LL: wk.G(0, 2)},
		}
	}
	panic("unknown base " + name)
}

// Layer is one search: a base, an alphabet and a depth bound (0 = run to the fixpoint).
type Layer struct {
	Name  string
	Base  string
	Ops   []Op
	Depth int
}

func (l *Layer) Describe() string {
	d := "fixpoint"
	if l.Depth > 0 {
		d = fmt.Sprintf("depth<=%d", l.Depth)
	}
	return fmt.Sprintf("%s(base %s, %d ops, %s)", l.Name, l.Base, len(l.Ops), d)
}

func ids(x ...b6.FeatureID) []b6.FeatureID { return x }

// Layers returns the searches of a tier. Single-feature alphabets (and small
// two-feature ones) have a finite reachable graph and run to the fixpoint; the
// full alphabet over all IDs is depth-bounded.
func Layers(tier string) []*Layer {
	full := func(base string, depth int) *Layer {
		ops := TagOps(ids(P0, P1, W0, P2, W1, Absent), Keys, Vals)
		ops = append(ops, AFP2Untagged, AFP2S, AFP2Plain, AFP0Untagged, AFP0Moved, AFP1T, AFW0S, AFW0Rev, AFW1)
		return &Layer{Name: "full", Base: base, Ops: ops, Depth: depth}
	}
	one := func(name, base string, targets []b6.FeatureID, afs ...Op) *Layer {
		return &Layer{Name: name, Base: base, Ops: append(TagOps(targets, Keys, Vals), afs...)}
	}
	ls := []*Layer{
		one("P0", "A", ids(P0, Absent), AFP0Untagged, AFP0Moved),
		one("P1", "A", ids(P1), AFP1T),
		one("W0", "A", ids(W0), AFW0S, AFW0Rev, AFP0Moved),
		one("P2", "A", ids(P2), AFP2Untagged, AFP2S, AFP2Plain),
	}
	if tier == "thorough" {
		ls = append(ls,
			one("P0", "B", ids(P0), AFP0Untagged, AFP0Moved),
			one("W0", "B", ids(W0), AFW0S, AFW0Rev, AFP0Moved),
			one("P0", "C", ids(P0), AFP0Untagged),
			// two or three features at a time over a reduced key/value set
			&Layer{Name: "P0+W0", Base: "A", Ops: append(append(TagOps(ids(P0), []string{"#s", "p"}, Vals[:1]), TagOps(ids(W0), []string{"@t", "p"}, Vals[:1])...), AFP0Moved, AFW0Rev)},
			&Layer{Name: "P1+P2+W1", Base: "A", Ops: append(append(append(TagOps(ids(P1), []string{"@t", "p"}, Vals[:1]), TagOps(ids(P2), []string{"#s", "p"}, Vals[:1])...), TagOps(ids(W1), []string{"p"}, Vals[:1])...), AFP2Untagged, AFP2S, AFW1, AFP1T)},
			full("A", 4),
			// every ID, reduced keys/values, two steps deeper
			&Layer{Name: "lite", Base: "A", Depth: 6, Ops: append(TagOps(ids(P0, P1, W0, P2, W1, Absent), []string{"#s", "p"}, Vals[:1]), AFP2Untagged, AFP2S, AFP0Untagged, AFP0Moved, AFP1T, AFW0Rev, AFW1)},
		)
	} else {
		ls = append(ls, full("A", 2))
	}
	return ls
}

// ---- reference model -------------------------------------------------------

// AllFlag says what the reference demands of the `all` query for a feature.
type AllFlag int

const (
	AllMust     AllFlag = iota // must be returned
	AllMustNot                 // must not be returned (point whose only tag is its location, as added)
	AllDontCare                // point that lost its last tag through RemoveTag: either answer is accepted
)

type RefFeature struct {
	Kind    wk.Kind
	Tags    map[string]string // every tag incl. the geometry tag, values by string form
	Refs    []b6.FeatureID    // path: referenced points
	Touched bool              // an operation of the history changed it
	// LostLastTagByRemove: the feature is a point with only its location tag
	// because RemoveTag removed the last other tag.
	LostLastTagByRemove bool
}

type RefWorld struct {
	F map[b6.FeatureID]*RefFeature
}

func tagStrings(f wk.FSpec) map[string]string {
	m := map[string]string{}
	for _, t := range f.Feature().AllTags() {
		m[t.Key] = t.Value.String()
	}
	return m
}

func refFeature(f wk.FSpec) *RefFeature {
	return &RefFeature{Kind: f.Kind, Tags: tagStrings(f), Refs: f.Refs()}
}

func NewRefWorld(base wk.Spec) *RefWorld {
	r := &RefWorld{F: map[b6.FeatureID]*RefFeature{}}
	for _, f := range base {
		r.F[f.ID] = refFeature(f)
	}
	return r
}

func (r *RefWorld) IDs() []b6.FeatureID {
	out := make([]b6.FeatureID, 0, len(r.F))
	for id := range r.F {
		out = append(out, id)
	}
	wk.SortIDs(out)
	return out
}

// PlainTags returns the non-geometry tags.
func (f *RefFeature) PlainTags() map[string]string {
	m := map[string]string{}
	for k, v := range f.Tags {
		if KeyClass(k) != "geometry" {
			m[k] = v
		}
	}
	return m
}

func (f *RefFeature) hasPlainTags() bool {
	for k := range f.Tags {
		if KeyClass(k) != "geometry" {
			return true
		}
	}
	return false
}

func (f *RefFeature) All() AllFlag {
	if f.Kind != wk.KPoint || f.hasPlainTags() {
		return AllMust
	}
	if f.LostLastTagByRemove {
		return AllDontCare
	}
	return AllMustNot
}

// Apply applies the operation to the reference; it reports whether the
// operation is expected to be accepted (false: the world must not change) and
// whether the reference changed.
func (r *RefWorld) Apply(o Op) (accepted bool, changed bool) {
	switch o.Kind {
	case OpAddFeature:
		if o.F.Kind == wk.KPath {
			// a path needs >= 2 points that all exist
			if len(o.F.Path) < 2 {
				return false, false
			}
			for _, p := range o.F.Path {
				if p.IsRef() {
					if t, ok := r.F[p.Ref]; !ok || t.Kind != wk.KPoint {
						return false, false
					}
				}
			}
		}
		nf := refFeature(*o.F)
		nf.Touched = true
		old, ok := r.F[o.ID]
		if ok && old.LostLastTagByRemove && nf.Kind == wk.KPoint && !nf.hasPlainTags() {
			// re-adding an untagged point over one whose `all` membership is
			// unspecified leaves it unspecified
			nf.LostLastTagByRemove = true
		}
		changed = !ok || fmt.Sprint(old.Tags) != fmt.Sprint(nf.Tags) || old.LostLastTagByRemove != nf.LostLastTagByRemove
		r.F[o.ID] = nf
		return true, changed
	case OpAddTag:
		f, ok := r.F[o.ID]
		if !ok {
			return false, false
		}
		old, had := f.Tags[o.Key]
		f.Tags[o.Key] = o.Val
		f.Touched = true
		f.LostLastTagByRemove = false
		return true, !had || old != o.Val
	case OpRemoveTag:
		f, ok := r.F[o.ID]
		if !ok {
			return false, false
		}
		if _, had := f.Tags[o.Key]; !had {
			return true, false
		}
		delete(f.Tags, o.Key)
		f.Touched = true
		if f.Kind == wk.KPoint && !f.hasPlainTags() {
			f.LostLastTagByRemove = true
		}
		return true, true
	}
	panic("bad op")
}

// String is the canonical form of the reference state.
func (r *RefWorld) String() string {
	var b strings.Builder
	for _, id := range r.IDs() {
		f := r.F[id]
		keys := make([]string, 0, len(f.Tags))
		for k := range f.Tags {
			keys = append(keys, k)
		}
		sort.Strings(keys)
		fmt.Fprintf(&b, "%s{", IDName(id))
		for _, k := range keys {
			fmt.Fprintf(&b, "%s=%s;", k, f.Tags[k])
		}
		fmt.Fprintf(&b, "}all=%d ", f.All())
	}
	return b.String()
}
