package mutkit

import (
	"fmt"
	"sort"
	"strings"

	"diagonal.works/b6"
	wk "verif/worldkit"
)

// Symptom is one disagreement between a read and the reference.
type Symptom struct {
	Class string // e.g. lookup:missing-key:plain
	Msg   string
}

func tagMapString(m map[string]string) string {
	keys := make([]string, 0, len(m))
	for k := range m {
		keys = append(keys, k)
	}
	sort.Strings(keys)
	parts := make([]string, len(keys))
	for i, k := range keys {
		parts[i] = k + "=" + m[k]
	}
	return "{" + strings.Join(parts, ", ") + "}"
}

// compareTags compares a feature read through `read` with the reference map.
func compareTags(read string, f *FeatObs, want map[string]string, out *[]Symptom) {
	add := func(cls, format string, a ...interface{}) {
		*out = append(*out, Symptom{read + ":" + cls, fmt.Sprintf(format, a...)})
	}
	got := map[string]string{}
	for _, t := range f.Tags {
		if _, dup := got[t.K]; dup {
			add("duplicate-key:"+KeyClass(t.K), "%s shows key %q twice: %s", IDName(f.ID), t.K, f)
		}
		got[t.K] = t.V
	}
	keys := map[string]bool{}
	for k := range got {
		keys[k] = true
	}
	for k := range want {
		keys[k] = true
	}
	sorted := make([]string, 0, len(keys))
	for k := range keys {
		sorted = append(sorted, k)
	}
	sort.Strings(sorted)
	for _, k := range sorted {
		g, okg := got[k]
		w, okw := want[k]
		switch {
		case okw && !okg:
			add("missing-key:"+KeyClass(k), "%s lacks %s=%s: shows %s, a map would hold %s", IDName(f.ID), k, w, f, tagMapString(want))
		case okg && !okw:
			add("extra-key:"+KeyClass(k), "%s shows %s=%s which a map would not hold: shows %s, a map would hold %s", IDName(f.ID), k, g, f, tagMapString(want))
		case g != w:
			add("wrong-value:"+KeyClass(k), "%s shows %s=%s, a map would hold %s=%s (all: %s)", IDName(f.ID), k, g, k, w, tagMapString(want))
		}
	}
}

// ExpectedFind is the independent answer to a query: IDs of the reference
// features whose tag map satisfies RQ.Eval, in FeatureID.Less order. allSeen
// resolves the don't-care `all` membership of points that lost their last tag.
func ExpectedFind(ref *RefWorld, q wk.RQ, allSeen map[b6.FeatureID]bool) []b6.FeatureID {
	return NewExpecter(ref, allSeen).Find(q)
}

// Expecter evaluates many queries against one reference state.
type Expecter struct {
	ids     []b6.FeatureID
	tags    []map[string]string
	indexed []bool
}

func NewExpecter(ref *RefWorld, allSeen map[b6.FeatureID]bool) *Expecter {
	e := &Expecter{ids: ref.IDs()}
	for _, id := range e.ids {
		f := ref.F[id]
		indexed := true
		switch f.All() {
		case AllMustNot:
			indexed = false
		case AllDontCare:
			indexed = allSeen[id]
		}
		e.tags = append(e.tags, f.PlainTags())
		e.indexed = append(e.indexed, indexed)
	}
	return e
}

func (e *Expecter) Find(q wk.RQ) []b6.FeatureID {
	var out []b6.FeatureID
	for i, id := range e.ids {
		if q.Eval(id, e.tags[i], e.indexed[i]) {
			out = append(out, id)
		}
	}
	return out
}

// QueryClass abstracts values out of a query: tagged(#), keyed(@), typed(point,all), and(all,keyed(#)).
func QueryClass(q wk.RQ) string {
	switch q.Op {
	case "all":
		return "all"
	case "tagged":
		return "tagged(" + KeyClass(q.Key) + ")"
	case "keyed":
		return "keyed(" + KeyClass(q.Key) + ")"
	case "typed":
		return "typed(" + q.Type.String() + "," + QueryClass(q.Sub[0]) + ")"
	}
	parts := make([]string, len(q.Sub))
	for i, s := range q.Sub {
		parts[i] = QueryClass(s)
	}
	return q.Op + "(" + strings.Join(parts, ",") + ")"
}

// CompareFind checks one FindFeatures result: strictly increasing IDs (hence
// no duplicates) and exactly the expected set.
func CompareFind(fo *FindObs, want []b6.FeatureID, out *[]Symptom) {
	qc := "find[" + QueryClass(fo.Q) + "]"
	add := func(cls, format string, a ...interface{}) {
		*out = append(*out, Symptom{qc + ":" + cls, fmt.Sprintf(format, a...)})
	}
	if fo.Panic != "" {
		add("panic", "%s panicked: %s", fo.Q, fo.Panic)
		return
	}
	// fast path: want is strictly increasing by construction, so equality of
	// the sequences is the whole demand
	if len(fo.IDs) == len(want) {
		same := true
		for i := range want {
			if fo.IDs[i] != want[i] {
				same = false
				break
			}
		}
		if same {
			return
		}
	}
	for i := 1; i < len(fo.IDs); i++ {
		if fo.IDs[i] == fo.IDs[i-1] {
			add("duplicate", "%s returned %s twice: [%s]", fo.Q, IDName(fo.IDs[i]), idNames(fo.IDs))
		} else if !fo.IDs[i-1].Less(fo.IDs[i]) {
			add("unordered", "%s returned %s before %s: [%s]", fo.Q, IDName(fo.IDs[i-1]), IDName(fo.IDs[i]), idNames(fo.IDs))
		}
	}
	got := map[b6.FeatureID]bool{}
	for _, id := range fo.IDs {
		got[id] = true
	}
	wantSet := map[b6.FeatureID]bool{}
	for _, id := range want {
		wantSet[id] = true
		if !got[id] {
			add("missing", "%s did not return %s: got [%s] want [%s]", fo.Q, IDName(id), idNames(fo.IDs), idNames(want))
		}
	}
	for _, id := range fo.IDs {
		if !wantSet[id] {
			add("extra", "%s returned %s: got [%s] want [%s]", fo.Q, IDName(id), idNames(fo.IDs), idNames(want))
		}
	}
}

// AllSeen extracts, from the observation of the plain `all` query, which
// features it returned.
func AllSeen(w b6.World) map[b6.FeatureID]bool {
	seen := map[b6.FeatureID]bool{}
	for _, id := range Find(w, wk.RQ{Op: "all"}, false).IDs {
		seen[id] = true
	}
	return seen
}

// Compare evaluates the C12 oracle: every read against the reference.
// Symptoms come in a fixed order (existence, lookup, Get, enumeration, search).
func Compare(o *Obs, ref *RefWorld, allSeen map[b6.FeatureID]bool) []Symptom {
	var out []Symptom
	add := func(cls, format string, a ...interface{}) {
		out = append(out, Symptom{cls, fmt.Sprintf(format, a...)})
	}
	if o.Panic != "" {
		add("reads:panic", "%s", o.Panic)
	}
	for _, id := range sortedIDs(o.Has) {
		rf, present := ref.F[id]
		if o.Has[id] != present {
			add(fmt.Sprintf("has:%v-want-%v", o.Has[id], present), "HasFeatureWithID(%s) = %v, want %v", IDName(id), o.Has[id], present)
		}
		f := o.Feat[id]
		if (f != nil) != present {
			add(fmt.Sprintf("lookup:found-%v-want-%v", f != nil, present), "FindFeatureByID(%s) = %s, want present=%v", IDName(id), f, present)
			continue
		}
		if f == nil {
			continue
		}
		if f.ID != id {
			add("lookup:wrong-id", "FindFeatureByID(%s) returned %s", IDName(id), IDName(f.ID))
		}
		compareTags("lookup", f, rf.Tags, &out)
		for _, k := range GetKeys {
			w, ok := rf.Tags[k]
			if !ok {
				w = "<invalid>"
			}
			if f.Get[k] != w {
				add("get:"+KeyClass(k), "FindFeatureByID(%s).Get(%q) = %s, want %s (AllTags shows %s)", IDName(id), k, f.Get[k], w, f)
			}
		}
	}
	if o.EachErr != "" {
		add("each:error", "EachFeature returned %s", o.EachErr)
	}
	seen := map[b6.FeatureID]int{}
	for _, f := range o.Each {
		seen[f.ID]++
		rf, present := ref.F[f.ID]
		if !present {
			add("each:extra", "EachFeature produced %s, which is not in the world", f)
			continue
		}
		if seen[f.ID] == 2 {
			add("each:duplicate", "EachFeature produced %s more than once", IDName(f.ID))
		}
		compareTags("each", f, rf.Tags, &out)
	}
	for _, id := range ref.IDs() {
		if seen[id] == 0 {
			add("each:missing", "EachFeature did not produce %s", IDName(id))
		}
	}
	ex := NewExpecter(ref, allSeen)
	for _, fo := range o.Find {
		CompareFind(fo, ex.Find(fo.Q), &out)
		for i, f := range fo.Feats {
			if f == nil {
				add("find:nil-feature", "%s: Feature() is nil for %s", fo.Q, IDName(fo.IDs[i]))
				continue
			}
			if f.ID != fo.IDs[i] {
				add("find:feature-id", "%s: Feature() is %s at FeatureID() %s", fo.Q, IDName(f.ID), IDName(fo.IDs[i]))
			}
			if rf, ok := ref.F[f.ID]; ok {
				compareTags("find-feature", f, rf.Tags, &out)
			}
		}
	}
	return out
}

func SymptomsString(ss []Symptom) string {
	parts := make([]string, len(ss))
	for i, s := range ss {
		parts[i] = s.Class + ": " + s.Msg
	}
	return strings.Join(parts, "\n")
}

// C12Queries is the small search menu of the C12 oracle (C03 runs the full menus).
func C12Queries() []wk.RQ {
	all := wk.RQ{Op: "all"}
	sx := wk.RQ{Op: "tagged", Key: "#s", Val: "x"}
	sy := wk.RQ{Op: "tagged", Key: "#s", Val: "y"}
	ks := wk.RQ{Op: "keyed", Key: "#s"}
	kt := wk.RQ{Op: "keyed", Key: "@t"}
	return []wk.RQ{all, sx, sy, ks, kt,
		{Op: "typed", Type: b6.FeatureTypePoint, Sub: []wk.RQ{all}},
		{Op: "typed", Type: b6.FeatureTypePath, Sub: []wk.RQ{all}},
		{Op: "and", Sub: []wk.RQ{all, ks}},
		{Op: "or", Sub: []wk.RQ{sx, kt}},
	}
}

// C03Atoms are the atoms of the query menus run at the states of the search.
func C03Atoms() []wk.RQ {
	return []wk.RQ{{Op: "all"}, {Op: "tagged", Key: "#s", Val: "x"}, {Op: "tagged", Key: "#s", Val: "y"}, {Op: "keyed", Key: "#s"}, {Op: "keyed", Key: "@t"}}
}

// C03AtomsDeep are the atoms of the depth-3 menus at states (all five; the
// pruning is in where they are run: the states of the fixpoint layers).
func C03AtomsDeep() []wk.RQ {
	return C03Atoms()
}

var QueryTypes = []b6.FeatureType{b6.FeatureTypePoint, b6.FeatureTypePath, b6.FeatureTypeArea, b6.FeatureTypeRelation}
