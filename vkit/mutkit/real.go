package mutkit

import (
	"crypto/sha256"
	"fmt"
	"runtime/debug"
	"sort"
	"strings"

	"diagonal.works/b6"
	"diagonal.works/b6/ingest"
	"diagonal.works/b6/search"
	"verif/kit"
	wk "verif/worldkit"
)

func init() {
	// short-lived garbage only (a fresh world per transition): collect rarely
	debug.SetGCPercent(800)
}

type Hash [16]byte

func HashOf(s string) Hash {
	sum := sha256.Sum256([]byte(s))
	var h Hash
	copy(h[:], sum[:16])
	return h
}

// System is the real world together with the reference, after some history.
type System struct {
	Layer *Layer
	Base  b6.World
	W     *ingest.MutableOverlayWorld
	Ref   *RefWorld
}

// Fresh builds a fresh base world and a fresh overlay over it.
func Fresh(l *Layer) *System {
	spec := BaseSpec(l.Base)
	base, err := wk.Basic(spec, 1)
	if err != nil {
		panic("base world: " + err.Error())
	}
	return &System{Layer: l, Base: base, W: ingest.NewMutableOverlayWorld(base), Ref: NewRefWorld(spec)}
}

// ApplyReal applies the operation to the real world only.
func (s *System) ApplyReal(o Op) error {
	switch o.Kind {
	case OpAddFeature:
		return s.W.AddFeature(o.F.Feature())
	case OpAddTag:
		return s.W.AddTag(o.ID, b6.Tag{Key: o.Key, Value: b6.NewStringExpression(o.Val)})
	case OpRemoveTag:
		return s.W.RemoveTag(o.ID, o.Key)
	}
	panic("bad op")
}

// Location says where the implementation holds the target before an operation
// (used only to name violation classes, never by the oracle).
func (s *System) Location(id b6.FeatureID) string {
	features, tags, _, _, _ := s.W.VerifC12State()
	_, inOverlay := features[id]
	mods := len(tags[id]) > 0
	inBase := s.Base.HasFeatureWithID(id)
	switch {
	case inOverlay && inBase && mods:
		return "base-copied-to-overlay+stale-plain-mods"
	case inOverlay && inBase:
		return "base-copied-to-overlay"
	case inOverlay && mods:
		return "overlay-only+stale-plain-mods"
	case inOverlay:
		return "overlay-only"
	case inBase && mods:
		return "base+plain-mods"
	case inBase:
		return "base"
	}
	return "absent"
}

// ---- private state key -------------------------------------------------------

func renderIngestFeature(f ingest.Feature) string {
	var b strings.Builder
	fmt.Fprintf(&b, "%T%s", f, wk.TagsString(f.AllTags()))
	switch ff := f.(type) {
	case *ingest.AreaFeature:
		for i := 0; i < ff.Len(); i++ {
			ids, ok := ff.PathIDs(i)
			fmt.Fprintf(&b, " poly%d:%v,%v", i, ids, ok)
		}
	case *ingest.RelationFeature:
		fmt.Fprintf(&b, " members%v", ff.Members)
	}
	return b.String()
}

func sortedIDs[V any](m map[b6.FeatureID]V) []b6.FeatureID {
	out := make([]b6.FeatureID, 0, len(m))
	for id := range m {
		out = append(out, id)
	}
	wk.SortIDs(out)
	return out
}

func inorder(n *search.VerifTreeNode, f func(v search.Value)) {
	if n == nil {
		return
	}
	_, l, r, v, _ := n.VerifFields()
	inorder(l, f)
	f(v)
	inorder(r, f)
}

// indexString renders the mutable index: every token in tree order (tokens are
// never removed, so empty posting lists are state too) with the contents of its
// posting list in list order. withObjects adds object identity: whether a node
// holds the very object stored in the features map, else the stale object's
// content. Not rendered: AVL shapes and balances (C07 checks the trees
// themselves) and treeList.length, which drifts without bound (the first Insert
// into an empty list is not counted) and only feeds EstimateLength.
func indexString(index *search.TreeIndex, features map[b6.FeatureID]ingest.Feature, withObjects bool) string {
	var b strings.Builder
	val := func(v search.Value) string {
		f, ok := v.(ingest.Feature)
		if !ok {
			return fmt.Sprintf("?%T", v)
		}
		s := IDName(f.FeatureID())
		if withObjects {
			if cur, ok := features[f.FeatureID()]; !ok {
				s += "!orphan{" + renderIngestFeature(f) + "}"
			} else if cur != f {
				s += "!stale{" + renderIngestFeature(f) + "}"
			}
		}
		return s
	}
	inorder(index.VerifLists().VerifRoot(), func(v search.Value) {
		tok, list := search.VerifTreeEntry(v)
		b.WriteString("\n " + tok + ":")
		inorder(list.VerifRoot(), func(v search.Value) { b.WriteString(" " + val(v)) })
	})
	return b.String()
}

// PrivateKey renders ALL state the overlay holds: the features map (concrete
// types, tags in slice order, with value kinds), the ModifiedTags map incl.
// deleted markers, the references map (path indices; each slice sorted, its order being an artefact of map iteration inside the implementation) and the
// index (every token with its posting list contents and object identity). Go maps are rendered sorted (their order is unobservable). The
// epoch counter is omitted: it is only compared with the epoch captured by a
// live iterator, and no iterator is alive across operations.
func PrivateKey(w *ingest.MutableOverlayWorld) string {
	features, tags, references, index, _ := w.VerifC12State()
	var b strings.Builder
	b.WriteString("features:")
	for _, id := range sortedIDs(features) {
		fmt.Fprintf(&b, "\n %s=%s", IDName(id), renderIngestFeature(features[id]))
		if features[id].FeatureID() != id {
			fmt.Fprintf(&b, " ID-MISMATCH(%s)", features[id].FeatureID())
		}
	}
	b.WriteString("\ntags:")
	for _, id := range sortedIDs(tags) {
		mods := tags[id]
		keys := make([]string, 0, len(mods))
		for k := range mods {
			keys = append(keys, k)
		}
		sort.Strings(keys)
		fmt.Fprintf(&b, "\n %s{", IDName(id))
		for _, k := range keys {
			if mods[k].Deleted {
				fmt.Fprintf(&b, "%s:deleted(%q);", k, mods[k].Value)
			} else {
				fmt.Fprintf(&b, "%s=%q;", k, mods[k].Value)
			}
		}
		b.WriteString("}")
	}
	b.WriteString("\nreferences:")
	for _, id := range sortedIDs(references) {
		// The order of a reference slice follows Go map iteration order inside
		// the implementation (allReferences ranges over a map), so it differs
		// from run to run and is rendered sorted.
		var parts []string
		for _, r := range references[id] {
			if ir, ok := r.(b6.IndexedReference); ok {
				parts = append(parts, fmt.Sprintf("%s@%d", IDName(r.Source()), ir.Index()))
			} else {
				parts = append(parts, IDName(r.Source()))
			}
		}
		sort.Strings(parts)
		fmt.Fprintf(&b, "\n %s<-[%s]", IDName(id), strings.Join(parts, " "))
	}
	b.WriteString("\nindex:")
	b.WriteString(indexString(index, features, true))
	return b.String()
}

// SearchKey is what FindFeatures' ID sequence is a function of (given the
// base): the index (IDs only) and the set of IDs in the features map.
func SearchKey(w *ingest.MutableOverlayWorld) string {
	features, _, _, index, _ := w.VerifC12State()
	var b strings.Builder
	for _, id := range sortedIDs(features) {
		b.WriteString(IDName(id) + ",")
	}
	b.WriteString(indexString(index, features, false))
	return b.String()
}

// ---- observation -------------------------------------------------------------

type TagObs struct{ K, V, Kind string } // V by string form; Kind = kinded rendering

type FeatObs struct {
	ID   b6.FeatureID
	Tags []TagObs          // API order
	Get  map[string]string // key -> value string or "<invalid>"
}

type FindObs struct {
	Q     wk.RQ
	IDs   []b6.FeatureID
	Feats []*FeatObs // nil entries where Feature() was nil
	Panic string
}

type Obs struct {
	Has     map[b6.FeatureID]bool
	Feat    map[b6.FeatureID]*FeatObs
	Each    []*FeatObs
	EachErr string
	Find    []*FindObs
	Panic   string
}

// GetKeys are the keys looked up with Get on every feature.
var GetKeys = []string{"#s", "@t", "p", b6.PointTag, b6.PathTag, "zz"}

func observeFeature(f b6.Feature, withGet bool) *FeatObs {
	if f == nil {
		return nil
	}
	o := &FeatObs{ID: f.FeatureID()}
	for _, t := range f.AllTags() {
		o.Tags = append(o.Tags, TagObs{K: t.Key, V: t.Value.String(), Kind: wk.TagString(t)})
	}
	if withGet {
		o.Get = map[string]string{}
		for _, k := range GetKeys {
			g := f.Get(k)
			if !g.IsValid() {
				o.Get[k] = "<invalid>"
			} else if g.Key != k {
				o.Get[k] = "<key " + g.Key + ">" + g.Value.String()
			} else {
				o.Get[k] = g.Value.String()
			}
		}
	}
	return o
}

// Find runs one query and records the ID sequence (and the features returned).
func Find(w b6.World, q wk.RQ, withFeatures bool) *FindObs {
	fo := &FindObs{Q: q}
	cls, msg := kit.Catch(func() {
		fs := w.FindFeatures(q.B6())
		for fs.Next() {
			fo.IDs = append(fo.IDs, fs.FeatureID())
			if withFeatures {
				fo.Feats = append(fo.Feats, observeFeature(fs.Feature(), false))
			}
			if len(fo.IDs) > 1000 {
				panic("more than 1000 results")
			}
		}
	})
	if cls != "" {
		fo.Panic = cls + ": " + firstLine(msg)
	}
	return fo
}

func firstLine(s string) string {
	if i := strings.IndexByte(s, '\n'); i >= 0 {
		return s[:i]
	}
	return s
}

// Observe performs every read of the statement: lookup by ID (tags and Get),
// existence, enumeration and the given tag searches.
func Observe(w b6.World, ids []b6.FeatureID, queries []wk.RQ) *Obs {
	o := &Obs{Has: map[b6.FeatureID]bool{}, Feat: map[b6.FeatureID]*FeatObs{}}
	cls, msg := kit.Catch(func() {
		for _, id := range ids {
			o.Has[id] = w.HasFeatureWithID(id)
			o.Feat[id] = observeFeature(w.FindFeatureByID(id), true)
		}
		err := w.EachFeature(func(f b6.Feature, g int) error {
			o.Each = append(o.Each, observeFeature(f, false))
			return nil
		}, &b6.EachFeatureOptions{Goroutines: 1})
		if err != nil {
			o.EachErr = err.Error()
		}
		sort.SliceStable(o.Each, func(i, j int) bool { return o.Each[i].ID.Less(o.Each[j].ID) })
	})
	if cls != "" {
		o.Panic = cls + ": " + firstLine(msg)
	}
	for _, q := range queries {
		o.Find = append(o.Find, Find(w, q, true))
	}
	return o
}

func (f *FeatObs) String() string {
	if f == nil {
		return "nil"
	}
	parts := make([]string, len(f.Tags))
	for i, t := range f.Tags {
		parts[i] = t.Kind
	}
	return IDName(f.ID) + "[" + strings.Join(parts, "; ") + "]"
}

func idNames(ids []b6.FeatureID) string {
	parts := make([]string, len(ids))
	for i, id := range ids {
		parts[i] = IDName(id)
	}
	return strings.Join(parts, " ")
}

// String is the canonical observable dump (tags in API order, with value kinds).
func (o *Obs) String() string {
	var b strings.Builder
	ids := sortedIDs(o.Has)
	for _, id := range ids {
		fmt.Fprintf(&b, "has:%s=%v feat=%s", IDName(id), o.Has[id], o.Feat[id])
		if f := o.Feat[id]; f != nil {
			for _, k := range GetKeys {
				fmt.Fprintf(&b, " %s:%s", k, f.Get[k])
			}
		}
		b.WriteByte('\n')
	}
	b.WriteString("each:")
	for _, f := range o.Each {
		b.WriteString(" " + f.String())
	}
	b.WriteString(" " + o.EachErr + "\n")
	for _, f := range o.Find {
		fmt.Fprintf(&b, "find:%s = %s %s", f.Q, idNames(f.IDs), f.Panic)
		for _, x := range f.Feats {
			b.WriteString(" " + x.String())
		}
		b.WriteByte('\n')
	}
	b.WriteString(o.Panic)
	return b.String()
}
