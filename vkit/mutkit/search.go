package mutkit

import (
	"bufio"
	"encoding/gob"
	"fmt"
	"os"
	"path/filepath"
	"runtime"
	"strconv"
	"strings"
	"sync"
	"sync/atomic"
	"time"

	"diagonal.works/b6"
	"verif/kit"
	wk "verif/worldkit"
)

// StepResult is what one transition (history · op on a fresh world) shows.
type StepResult struct {
	Key       Hash // private state of the overlay + reference state
	Obs       Hash // observable dump
	SearchKey Hash // what search results are a function of + reference state
	KeyText   string
	ObsText   string
	Symptoms  []Symptom
	Class     string // violation class ("" = none)
	Err       string // error returned by the operation ("" = nil)
	Accepted  bool   // the reference expects the operation to be applied
	Changed   bool   // the reference state changed
	Loc       string
	Sys       *System
	// SearchOnly: every symptom is a wrong FindFeatures ID sequence (lookups,
	// Get, enumeration and the tags of returned features all agree with the
	// reference), so the reference tag map is still what the world shows.
	SearchOnly bool
}

// Replay builds a fresh system and applies the history to the real world and
// the reference. A panic inside an operation is returned as text.
func Replay(l *Layer, hist []int16) (s *System, panicked string) {
	s = Fresh(l)
	for _, j := range hist {
		o := l.Ops[j]
		cls, msg := kit.Catch(func() { s.ApplyReal(o) })
		if cls != "" {
			return s, cls + ": " + firstLine(msg)
		}
		s.Ref.Apply(o)
	}
	return s, ""
}

// Step replays hist, applies op j (j < 0: nothing) and evaluates every read
// against the reference. keepText keeps the key/obs texts (for messages).
func Step(l *Layer, hist []int16, j int, keepText bool) *StepResult {
	r := &StepResult{}
	s, p := Replay(l, hist)
	r.Sys = s
	if p != "" {
		r.Class = "replay:panic"
		r.Symptoms = []Symptom{{"replay:panic", p}}
		return r
	}
	opClass := "initial"
	if j >= 0 {
		o := l.Ops[j]
		opClass = o.Class()
		r.Loc = s.Location(o.ID)
		var err error
		cls, msg := kit.Catch(func() { err = s.ApplyReal(o) })
		r.Accepted, r.Changed = s.Ref.Apply(o)
		if cls != "" {
			r.Symptoms = []Symptom{{"op:" + cls, msg}}
			r.Class = opClass + "@" + r.Loc + ":" + cls
			return r
		}
		if err != nil {
			r.Err = err.Error()
		}
	} else {
		r.Accepted = true
	}
	queries := C12Queries()
	obs := Observe(s.W, Universe, queries)
	allSeen := map[b6.FeatureID]bool{}
	for _, id := range obs.Find[0].IDs { // queries[0] is `all`
		allSeen[id] = true
	}
	r.Symptoms = Compare(obs, s.Ref, allSeen)
	if len(r.Symptoms) > 0 {
		r.Class = opClass + "@" + r.Loc + ":" + r.Symptoms[0].Class
		r.SearchOnly = true
		for _, sy := range r.Symptoms {
			if !strings.HasPrefix(sy.Class, "find[") {
				r.SearchOnly = false
			}
		}
	}
	ref := s.Ref.String()
	key := PrivateKey(s.W)
	ot := obs.String()
	r.Key = HashOf(key + "\nref:" + ref)
	r.Obs = HashOf(ot)
	r.SearchKey = HashOf(SearchKey(s.W) + "\nref:" + ref)
	if keepText {
		r.KeyText, r.ObsText = key, ot
	}
	return r
}

// ---- plan (the discovered state graph) ---------------------------------------

type StateRec struct {
	Parent    int32
	Op        int16
	Depth     int16
	SearchRep bool // first state with its SearchKey (C03 evaluates these)
}

type LayerPlan struct {
	States       []StateRec
	Keys         []Hash
	ObsClasses   int // distinct observable dumps
	HiddenGroups int // observable dumps shown by more than one private state
	HiddenStates int // states in such groups
	HiddenSample []string
	HarnessErrs  []string // same private key, different observable dump
	Pruned       int      // transitions that violate the oracle (successor not expanded)
	// SearchBad: pruned transitions whose only symptoms are wrong search
	// results; C03 evaluates its menus on their successors too.
	SearchBad []Transition
	Panics    int
	Capped    bool
	Secs      float64
}

type Transition struct {
	State int32
	Op    int16
}

type Plan struct {
	Tier   string
	Layers []LayerPlan
	Secs   float64
}

func History(states []StateRec, i int32) []int16 {
	var rev []int16
	for i > 0 {
		rev = append(rev, states[i].Op)
		i = states[i].Parent
	}
	for a, b := 0, len(rev)-1; a < b; a, b = a+1, b-1 {
		rev[a], rev[b] = rev[b], rev[a]
	}
	return rev
}

func HistString(l *Layer, h []int16) string {
	if len(h) == 0 {
		return "(no operations)"
	}
	parts := make([]string, len(h))
	for i, j := range h {
		parts[i] = l.Ops[j].Name
	}
	return strings.Join(parts, " ; ")
}

// MaxStates caps a layer (a capped layer is reported as not exhaustive).
var MaxStates = 1500000

type succ struct {
	key, obs, skey Hash
	bad            bool
	panicked       bool
	searchOnly     bool
}

// discover is a breadth-first search; a level is expanded in parallel and
// merged in (state, op) order, so the result equals the sequential search.
func discover(l *Layer) LayerPlan {
	t0 := time.Now()
	var lp LayerPlan
	r0 := Step(l, nil, -1, false)
	lp.States = []StateRec{{Parent: -1, Op: -1, SearchRep: true}}
	lp.Keys = []Hash{r0.Key}
	obsOf := []Hash{r0.Obs}
	seen := map[Hash]int32{r0.Key: 0}
	seenSearch := map[Hash]bool{r0.SearchKey: true}
	nops := len(l.Ops)
	workers := runtime.GOMAXPROCS(0)
	if v, err := strconv.Atoi(os.Getenv("VERIF_WORKERS")); err == nil && v > 0 && v < workers {
		workers = v
	}
	for lo := 0; lo < len(lp.States) && !lp.Capped; {
		hi := len(lp.States)
		if l.Depth > 0 && int(lp.States[lo].Depth) >= l.Depth {
			break
		}
		out := make([][]succ, hi-lo)
		var next int64 = int64(lo) - 1
		var wg sync.WaitGroup
		for w := 0; w < workers; w++ {
			wg.Add(1)
			go func() {
				defer wg.Done()
				for {
					i := int(atomic.AddInt64(&next, 1))
					if i >= hi {
						return
					}
					h := History(lp.States, int32(i))
					ss := make([]succ, nops)
					for j := 0; j < nops; j++ {
						r := Step(l, h, j, false)
						ss[j] = succ{key: r.Key, obs: r.Obs, skey: r.SearchKey, bad: r.Class != "", panicked: strings.Contains(r.Class, "panic"), searchOnly: r.SearchOnly}
					}
					out[i-lo] = ss
				}
			}()
		}
		wg.Wait()
		for i := lo; i < hi && !lp.Capped; i++ {
			for j, sc := range out[i-lo] {
				if sc.bad {
					lp.Pruned++
					if sc.panicked {
						lp.Panics++
					}
					if sc.searchOnly && !seenSearch[sc.skey] {
						seenSearch[sc.skey] = true
						lp.SearchBad = append(lp.SearchBad, Transition{int32(i), int16(j)})
					}
					continue
				}
				if k, ok := seen[sc.key]; ok {
					if sc.obs != obsOf[k] && len(lp.HarnessErrs) < 5 {
						lp.HarnessErrs = append(lp.HarnessErrs, fmt.Sprintf("private key of state %d (%s) reached again by %s ; %s with a different observable dump", k, HistString(l, History(lp.States, k)), HistString(l, History(lp.States, int32(i))), l.Ops[j].Name))
					}
					continue
				}
				if len(lp.States) >= MaxStates {
					lp.Capped = true
					break
				}
				seen[sc.key] = int32(len(lp.States))
				rep := !seenSearch[sc.skey]
				seenSearch[sc.skey] = true
				lp.States = append(lp.States, StateRec{Parent: int32(i), Op: int16(j), Depth: lp.States[i].Depth + 1, SearchRep: rep})
				lp.Keys = append(lp.Keys, sc.key)
				obsOf = append(obsOf, sc.obs)
			}
		}
		lo = hi
	}
	byObs := map[Hash][]int32{}
	for i, o := range obsOf {
		byObs[o] = append(byObs[o], int32(i))
	}
	lp.ObsClasses = len(byObs)
	firsts := []int32{}
	for _, g := range byObs {
		if len(g) > 1 {
			lp.HiddenGroups++
			lp.HiddenStates += len(g)
			firsts = append(firsts, g[0])
		}
	}
	// deterministic sample: the group whose first state is smallest
	if len(firsts) > 0 {
		min := firsts[0]
		for _, f := range firsts {
			if f < min {
				min = f
			}
		}
		g := byObs[obsOf[min]]
		for n, i := range g {
			if n >= 3 {
				break
			}
			lp.HiddenSample = append(lp.HiddenSample, HistString(l, History(lp.States, i)))
		}
	}
	lp.Secs = time.Since(t0).Seconds()
	return lp
}

func planDir() string {
	r := os.Getenv("VERIF_ROOT")
	if r == "" {
		r = "/verif"
	}
	return filepath.Join(r, ".build")
}

// GetPlan returns the discovered graphs: loaded from the parent's plan file in
// kit worker processes, otherwise discovered now (and saved for the workers).
func GetPlan(tier string, layers []*Layer) *Plan {
	sig := tier
	for _, l := range layers {
		sig += "|" + l.Describe()
	}
	if p := os.Getenv("MUTKIT_PLAN"); p != "" {
		if f, err := os.Open(p); err == nil {
			var pl Plan
			err = gob.NewDecoder(bufio.NewReaderSize(f, 1<<20)).Decode(&pl)
			f.Close()
			if err == nil && pl.Tier == sig && len(pl.Layers) == len(layers) {
				return &pl
			}
		}
	}
	start := time.Now()
	pl := &Plan{Tier: sig}
	for _, l := range layers {
		pl.Layers = append(pl.Layers, discover(l))
		if os.Getenv("MUTKIT_DEBUG") != "" {
			lp := pl.Layers[len(pl.Layers)-1]
			fmt.Fprintf(os.Stderr, "discover %s: %d states, %d pruned, obs classes %d, hidden groups %d, capped %v, %.1fs\n", l.Describe(), len(lp.States), lp.Pruned, lp.ObsClasses, lp.HiddenGroups, lp.Capped, lp.Secs)
		}
	}
	pl.Secs = time.Since(start).Seconds()
	os.MkdirAll(planDir(), 0o755)
	if old, _ := filepath.Glob(filepath.Join(planDir(), "mutkit-plan-*.gob")); len(old) > 0 {
		for _, o := range old {
			if st, err := os.Stat(o); err == nil && time.Since(st.ModTime()) > time.Hour {
				os.Remove(o)
			}
		}
	}
	path := filepath.Join(planDir(), fmt.Sprintf("mutkit-plan-%d.gob", os.Getpid()))
	if f, err := os.Create(path); err == nil {
		w := bufio.NewWriterSize(f, 1<<20)
		if gob.NewEncoder(w).Encode(pl) == nil && w.Flush() == nil && f.Close() == nil {
			os.Setenv("MUTKIT_PLAN", path) // inherited by the kit's worker processes
		}
	}
	return pl
}

// Graph is a plan with lookup tables.
type Graph struct {
	Layers []*Layer
	Plan   *Plan
	Seen   []map[Hash]int32
}

func NewGraph(tier string) *Graph {
	layers := Layers(tier)
	g := &Graph{Layers: layers, Plan: GetPlan(tier, layers)}
	for _, lp := range g.Plan.Layers {
		m := make(map[Hash]int32, len(lp.Keys))
		for i, k := range lp.Keys {
			m[k] = int32(i)
		}
		g.Seen = append(g.Seen, m)
	}
	return g
}

func (g *Graph) Describe() string {
	var parts []string
	for i, l := range g.Layers {
		lp := g.Plan.Layers[i]
		c := ""
		if lp.Capped {
			c = " CAPPED"
		}
		parts = append(parts, fmt.Sprintf("%s: %d states%s", l.Describe(), len(lp.States), c))
	}
	return strings.Join(parts, "; ")
}

// QueryMenu of the C03 state checks.
func C03Menu(depth int) []wk.RQ {
	return wk.QueryMenu(C03Atoms(), depth, QueryTypes)
}
