package osmkit

import (
	"bytes"
	"context"
	"fmt"
	"io"
	"log"

	"diagonal.works/b6"
	"diagonal.works/b6/ingest"
	"diagonal.works/b6/ingest/compact"
	"diagonal.works/b6/osm"
)

func init() { log.SetOutput(io.Discard) }

// fresh copies: builders must never share slices between the two worlds.
func (in Input) clone() Input {
	var out Input
	for i := range in.Nodes {
		out.Nodes = append(out.Nodes, in.Nodes[i].Clone())
	}
	for i := range in.Ways {
		out.Ways = append(out.Ways, in.Ways[i].Clone())
	}
	for i := range in.Relations {
		out.Relations = append(out.Relations, in.Relations[i].Clone())
	}
	return out
}

// Basic builds the in-memory world with ingest.BuildWorldFromOSM.
func Basic(in Input, cores int) (b6.World, error) {
	c := in.clone()
	return ingest.BuildWorldFromOSM(c.Nodes, c.Ways, c.Relations, &ingest.BuildOptions{Cores: cores})
}

func compactFrom(src ingest.OSMSource, cores int) (*compact.World, error) {
	source, err := ingest.NewFeatureSourceFromPBF(src, &ingest.BuildOptions{Cores: cores}, context.Background())
	if err != nil {
		return nil, fmt.Errorf("source: %w", err)
	}
	data, err := compact.BuildInMemory(source, &compact.Options{Goroutines: cores, PointsScratchOutputType: compact.OutputTypeMemory})
	if err != nil {
		return nil, fmt.Errorf("build: %w", err)
	}
	w := compact.NewWorld()
	if err := w.Merge(data); err != nil {
		return nil, fmt.Errorf("merge: %w", err)
	}
	return w, nil
}

// Compact builds a compact index in memory from the same OSM elements (the
// path the repository's own tests use: MemoryOSMSource ->
// NewFeatureSourceFromPBF -> compact.BuildInMemory -> World.Merge).
func Compact(in Input, cores int) (*compact.World, error) {
	c := in.clone()
	return compactFrom(&ingest.MemoryOSMSource{Nodes: c.Nodes, Ways: c.Ways, Relations: c.Relations}, cores)
}

// PBF serialises the input with osm.Writer.
func PBF(in Input) ([]byte, error) {
	var buf bytes.Buffer
	w, err := osm.NewWriter(&buf)
	if err != nil {
		return nil, err
	}
	c := in.clone()
	for i := range c.Nodes {
		if err := w.WriteNode(&c.Nodes[i]); err != nil {
			return nil, err
		}
	}
	for i := range c.Ways {
		if err := w.WriteWay(&c.Ways[i]); err != nil {
			return nil, err
		}
	}
	for i := range c.Relations {
		if err := w.WriteRelation(&c.Relations[i]); err != nil {
			return nil, err
		}
	}
	if err := w.Flush(); err != nil {
		return nil, err
	}
	return buf.Bytes(), nil
}

type pbfBytesSource struct{ data []byte }

func (s pbfBytesSource) Read(options osm.ReadOptions, emit osm.EmitWithGoroutine, ctx context.Context) error {
	return osm.ReadPBFWithOptions(bytes.NewReader(s.data), emit, options)
}

// CompactViaPBF writes a PBF in memory and builds the compact index by reading it back.
func CompactViaPBF(in Input, cores int) (*compact.World, error) {
	data, err := PBF(in)
	if err != nil {
		return nil, fmt.Errorf("pbf: %w", err)
	}
	return compactFrom(pbfBytesSource{data}, cores)
}

// BasicViaPBF builds the in-memory world by reading the serialised PBF.
func BasicViaPBF(in Input, cores int) (b6.World, error) {
	data, err := PBF(in)
	if err != nil {
		return nil, fmt.Errorf("pbf: %w", err)
	}
	return ingest.NewWorldFromOSMSource(pbfBytesSource{data}, &ingest.BuildOptions{Cores: cores})
}

// ReadBack decodes a serialised PBF into elements (what the file says, e.g.
// with the writer's coordinate quantisation).
func ReadBack(data []byte) (Input, error) {
	var in Input
	err := osm.ReadPBF(bytes.NewReader(data), func(e osm.Element) error {
		switch e := e.(type) {
		case *osm.Node:
			in.Nodes = append(in.Nodes, e.Clone())
		case *osm.Way:
			in.Ways = append(in.Ways, e.Clone())
		case *osm.Relation:
			in.Relations = append(in.Relations, e.Clone())
		}
		return nil
	})
	return in, err
}

// BasicFromPBF / CompactFromPBF build the worlds from serialised bytes.
func BasicFromPBF(data []byte, cores int) (b6.World, error) {
	return ingest.NewWorldFromOSMSource(pbfBytesSource{data}, &ingest.BuildOptions{Cores: cores})
}

func CompactFromPBF(data []byte, cores int) (*compact.World, error) {
	return compactFrom(pbfBytesSource{data}, cores)
}
