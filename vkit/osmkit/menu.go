// Package osmkit holds what the OSM-level checks (C02, C29) share: an
// OSM-shaped input menu (a product of slots like worldkit.FeatureMenu),
// builders for both world implementations from the same osm.Node / osm.Way /
// osm.Relation slices, and an independent coding of the documented OSM ->
// feature mapping rules as an expected worldkit.Spec.
package osmkit

import (
	"fmt"
	"strings"

	"diagonal.works/b6/osm"
	wk "verif/worldkit"
)

// Input is one OSM-shaped input.
type Input struct {
	Nodes     []osm.Node
	Ways      []osm.Way
	Relations []osm.Relation
}

func (in Input) Elements() int { return len(in.Nodes) + len(in.Ways) + len(in.Relations) }

func tagsString(ts osm.Tags) string {
	if len(ts) == 0 {
		return ""
	}
	parts := make([]string, len(ts))
	for i, t := range ts {
		parts[i] = t.Key + "=" + t.Value
	}
	return "{" + strings.Join(parts, ",") + "}"
}

// String is a literal, canonical description of the input.
func (in Input) String() string {
	var b strings.Builder
	for _, n := range in.Nodes {
		fmt.Fprintf(&b, "n%d@%s%s ", n.ID, LLOf(n.Location), tagsString(n.Tags))
	}
	for _, w := range in.Ways {
		fmt.Fprintf(&b, "w%d%v%s ", w.ID, w.Nodes, tagsString(w.Tags))
	}
	for _, r := range in.Relations {
		fmt.Fprintf(&b, "r%d[", r.ID)
		for i, m := range r.Members {
			if i > 0 {
				b.WriteString(" ")
			}
			fmt.Fprintf(&b, "%c%d:%q", "nwr"[m.Type], m.ID, m.Role)
		}
		fmt.Fprintf(&b, "]%s ", tagsString(r.Tags))
	}
	return strings.TrimSpace(b.String())
}

// LLOf converts an OSM location back to exact E7 units.
func LLOf(l osm.LatLng) wk.LL { return wk.LLFromLatLng(l.ToS2LatLng()) }

func loc(l wk.LL) osm.LatLng {
	return osm.LatLng{Lat: float64(l.Lat) / 1e7, Lng: float64(l.Lng) / 1e7}
}

// IDs maps the menu's symbolic element numbers to OSM IDs. Node, way and
// relation IDs live in separate OSM ID spaces, so the same number may name a
// node, a way and a relation at once.
type IDs struct {
	Name                       string
	NodeBase, WayBase, RelBase int64
}

func (s IDs) N(i int) osm.NodeID     { return osm.NodeID(s.NodeBase + int64(i)) }
func (s IDs) W(i int) osm.WayID      { return osm.WayID(s.WayBase + int64(i)) }
func (s IDs) R(i int) osm.RelationID { return osm.RelationID(s.RelBase + int64(i)) }

// Schemes: "overlap" gives ways and relations the same numbers (way 1 and
// relation 1 both exist), "disjoint" keeps every number unique across element
// types, "large" uses values beyond 32 bits.
var Schemes = []IDs{
	{Name: "overlap", NodeBase: 0, WayBase: 0, RelBase: 0},
	{Name: "disjoint", NodeBase: 100, WayBase: 200, RelBase: 300},
	{Name: "large", NodeBase: 1 << 33, WayBase: 1<<33 + 1<<20, RelBase: 1 << 34},
}

// Node positions on the worldkit E7 grid.
//
//	n1..n4  corners of a square, counter-clockwise
//	n5..n7  a triangle strictly inside the square, counter-clockwise
//	n8      a standalone node
//	n9..n11 a second triangle east of the square, counter-clockwise
var pos = map[int]wk.LL{
	1: wk.G(0, 0), 2: wk.G(0, 2), 3: wk.G(2, 2), 4: wk.G(2, 0),
	5: {Lat: wk.G(0, 0).Lat + 500, Lng: wk.G(0, 0).Lng + 500},
	6: {Lat: wk.G(0, 0).Lat + 500, Lng: wk.G(0, 0).Lng + 1500},
	7: {Lat: wk.G(0, 0).Lat + 1500, Lng: wk.G(0, 0).Lng + 1000},
	8: wk.G(4, 0),
	9: wk.G(0, 4), 10: wk.G(0, 6), 11: wk.G(2, 6),
}

// Pos returns the location of menu node i.
func Pos(i int) wk.LL { return pos[i] }

// Element numbers that never exist (missing members).
const (
	MissingNode = 99
	MissingWay  = 77
	MissingRel  = 88
)

type Variant struct {
	Name string
	Add  func(s IDs, in *Input) // nil = adds nothing
}

type Slot struct {
	Name     string
	Variants []Variant
	Quick    int // leading variants used by the quick tier (0 = all)
}

func tags(kv ...string) osm.Tags {
	t := osm.Tags{}
	for i := 0; i+1 < len(kv); i += 2 {
		t = append(t, osm.Tag{Key: kv[i], Value: kv[i+1]})
	}
	return t
}

func node(i int, t osm.Tags) Variant {
	name := "plain"
	if len(t) > 0 {
		name = "tags" + tagsString(t)
	}
	return Variant{name, func(s IDs, in *Input) {
		in.Nodes = append(in.Nodes, osm.Node{ID: s.N(i), Location: loc(pos[i]), Tags: t})
	}}
}

func way(name string, w int, nodes []int, t osm.Tags) Variant {
	return Variant{name, func(s IDs, in *Input) {
		ns := make([]osm.NodeID, len(nodes))
		for i, n := range nodes {
			ns[i] = s.N(n)
		}
		in.Ways = append(in.Ways, osm.Way{ID: s.W(w), Nodes: ns, Tags: t})
	}}
}

// M is a symbolic relation member: T is 'n', 'w' or 'r'.
type M struct {
	T    byte
	I    int
	Role string
}

func rel(name string, r int, ms []M, t osm.Tags) Variant {
	return Variant{name, func(s IDs, in *Input) {
		members := make([]osm.Member, len(ms))
		for i, m := range ms {
			switch m.T {
			case 'n':
				members[i] = osm.Member{Type: osm.ElementTypeNode, ID: osm.AnyID(s.N(m.I)), Role: m.Role}
			case 'w':
				members[i] = osm.Member{Type: osm.ElementTypeWay, ID: osm.AnyID(s.W(m.I)), Role: m.Role}
			case 'r':
				members[i] = osm.Member{Type: osm.ElementTypeRelation, ID: osm.AnyID(s.R(m.I)), Role: m.Role}
			}
		}
		in.Relations = append(in.Relations, osm.Relation{ID: s.R(r), Members: members, Tags: t})
	}}
}

func absent() Variant { return Variant{"absent", nil} }

func both(a, b Variant) Variant {
	return Variant{a.Name + "+" + b.Name, func(s IDs, in *Input) {
		if a.Add != nil {
			a.Add(s, in)
		}
		if b.Add != nil {
			b.Add(s, in)
		}
	}}
}

// Menu is the shared product of slots. Way numbers: A=1 (over the square),
// B=2 (inner triangle or a street joining at n2), C=3 (second triangle, or a
// street joining at n3).
// Relation numbers: M=1 (multipolygon), P=2, Q=3 (plain relations; Q may
// contain P, never the reverse, so relation membership is acyclic).
//
// Nodes n3..n7 and n9..n11 are always present and untagged; n2 (an interior
// node of the open variants of way A, and the junction with way B) varies
// over untagged / searchable tag / plain tag / missing.
func Menu() []Slot {
	return []Slot{
		{Name: "n2", Quick: 3, Variants: []Variant{
			node(2, nil),
			node(2, tags("highway", "crossing")),
			absent(),
			node(2, tags("name", "two")),
		}},
		{Name: "n1+n8", Quick: 2, Variants: []Variant{
			both(node(1, nil), absent()),
			both(node(1, tags("amenity", "cafe", "name", "one")), node(8, tags("wikidata", "Q1", "note", "a b"))),
			both(node(1, nil), node(8, nil)),
		}},
		{Name: "wayA", Quick: 4, Variants: []Variant{
			way("closed-ccw-building", 1, []int{1, 2, 3, 4, 1}, tags("building", "yes", "name", "hall")),
			way("open-highway", 1, []int{1, 2, 3}, tags("highway", "path", "name", "street")),
			way("closed-cw-untagged", 1, []int{1, 4, 3, 2, 1}, nil),
			absent(),
			way("open-untagged-through-n2", 1, []int{1, 2, 3, 4}, nil),
			way("closed-ccw-untagged", 1, []int{1, 2, 3, 4, 1}, nil),
			way("closed-two-nodes", 1, []int{1, 3, 1}, tags("building", "yes")),
			way("one-node", 1, []int{1}, tags("area", "yes")),
		}},
		{Name: "wayB", Quick: 3, Variants: []Variant{
			absent(),
			way("open-joins-n2", 2, []int{9, 2, 4}, tags("highway", "footway")),
			way("closed-inner-ccw", 2, []int{5, 6, 7, 5}, nil),
			way("closed-inner-cw-tagged", 2, []int{5, 7, 6, 5}, tags("natural", "water", "name", "pond")),
			way("open-missing-node", 2, []int{2, MissingNode}, tags("highway", "path")),
			way("open-inner", 2, []int{5, 6, 7}, nil),
		}},
		{Name: "wayC", Quick: 3, Variants: []Variant{
			absent(),
			way("closed-tagged", 3, []int{9, 10, 11, 9}, tags("landuse", "grass", "name", "green")),
			way("open-joins-n3", 3, []int{3, 9}, tags("highway", "service")),
			way("closed-untagged", 3, []int{9, 10, 11, 9}, nil),
		}},
		{Name: "relM", Quick: 3, Variants: []Variant{
			absent(),
			rel("mp-outerA-innerB", 1, []M{{'w', 1, "outer"}, {'w', 2, "inner"}}, tags("type", "multipolygon", "building", "yes", "name", "ring")),
			rel("mp-outerA-innerB-norole-C", 1, []M{{'w', 1, "outer"}, {'w', 2, "inner"}, {'w', 3, ""}}, tags("type", "multipolygon", "landuse", "park")),
			rel("mp-outerA", 1, []M{{'w', 1, "outer"}}, tags("type", "multipolygon", "leisure", "garden")),
			rel("mp-norole-A-outerC", 1, []M{{'w', 1, ""}, {'w', 3, "outer"}}, tags("type", "multipolygon")),
			rel("mp-node-outerA-missing-inner", 1, []M{{'n', 1, "admin_centre"}, {'w', 1, "outer"}, {'w', MissingWay, "inner"}}, tags("type", "multipolygon", "natural", "wood")),
		}},
		{Name: "relP", Quick: 3, Variants: []Variant{
			absent(),
			rel("wayA-relM-n8", 2, []M{{'w', 1, "x"}, {'r', 1, "sub"}, {'n', 8, ""}}, tags("type", "site", "name", "campus")),
			rel("n1-wayA-wayB", 2, []M{{'n', 1, "stop"}, {'w', 1, ""}, {'w', 2, "via"}}, tags("type", "route", "route", "bus", "name", "r")),
			rel("wayC-missing", 2, []M{{'w', 3, "outer"}, {'w', MissingWay, "gone"}, {'n', MissingNode, "gone"}, {'r', MissingRel, "gone"}}, tags("network", "x")),
			rel("empty", 2, nil, tags("type", "site")),
		}},
		{Name: "relQ", Quick: 2, Variants: []Variant{
			absent(),
			rel("relP-n1-relM", 3, []M{{'r', 2, "sub"}, {'n', 1, ""}, {'r', 1, "part"}}, tags("type", "collection", "fhrs:id", "7")),
			rel("wayB-wayC-untagged", 3, []M{{'w', 2, "inner"}, {'w', 3, "outer"}}, nil),
			rel("wayA-twice", 3, []M{{'w', 1, "a"}, {'w', 1, "b"}}, tags("route", "hiking")),
		}},
	}
}

// TagTableSlots is a second, small product aimed at the shape of the search
// token table rather than at geometry: nodes n1, n2 and n8 each carry no tag
// or one of two values of one of four searchable keys chosen to sort at the
// start, in the middle and at the end of the table (so every key is met as
// the first, an inner and the last run of tokens, with one and with two
// distinct values, shared or not between nodes).
func TagTableSlots() []Slot {
	keys := []string{"amenity", "shop", "waterway", "wikidata"}
	var out []Slot
	for _, n := range []int{1, 2, 8} {
		s := Slot{Name: fmt.Sprintf("n%d", n), Variants: []Variant{node(n, nil)}}
		for _, k := range keys {
			for _, v := range []string{"a", "b"} {
				s.Variants = append(s.Variants, node(n, tags(k, v)))
			}
		}
		out = append(out, s)
	}
	return out
}

// fixedNodes are present in every input (untagged).
var fixedNodes = []int{3, 4, 5, 6, 7, 9, 10, 11}

// Expand builds the input for a choice of one variant per slot.
func Expand(slots []Slot, choice []int, s IDs) Input {
	var in Input
	for i, sl := range slots {
		if v := sl.Variants[choice[i]]; v.Add != nil {
			v.Add(s, &in)
		}
	}
	for _, n := range fixedNodes {
		in.Nodes = append(in.Nodes, osm.Node{ID: s.N(n), Location: loc(pos[n])})
	}
	return in
}

func Radices(slots []Slot, tier string) []int {
	r := make([]int, len(slots))
	for i, s := range slots {
		r[i] = len(s.Variants)
		if tier != "thorough" && s.Quick > 0 && s.Quick < r[i] {
			r[i] = s.Quick
		}
	}
	return r
}

func ChoiceNames(slots []Slot, choice []int) string {
	out := make([]string, len(slots))
	for i, s := range slots {
		out[i] = s.Name + ":" + s.Variants[choice[i]].Name
	}
	return strings.Join(out, " ")
}

// Block is a contiguous range of case indices: one ID scheme x the product of
// the given radices.
type Block struct {
	Scheme  IDs
	Radices []int
	N       int64
	// ViaPBF: the elements are serialised with osm.Writer and both worlds are
	// built by reading the bytes back (the production decoding path).
	ViaPBF bool
}

// Blocks lays the case space of a tier out: quick = the quick variants under
// the overlap and disjoint schemes; thorough = every variant under the overlap
// scheme plus the quick variants under the disjoint scheme and, through an
// in-memory PBF file, under the large scheme.
func Blocks(slots []Slot, tier string) []Block {
	mk := func(s IDs, t string) Block {
		r := Radices(slots, t)
		n := int64(1)
		for _, x := range r {
			n *= int64(x)
		}
		return Block{Scheme: s, Radices: r, N: n}
	}
	if tier == "thorough" {
		pbf := mk(Schemes[2], "quick")
		pbf.ViaPBF = true
		return []Block{mk(Schemes[0], "thorough"), mk(Schemes[1], "quick"), pbf}
	}
	return []Block{mk(Schemes[0], "quick"), mk(Schemes[1], "quick")}
}

func Total(bs []Block) int64 {
	n := int64(0)
	for _, b := range bs {
		n += b.N
	}
	return n
}

// Locate decodes case index i into its block and choice of variants.
func Locate(bs []Block, i int64) (Block, []int) {
	for _, b := range bs {
		if i < b.N {
			d := make([]int, len(b.Radices))
			for j, r := range b.Radices {
				d[j] = int(i % int64(r))
				i /= int64(r)
			}
			return b, d
		}
		i -= b.N
	}
	panic("case index out of range")
}

func BlocksString(bs []Block) string {
	parts := make([]string, len(bs))
	for i, b := range bs {
		via := ""
		if b.ViaPBF {
			via = " via osm.Writer/ReadPBF"
		}
		parts[i] = fmt.Sprintf("%s IDs%s x %v variants per slot = %d", b.Scheme.Name, via, b.Radices, b.N)
	}
	return strings.Join(parts, "; ")
}
