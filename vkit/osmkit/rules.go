package osmkit

import (
	"diagonal.works/b6"
	"diagonal.works/b6/osm"
	wk "verif/worldkit"
)

// Independent coding of the documented OSM -> feature mapping (property C29):
//
//   node      -> point (namespace openstreetmap.org/node) with the node's tags
//   way       -> path (namespace openstreetmap.org/way) over its nodes in order
//   closed way (first node == last node)
//             -> additionally an area (same namespace and value) with one
//                polygon given by the path; the area carries the way's tags,
//                the path keeps none
//   relation with type=multipolygon
//             -> an area (namespace openstreetmap.org/relation) whose polygons
//                follow the way members in order: a member with role "outer"
//                (or no role) starts a polygon, "inner" members add loops to
//                the polygon of the preceding outer; no relation feature
//   any other relation
//             -> a relation whose i-th member points at the feature the i-th
//                OSM member became: node -> point, closed way -> area, other
//                way -> path, multipolygon relation -> area, other relation ->
//                relation; roles are kept. Members absent from the input are
//                treated as what their element type is by default (path,
//                relation, point).
//   tag keys  -> the documented table of searchable keys maps k to #k (or @k
//                for identifier-like keys); every other key is unchanged.

// SearchableKeys is the documented mapping, copied from the table in the
// ingest documentation (ingest/osm.go osmTagMapping) as data, not by reference.
var SearchableKeys = map[string]string{
	"amenity": "#amenity", "barrier": "#barrier", "boundary": "#boundary", "bridge": "#bridge",
	"building": "#building", "highway": "#highway", "landuse": "#landuse", "leisure": "#leisure",
	"natural": "#natural", "network": "#network", "place": "#place", "railway": "#railway",
	"route": "#route", "shop": "#shop", "tourism": "#tourism", "water": "#water",
	"waterway": "#waterway", "fhrs:id": "@fhrs:id", "wikidata": "@wikidata", "wikipedia": "@wikipedia",
}

func mapTags(ts osm.Tags) []wk.TagSpec {
	var out []wk.TagSpec
	for _, t := range ts {
		k := t.Key
		if m, ok := SearchableKeys[k]; ok {
			k = m
		}
		out = append(out, wk.TagSpec{Key: k, Value: t.Value})
	}
	return out
}

const (
	nsNode = "openstreetmap.org/node"
	nsWay  = "openstreetmap.org/way"
	nsRel  = "openstreetmap.org/relation"
)

func PointID(id osm.NodeID) b6.FeatureID       { return wk.PointID(nsNode, uint64(id)) }
func PathID(id osm.WayID) b6.FeatureID         { return wk.PathID(nsWay, uint64(id)) }
func WayAreaID(id osm.WayID) b6.FeatureID      { return wk.AreaID(nsWay, uint64(id)) }
func RelAreaID(id osm.RelationID) b6.FeatureID { return wk.AreaID(nsRel, uint64(id)) }
func RelID(id osm.RelationID) b6.FeatureID     { return wk.RelationID(nsRel, uint64(id)) }

func closed(w *osm.Way) bool {
	return len(w.Nodes) > 0 && w.Nodes[0] == w.Nodes[len(w.Nodes)-1]
}

func multipolygon(r *osm.Relation) bool {
	for _, t := range r.Tags {
		if t.Key == "type" {
			return t.Value == "multipolygon"
		}
	}
	return false
}

// Expectation is what the rules demand of the world built from an input.
type Expectation struct {
	// AsGiven is the rule-by-rule translation of every element.
	AsGiven wk.Spec
	// Valid is AsGiven without the features the build is documented to delete
	// as invalid (paths with missing nodes or fewer than two points, invalid
	// loops, areas over such paths); clockwise closed paths are inverted.
	Valid   wk.Spec
	Dropped map[b6.FeatureID]string
	// Unconstrained lists areas of multipolygon relations whose way members
	// are not all present closed ways: the rules do not say what they become
	// (the source marks reassembly from unclosed or absent ways as TODO), so
	// nothing is demanded of them. They are not in AsGiven / Valid.
	Unconstrained []b6.FeatureID
	// Universe: every ID the input mentions, in every feature type it could
	// have become, present or not.
	Universe []b6.FeatureID
}

func Expect(in Input) Expectation {
	var e Expectation
	ways := map[osm.WayID]*osm.Way{}
	for i := range in.Ways {
		ways[in.Ways[i].ID] = &in.Ways[i]
	}
	rels := map[osm.RelationID]*osm.Relation{}
	for i := range in.Relations {
		rels[in.Relations[i].ID] = &in.Relations[i]
	}
	seen := map[b6.FeatureID]bool{}
	mention := func(ids ...b6.FeatureID) {
		for _, id := range ids {
			if !seen[id] {
				seen[id] = true
				e.Universe = append(e.Universe, id)
			}
		}
	}

	for i := range in.Nodes {
		n := &in.Nodes[i]
		e.AsGiven = append(e.AsGiven, wk.FSpec{ID: PointID(n.ID), Kind: wk.KPoint, LL: LLOf(n.Location), Tags: mapTags(n.Tags)})
		mention(PointID(n.ID))
	}
	for i := range in.Ways {
		w := &in.Ways[i]
		path := wk.FSpec{ID: PathID(w.ID), Kind: wk.KPath}
		for _, n := range w.Nodes {
			path.Path = append(path.Path, wk.PathPt{Ref: PointID(n)})
			mention(PointID(n))
		}
		mention(PathID(w.ID), WayAreaID(w.ID))
		if closed(w) {
			e.AsGiven = append(e.AsGiven, path)
			e.AsGiven = append(e.AsGiven, wk.FSpec{ID: WayAreaID(w.ID), Kind: wk.KArea, Tags: mapTags(w.Tags),
				Polys: []wk.PolySpec{{Paths: []b6.FeatureID{PathID(w.ID)}}}})
		} else {
			path.Tags = mapTags(w.Tags)
			e.AsGiven = append(e.AsGiven, path)
		}
	}
	memberID := func(m osm.Member) b6.FeatureID {
		switch m.Type {
		case osm.ElementTypeNode:
			return PointID(osm.NodeID(m.ID))
		case osm.ElementTypeWay:
			if w, ok := ways[osm.WayID(m.ID)]; ok && closed(w) {
				return WayAreaID(osm.WayID(m.ID))
			}
			return PathID(osm.WayID(m.ID))
		default:
			if r, ok := rels[osm.RelationID(m.ID)]; ok && multipolygon(r) {
				return RelAreaID(osm.RelationID(m.ID))
			}
			return RelID(osm.RelationID(m.ID))
		}
	}
	for i := range in.Relations {
		r := &in.Relations[i]
		mention(RelID(r.ID), RelAreaID(r.ID))
		for _, m := range r.Members {
			switch m.Type {
			case osm.ElementTypeNode:
				mention(PointID(osm.NodeID(m.ID)))
			case osm.ElementTypeWay:
				mention(PathID(osm.WayID(m.ID)), WayAreaID(osm.WayID(m.ID)))
			default:
				mention(RelID(osm.RelationID(m.ID)), RelAreaID(osm.RelationID(m.ID)))
			}
		}
		if multipolygon(r) {
			area := wk.FSpec{ID: RelAreaID(r.ID), Kind: wk.KArea, Tags: mapTags(r.Tags)}
			defined := true
			for _, m := range r.Members {
				if m.Type != osm.ElementTypeWay {
					continue
				}
				if w, ok := ways[osm.WayID(m.ID)]; !ok || !closed(w) {
					defined = false
					break
				}
				if m.Role == "inner" && len(area.Polys) > 0 {
					p := &area.Polys[len(area.Polys)-1]
					p.Paths = append(p.Paths, PathID(osm.WayID(m.ID)))
				} else if m.Role == "inner" {
					defined = false // an inner ring before any outer: not covered by the rules
					break
				} else {
					area.Polys = append(area.Polys, wk.PolySpec{Paths: []b6.FeatureID{PathID(osm.WayID(m.ID))}})
				}
			}
			if defined {
				e.AsGiven = append(e.AsGiven, area)
			} else {
				e.Unconstrained = append(e.Unconstrained, area.ID)
			}
			continue
		}
		rf := wk.FSpec{ID: RelID(r.ID), Kind: wk.KRelation, Tags: mapTags(r.Tags)}
		for _, m := range r.Members {
			rf.Members = append(rf.Members, wk.MemberSpec{ID: memberID(m), Role: m.Role})
		}
		e.AsGiven = append(e.AsGiven, rf)
	}
	e.Valid, e.Dropped = wk.ValidSubset(e.AsGiven)
	wk.SortIDs(e.Universe)
	return e
}
