// Package parkit holds what the parallelism checks (C35, C36) share: source
// specs on which build order can matter, builders parameterised by core
// count, and the world dump used to compare results.
package parkit

import (
	"fmt"
	"sort"
	"strings"

	"diagonal.works/b6"
	wk "verif/worldkit"
)

const ns = "diagonal.works/test"

func P(i int) b6.FeatureID { return wk.PointID(ns, uint64(i)) }
func W(i int) b6.FeatureID { return wk.PathID(ns, uint64(i)) }
func A(i int) b6.FeatureID { return wk.AreaID(ns, uint64(i)) }
func R(i int) b6.FeatureID { return wk.RelationID(ns, uint64(i)) }

func square() wk.Spec {
	return wk.Spec{
		{ID: P(1), Kind: wk.KPoint, LL: wk.G(0, 0), Tags: []wk.TagSpec{{Key: "#amenity", Value: "cafe"}}},
		{ID: P(2), Kind: wk.KPoint, LL: wk.G(0, 2)},
		{ID: P(3), Kind: wk.KPoint, LL: wk.G(2, 2)},
		{ID: P(4), Kind: wk.KPoint, LL: wk.G(2, 0), Tags: []wk.TagSpec{{Key: "name", Value: "corner"}}},
	}
}

type Source struct {
	Name string
	Spec wk.Spec
}

// Sources: small specs chosen so that the order in which goroutines validate,
// invert, drop and index features can matter.
func Sources(tier string) []Source {
	ccw := wk.FSpec{ID: W(1), Kind: wk.KPath, Path: wk.Refs(P(1), P(2), P(3), P(4), P(1)), Tags: []wk.TagSpec{{Key: "#highway", Value: "path"}}}
	cw := wk.FSpec{ID: W(1), Kind: wk.KPath, Path: wk.Refs(P(1), P(4), P(3), P(2), P(1))}
	open := wk.FSpec{ID: W(2), Kind: wk.KPath, Path: wk.Refs(P(2), P(4)), Tags: []wk.TagSpec{{Key: "#highway", Value: "footway"}}}
	broken := wk.FSpec{ID: W(3), Kind: wk.KPath, Path: wk.Refs(P(1), P(9)), Tags: []wk.TagSpec{{Key: "#highway", Value: "path"}}}
	area := wk.FSpec{ID: A(1), Kind: wk.KArea, Polys: []wk.PolySpec{{Paths: []b6.FeatureID{W(1)}}}, Tags: []wk.TagSpec{{Key: "#building", Value: "yes"}}}
	areaOverBroken := wk.FSpec{ID: A(2), Kind: wk.KArea, Polys: []wk.PolySpec{{Paths: []b6.FeatureID{W(3)}}}, Tags: []wk.TagSpec{{Key: "#building", Value: "shed"}}}
	rel := wk.FSpec{ID: R(1), Kind: wk.KRelation, Members: []wk.MemberSpec{{ID: P(1), Role: "stop"}, {ID: W(1), Role: ""}, {ID: A(1), Role: "outer"}}, Tags: []wk.TagSpec{{Key: "#route", Value: "bus"}}}
	out := []Source{
		{"square+ccw-path+area", append(square(), ccw, area)},
		{"square+cw-path+area", append(square(), cw, area)},
		{"square+cw-path+area+open-path+relation", append(square(), cw, area, open, rel)},
		{"square+ccw-path+broken-path+area-over-broken", append(square(), ccw, broken, areaOverBroken)},
	}
	if tier == "thorough" {
		out = append(out,
			Source{"square+ccw-path+area+open-path+relation", append(square(), ccw, area, open, rel)},
			Source{"points-only", square()},
			Source{"square+cw-path+area+broken-path+area-over-broken+relation", append(square(), cw, area, broken, areaOverBroken, rel)},
		)
	}
	return out
}

func Universe() []b6.FeatureID {
	return []b6.FeatureID{P(1), P(2), P(3), P(4), P(9), W(1), W(2), W(3), A(1), A(2), R(1)}
}

var atoms = []wk.RQ{{Op: "all"}, {Op: "keyed", Key: "#highway"}, {Op: "tagged", Key: "#building", Val: "yes"}, {Op: "keyed", Key: "#amenity"}, {Op: "keyed", Key: "#route"}}

// Build builds the named world kind from the source with the given cores.
func Build(kind string, s wk.Spec, cores int) (b6.World, error) {
	switch kind {
	case "basic":
		return wk.Basic(s, cores)
	case "compact":
		return wk.Compact(s, cores)
	}
	return nil, fmt.Errorf("unknown kind %s", kind)
}

// Dump renders every answer of the world (compact worlds do not implement
// Feature.References on areas/relations, nor collections).
func Dump(w b6.World) wk.Dump {
	return wk.DumpWorld(w, &wk.DumpOptions{IDs: Universe(), Queries: wk.NamedQueries(atoms), NoFeatureRefs: true, Skip: []string{"loc:path/", "loc:area/", "loc:relation/"}})
}

func DiffString(a, b wk.Dump) (string, string) {
	d := wk.Diff(a, b, true)
	if len(d) == 0 {
		return "", ""
	}
	classes := map[string]bool{}
	for _, x := range d {
		classes[wk.SectionClass(x)] = true
	}
	var cs []string
	for c := range classes {
		cs = append(cs, c)
	}
	sort.Strings(cs)
	return strings.Join(cs, "+"), strings.Join(d, "\n")
}
