package parkit

import (
	"context"
	"fmt"

	"diagonal.works/b6"
	"diagonal.works/b6/ingest"
	"diagonal.works/b6/ingest/compact"
	"verif/sched"
	"verif/sched/vsync"
	wk "verif/worldkit"
)

// PartitionSource is a FeatureSource that delivers a fixed, order-preserving
// partition of a feature list: goroutine g emits Lists[g] in order. It is the
// nondeterminism of ingest.MemoryFeatureSource (feeder goroutines taking the
// next feature from a channel) reduced to its essence: which goroutine gets
// which feature. Every (partition, interleaving of the emit calls) is a
// behaviour of MemoryFeatureSource with len(Lists) goroutines under some
// schedule; the channel hand-offs themselves are not re-explored. Like
// MemoryFeatureSource it emits the same feature objects on every Read and
// ignores the Skip options (the builders' callbacks filter by type).
type PartitionSource struct {
	Lists [][]ingest.Feature
}

func (p PartitionSource) Read(options ingest.ReadOptions, emit ingest.Emit, ctx context.Context) error {
	if options.Goroutines > 0 && len(p.Lists) > options.Goroutines {
		return fmt.Errorf("partition source: %d lists for %d goroutines", len(p.Lists), options.Goroutines)
	}
	errs := make([]error, len(p.Lists))
	var wg vsync.WaitGroup
	wg.Add(len(p.Lists))
	for g := range p.Lists {
		g := g
		sched.Go(func() {
			defer wg.Done()
			for _, f := range p.Lists[g] {
				if err := emit(f, g); err != nil {
					errs[g] = err
					return
				}
			}
		})
	}
	wg.Wait()
	for _, err := range errs {
		if err != nil {
			return err
		}
	}
	return nil
}

// Partition splits the spec's features by assign (feature i goes to list
// assign[i]), keeping the spec's order within each list.
func Partition(s wk.Spec, assign []int, lists int) PartitionSource {
	p := PartitionSource{Lists: make([][]ingest.Feature, lists)}
	for i, f := range s.Features() {
		p.Lists[assign[i]] = append(p.Lists[assign[i]], f)
	}
	return p
}

// BuildFrom builds the named world kind from an arbitrary source.
func BuildFrom(kind string, src ingest.FeatureSource, cores int) (b6.World, error) {
	switch kind {
	case "basic":
		return ingest.NewWorldFromSource(src, &ingest.BuildOptions{Cores: cores})
	case "compact":
		data, err := compact.BuildInMemory(src, &compact.Options{Goroutines: cores, PointsScratchOutputType: compact.OutputTypeMemory})
		if err != nil {
			return nil, fmt.Errorf("build: %w", err)
		}
		w := compact.NewWorld()
		if err := w.Merge(data); err != nil {
			return nil, fmt.Errorf("merge: %w", err)
		}
		return w, nil
	}
	return nil, fmt.Errorf("unknown kind %s", kind)
}
