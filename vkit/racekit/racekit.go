// Package racekit runs the auxiliary free-running race-detector pass of the
// scheduler checks (engine E3). The controlled scheduler decides atomicity,
// ordering and deadlock at synchronisation operations under the assumption
// that everything else is data-race free; that assumption cannot be checked
// under the scheduler itself (its hand-offs are happens-before edges that
// blind the detector), so the same harness bodies are run free-running in a
// separate binary built with -race from the UN-rewritten tree. A report whose
// two accesses are both in repository code is a concrete witness and is
// raised; silence is sampling and is recorded as such.
package racekit

import (
	"context"
	"fmt"
	"os"
	"os/exec"
	"path/filepath"
	"regexp"
	"strings"
	"time"

	"verif/kit"
)

var raceRe = regexp.MustCompile(`(?s)WARNING: DATA RACE.*?==================`)

// Pass builds package pkg (relative to the vkit module, e.g. "./checks/c40")
// with -race and the extra build tags, runs it with args/env and turns race
// reports into violations of r.
func Pass(r *kit.Result, name, pkg, tags string, args []string, env []string) {
	root := os.Getenv("VERIF_ROOT")
	if root == "" {
		root = "/verif"
	}
	dir := os.Getenv("VERIF_RUN_DIR")      // set by bin/check: this invocation's private build directory
	ov := os.Getenv("VERIF_PLAIN_OVERLAY") // plain overlay (transforms/accessors, no rewriting)
	r.Evals = 1
	r.Nontrivial = true
	r.Key = "race-pass"
	if dir == "" || ov == "" {
		r.Outcome = "race-pass:build-failed"
		r.Count("race_pass_build_failed", 1)
		r.Sample = "VERIF_RUN_DIR / VERIF_PLAIN_OVERLAY not set (run through bin/check)"
		return
	}
	bin := filepath.Join(dir, name+"race")
	alltags := "verif"
	if tags != "" {
		alltags += "," + tags
	}
	build := exec.Command("go", "build", "-race", "-tags", alltags, "-overlay", ov, "-o", bin, pkg)
	build.Dir = filepath.Join(root, "vkit")
	if out, err := build.CombinedOutput(); err != nil {
		r.Outcome = "race-pass:build-failed"
		r.Count("race_pass_build_failed", 1)
		r.Violate("harness:race-pass-build-failed", "%s", string(out))
		return
	}
	// The pass is free-running, so a change that makes the bodies block for
	// ever would hang it: it is stopped at a time limit. Running out of time
	// is never a verdict (blocking is decided by the scheduler cases, which
	// detect deadlock exactly); the reports printed until then still count.
	limit := 200 * time.Second
	if v := os.Getenv("VERIF_RACE_LIMIT_SECONDS"); v != "" {
		var n int
		if fmt.Sscan(v, &n); n > 0 {
			limit = time.Duration(n) * time.Second
		}
	}
	ctx, cancel := context.WithTimeout(context.Background(), limit)
	defer cancel()
	cmd := exec.CommandContext(ctx, bin, args...)
	cmd.WaitDelay = 5 * time.Second
	cmd.Env = append(append(os.Environ(), "GOMAXPROCS=16", "GORACE=halt_on_error=0"), env...)
	out, err := cmd.CombinedOutput()
	races := raceRe.FindAllString(string(out), -1)
	if ctx.Err() != nil {
		r.Count("race_pass_stopped_at_its_time_limit_inconclusive", 1)
	} else if !strings.Contains(string(out), "race pass done") {
		r.Violate("harness:race-pass-did-not-finish", "%v\n%s", err, tailString(string(out), 3000))
	}
	inRepo, other := 0, 0
	seen := map[string]bool{}
	for _, rep := range races {
		site, both := Site(rep)
		if !both {
			other++
			continue
		}
		inRepo++
		if !seen[site] {
			seen[site] = true
			if len(rep) > 3000 {
				rep = rep[:3000]
			}
			r.Violate("data-race:"+site, "race detector report (free-running pass):\n%s", rep)
		}
	}
	r.Count("race_reports", int64(inRepo))
	r.Count("race_reports_with_an_access_in_harness_code_ignored", int64(other))
	r.Outcome = fmt.Sprintf("race-pass:%d-reports", inRepo)
	r.Sample = map[string]interface{}{"scenario": "race-pass", "args": args, "reports": inRepo}
}

// BodyMode reports whether this process is the race-pass binary (started by
// Pass with VERIF_RACE_BODY=<iterations>) and how often to run each body.
func BodyMode() (int, bool) {
	v := os.Getenv("VERIF_RACE_BODY")
	if v == "" {
		return 0, false
	}
	n := 1
	fmt.Sscan(v, &n)
	if n < 1 {
		n = 1
	}
	return n, true
}

func tailString(s string, n int) string {
	if len(s) > n {
		return s[len(s)-n:]
	}
	return s
}

// Site names the two accesses of a report by their innermost functions and
// says whether both are in repository code.
func Site(rep string) (string, bool) {
	var tops []string
	lines := strings.Split(rep, "\n")
	for i, l := range lines {
		t := strings.TrimSpace(l)
		isAccess := (strings.HasPrefix(t, "Read at") || strings.HasPrefix(t, "Write at") || strings.HasPrefix(t, "Previous read at") || strings.HasPrefix(t, "Previous write at") || strings.HasPrefix(t, "Atomic") || strings.HasPrefix(t, "Previous atomic")) && strings.HasSuffix(t, ":")
		if !isAccess {
			continue
		}
		// innermost frame that is not the runtime / a standard library helper
		for j := i + 1; j < len(lines); j += 2 {
			f := strings.TrimSpace(lines[j])
			if f == "" {
				break
			}
			if strings.HasPrefix(f, "runtime.") || strings.HasPrefix(f, "sync.") || strings.HasPrefix(f, "sync/atomic.") || strings.HasPrefix(f, "reflect.") {
				continue
			}
			f = strings.TrimSuffix(f, "()")
			tops = append(tops, f)
			break
		}
	}
	both := len(tops) >= 2
	var names []string
	for _, f := range tops {
		if !strings.HasPrefix(f, "diagonal.works/b6") {
			both = false
		}
		names = append(names, strings.TrimPrefix(f, "diagonal.works/"))
	}
	if len(names) > 2 {
		names = names[:2]
	}
	return strings.Join(names, "+"), both
}
