// rewrite: type-aware source rewriter for engine E3.
//
// usage: rewrite -out DIR -overlay FILE pkgpath...
//
// For every non-test, non-generated file of the listed diagonal.works/b6
// packages it emits a rewritten copy under DIR when the file contains any
// concurrency construct, and writes a go build -overlay JSON mapping the
// original path to the copy. Unsupported constructs make it fail loudly.
package main

import (
	"bytes"
	"encoding/json"
	"flag"
	"fmt"
	"go/ast"
	"go/printer"
	"go/token"
	"go/types"
	"os"
	"path/filepath"
	"strconv"
	"strings"

	"golang.org/x/tools/go/ast/astutil"
	"golang.org/x/tools/go/packages"
)

var importSwap = map[string]string{
	"sync":                         "verif/sched/vsync",
	"context":                      "verif/sched/vctx",
	"golang.org/x/sync/errgroup":   "verif/sched/verrgroup",
}

var defaultName = map[string]string{"sync": "sync", "context": "context", "golang.org/x/sync/errgroup": "errgroup"}

const schedPkg = "verif/sched"
const schedName = "vsched"

type rw struct {
	fset    *token.FileSet
	info    *types.Info
	used    bool
	n       int
	errs    []string
	file    string
}

func (r *rw) tmp(prefix string) string {
	r.n++
	return fmt.Sprintf("_vs%s%d", prefix, r.n)
}

func sel(name string) ast.Expr {
	return &ast.SelectorExpr{X: ast.NewIdent(schedName), Sel: ast.NewIdent(name)}
}

func call(name string, args ...ast.Expr) *ast.CallExpr {
	return &ast.CallExpr{Fun: sel(name), Args: args}
}

func (r *rw) fail(n ast.Node, format string, a ...interface{}) {
	r.errs = append(r.errs, fmt.Sprintf("%s: %s", r.fset.Position(n.Pos()), fmt.Sprintf(format, a...)))
}

func isChan(t types.Type) bool {
	if t == nil {
		return false
	}
	_, ok := t.Underlying().(*types.Chan)
	return ok
}

func isMap(t types.Type) bool {
	if t == nil {
		return false
	}
	_, ok := t.Underlying().(*types.Map)
	return ok
}

func isArrow(e ast.Expr) (*ast.UnaryExpr, bool) {
	for {
		p, ok := e.(*ast.ParenExpr)
		if !ok {
			break
		}
		e = p.X
	}
	u, ok := e.(*ast.UnaryExpr)
	if ok && u.Op == token.ARROW {
		return u, true
	}
	return nil, false
}

func (r *rw) isBuiltin(id *ast.Ident, name string) bool {
	if id.Name != name {
		return false
	}
	_, ok := r.info.Uses[id].(*types.Builtin)
	return ok
}

// rewriteFile applies every transformation; returns whether anything changed.
func (r *rw) rewriteFile(f *ast.File) bool {
	changed := false
	// classify range statements before mutation
	rangeKind := map[*ast.RangeStmt]string{}
	ast.Inspect(f, func(n ast.Node) bool {
		if rs, ok := n.(*ast.RangeStmt); ok {
			t := r.info.TypeOf(rs.X)
			switch {
			case isChan(t):
				rangeKind[rs] = "chan"
			case isMap(t):
				rangeKind[rs] = "map"
			}
		}
		return true
	})
	// imports
	for _, imp := range f.Imports {
		p, _ := strconv.Unquote(imp.Path.Value)
		if np, ok := importSwap[p]; ok {
			if imp.Name == nil {
				imp.Name = ast.NewIdent(defaultName[p])
			}
			imp.Path.Value = strconv.Quote(np)
			changed = true
		}
	}
	post := func(c *astutil.Cursor) bool {
		switch n := c.Node().(type) {
		case *ast.GoStmt:
			c.Replace(r.goStmt(n))
			r.used, changed = true, true
		case *ast.SendStmt:
			// select comm clauses are handled by their SelectStmt
			if _, inComm := c.Parent().(*ast.CommClause); inComm && c.Name() == "Comm" {
				return true
			}
			c.Replace(&ast.ExprStmt{X: &ast.CallExpr{Fun: call("SendTo", n.Chan), Args: []ast.Expr{n.Value}}})
			r.used, changed = true, true
		case *ast.UnaryExpr:
			if n.Op != token.ARROW {
				return true
			}
			switch p := c.Parent().(type) {
			case *ast.AssignStmt:
				if len(p.Lhs) == 2 && len(p.Rhs) == 1 {
					if _, inComm := commParent[p]; inComm {
						return true
					}
					c.Replace(call("Recv2", n.X))
					r.used, changed = true, true
					return true
				}
				if _, inComm := commParent[p]; inComm {
					return true
				}
			case *ast.ValueSpec:
				if len(p.Names) == 2 && len(p.Values) == 1 {
					c.Replace(call("Recv2", n.X))
					r.used, changed = true, true
					return true
				}
			case *ast.ExprStmt:
				if _, inComm := commParent[p]; inComm {
					return true
				}
			}
			c.Replace(call("Recv", n.X))
			r.used, changed = true, true
		case *ast.CallExpr:
			if id, ok := n.Fun.(*ast.Ident); ok {
				if r.isBuiltin(id, "close") && len(n.Args) == 1 {
					c.Replace(call("Close", n.Args[0]))
					r.used, changed = true, true
				} else if r.isBuiltin(id, "make") && len(n.Args) >= 1 {
					if ct, ok := n.Args[0].(*ast.ChanType); ok && ct.Dir == ast.SEND|ast.RECV {
						fun := &ast.IndexExpr{X: sel("MakeChan"), Index: ct.Value}
						c.Replace(&ast.CallExpr{Fun: fun, Args: n.Args[1:]})
						r.used, changed = true, true
					}
				}
			}
		case *ast.RangeStmt:
			switch rangeKind[n] {
			case "chan":
				c.Replace(r.rangeChan(n))
				r.used, changed = true, true
			case "map":
				if s := r.rangeMap(n); s != nil {
					c.Replace(s)
					r.used, changed = true, true
				}
			}
		case *ast.SelectStmt:
			if _, labeled := c.Parent().(*ast.LabeledStmt); labeled {
				r.fail(n, "labeled select is not supported")
				return true
			}
			c.Replace(r.selectStmt(n))
			r.used, changed = true, true
		}
		return true
	}
	// record which statements are select communication clauses' Comm
	commParent = map[ast.Stmt]struct{}{}
	ast.Inspect(f, func(n ast.Node) bool {
		if cc, ok := n.(*ast.CommClause); ok && cc.Comm != nil {
			commParent[cc.Comm] = struct{}{}
		}
		return true
	})
	astutil.Apply(f, nil, post)
	if r.used {
		astutil.AddNamedImport(r.fset, f, schedName, schedPkg)
	}
	return changed
}

var commParent map[ast.Stmt]struct{}

// go f(a, b)  =>  { _f := f; _a0, _a1 := a, b; vsched.Go(func() { _f(_a0, _a1) }) }
func (r *rw) goStmt(n *ast.GoStmt) ast.Stmt {
	var stmts []ast.Stmt
	fn := r.tmp("f")
	stmts = append(stmts, &ast.AssignStmt{Lhs: []ast.Expr{ast.NewIdent(fn)}, Tok: token.DEFINE, Rhs: []ast.Expr{n.Call.Fun}})
	var args []ast.Expr
	for _, a := range n.Call.Args {
		t := r.tmp("a")
		stmts = append(stmts, &ast.AssignStmt{Lhs: []ast.Expr{ast.NewIdent(t)}, Tok: token.DEFINE, Rhs: []ast.Expr{a}})
		args = append(args, ast.NewIdent(t))
	}
	inner := &ast.CallExpr{Fun: ast.NewIdent(fn), Args: args, Ellipsis: n.Call.Ellipsis}
	if n.Call.Ellipsis.IsValid() {
		inner.Ellipsis = 1
	}
	lit := &ast.FuncLit{Type: &ast.FuncType{Params: &ast.FieldList{}}, Body: &ast.BlockStmt{List: []ast.Stmt{&ast.ExprStmt{X: inner}}}}
	stmts = append(stmts, &ast.ExprStmt{X: call("Go", lit)})
	return &ast.BlockStmt{List: stmts}
}

// for x := range c { body }  =>  for { x, _ok := vsched.Recv2(c); if !_ok { break }; body }
func (r *rw) rangeChan(n *ast.RangeStmt) ast.Stmt {
	ok := r.tmp("ok")
	var lhs ast.Expr = ast.NewIdent("_")
	tok := token.DEFINE
	if n.Key != nil {
		lhs = n.Key
		if n.Tok == token.ASSIGN {
			// x = range c : keep assignment to x, define ok separately
			v := r.tmp("v")
			pre := &ast.AssignStmt{Lhs: []ast.Expr{ast.NewIdent(v), ast.NewIdent(ok)}, Tok: token.DEFINE, Rhs: []ast.Expr{call("Recv2", n.X)}}
			brk := &ast.IfStmt{Cond: &ast.UnaryExpr{Op: token.NOT, X: ast.NewIdent(ok)}, Body: &ast.BlockStmt{List: []ast.Stmt{&ast.BranchStmt{Tok: token.BREAK}}}}
			asg := &ast.AssignStmt{Lhs: []ast.Expr{n.Key}, Tok: token.ASSIGN, Rhs: []ast.Expr{ast.NewIdent(v)}}
			body := append([]ast.Stmt{pre, brk, asg}, n.Body.List...)
			return &ast.ForStmt{Body: &ast.BlockStmt{List: body}}
		}
	}
	pre := &ast.AssignStmt{Lhs: []ast.Expr{lhs, ast.NewIdent(ok)}, Tok: tok, Rhs: []ast.Expr{call("Recv2", n.X)}}
	brk := &ast.IfStmt{Cond: &ast.UnaryExpr{Op: token.NOT, X: ast.NewIdent(ok)}, Body: &ast.BlockStmt{List: []ast.Stmt{&ast.BranchStmt{Tok: token.BREAK}}}}
	body := append([]ast.Stmt{pre, brk}, n.Body.List...)
	return &ast.ForStmt{Body: &ast.BlockStmt{List: body}}
}

// for k, v := range m { body } => for _, _e := range vsched.SortedEntries(m) { k, v := _e.K, _e.V; body }
func (r *rw) rangeMap(n *ast.RangeStmt) ast.Stmt {
	// deleting from the map being ranged over is not modelled by the snapshot
	bad := false
	ast.Inspect(n.Body, func(x ast.Node) bool {
		if ce, ok := x.(*ast.CallExpr); ok {
			if id, ok := ce.Fun.(*ast.Ident); ok && id.Name == "delete" && len(ce.Args) == 2 {
				if exprString(r.fset, ce.Args[0]) == exprString(r.fset, n.X) {
					bad = true
				}
			}
		}
		return true
	})
	if bad {
		r.fail(n, "range over map with delete of the same map in the body is not supported")
		return nil
	}
	e := r.tmp("e")
	var pre []ast.Stmt
	blank := func(x ast.Expr) bool {
		id, ok := x.(*ast.Ident)
		return x == nil || (ok && id.Name == "_")
	}
	var lhs, rhs []ast.Expr
	if !blank(n.Key) {
		lhs = append(lhs, n.Key)
		rhs = append(rhs, &ast.SelectorExpr{X: ast.NewIdent(e), Sel: ast.NewIdent("K")})
	}
	if !blank(n.Value) {
		lhs = append(lhs, n.Value)
		rhs = append(rhs, &ast.SelectorExpr{X: ast.NewIdent(e), Sel: ast.NewIdent("V")})
	}
	ev := ast.Expr(ast.NewIdent(e))
	if len(lhs) > 0 {
		tok := n.Tok
		if tok == token.ILLEGAL {
			tok = token.DEFINE
		}
		pre = append(pre, &ast.AssignStmt{Lhs: lhs, Tok: tok, Rhs: rhs})
	} else {
		ev = ast.NewIdent("_")
	}
	body := append(pre, n.Body.List...)
	return &ast.RangeStmt{Key: ast.NewIdent("_"), Value: ev, Tok: token.DEFINE, X: call("SortedEntries", n.X), Body: &ast.BlockStmt{List: body}}
}

func exprString(fset *token.FileSet, e ast.Expr) string {
	var b bytes.Buffer
	printer.Fprint(&b, fset, e)
	return b.String()
}

func (r *rw) selectStmt(n *ast.SelectStmt) ast.Stmt {
	var stmts []ast.Stmt
	var caseArgs []ast.Expr
	hasDefault := false
	sw := &ast.SwitchStmt{Body: &ast.BlockStmt{}}
	idx := 0
	for _, cl := range n.Body.List {
		cc := cl.(*ast.CommClause)
		if cc.Comm == nil {
			hasDefault = true
			sw.Body.List = append(sw.Body.List, &ast.CaseClause{List: nil, Body: cc.Body})
			continue
		}
		cv := r.tmp("c")
		var body []ast.Stmt
		switch s := cc.Comm.(type) {
		case *ast.SendStmt:
			stmts = append(stmts, &ast.AssignStmt{Lhs: []ast.Expr{ast.NewIdent(cv)}, Tok: token.DEFINE, Rhs: []ast.Expr{&ast.CallExpr{Fun: call("SendCaseTo", s.Chan), Args: []ast.Expr{s.Value}}}})
		case *ast.ExprStmt:
			u, ok := isArrow(s.X)
			if !ok {
				r.fail(s, "unsupported select case")
				continue
			}
			stmts = append(stmts, &ast.AssignStmt{Lhs: []ast.Expr{ast.NewIdent(cv)}, Tok: token.DEFINE, Rhs: []ast.Expr{call("RecvCase", u.X)}})
		case *ast.AssignStmt:
			u, ok := isArrow(s.Rhs[0])
			if !ok {
				r.fail(s, "unsupported select case")
				continue
			}
			stmts = append(stmts, &ast.AssignStmt{Lhs: []ast.Expr{ast.NewIdent(cv)}, Tok: token.DEFINE, Rhs: []ast.Expr{call("RecvCase", u.X)}})
			rhs := []ast.Expr{&ast.SelectorExpr{X: ast.NewIdent(cv), Sel: ast.NewIdent("V")}}
			if len(s.Lhs) == 2 {
				rhs = append(rhs, &ast.SelectorExpr{X: ast.NewIdent(cv), Sel: ast.NewIdent("OK")})
			}
			body = append(body, &ast.AssignStmt{Lhs: s.Lhs, Tok: s.Tok, Rhs: rhs})
			if s.Tok == token.DEFINE {
				// keep "declared and not used" away for `case x := <-c:` whose x is only assigned
				for _, l := range s.Lhs {
					if id, ok := l.(*ast.Ident); ok && id.Name != "_" {
						body = append(body, &ast.AssignStmt{Lhs: []ast.Expr{ast.NewIdent("_")}, Tok: token.ASSIGN, Rhs: []ast.Expr{ast.NewIdent(id.Name)}})
					}
				}
			}
		default:
			r.fail(cc, "unsupported select case")
			continue
		}
		caseArgs = append(caseArgs, ast.NewIdent(cv))
		sw.Body.List = append(sw.Body.List, &ast.CaseClause{List: []ast.Expr{&ast.BasicLit{Kind: token.INT, Value: strconv.Itoa(idx)}}, Body: append(body, cc.Body...)})
		idx++
	}
	hd := "false"
	if hasDefault {
		hd = "true"
	} else {
		// a select without default is a terminating statement when its clauses
		// are; keep that property for the switch
		sw.Body.List = append(sw.Body.List, &ast.CaseClause{List: nil, Body: []ast.Stmt{
			&ast.ExprStmt{X: &ast.CallExpr{Fun: ast.NewIdent("panic"), Args: []ast.Expr{call("Unreachable")}}},
		}})
	}
	sw.Tag = call("Select", append([]ast.Expr{ast.NewIdent(hd)}, caseArgs...)...)
	stmts = append(stmts, sw)
	return &ast.BlockStmt{List: stmts}
}

func main() {
	out := flag.String("out", "", "output directory")
	overlay := flag.String("overlay", "", "overlay JSON to write")
	dir := flag.String("dir", "/repo/src/diagonal.works/b6", "module directory")
	base := flag.String("base", "", "existing overlay JSON to merge (its replacements are the input files)")
	flag.Parse()
	if *out == "" || *overlay == "" {
		fmt.Fprintln(os.Stderr, "usage: rewrite -out DIR -overlay FILE pkg...")
		os.Exit(2)
	}
	replace := map[string]string{}
	if *base != "" {
		b, err := os.ReadFile(*base)
		if err == nil {
			var o struct{ Replace map[string]string }
			json.Unmarshal(b, &o)
			for k, v := range o.Replace {
				replace[k] = v
			}
		}
	}
	cfg := &packages.Config{
		Mode:       packages.NeedName | packages.NeedFiles | packages.NeedCompiledGoFiles | packages.NeedSyntax | packages.NeedTypes | packages.NeedTypesInfo,
		Dir:        *dir,
		BuildFlags: []string{"-tags=verif"},
		Overlay:    map[string][]byte{},
	}
	// feed the base overlay (accessor files, transforms, mutants) to the loader
	for k, v := range replace {
		if b, err := os.ReadFile(v); err == nil {
			cfg.Overlay[k] = b
		}
	}
	pkgs, err := packages.Load(cfg, flag.Args()...)
	if err != nil {
		fmt.Fprintln(os.Stderr, "load:", err)
		os.Exit(1)
	}
	os.MkdirAll(*out, 0o755)
	failed := false
	nfiles := 0
	for _, p := range pkgs {
		for _, e := range p.Errors {
			fmt.Fprintf(os.Stderr, "rewrite: %s: %v\n", p.PkgPath, e)
			failed = true
		}
		for i, f := range p.Syntax {
			name := p.CompiledGoFiles[i]
			if strings.HasSuffix(name, ".pb.go") || strings.HasSuffix(name, "_test.go") {
				continue
			}
			r := &rw{fset: p.Fset, info: p.TypesInfo, file: name}
			if !r.rewriteFile(f) {
				continue
			}
			if len(r.errs) > 0 {
				for _, e := range r.errs {
					fmt.Fprintln(os.Stderr, "rewrite: unsupported:", e)
				}
				failed = true
				continue
			}
			f.Comments = nil
			var buf bytes.Buffer
			if err := printer.Fprint(&buf, p.Fset, f); err != nil {
				fmt.Fprintf(os.Stderr, "rewrite: print %s: %v\n", name, err)
				failed = true
				continue
			}
			outName := filepath.Join(*out, strings.ReplaceAll(strings.TrimPrefix(p.PkgPath, "diagonal.works/"), "/", "__")+"__"+filepath.Base(name))
			if err := os.WriteFile(outName, buf.Bytes(), 0o644); err != nil {
				fmt.Fprintln(os.Stderr, err)
				os.Exit(1)
			}
			replace[name] = outName
			nfiles++
		}
	}
	if failed {
		os.Exit(1)
	}
	b, _ := json.MarshalIndent(map[string]interface{}{"Replace": replace}, "", " ")
	if err := os.WriteFile(*overlay, b, 0o644); err != nil {
		fmt.Fprintln(os.Stderr, err)
		os.Exit(1)
	}
	fmt.Fprintf(os.Stderr, "rewrite: %d files rewritten in %d packages\n", nfiles, len(pkgs))
}
