package sched

import (
	"fmt"
	"reflect"
	"sort"
)

// chanState is the scheduler's view of one native channel. Buffered values
// live in the native channel; unbuffered hand-offs go through slot.
type chanState struct {
	name   string
	ref    interface{} // keeps the channel alive so its address is not reused
	cap    int
	closed bool
	// unbuffered rendezvous: a sender has committed a value to a parked receiver
	slot     interface{}
	hasSlot  bool
	receiver *G
}

func chanID(c interface{}) uintptr {
	v := reflect.ValueOf(c)
	if !v.IsValid() || v.IsNil() {
		return 0
	}
	return v.Pointer()
}

func (e *Exec) chanOf(c interface{}, capacity int) *chanState {
	id := chanID(c)
	if id == 0 {
		return nil
	}
	if s, ok := e.chans[id]; ok {
		return s
	}
	g := e.cur
	g.makes++
	s := &chanState{name: fmt.Sprintf("chan:%s#%d", g.name, g.makes), ref: c, cap: capacity}
	e.chans[id] = s
	return s
}

// MakeChan replaces make(chan T, n) in rewritten code so channels get a
// creation-ordered stable name.
func MakeChan[T any](n ...int) chan T {
	size := 0
	if len(n) > 0 {
		size = n[0]
	}
	c := make(chan T, size)
	if e := active; e != nil && !e.aborting {
		e.chanOf(c, size)
	}
	return c
}

// parkedReceiver finds a parked goroutine (other than self) that could
// receive from s and has not been matched yet.
func (e *Exec) parkedReceiver(s *chanState, self *G) *G {
	for _, g := range e.gs {
		if g == self || g.done || g.op == nil || g.op.matched != nil || g.op.pulled != nil {
			continue
		}
		for _, r := range g.op.recvs {
			if r == s {
				return g
			}
		}
	}
	return nil
}

// parkedSender finds a parked goroutine (other than self) offering a value
// on unbuffered channel s that has not been taken yet.
func (e *Exec) parkedSender(s *chanState, self *G) *G {
	for _, g := range e.gs {
		if g == self || g.done || g.op == nil || g.op.matched != nil || g.op.pulled != nil {
			continue
		}
		if _, ok := g.op.sends[s]; ok {
			return g
		}
	}
	return nil
}

func (e *Exec) sendReady(s *chanState, nativeLen int, self *G) bool {
	if s == nil {
		return false // nil channel blocks forever
	}
	if s.closed {
		return true // will panic, as Go does
	}
	if s.cap > 0 {
		return nativeLen < s.cap
	}
	return !s.hasSlot && e.parkedReceiver(s, self) != nil
}

func (e *Exec) recvReady(s *chanState, nativeLen int, self *G) bool {
	if s == nil {
		return false
	}
	if s.cap > 0 {
		return nativeLen > 0 || s.closed
	}
	if s.hasSlot && s.receiver == self {
		return true
	}
	if s.hasSlot {
		return false // committed to another receiver
	}
	return s.closed || e.parkedSender(s, self) != nil
}

// Send replaces `c <- v`.
func Send[T any](c chan<- T, v T) {
	e := active
	if e == nil {
		c <- v
		return
	}
	if e.aborting {
		return
	}
	g := e.cur
	s := e.chanOf(c, cap(c))
	name := ""
	if s != nil {
		name = s.name
	}
	op := &Op{Kind: "send", Obj: name, ch: s}
	if s != nil && s.cap == 0 {
		op.sends = map[*chanState]interface{}{s: v}
	}
	op.Enabled = func() bool { return op.pulled != nil || e.sendReady(s, len(c), g) }
	e.Point(op)
	if op.pulled == nil {
		e.doSend(s, func() { c <- v }, v)
	}
	e.record(name, "send", "")
}

func (e *Exec) doSend(s *chanState, native func(), v interface{}) {
	if s.closed {
		panic("send on closed channel")
	}
	if s.cap > 0 {
		native() // has room: cannot block
		return
	}
	r := e.parkedReceiver(s, e.cur)
	s.slot, s.hasSlot, s.receiver = v, true, r
	r.op.matched = s
}

// Recv2 replaces `v, ok := <-c`.
func Recv2[T any](c <-chan T) (T, bool) {
	e := active
	if e == nil {
		v, ok := <-c
		return v, ok
	}
	var zero T
	if e.aborting {
		return zero, false
	}
	g := e.cur
	s := e.chanOf(c, cap(c))
	name := ""
	if s != nil {
		name = s.name
	}
	op := &Op{Kind: "recv", Obj: name, ch: s}
	if s != nil {
		op.recvs = []*chanState{s}
	}
	op.Enabled = func() bool { return e.recvReady(s, len(c), g) }
	e.Point(op)
	v, ok := doRecv[T](e, s, c)
	if ok {
		e.record(name, "recv", "")
	} else {
		e.record(name, "recv", "closed")
	}
	return v, ok
}

func doRecv[T any](e *Exec, s *chanState, c <-chan T) (T, bool) {
	var zero T
	if s.cap > 0 {
		if len(c) > 0 {
			v, ok := <-c
			return v, ok
		}
		return zero, false // closed and drained
	}
	if s.hasSlot && s.receiver == e.cur {
		v := s.slot
		s.slot, s.hasSlot, s.receiver = nil, false, nil
		if v == nil {
			return zero, true
		}
		return v.(T), true
	}
	if ps := e.parkedSender(s, e.cur); ps != nil && !s.closed {
		v := ps.op.sends[s]
		ps.op.pulled = s
		if v == nil {
			return zero, true
		}
		return v.(T), true
	}
	return zero, false // closed
}

// Recv replaces `<-c`.
func Recv[T any](c <-chan T) T {
	v, _ := Recv2(c)
	return v
}

// Close replaces close(c).
func Close[T any](c chan<- T) {
	e := active
	if e == nil {
		close(c)
		return
	}
	if e.aborting {
		return
	}
	s := e.chanOf(c, cap(c))
	if s == nil {
		panic("close of nil channel")
	}
	e.Point(&Op{Kind: "close", Obj: s.name, ch: s, Enabled: func() bool { return true }})
	if s.closed {
		panic("close of closed channel")
	}
	s.closed = true
	close(c)
	e.record(s.name, "close", "")
}

// CloseNoPoint marks a channel closed without a scheduling point (used by
// context cancellation, whose point is the cancel call itself).
func CloseNoPoint[T any](c chan T) {
	e := active
	if e == nil || e.aborting {
		defer func() { recover() }()
		close(c)
		return
	}
	s := e.chanOf(c, cap(c))
	if s.closed {
		return
	}
	s.closed = true
	close(c)
	e.record(s.name, "close", "")
}

// ---- select -----------------------------------------------------------------

type SelCase interface {
	ready(e *Exec, self *G) bool
	state(e *Exec) *chanState
	isRecv() bool
	fire(e *Exec, op *Op)
	offered() interface{}
}

type SendC[T any] struct {
	c chan<- T
	v T
	s *chanState
}

type RecvC[T any] struct {
	c  <-chan T
	s  *chanState
	V  T
	OK bool
}

func SendCase[T any](c chan<- T, v T) *SendC[T] { return &SendC[T]{c: c, v: v} }
func RecvCase[T any](c <-chan T) *RecvC[T]      { return &RecvC[T]{c: c} }

func (x *SendC[T]) state(e *Exec) *chanState {
	if x.s == nil {
		x.s = e.chanOf(x.c, cap(x.c))
	}
	return x.s
}
func (x *SendC[T]) isRecv() bool                { return false }
func (x *SendC[T]) ready(e *Exec, self *G) bool { return e.sendReady(x.state(e), len(x.c), self) }
func (x *SendC[T]) offered() interface{}        { return x.v }
func (x *RecvC[T]) offered() interface{}        { return nil }
func (x *SendC[T]) fire(e *Exec, op *Op) {
	s := x.state(e)
	if op.pulled != s {
		e.doSend(s, func() { x.c <- x.v }, x.v)
	}
	e.record(s.name, "send", "sel")
}

func (x *RecvC[T]) state(e *Exec) *chanState {
	if x.s == nil {
		x.s = e.chanOf(x.c, cap(x.c))
	}
	return x.s
}
func (x *RecvC[T]) isRecv() bool                { return true }
func (x *RecvC[T]) ready(e *Exec, self *G) bool { return e.recvReady(x.state(e), len(x.c), self) }
func (x *RecvC[T]) fire(e *Exec, op *Op) {
	s := x.state(e)
	x.V, x.OK = doRecv[T](e, s, x.c)
	if x.OK {
		e.record(s.name, "recv", "sel")
	} else {
		e.record(s.name, "recv", "sel-closed")
	}
}

// Select replaces a select statement: returns the index of the case that
// fired, or -1 for default.
func Select(hasDefault bool, cases ...SelCase) int {
	e := active
	if e == nil {
		return nativeSelect(hasDefault, cases)
	}
	if e.aborting {
		return -1
	}
	g := e.cur
	op := &Op{Kind: "select"}
	for _, c := range cases {
		if s := c.state(e); s != nil && c.isRecv() {
			op.recvs = append(op.recvs, s)
		} else if s != nil && s.cap == 0 {
			if op.sends == nil {
				op.sends = map[*chanState]interface{}{}
			}
			if _, dup := op.sends[s]; !dup {
				op.sends[s] = c.offered()
			}
		}
	}
	readyFn := func() []int {
		// a value already taken by a receiver forces that send case
		if op.pulled != nil {
			for i, c := range cases {
				if !c.isRecv() && c.state(e) == op.pulled {
					return []int{i}
				}
			}
		}
		// a committed hand-off forces its case
		if op.matched != nil {
			for i, c := range cases {
				if c.isRecv() && c.state(e) == op.matched {
					return []int{i}
				}
			}
		}
		var r []int
		for i, c := range cases {
			if c.ready(e, g) {
				r = append(r, i)
			}
		}
		return r
	}
	op.Enabled = func() bool { return hasDefault || len(readyFn()) > 0 }
	op.Ready = readyFn
	e.Point(op)
	if g.selIdx < 0 {
		e.record("", "select", "default")
		return -1
	}
	// fairness bookkeeping: note when a ready "stop" case (a receive that is
	// ready because its channel is closed, or any ready receive when a send was
	// chosen instead) was declined; oracles about promptness only apply to
	// executions that never declined one.
	chosen := cases[g.selIdx]
	for i, c := range cases {
		if i == g.selIdx || !c.isRecv() || !c.ready(e, g) {
			continue
		}
		if s := c.state(e); (s != nil && s.closed) || !chosen.isRecv() {
			e.DeclinedStop++
			break
		}
	}
	chosen.fire(e, op)
	return g.selIdx
}

func nativeSelect(hasDefault bool, cases []SelCase) int {
	var rc []reflect.SelectCase
	for _, c := range cases {
		switch x := c.(type) {
		case interface{ native() reflect.SelectCase }:
			rc = append(rc, x.native())
		}
	}
	if hasDefault {
		rc = append(rc, reflect.SelectCase{Dir: reflect.SelectDefault})
	}
	i, v, ok := reflect.Select(rc)
	if hasDefault && i == len(rc)-1 {
		return -1
	}
	if r, isRecv := cases[i].(interface{ setNative(reflect.Value, bool) }); isRecv {
		r.setNative(v, ok)
	}
	return i
}

func (x *SendC[T]) native() reflect.SelectCase {
	return reflect.SelectCase{Dir: reflect.SelectSend, Chan: reflect.ValueOf(x.c), Send: reflect.ValueOf(&x.v).Elem()}
}
func (x *RecvC[T]) native() reflect.SelectCase {
	return reflect.SelectCase{Dir: reflect.SelectRecv, Chan: reflect.ValueOf(x.c)}
}
func (x *RecvC[T]) setNative(v reflect.Value, ok bool) {
	x.OK = ok
	if ok && v.IsValid() {
		x.V, _ = v.Interface().(T)
	}
}

// SendTo / SendCaseTo are the forms the rewriter emits: the channel alone
// fixes T, so the value is converted by ordinary assignability.
func SendTo[T any](c chan<- T) func(T) { return func(v T) { Send(c, v) } }

func SendCaseTo[T any](c chan<- T) func(T) *SendC[T] {
	return func(v T) *SendC[T] { return SendCase(c, v) }
}

// Entry is one map entry of a snapshot taken by SortedEntries.
type Entry[K comparable, V any] struct {
	K K
	V V
}

// SortedEntries replaces `range m` over a map in rewritten code: a snapshot
// of the entries in a deterministic (sorted-key) order, which is one of the
// orders Go may produce, so that executions are replayable.
func SortedEntries[M ~map[K]V, K comparable, V any](m M) []Entry[K, V] {
	out := make([]Entry[K, V], 0, len(m))
	for k, v := range m {
		out = append(out, Entry[K, V]{k, v})
	}
	sort.Slice(out, func(i, j int) bool { return lessAny(reflect.ValueOf(out[i].K), reflect.ValueOf(out[j].K)) })
	return out
}

func lessAny(a, b reflect.Value) bool {
	if !a.IsValid() || !b.IsValid() {
		return !a.IsValid() && b.IsValid()
	}
	if a.Type() != b.Type() {
		return a.Type().String() < b.Type().String()
	}
	switch a.Kind() {
	case reflect.Ptr:
		if a.IsNil() || b.IsNil() {
			return a.IsNil() && !b.IsNil()
		}
		return lessAny(a.Elem(), b.Elem())
	case reflect.Int, reflect.Int8, reflect.Int16, reflect.Int32, reflect.Int64:
		return a.Int() < b.Int()
	case reflect.Uint, reflect.Uint8, reflect.Uint16, reflect.Uint32, reflect.Uint64, reflect.Uintptr:
		return a.Uint() < b.Uint()
	case reflect.String:
		return a.String() < b.String()
	case reflect.Float32, reflect.Float64:
		return a.Float() < b.Float()
	case reflect.Bool:
		return !a.Bool() && b.Bool()
	case reflect.Struct:
		for i := 0; i < a.NumField(); i++ {
			if lessAny(a.Field(i), b.Field(i)) {
				return true
			}
			if lessAny(b.Field(i), a.Field(i)) {
				return false
			}
		}
		return false
	case reflect.Array:
		for i := 0; i < a.Len(); i++ {
			if lessAny(a.Index(i), b.Index(i)) {
				return true
			}
			if lessAny(b.Index(i), a.Index(i)) {
				return false
			}
		}
		return false
	case reflect.Interface:
		if a.IsNil() || b.IsNil() {
			return a.IsNil() && !b.IsNil()
		}
		if a.Elem().Type() != b.Elem().Type() {
			return a.Elem().Type().String() < b.Elem().Type().String()
		}
		return lessAny(a.Elem(), b.Elem())
	}
	return fmt.Sprintf("%v", a) < fmt.Sprintf("%v", b)
}
