// Package sched is engine E3: a controlled cooperative scheduler and a
// stateless depth-first explorer of goroutine interleavings of the real code.
//
// Repository packages are rewritten at build time (see verif/rewrite) so that
// every goroutine start, channel operation, select, lock, wait-group wait and
// context cancellation goes through this package. Exactly one managed
// goroutine runs at a time; it runs until its next synchronisation operation,
// where it parks. The explorer enumerates, by re-execution, every choice of
// which enabled goroutine proceeds (and which ready select case is taken),
// with iterative preemption bounding and happens-before state caching.
package sched

import (
	"fmt"
	"hash/fnv"
	"runtime"
	"runtime/debug"
	"sort"
	"strings"
	"sync"
)

// G is a managed goroutine.
type G struct {
	name   string
	wake   chan struct{}
	op     *Op
	done   bool
	steps  int
	spawns int
	makes  int
	selIdx int // select case chosen by the scheduler for the pending select
}

func (g *G) Name() string { return g.name }

// Op is a pending synchronisation operation of a parked goroutine.
type Op struct {
	Kind    string
	Obj     string // stable object name ("" = none)
	Enabled func() bool
	// Ready returns the indices of ready select cases (nil for non-select ops).
	Ready func() []int
	// recv/send bookkeeping used by channel rendezvous
	ch      *chanState
	recvs   []*chanState               // channels this op could receive from (plain recv or select recv cases)
	matched *chanState                 // set by a sender that committed a handoff to this op
	sends   map[*chanState]interface{} // unbuffered channels this op offers a value on
	pulled  *chanState                 // set by a receiver that took the offered value
}

type Point struct {
	Key            uint64   // happens-before key before the choice
	Alts           []string // alternative ids in canonical order ("g:<name>" or "case:<i>")
	Chosen         int
	Preemptive     []bool // whether taking alternative i is a preemption
	PreemptsBefore int
	Epoch          int // number of quiescent points (only one goroutine alive) passed before this choice
}

type Event struct {
	Kind string // "deadlock" | "panic" | "horizon"
	Msg  string
}

// Exec is one controlled execution.
type Exec struct {
	gs       []*G
	cur      *G
	last     *G
	yield    chan struct{}
	prefix   []int
	Points   []Point
	Choices  []int
	Events   []Event
	aborting bool
	pruned   bool
	steps    int
	horizon  int

	// happens-before key
	key     uint64
	objHash map[string]uint64
	// side tables
	chans            map[uintptr]*chanState
	objs             map[interface{}]string
	onFresh          func(e *Exec, p *Point) bool // returns false to prune
	preempts         int
	Trace            []string
	traceOn          bool
	epoch, lastAlive int
	DeclinedStop     int // selects that declined a ready stop/cancel case (see Select)
	Deadlocked       bool
	Blocked          []string // at deadlock: goroutine name + pending op
	mu               sync.Mutex
}

var (
	activeMu sync.Mutex
	active   *Exec
)

// Active reports whether a controlled execution is in progress (shims fall
// back to native behaviour otherwise).
func Active() *Exec { return active }

func mix(a string, h uint64) uint64 {
	f := fnv.New64a()
	f.Write([]byte(a))
	var b [8]byte
	for i := 0; i < 8; i++ {
		b[i] = byte(h >> (8 * i))
	}
	f.Write(b[:])
	return f.Sum64()
}

// record notes that the current goroutine performed op kind on obj.
func (e *Exec) record(obj, kind, detail string) {
	g := e.cur
	if obj != "" {
		old := e.objHash[obj]
		e.key -= mix(obj, old)
		nh := mix(g.name+"|"+kind+"|"+detail, old+1)
		e.objHash[obj] = nh
		e.key += mix(obj, nh)
	}
	e.key -= mix("g:"+g.name, uint64(g.steps))
	g.steps++
	e.key += mix("g:"+g.name, uint64(g.steps))
	if e.traceOn {
		e.Trace = append(e.Trace, fmt.Sprintf("%s %s %s %s", g.name, kind, obj, detail))
	}
}

// ObjName returns a stable name for a synchronisation object identified by
// its address: named at first touch by (goroutine, per-goroutine counter).
func (e *Exec) ObjName(p interface{}, kind string) string {
	if n, ok := e.objs[p]; ok {
		return n
	}
	g := e.cur
	g.makes++
	n := fmt.Sprintf("%s:%s#%d", kind, g.name, g.makes)
	e.objs[p] = n
	return n
}

type abortSentinel struct{}

// Point parks the current goroutine before a synchronisation operation and
// returns when the scheduler has chosen it (the operation is then enabled).
func (e *Exec) Point(op *Op) {
	g := e.cur
	g.op = op
	e.yield <- struct{}{}
	<-g.wake
	if e.aborting {
		runtime.Goexit()
	}
}

// Go starts a managed goroutine.
func Go(f func()) {
	e := active
	if e == nil {
		go f()
		return
	}
	if e.aborting {
		return
	}
	parent := e.cur
	parent.spawns++
	g := &G{name: fmt.Sprintf("%s.%d", parent.name, parent.spawns), wake: make(chan struct{})}
	g.op = &Op{Kind: "start", Enabled: func() bool { return true }}
	e.gs = append(e.gs, g)
	e.key += mix("g:"+g.name, 0)
	go e.body(g, f)
}

func (e *Exec) body(g *G, f func()) {
	<-g.wake
	defer func() {
		if r := recover(); r != nil {
			if _, ok := r.(abortSentinel); !ok {
				e.Events = append(e.Events, Event{Kind: "panic", Msg: fmt.Sprintf("goroutine %s: panic: %v\n%s", g.name, r, trim(string(debug.Stack())))})
			}
		}
		g.done = true
		g.op = nil
		if !e.aborting {
			e.record("", "exit", "")
		}
		e.yield <- struct{}{}
	}()
	if e.aborting {
		return
	}
	e.record("", "start", "")
	f()
}

func trim(s string) string {
	lines := strings.Split(s, "\n")
	var keep []string
	for _, l := range lines {
		if strings.Contains(l, "diagonal.works/b6") || strings.HasPrefix(l, "panic") || strings.HasPrefix(l, "main.") {
			keep = append(keep, l)
		}
		if len(keep) > 14 {
			break
		}
	}
	return strings.Join(keep, "\n")
}

func (e *Exec) enabled() []*G {
	var out []*G
	for _, g := range e.gs {
		if !g.done && g.op != nil && g.op.Enabled() {
			out = append(out, g)
		}
	}
	sort.Slice(out, func(i, j int) bool { return out[i].name < out[j].name })
	// canonical order: last-run goroutine first if still enabled
	for i, g := range out {
		if g == e.last {
			copy(out[1:i+1], out[0:i])
			out[0] = g
			break
		}
	}
	return out
}

// choose returns the alternative to take at a point with n alternatives.
func (e *Exec) choose(p *Point) (int, bool) {
	i := len(e.Choices)
	c := 0
	if i < len(e.prefix) {
		c = e.prefix[i]
		if c >= len(p.Alts) {
			panic(fmt.Sprintf("sched: replay divergence at point %d: choice %d of %d alternatives %v", i, c, len(p.Alts), p.Alts))
		}
		p.Chosen = c
	} else {
		p.Chosen = 0
		if e.onFresh != nil && !e.onFresh(e, p) {
			return 0, false
		}
	}
	e.Choices = append(e.Choices, p.Chosen)
	e.Points = append(e.Points, *p)
	return p.Chosen, true
}

func (e *Exec) abort() {
	e.aborting = true
	for _, g := range e.gs {
		if !g.done {
			g.wake <- struct{}{}
			<-e.yield
		}
	}
}

// run executes body under the scheduler following prefix, then default choices.
func run(body func(), prefix []int, horizon int, onFresh func(e *Exec, p *Point) bool, trace bool) *Exec {
	activeMu.Lock()
	defer activeMu.Unlock()
	e := &Exec{yield: make(chan struct{}), prefix: prefix, objHash: map[string]uint64{}, chans: map[uintptr]*chanState{}, objs: map[interface{}]string{}, horizon: horizon, onFresh: onFresh, traceOn: trace}
	g0 := &G{name: "0", wake: make(chan struct{})}
	g0.op = &Op{Kind: "start", Enabled: func() bool { return true }}
	e.gs = []*G{g0}
	e.key = mix("g:0", 0)
	active = e
	defer func() { active = nil }()
	go e.body(g0, body)
	for {
		en := e.enabled()
		if len(en) == 0 {
			alldone := true
			for _, g := range e.gs {
				if !g.done {
					alldone = false
					e.Blocked = append(e.Blocked, g.name+" blocked at "+g.op.Kind+" "+g.op.Obj)
				}
			}
			if !alldone {
				e.Deadlocked = true
				e.Events = append(e.Events, Event{Kind: "deadlock", Msg: "no enabled goroutine: " + strings.Join(e.Blocked, "; ")})
				e.abort()
			}
			return e
		}
		// epoch bookkeeping: a phase ends when the program becomes quiescent
		// (a single goroutine left alive after there had been several)
		alive := 0
		for _, g := range e.gs {
			if !g.done {
				alive++
			}
		}
		if alive == 1 && e.lastAlive > 1 {
			e.epoch++
		}
		e.lastAlive = alive
		e.steps++
		if e.steps > e.horizon {
			e.Events = append(e.Events, Event{Kind: "horizon", Msg: fmt.Sprintf("step horizon %d reached", e.horizon)})
			e.abort()
			return e
		}
		var g *G
		if len(en) == 1 {
			g = en[0]
		} else {
			p := Point{Key: e.key, PreemptsBefore: e.preempts, Epoch: e.epoch}
			lastEnabled := en[0] == e.last
			for i, x := range en {
				p.Alts = append(p.Alts, "g:"+x.name)
				p.Preemptive = append(p.Preemptive, lastEnabled && i > 0)
			}
			c, ok := e.choose(&p)
			if !ok {
				e.pruned = true
				e.abort()
				return e
			}
			if p.Preemptive[c] {
				e.preempts++
			}
			g = en[c]
		}
		if g.op.Ready != nil {
			ready := g.op.Ready()
			g.selIdx = -1
			if len(ready) == 1 {
				g.selIdx = ready[0]
			} else if len(ready) > 1 {
				p := Point{Key: e.key ^ mix("sel:"+g.name, 1), PreemptsBefore: e.preempts, Epoch: e.epoch}
				for _, r := range ready {
					p.Alts = append(p.Alts, fmt.Sprintf("case:%s:%d", g.name, r))
					p.Preemptive = append(p.Preemptive, false)
				}
				c, ok := e.choose(&p)
				if !ok {
					e.pruned = true
					e.abort()
					return e
				}
				g.selIdx = ready[c]
			}
		}
		e.cur, e.last = g, g
		g.wake <- struct{}{}
		<-e.yield
	}
}

// ---- explorer ---------------------------------------------------------------

type Options struct {
	MaxPreemptions int // iterate bounds 0..MaxPreemptions; <0 = unbounded only
	Horizon        int
	MaxExecutions  int64 // cap (0 = none); hitting it makes the result non-exhaustive
	// SinglePhase confines the non-default choices of one execution to a single
	// phase (the window between two quiescent points, where only one goroutine
	// is alive): every interleaving of each phase is explored with all other
	// phases on the default schedule. The number of executions is then the sum,
	// not the product, of the phases' interleavings.
	SinglePhase bool
	// AllDeviations makes every non-default choice (not only a preemption: also
	// the choice among several runnable goroutines after the running one blocked
	// or ended, and the choice among ready select cases) cost one unit of the
	// bound: bound k then covers every execution that departs from the default
	// schedule at most k times (deviation bounding).
	AllDeviations bool
	NoCache       bool
}

type Result struct {
	Executions     int64
	Pruned         int64
	Transitions    int64 // scheduling steps over all executions
	States         int64 // distinct happens-before keys seen at choice points
	BoundCompleted int   // largest preemption bound fully explored (-1 none)
	Unbounded      bool  // no alternative was cut by the bound: exhaustive
	Capped         bool
	Deadlocks      int64
	Outcomes       map[string]int64
	Failures       []Failure
	MaxPoints      int
	PhaseCuts      int64 // alternatives not taken because of SinglePhase
	Phases         int   // quiescent points seen in the longest execution
}

type Failure struct {
	Class   string
	Msg     string
	Choices []int
	Trace   []string
}

// Check is the oracle: called after every complete (non-pruned) execution with
// the execution and whatever the body recorded; returns an outcome class (for
// vacuity statistics) and violations.
type Check func(e *Exec) (outcome string, failures []Failure)

type cacheKey struct {
	key uint64
	alt string
}

// Explore enumerates the interleavings of body. body must be re-runnable:
// each call builds fresh objects and records its observations in a place check
// reads after the run.
func Explore(body func(), check Check, o Options) *Result {
	if o.Horizon == 0 {
		o.Horizon = 10000
	}
	res := &Result{Outcomes: map[string]int64{}, BoundCompleted: -1}
	states := map[uint64]struct{}{}
	bounds := []int{}
	if o.MaxPreemptions < 0 {
		bounds = []int{1 << 30}
	} else {
		for b := 0; b <= o.MaxPreemptions; b++ {
			bounds = append(bounds, b)
		}
	}
	seenFail := map[string]bool{}
	for _, bound := range bounds {
		type cacheVal struct {
			budget  int
			allowed bool // explored in a context where deviations at this point's phase were allowed
		}
		cache := map[cacheKey]cacheVal{}
		covered := func(ck cacheKey, budget int, allowed bool) bool {
			v, ok := cache[ck]
			return ok && v.budget >= budget && (v.allowed || !allowed)
		}
		mark := func(ck cacheKey, budget int, allowed bool) {
			if v, ok := cache[ck]; ok {
				if v.budget > budget {
					budget = v.budget
				}
				allowed = allowed || v.allowed
			}
			cache[ck] = cacheVal{budget, allowed}
		}
		// devAllowed: may an execution with these choices so far still deviate in phase epoch?
		devAllowed := func(choices []int, points []Point, epoch int) bool {
			if !o.SinglePhase {
				return true
			}
			for j := range choices {
				if choices[j] != 0 {
					return points[j].Epoch == epoch
				}
			}
			return true
		}
		// spent: units of the bound used by the first n choices
		spent := func(choices []int, n int, p *Point) int {
			if !o.AllDeviations {
				return p.PreemptsBefore
			}
			k := 0
			for j := 0; j < n && j < len(choices); j++ {
				if choices[j] != 0 {
					k++
				}
			}
			return k
		}
		boundHit := false
		var explore func(prefix []int) bool
		explore = func(prefix []int) bool {
			if o.MaxExecutions > 0 && res.Executions >= o.MaxExecutions {
				res.Capped = true
				return false
			}
			onFresh := func(e *Exec, p *Point) bool {
				states[p.Key] = struct{}{}
				if o.NoCache {
					return true
				}
				budget := bound - spent(e.Choices, len(e.Choices), p) // default alternative 0 is never preemptive
				ck := cacheKey{p.Key, p.Alts[0]}
				allowed := devAllowed(e.Choices, e.Points, p.Epoch)
				if covered(ck, budget, allowed) {
					return false
				}
				mark(ck, budget, allowed)
				return true
			}
			e := run(body, prefix, o.Horizon, onFresh, false)
			res.Executions++
			res.Transitions += int64(e.steps)
			if len(e.Points) > res.MaxPoints {
				res.MaxPoints = len(e.Points)
			}
			if e.epoch+1 > res.Phases {
				res.Phases = e.epoch + 1
			}
			if e.pruned {
				res.Pruned++
			} else {
				if e.Deadlocked {
					res.Deadlocks++
				}
				outcome, fails := check(e)
				res.Outcomes[outcome]++
				for _, f := range fails {
					if !seenFail[f.Class] {
						seenFail[f.Class] = true
						f.Choices = append([]int{}, e.Choices...)
						res.Failures = append(res.Failures, f)
					}
				}
			}
			for i := len(prefix); i < len(e.Points); i++ {
				p := &e.Points[i]
				for alt := range p.Alts {
					if alt == p.Chosen {
						continue
					}
					cost := 0
					if p.Preemptive[alt] || o.AllDeviations {
						cost = 1
					}
					if o.SinglePhase {
						// the phase of the first deviation in the prefix
						dev := -1
						for j := 0; j < i; j++ {
							if e.Choices[j] != 0 {
								dev = e.Points[j].Epoch
								break
							}
						}
						if dev >= 0 && dev != p.Epoch {
							res.PhaseCuts++
							continue
						}
					}
					budget := bound - spent(e.Choices, i, p) - cost
					if budget < 0 {
						boundHit = true
						continue
					}
					if !o.NoCache {
						ck := cacheKey{p.Key, p.Alts[alt]}
						if covered(ck, budget, true) {
							continue
						}
						mark(ck, budget, true)
					}
					next := append(append([]int{}, e.Choices[:i]...), alt)
					if !explore(next) {
						return false
					}
				}
			}
			return true
		}
		complete := explore(nil)
		if !complete {
			break
		}
		res.BoundCompleted = bound
		if !boundHit {
			res.Unbounded = true
			break
		}
	}
	res.States = int64(len(states))
	return res
}

// Replay runs one schedule with tracing on.
func Replay(body func(), choices []int, horizon int) *Exec {
	if horizon == 0 {
		horizon = 10000
	}
	return run(body, choices, horizon, nil, true)
}

// Yield is an explicit scheduling point (used by harness callbacks).
func Yield() {
	e := active
	if e == nil || e.aborting {
		return
	}
	e.Point(&Op{Kind: "yield", Enabled: func() bool { return true }})
	e.record("", "yield", "")
}

// Aborting reports whether the current execution is being torn down.
func Aborting() bool { e := active; return e != nil && e.aborting }

// CurName returns the name of the running managed goroutine.
func CurName() string {
	if e := active; e != nil && e.cur != nil {
		return e.cur.name
	}
	return ""
}

// Record is the exported form of record for shim packages.
func (e *Exec) Record(obj, kind, detail string) { e.record(obj, kind, detail) }

// Unreachable is the default clause the rewriter gives a select without
// default. It is only reached while an execution is being torn down.
func Unreachable() string {
	if e := active; e != nil && e.aborting {
		runtime.Goexit()
	}
	return "sched: select without default returned no case"
}
