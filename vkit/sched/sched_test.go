package sched_test

import (
	"fmt"
	"testing"

	"verif/sched"
	"verif/sched/vsync"
)

func TestDeadlockABBA(t *testing.T) {
	body := func() {
		var a, b vsync.Mutex
		var wg vsync.WaitGroup
		wg.Add(2)
		sched.Go(func() { defer wg.Done(); a.Lock(); b.Lock(); b.Unlock(); a.Unlock() })
		sched.Go(func() { defer wg.Done(); b.Lock(); a.Lock(); a.Unlock(); b.Unlock() })
		wg.Wait()
	}
	r := sched.Explore(body, func(e *sched.Exec) (string, []sched.Failure) {
		if e.Deadlocked {
			return "deadlock", []sched.Failure{{Class: "deadlock", Msg: fmt.Sprint(e.Blocked)}}
		}
		return "ok", nil
	}, sched.Options{MaxPreemptions: 3})
	t.Logf("%+v", r)
	if r.Deadlocks == 0 {
		t.Fatal("deadlock not found")
	}
	if !r.Unbounded {
		t.Fatal("expected exhaustive")
	}
}

func TestLostUpdate(t *testing.T) {
	var final int
	body := func() {
		var m vsync.Mutex
		x := 0
		var wg vsync.WaitGroup
		wg.Add(2)
		inc := func() {
			defer wg.Done()
			m.Lock()
			v := x
			m.Unlock()
			m.Lock()
			x = v + 1
			m.Unlock()
		}
		sched.Go(inc)
		sched.Go(inc)
		wg.Wait()
		final = x
	}
	r := sched.Explore(body, func(e *sched.Exec) (string, []sched.Failure) {
		return fmt.Sprint(final), nil
	}, sched.Options{MaxPreemptions: 3})
	t.Logf("%+v", r)
	if r.Outcomes["1"] == 0 || r.Outcomes["2"] == 0 {
		t.Fatalf("expected both outcomes: %v", r.Outcomes)
	}
}

func TestUnbufferedSelect(t *testing.T) {
	var got []int
	var errs string
	body := func() {
		got = nil
		c := sched.MakeChan[int]()
		cancel := sched.MakeChan[struct{}](1)
		var wg vsync.WaitGroup
		wg.Add(1)
		sched.Go(func() {
			defer wg.Done()
			for {
				v, ok := sched.Recv2(c)
				if !ok {
					return
				}
				got = append(got, v)
				if v == 1 {
					return // leaves without signalling: the feeder must block on c<-2
				}
			}
		})
	loop:
		for i := 0; i < 3; i++ {
			sc := sched.SendCase(c, i)
			rc := sched.RecvCase(cancel)
			switch sched.Select(false, sc, rc) {
			case 0:
			case 1:
				break loop
			}
		}
		sched.Close(c)
		wg.Wait()
	}
	r := sched.Explore(body, func(e *sched.Exec) (string, []sched.Failure) {
		if e.Deadlocked {
			errs = fmt.Sprint(e.Blocked)
			return "deadlock", nil
		}
		return fmt.Sprint(got), nil
	}, sched.Options{MaxPreemptions: -1})
	t.Logf("%+v %s", r, errs)
	if r.Outcomes["deadlock"] == 0 {
		t.Fatalf("expected the deadlock where the feeder blocks after the worker left: %v", r.Outcomes)
	}
}

func TestReplayDeterministic(t *testing.T) {
	var trace []string
	body := func() {
		var m vsync.Mutex
		var wg vsync.WaitGroup
		wg.Add(2)
		for i := 0; i < 2; i++ {
			i := i
			sched.Go(func() { defer wg.Done(); m.Lock(); trace = append(trace, fmt.Sprint(i)); m.Unlock() })
		}
		wg.Wait()
	}
	trace = nil
	e1 := sched.Replay(body, []int{1}, 0)
	t1 := fmt.Sprint(trace, e1.Trace)
	trace = nil
	e2 := sched.Replay(body, []int{1}, 0)
	t2 := fmt.Sprint(trace, e2.Trace)
	if t1 != t2 {
		t.Fatalf("non-deterministic replay:\n%s\n%s", t1, t2)
	}
	t.Log(t1)
}

// lostUpdateBody: two phases (fork/join twice), each with a lost-update window.
func twoPhaseBody(final *[2]int) func() {
	return func() {
		for ph := 0; ph < 2; ph++ {
			var m vsync.Mutex
			x := 0
			var wg vsync.WaitGroup
			wg.Add(2)
			inc := func() {
				defer wg.Done()
				m.Lock()
				v := x
				m.Unlock()
				m.Lock()
				x = v + 1
				m.Unlock()
			}
			sched.Go(inc)
			sched.Go(inc)
			wg.Wait()
			final[ph] = x
		}
	}
}

// With AllDeviations, bound 0 is exactly the default schedule and the lost
// update (which needs a switch away from a runnable goroutine) appears at a
// small bound; the unbounded search and the bounded one agree on what exists.
func TestAllDeviations(t *testing.T) {
	var final [2]int
	body := twoPhaseBody(&final)
	check := func(e *sched.Exec) (string, []sched.Failure) { return fmt.Sprint(final), nil }
	r0 := sched.Explore(body, check, sched.Options{MaxPreemptions: 0, AllDeviations: true})
	if r0.Executions != 1 || r0.BoundCompleted != 0 {
		t.Fatalf("bound 0 should be the default schedule alone: %+v", r0)
	}
	r1 := sched.Explore(body, check, sched.Options{MaxPreemptions: 1, AllDeviations: true})
	full := sched.Explore(body, check, sched.Options{MaxPreemptions: -1})
	t.Logf("bound1 %+v\nfull %+v", r1.Outcomes, full.Outcomes)
	if !full.Unbounded || len(full.Outcomes) != 4 {
		t.Fatalf("unbounded search should see all four outcomes: %+v", full.Outcomes)
	}
	for o := range r1.Outcomes {
		if full.Outcomes[o] == 0 {
			t.Fatalf("bounded search saw outcome %s the unbounded one did not", o)
		}
	}
	if r1.Executions >= full.Executions+full.Pruned {
		t.Fatalf("bound 1 should be smaller than the full search: %d vs %d", r1.Executions, full.Executions)
	}
}

// SinglePhase explores each phase's interleavings with the other phase on the
// default schedule: it sees the lost update in either phase but never in both.
func TestSinglePhase(t *testing.T) {
	var final [2]int
	body := twoPhaseBody(&final)
	check := func(e *sched.Exec) (string, []sched.Failure) { return fmt.Sprint(final), nil }
	r := sched.Explore(body, check, sched.Options{MaxPreemptions: -1, SinglePhase: true})
	t.Logf("%+v", r)
	if r.Outcomes["[1 2]"] == 0 || r.Outcomes["[2 1]"] == 0 || r.Outcomes["[2 2]"] == 0 {
		t.Fatalf("single-phase search should find the lost update in each phase: %+v", r.Outcomes)
	}
	if r.Outcomes["[1 1]"] != 0 {
		t.Fatalf("deviations in two phases in one execution: %+v", r.Outcomes)
	}
	if r.PhaseCuts == 0 || r.Phases < 2 {
		t.Fatalf("expected phase cuts to be counted: %+v", r)
	}
}
