// Package vctx replaces "context" in rewritten repository packages. Context
// stays context.Context (signatures remain compatible with un-rewritten
// callers); WithCancel returns a context whose cancellation is a controlled
// operation and whose Done channel is known to the scheduler.
package vctx

import (
	"context"
	"time"

	"verif/sched"
)

type Context = context.Context
type CancelFunc = context.CancelFunc
type CancelCauseFunc = context.CancelCauseFunc

var Canceled = context.Canceled
var DeadlineExceeded = context.DeadlineExceeded

func Background() Context { return context.Background() }
func TODO() Context       { return context.TODO() }

func WithValue(parent Context, key, val any) Context { return context.WithValue(parent, key, val) }

type cancelCtx struct {
	parent   Context
	done     chan struct{}
	err      error
	children []*cancelCtx
}

func (c *cancelCtx) Deadline() (time.Time, bool) { return c.parent.Deadline() }
func (c *cancelCtx) Done() <-chan struct{}       { return c.done }
func (c *cancelCtx) Err() error                  { return c.err }
func (c *cancelCtx) Value(key any) any {
	if key == &cancelCtxKey {
		return c
	}
	return c.parent.Value(key)
}

var cancelCtxKey int

func (c *cancelCtx) cancel(err error) {
	if c.err != nil {
		return
	}
	c.err = err
	sched.CloseNoPoint(c.done)
	for _, ch := range c.children {
		ch.cancel(err)
	}
}

func WithCancel(parent Context) (Context, CancelFunc) {
	if sched.Active() == nil {
		return context.WithCancel(parent)
	}
	c := &cancelCtx{parent: parent, done: sched.MakeChan[struct{}]()}
	if p, ok := parent.Value(&cancelCtxKey).(*cancelCtx); ok {
		if p.err != nil {
			c.cancel(p.err)
		} else {
			p.children = append(p.children, c)
		}
	} else if parent.Err() != nil {
		c.cancel(parent.Err())
	}
	return c, func() {
		sched.Yield() // cancellation is a visible operation
		c.cancel(Canceled)
	}
}

// Deadlines never fire under the controlled scheduler (stated assumption).
func WithTimeout(parent Context, d time.Duration) (Context, CancelFunc) {
	if sched.Active() == nil {
		return context.WithTimeout(parent, d)
	}
	return WithCancel(parent)
}

func WithDeadline(parent Context, t time.Time) (Context, CancelFunc) {
	if sched.Active() == nil {
		return context.WithDeadline(parent, t)
	}
	return WithCancel(parent)
}

func Cause(c Context) error { return context.Cause(c) }
