// Package verrgroup replaces golang.org/x/sync/errgroup in rewritten packages.
package verrgroup

import (
	"verif/sched"
	"verif/sched/vctx"
	"verif/sched/vsync"
)

type Group struct {
	cancel func()
	wg     vsync.WaitGroup
	mu     vsync.Mutex
	err    error
	set    bool
}

func WithContext(ctx vctx.Context) (*Group, vctx.Context) {
	ctx, cancel := vctx.WithCancel(ctx)
	return &Group{cancel: cancel}, ctx
}

func (g *Group) Wait() error {
	g.wg.Wait()
	if g.cancel != nil {
		g.cancel()
	}
	return g.err
}

func (g *Group) Go(f func() error) {
	g.wg.Add(1)
	sched.Go(func() {
		defer g.wg.Done()
		if err := f(); err != nil {
			g.mu.Lock()
			first := !g.set
			if first {
				g.set = true
				g.err = err
			}
			g.mu.Unlock()
			if first && g.cancel != nil {
				g.cancel()
			}
		}
	})
}
