// Package vsync replaces "sync" in rewritten repository packages. Outside a
// controlled execution every type behaves like its sync counterpart.
package vsync

import (
	"sync"

	"verif/sched"
)

type Locker = sync.Locker

type Mutex struct {
	n      sync.Mutex
	locked bool
}

func (m *Mutex) Lock() {
	e := sched.Active()
	if e == nil {
		m.n.Lock()
		return
	}
	if sched.Aborting() {
		return
	}
	name := e.ObjName(m, "mutex")
	e.Point(&sched.Op{Kind: "lock", Obj: name, Enabled: func() bool { return !m.locked }})
	m.locked = true
	e.Record(name, "lock", "")
}

func (m *Mutex) TryLock() bool {
	e := sched.Active()
	if e == nil {
		return m.n.TryLock()
	}
	if m.locked {
		return false
	}
	m.locked = true
	return true
}

func (m *Mutex) Unlock() {
	e := sched.Active()
	if e == nil {
		m.n.Unlock()
		return
	}
	if sched.Aborting() {
		return
	}
	if !m.locked {
		panic("sync: unlock of unlocked mutex")
	}
	m.locked = false
	e.Record(e.ObjName(m, "mutex"), "unlock", "")
}

// RWMutex models Go's writer preference: a pending Lock blocks new RLocks.
type RWMutex struct {
	n       sync.RWMutex
	writer  bool
	readers int
	pending int
}

func (m *RWMutex) Lock() {
	e := sched.Active()
	if e == nil {
		m.n.Lock()
		return
	}
	if sched.Aborting() {
		return
	}
	name := e.ObjName(m, "rwmutex")
	// announce: from here new readers are held back
	e.Point(&sched.Op{Kind: "wlock-announce", Obj: name, Enabled: func() bool { return true }})
	m.pending++
	e.Record(name, "wlock-announce", "")
	e.Point(&sched.Op{Kind: "wlock", Obj: name, Enabled: func() bool { return !m.writer && m.readers == 0 }})
	m.pending--
	m.writer = true
	e.Record(name, "wlock", "")
}

func (m *RWMutex) Unlock() {
	e := sched.Active()
	if e == nil {
		m.n.Unlock()
		return
	}
	if sched.Aborting() {
		return
	}
	if !m.writer {
		panic("sync: Unlock of unlocked RWMutex")
	}
	m.writer = false
	e.Record(e.ObjName(m, "rwmutex"), "wunlock", "")
}

func (m *RWMutex) RLock() {
	e := sched.Active()
	if e == nil {
		m.n.RLock()
		return
	}
	if sched.Aborting() {
		return
	}
	name := e.ObjName(m, "rwmutex")
	e.Point(&sched.Op{Kind: "rlock", Obj: name, Enabled: func() bool { return !m.writer && m.pending == 0 }})
	m.readers++
	e.Record(name, "rlock", "")
}

func (m *RWMutex) RUnlock() {
	e := sched.Active()
	if e == nil {
		m.n.RUnlock()
		return
	}
	if sched.Aborting() {
		return
	}
	if m.readers <= 0 {
		panic("sync: RUnlock of unlocked RWMutex")
	}
	m.readers--
	e.Record(e.ObjName(m, "rwmutex"), "runlock", "")
}

func (m *RWMutex) RLocker() Locker { return (*rlocker)(m) }

type rlocker RWMutex

func (r *rlocker) Lock()   { (*RWMutex)(r).RLock() }
func (r *rlocker) Unlock() { (*RWMutex)(r).RUnlock() }

type WaitGroup struct {
	n sync.WaitGroup
	c int
}

func (w *WaitGroup) Add(d int) {
	e := sched.Active()
	if e == nil {
		w.n.Add(d)
		return
	}
	if sched.Aborting() {
		return
	}
	w.c += d
	if w.c < 0 {
		panic("sync: negative WaitGroup counter")
	}
	e.Record(e.ObjName(w, "wg"), "add", "")
}

func (w *WaitGroup) Done() { w.Add(-1) }

func (w *WaitGroup) Wait() {
	e := sched.Active()
	if e == nil {
		w.n.Wait()
		return
	}
	if sched.Aborting() {
		return
	}
	name := e.ObjName(w, "wg")
	e.Point(&sched.Op{Kind: "wg-wait", Obj: name, Enabled: func() bool { return w.c == 0 }})
	e.Record(name, "wait", "")
}

type Once struct {
	n    sync.Once
	m    Mutex
	done bool
}

func (o *Once) Do(f func()) {
	if sched.Active() == nil {
		o.n.Do(f)
		return
	}
	o.m.Lock()
	defer o.m.Unlock()
	if !o.done {
		defer func() { o.done = true }()
		f()
	}
}

type Pool = sync.Pool
type Map = sync.Map
type Cond = sync.Cond

func NewCond(l Locker) *Cond { return sync.NewCond(l) }
