package main

import (
	"fmt"

	"diagonal.works/b6"
	"diagonal.works/b6/api"
	"github.com/golang/geo/s2"
)

func show(e b6.Expression, indent string) {
	fmt.Printf("%s%T %v [%d,%d)\n", indent, e.AnyExpression, e.AnyExpression, e.Begin, e.End)
	switch x := e.AnyExpression.(type) {
	case b6.CallExpression:
		fmt.Printf("%s fn (pipelined=%v):\n", indent, x.Pipelined)
		show(x.Function, indent+"   ")
		for _, a := range x.Args {
			show(a, indent+"   ")
		}
	case b6.LambdaExpression:
		fmt.Printf("%s args=%v\n", indent, x.Args)
		show(x.Expression, indent+"   ")
	}
}

func rt(e b6.Expression) {
	s, ok := api.UnparseExpression(e)
	fmt.Printf("PRINT %q ok=%v\n", s, ok)
	p, err := api.ParseExpression(s)
	if err != nil {
		fmt.Printf("  parse err: %v\n", err)
		return
	}
	fmt.Printf("  equal=%v\n", p.Equal(e))
	show(p, "  ")
}

func main() {
	for _, s := range []string{"abc", `a"b`, `a\b`, "a\nb", "é", " ", "a b", ""} {
		rt(b6.NewStringExpression(s))
	}
	for _, f := range []float64{1, 0.5, 0.25, 0.125, -0.0625, 3.14159, 1e21} {
		rt(b6.NewFloatExpression(f))
	}
	rt(b6.NewPointExpressionFromLatLng(s2.LatLngFromDegrees(51.5, -0.1)))
	rt(b6.NewPointExpressionFromLatLng(s2.LatLngFromDegrees(55.614929, -2.8048709)))
	rt(b6.NewCallExpression(b6.NewSymbolExpression("f"), []b6.Expression{b6.NewPointExpressionFromLatLng(s2.LatLngFromDegrees(51.5, -0.1)), b6.NewIntExpression(-1)}))
	for _, t := range []b6.Tag{{"#highway", b6.NewStringExpression("path")}, {"name", b6.NewStringExpression("The Lighterman")}, {"addr:housenumber", b6.NewStringExpression("12")}, {"k", b6.NewStringExpression("")}, {"k", b6.NewStringExpression("-x")}, {"k", b6.NewStringExpression("_x")}, {"k", b6.NewStringExpression(" ")}} {
		rt(b6.Expression{AnyExpression: b6.TagExpression(t)})
	}
	a := b6.Tagged{Key: "#a", Value: b6.NewStringExpression("x")}
	bq := b6.Keyed{Key: "#b"}
	c := b6.Tagged{Key: "c", Value: b6.NewStringExpression("z z")}
	rt(b6.NewQueryExpression(b6.Intersection{b6.Union{a, bq}, c}))
	rt(b6.NewQueryExpression(b6.Intersection{a, b6.Union{bq, c}}))
	rt(b6.NewQueryExpression(b6.Intersection{a, bq, c}))
	for _, s := range []string{"a | (b | c)", "a | b | c", "f (g)", "{-> f}", "{x, y -> f x | g}", "f x name=y", "name=y", "(a | b) | c", "f 1.5 2.5, 3.5 4", "1 | 2"} {
		p, err := api.ParseExpression(s)
		fmt.Printf("PARSE %q err=%v\n", s, err)
		if err == nil {
			show(p, "  ")
			rt(p)
		}
	}
	ids := []b6.FeatureID{
		{b6.FeatureTypePoint, b6.NamespaceOSMNode, 1}, {b6.FeatureTypePath, b6.NamespaceOSMWay, 2}, {b6.FeatureTypeArea, b6.NamespaceOSMWay, 3},
		{b6.FeatureTypeRelation, b6.NamespaceOSMRelation, 4}, {b6.FeatureTypeRelation, b6.NamespaceOSMWay, 5}, {b6.FeatureTypePath, b6.NamespaceOSMNode, 5},
		b6.FeatureIDFromUKONSCode("E01000953", 2011, b6.FeatureTypeArea), b6.FeatureIDFromUKONSCode("E01000953", 2011, b6.FeatureTypeRelation),
		b6.PointIDFromGBPostcode("NW1 8NH"), b6.PointIDFromGBPostcode("N1 9AG"), {b6.FeatureTypePoint, b6.NamespaceGBUPRN, 116000008},
		{b6.FeatureTypeArea, b6.NamespaceGBUPRN, 116000008}, {b6.FeatureTypeCollection, "test", 0}, {b6.FeatureTypeExpression, "diagonal.works/ns/x_y-z", 18446744073709551615},
		{b6.FeatureTypePoint, b6.NamespaceOSMNode, 18446744073709551615},
	}
	for _, id := range ids {
		rt(b6.NewFeatureIDExpression(id))
	}
}
