package vmkit

import (
	"diagonal.works/b6"
	"verif/kit"
)

type kitResult = kit.Result

func newRes() *kit.Result { return &kit.Result{} }

var _ = b6.Expression{}
