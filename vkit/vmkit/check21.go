package vmkit

import (
	"fmt"
	"strings"

	"diagonal.works/b6"
	"verif/kit"
)

// Tally collects, for one kit case, outcomes / counters / violations
// (at most one violation message per class per case; every occurrence is counted).
type Tally struct {
	R       *kit.Result
	classes map[string]bool
	// Trace, when set, recomputes the printed stack of the panic being reported.
	Trace func() string
	// Prefix is put in front of every outcome class (to keep program families apart).
	Prefix string
	// ClassSuffix is appended to the class of value/error disagreements (not of
	// panics): a classifier of the input class the caller evaluated on the program.
	ClassSuffix string
}

func NewTally(r *kit.Result) *Tally { return &Tally{R: r, classes: map[string]bool{}} }

func (t *Tally) Outcome(o string) {
	if t.R.Outcomes == nil {
		t.R.Outcomes = map[string]int64{}
	}
	t.R.Outcomes[t.Prefix+o]++
}

func (t *Tally) Violate(class, format string, a ...interface{}) {
	t.R.Count("violations:"+class, 1)
	if !t.classes[class] {
		t.classes[class] = true
		t.R.Violate(class, format, a...)
	}
}

// Judge21 compares the VM outcome of one tree with the reference outcome.
// It returns true when they agree.
func Judge21(t *Tally, what string, text string, ref Outcome, ev Events, vm Outcome, limitOK bool) bool {
	if vm.Panic != "" {
		t.Outcome(what + "vm-panic")
		msg := vm.PanicMsg
		if !t.classes[vm.Panic] && t.Trace != nil {
			msg = t.Trace()
		}
		t.Violate(vm.Panic, "VM panicked evaluating %s\n reference: %s\n %s", text, ref, msg)
		return false
	}
	if Agree(ref, vm) {
		k := ref.Kind()
		if k == "error" {
			k += ":" + ref.ErrCat
		}
		t.Outcome(what + "agree:" + k)
		return true
	}
	if limitOK && strings.Contains(vm.Err, "Can't use more than") {
		t.Outcome(what + "vm-resource-limit-error")
		return true
	}
	switch {
	case ev.Escaped:
		// U1: the statement does not settle closures that outlive their binder.
		t.Outcome(what + "unsettled:escaping-closure:ref-" + ref.Kind() + "/vm-" + vm.Kind())
		t.R.Count("unsettled-disagreements", 1)
		return false
	case ev.VariadicPartial:
		t.Outcome(what + "unsettled:partial-of-variadic:ref-" + ref.Kind() + "/vm-" + vm.Kind())
		t.R.Count("unsettled-disagreements", 1)
		return false
	}
	var class string
	switch {
	case vm.Err != "":
		class = "vm-error-where-reference-has-value:" + vm.ErrCat
	case ref.Err != "":
		class = "vm-value-where-reference-reports-" + ref.ErrCat + "-error"
	default:
		class = "wrong-value:" + dynTag(ev)
	}
	class += t.ClassSuffix
	t.Outcome(what + "DISAGREE:" + class)
	t.Violate(class, "VM and reference interpreter disagree on %s\n reference: %s\n vm:        %s", text, ref, vm)
	return false
}

func dynTag(ev Events) string {
	var tags []string
	if ev.Reentrant {
		tags = append(tags, "reentrant-lambda")
	}
	if ev.PartialOfPart > 0 {
		tags = append(tags, "partial-of-partial")
	} else if ev.Partials > 0 {
		tags = append(tags, "partial")
	}
	if ev.ZeroArgPartials > 0 {
		tags = append(tags, "zero-arg-application")
	}
	if ev.ClosureCalls > 0 {
		tags = append(tags, "lambda-call")
	}
	if len(tags) == 0 {
		tags = append(tags, "library-calls-only")
	}
	return strings.Join(tags, "+")
}

// Check21 runs the C21 oracle on one program given as a builder of fresh trees:
// the plain tree, the all-pipelined variant (when it differs), and probe
// programs `call p 5 6 7` (to depth 2) when the result is a function.
// It returns the number of VM evaluations and whether the program is non-trivial
// (the reference performed at least one function application).
func (l *Lib) Check21(t *Tally, build func(BuildOpts) b6.Expression, hasOneArgCall bool, limitOK bool) (evals int64, nontrivial bool) {
	e := build(BuildOpts{})
	text := Print(e)
	ref, ev := l.RunRef(e)
	if ref.ErrCat == "fuel" {
		t.Outcome("skipped:reference-budget-exhausted")
		return 0, false
	}
	nontrivial = ev.Applications > 0
	vm := l.RunVM(build(BuildOpts{}))
	evals++
	t.Trace = func() string { return l.PanicTrace(build(BuildOpts{})) }
	Judge21(t, "", text, ref, ev, vm, limitOK)
	countEvents(t, ev)

	if hasOneArgCall {
		pe := build(BuildOpts{Pipelined: true})
		pref, pev := l.RunRef(pe)
		pvm := l.RunVM(build(BuildOpts{Pipelined: true}))
		evals++
		if pref.String() != ref.String() {
			t.Violate("harness:reference-depends-on-pipelined-flag", "%s: %s vs %s", text, ref, pref)
		}
		t.Trace = func() string { return l.PanicTrace(build(BuildOpts{Pipelined: true})) }
		Judge21(t, "pipelined:", Print(pe), pref, pev, pvm, limitOK)
	}

	// probes
	cur := func() b6.Expression { return build(BuildOpts{}) }
	r := ref
	for depth := 0; depth < 2 && r.IsFn && r.Arity >= 0 && r.Arity <= 3 && len(l.Probes) > 0; depth++ {
		k := r.Arity
		var next func() b6.Expression
		for set := range l.Probes {
			set := set
			inner := cur
			d := depth
			mk := func() b6.Expression { return l.Probe(inner(), k, set, d) }
			pe := mk()
			pref, pev := l.RunRef(pe)
			if pref.ErrCat == "fuel" {
				continue
			}
			pvm := l.RunVM(mk())
			evals++
			t.Trace = func() string { return l.PanicTrace(mk()) }
			Judge21(t, "probe:", Print(pe), pref, pev, pvm, limitOK)
			if set == 0 {
				r = pref
				next = mk
			}
		}
		if next == nil {
			break
		}
		cur = next
	}
	return evals, nontrivial
}

func countEvents(t *Tally, ev Events) {
	if ev.Partials > 0 {
		t.R.Count("programs-with-partial-application", 1)
	}
	if ev.PartialOfPart > 0 {
		t.R.Count("programs-with-partial-applied-twice", 1)
	}
	if ev.ZeroArgPartials > 0 {
		t.R.Count("programs-with-zero-arg-application", 1)
	}
	if ev.ClosureCalls > 0 {
		t.R.Count("programs-entering-a-lambda", 1)
	}
	if ev.Escaped {
		t.R.Count("programs-with-escaping-closure-read(U1)", 1)
	}
	if ev.VariadicPartial {
		t.R.Count("programs-applying-partial-of-variadic(U2)", 1)
	}
}

func CountFeatures(r *kit.Result, f Features) {
	add := func(name string, n int) {
		if n > 0 {
			r.Count(name, 1)
		}
	}
	add("programs-with-lambda", f.Lambdas)
	add("programs-with-nested-lambda", f.NestedLambdas)
	add("programs-with-shadowing", f.Shadowing)
	add("programs-calling-a-lambda-literal", f.DirectLambdaCalls)
	add("programs-calling-a-call", f.CallOnCall)
	add("programs-with-syntactic-zero-arg-call", f.ZeroArgCalls)
	add("programs-with-unused-param", f.UnusedParams)
	add("programs-with-repeated-param", f.RepeatedParams)
}

// ---- hand-written programs beyond the size bound ----

type Extra struct {
	Name    string
	E       func() b6.Expression
	LimitOK bool // a VM "Can't use more than N args" error is acceptable
}

func xs(s string) b6.Expression { return b6.NewSymbolExpression(s) }
func xi(i int) b6.Expression    { return b6.NewIntExpression(i) }
func xl(params string, body b6.Expression) b6.Expression {
	return b6.NewLambdaExpression(strings.Fields(params), body)
}
func xc(f b6.Expression, args ...b6.Expression) b6.Expression {
	if args == nil {
		args = []b6.Expression{}
	}
	return b6.NewCallExpression(f, args)
}
func xg(name string, args ...b6.Expression) b6.Expression { return xc(xs(name), args...) }

func manyParamsDirect(k int) func() b6.Expression {
	return func() b6.Expression {
		e := manyParams(k, true)()
		c := e.AnyExpression.(b6.CallExpression)
		return xc(c.Args[0], c.Args[1:]...)
	}
}

func manyParams(k int, viaCall bool) func() b6.Expression {
	return func() b6.Expression {
		names := make([]string, k)
		args := make([]b6.Expression, 0, k+1)
		for i := range names {
			names[i] = fmt.Sprintf("p%d", i)
		}
		lam := b6.NewLambdaExpression(names, xs(names[k-1]))
		if !viaCall {
			return lam
		}
		args = append(args, lam)
		for i := 0; i < k; i++ {
			args = append(args, xi(i+1))
		}
		return xc(xs("call"), args...)
	}
}

func nestedLambdas(depth int) func() b6.Expression {
	return func() b6.Expression {
		e := xs("a")
		for i := 0; i < depth; i++ {
			e = xl("a b c", e)
		}
		return e
	}
}

// Extras are programs of the IntLib language that do not fit the node bound.
func Extras() []Extra {
	ex := []Extra{
		{Name: "curried-add", E: func() b6.Expression {
			return xg("call", xg("call", xl("a", xl("b", xg("add", xs("a"), xs("b")))), xi(1)), xi(2))
		}},
		{Name: "escaping-closure-after-rebinding", E: func() b6.Expression {
			return xg("call", xl("f", xg("call", xl("g h", xg("call", xs("g"), xi(0))), xg("call", xs("f"), xi(1)), xg("call", xs("f"), xi(2)))),
				xl("a", xl("b", xs("a"))))
		}},
		{Name: "partial-twice-via-call", E: func() b6.Expression {
			return xg("call", xg("call", xg("mix3", xi(3)), xi(2)), xi(1))
		}},
		{Name: "partial-twice-via-call-on-call", E: func() b6.Expression {
			return xc(xc(xg("mix3", xi(3)), xi(2)), xi(1))
		}},
		{Name: "partial-of-lambda", E: func() b6.Expression {
			return xg("call", xg("call", xl("a b", xg("mix3", xs("a"), xs("b"), xi(0))), xi(2)), xi(1))
		}},
		{Name: "partial-of-lambda-direct", E: func() b6.Expression {
			return xc(xc(xl("a b", xg("mix3", xs("a"), xs("b"), xi(0))), xi(2)), xi(1))
		}},
		{Name: "partial-of-lambda-capturing-outer-param", E: func() b6.Expression {
			return xg("call", xl("c", xg("call", xg("call", xl("a b", xg("mix3", xs("a"), xs("b"), xs("c"))), xi(2)), xi(1))), xi(3))
		}},
		{Name: "partials-created-in-two-activations", E: func() b6.Expression {
			return xg("call", xl("f", xg("call", xl("p q", xg("call", xs("p"), xi(9))), xg("call", xs("f"), xi(1)), xg("call", xs("f"), xi(2)))),
				xl("c", xg("call", xl("a b", xg("mix3", xs("a"), xs("b"), xs("c"))), xi(7))))
		}},
		{Name: "reentrant-lambda-clobbers-parameter", E: func() b6.Expression {
			// f = {t n -> pair (call t) n}; f {-> call f {-> 1} 7} 5
			f := func() b6.Expression { return xs("f") }
			return xg("call", xl("f", xg("call", f(), xl("", xg("call", f(), xl("", xi(1)), xi(7))), xi(5))),
				xl("t n", xg("pair", xg("call", xs("t")), xs("n"))))
		}},
		{Name: "self-application-terminating", E: func() b6.Expression {
			return xg("call", xl("f", xg("call", xs("f"), xs("f"))), xl("g", xi(1)))
		}},
		{Name: "shadowing-three-deep", E: func() b6.Expression {
			return xg("call", xl("a", xg("call", xl("a", xg("call", xl("a", xs("a")), xi(3))), xi(2))), xi(1))
		}},
		{Name: "outer-param-after-inner-shadowing-call", E: func() b6.Expression {
			return xg("call", xl("a", xg("pair", xg("call", xl("a", xs("a")), xi(2)), xs("a"))), xi(1))
		}},
		{Name: "function-through-pair", E: func() b6.Expression {
			return xg("call", xg("first", xg("pair", xl("a", xg("add", xs("a"), xi(1))), xi(2))), xi(5))
		}},
		{Name: "compose-lambdas", E: func() b6.Expression {
			return xg("call", xg("compose", xl("a", xg("add", xs("a"), xi(1))), xl("a", xg("mix3", xs("a"), xs("a"), xs("a")))), xi(1))
		}},
		{Name: "apply-partial", E: func() b6.Expression { return xg("apply", xg("mix3", xi(1), xi(2)), xi(3)) }},
		{Name: "apply-pair-argument", E: func() b6.Expression {
			return xg("apply", xl("p", xg("first", xs("p"))), xg("pair", xi(1), xi(2)))
		}},
		{Name: "lambda-too-many-args", E: func() b6.Expression { return xg("call", xl("a", xs("a")), xi(1), xi(2)) }},
		{Name: "partial-too-many-args", E: func() b6.Expression { return xg("call", xg("add", xi(1)), xi(2), xi(3)) }},
		{Name: "zero-arg-lambda", E: func() b6.Expression { return xg("call", xl("", xi(7))) }},
		{Name: "apply-zero-arg-lambda", E: func() b6.Expression { return xg("apply", xl("", xi(7)), xi(1)) }},
		{Name: "int-through-first-to-int-param", E: func() b6.Expression {
			return xg("mix3", xg("first", xg("pair", xi(1), xi(2))), xi(2), xi(3))
		}},
		{Name: "call-int-as-function", E: func() b6.Expression { return xc(xg("add", xi(1), xi(2)), xi(3)) }},
		{Name: "shadowing-lambda-with-repeated-parameter", E: func() b6.Expression {
			return xl("a", xg("pair", xi(1), xl("a", xg("add", xs("a"), xs("a")))))
		}},
		{Name: "shadowing-lambda-with-repeated-parameter-applied", E: func() b6.Expression {
			return xg("call", xg("second", xg("call", xl("a", xg("pair", xi(1), xl("a", xg("add", xs("a"), xs("a"))))), xi(5))), xi(7))
		}},
		{Name: "lambda-pipeline", E: func() b6.Expression {
			e := xc(xl("a", xg("add", xs("a"), xi(1))), xi(4))
			c := e.AnyExpression.(b6.CallExpression)
			c.Pipelined = true
			e.AnyExpression = c
			return e
		}},
	}
	for _, k := range []int{31, 32, 33, 34} {
		ex = append(ex, Extra{Name: fmt.Sprintf("lambda-with-%d-params-called", k), E: manyParams(k, true), LimitOK: true})
		ex = append(ex, Extra{Name: fmt.Sprintf("lambda-with-%d-params-value", k), E: manyParams(k, false), LimitOK: true})
		ex = append(ex, Extra{Name: fmt.Sprintf("lambda-with-%d-params-called-directly", k), E: manyParamsDirect(k), LimitOK: true})
	}
	for _, d := range []int{10, 11, 12} {
		ex = append(ex, Extra{Name: fmt.Sprintf("%d-nested-3-param-lambdas", d), E: nestedLambdas(d), LimitOK: true})
	}
	return ex
}
